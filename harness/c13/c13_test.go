//go:build verif

// Package c13: correspondence + direct oracle for C13 (alert ingestion: defaults, merge, visibility, GC) against the
// real api/v2 POST/GET handlers on a real provider/mem.Alerts under synctest virtual time.
package c13

import (
	"bytes"
	"context"
	"encoding/json"
	"fmt"
	"math/big"
	"net/http"
	"net/http/httptest"
	"net/url"
	"regexp"
	"sort"
	"strings"
	"testing"
	"testing/synctest"
	"time"
	"unicode/utf8"

	"github.com/go-openapi/runtime"
	"github.com/go-openapi/strfmt"
	"github.com/prometheus/client_golang/prometheus"
	"github.com/prometheus/common/model"
	"github.com/prometheus/common/promslog"

	"github.com/prometheus/alertmanager/alert"
	apiv2 "github.com/prometheus/alertmanager/api/v2"
	open_api_models "github.com/prometheus/alertmanager/api/v2/models"
	alert_ops "github.com/prometheus/alertmanager/api/v2/restapi/operations/alert"
	"github.com/prometheus/alertmanager/config"
	"github.com/prometheus/alertmanager/dispatch"
	"github.com/prometheus/alertmanager/eventrecorder"
	"github.com/prometheus/alertmanager/featurecontrol"
	"github.com/prometheus/alertmanager/inhibit"
	"github.com/prometheus/alertmanager/matcher/compat"
	"github.com/prometheus/alertmanager/provider/mem"
	"github.com/prometheus/alertmanager/silence"

	"verifharness/appsys"
	"verifharness/vh"
)

// ---------- pools (cases refer to strings by index so that replay files are byte-exact) ----------

var names = []string{"alertname", "job", "instance", "sev", "a-b", "ünï", "", "\xff\xfe"}
var values = []string{"A", "B", "web", "", "日本", "x\xffy",
	// values that differ from another value of the pool only in surrounding whitespace / case / a trailing NBSP:
	// they are different label values (different fingerprints) and are kept verbatim
	"A ", " A", "a", "A\u00a0", " ", "web\n", "\tB"}

// explicit timestamps as they are written in a request body: the Unix epoch (also with odd zone offsets and
// sub-second parts), instants before 1970, Go's zero instant (year 1: IS "missing" for the handler) and its
// neighbour, the int64-nanosecond limits (2262) and beyond up to year 9999, and ordinary instants written with odd
// offsets. Cases refer to them by index + 1 (0 = not used).
var stamps = []string{
	"1970-01-01T00:00:00Z", "1970-01-01T05:45:00+05:45", "1969-12-31T19:00:00-05:00",
	"1970-01-01T00:00:00.000000001Z", "1970-01-01T00:00:00.5Z", "1969-12-31T23:59:59.999999999Z",
	"1900-01-01T00:00:00Z", "1677-09-21T00:12:43Z",
	"0001-01-01T00:00:00Z", "0001-01-01T05:45:00+05:45", "0001-01-01T00:00:00.000000001Z",
	"2262-04-11T23:47:16.854775807Z", "2262-04-11T23:47:16.854775808Z", "2300-01-01T00:00:00+14:00",
	"9999-12-31T23:59:59Z", "9999-12-31T23:59:59.999999999Z",
	"2000-01-01T05:45:00+05:45", "1999-12-31T14:15:00.000000001-09:45", "2000-01-01T00:05:00.000000001Z", "2000-01-01T12:00:00+12:00",
}
var gens = []string{"", "http://prom.example/graph?g0.expr=up"}

const (
	nInvalidUTF8Name  = 7
	vInvalidUTF8Value = 5
	vEmpty            = 3
)

// ---------- JSON / replayable form ----------

type KV struct {
	N int `json:"n"`
	V int `json:"v"`
}

type PAlert struct {
	Labels []KV  `json:"labels"`
	Annots []KV  `json:"annots,omitempty"`
	Starts int64 `json:"starts"` // unix ns, 0 = field absent
	Ends   int64 `json:"ends"`
	Gen    int   `json:"gen,omitempty"`
	// index+1 into stamps: the field is sent as that literal text instead of Starts / Ends (0 = not used)
	StartsStamp int `json:"starts_stamp,omitempty"`
	EndsStamp   int `json:"ends_stamp,omitempty"`
	// Extra: a NEW label set beyond what the per-alertname limit admits, at the head of a batch. It is sent only when,
	// at that moment, the stored live alerts of its alertname fill the limit (then the refusal is certain); a refused
	// alert is, for the contract, as if it had not been posted: it is left out of the batch the model sees.
	Extra bool `json:"extra,omitempty"`
}

func stampT(i int) time.Time {
	t, err := time.Parse(time.RFC3339Nano, stamps[i-1])
	if err != nil {
		panic(err)
	}
	return t
}

// startT / endT: the submitted instants (zero time = absent; a stamp that IS the zero instant counts as absent, as
// time.Time.IsZero says)
func (p PAlert) startT() time.Time {
	if p.StartsStamp > 0 {
		return stampT(p.StartsStamp)
	}
	return gtime(p.Starts)
}
func (p PAlert) endT() time.Time {
	if p.EndsStamp > 0 {
		return stampT(p.EndsStamp)
	}
	return gtime(p.Ends)
}
func (p PAlert) startTxt() string {
	if p.StartsStamp > 0 {
		return stamps[p.StartsStamp-1]
	}
	if p.Starts == 0 {
		return ""
	}
	return gtime(p.Starts).Format(time.RFC3339Nano)
}
func (p PAlert) endTxt() string {
	if p.EndsStamp > 0 {
		return stamps[p.EndsStamp-1]
	}
	if p.Ends == 0 {
		return ""
	}
	return gtime(p.Ends).Format(time.RFC3339Nano)
}

type DAlert struct {
	PAlert
	Updated int64 `json:"updated"`
	Timeout bool  `json:"timeout,omitempty"`
}

type Op struct {
	Kind   string   `json:"kind"` // post | put | sleep
	Dt     int64    `json:"dt"`   // virtual ns slept before the op
	Batch  []PAlert `json:"batch,omitempty"`
	Direct []DAlert `json:"direct,omitempty"`
	RecvQ  []int    `json:"receiver_queries,omitempty"` // after the op: GET /alerts and /alerts/groups with ?receiver=recvQueries[i]
	// observed (informational in replay files)
	Now  int64 `json:"now,omitempty"`
	Code int   `json:"code,omitempty"`
}

type Case struct {
	RT        int64  `json:"resolve_timeout"`
	GC        int64  `json:"gc_interval"`
	Mode      string `json:"mode"`      // "" (default: UTF-8 names, fallback parser) | classic-mode | utf8-strict-mode
	Transport string `json:"transport"` // http (api.Handler, JSON) | direct (operation handlers)
	// --alerts.per-alertname-limit (0 = off). The generator keeps the number of distinct label sets per alertname within
	// the limit, so on a correct tree the limit never refuses anything (re-sends of admitted alerts are always accepted)
	// and the model, which has no limit, must still agree.
	Limit          int  `json:"per_alertname_limit,omitempty"`
	NamesInMetrics bool `json:"alert_names_in_metrics,omitempty"` // --enable-feature=alert-names-in-metrics
	Routing        bool `json:"multi_receiver,omitempty"`         // (older cases) = routing tree 1
	Tree           int  `json:"routing_tree,omitempty"`           // 0 = one receiver "default"; k = routing tree k of the harness (trees[k-1])
	Ops            []Op `json:"ops"`
}

const epoch = int64(946684800_000_000_000) // synctest bubbles start at 2000-01-01T00:00:00Z

// ---------- observed alerts ----------

type oalert struct {
	labels, annots   map[string]string
	starts, ends     time.Time
	gen              string
	updated          time.Time
	timeout          bool
	receivers        []string
	state            string
	fromGet          bool
	nonEmptyMuteList bool
	fp               string
}

// coqT renders an instant for the model: nanoseconds since 0001-01-01T00:00:00Z, so that Go's zero time.Time is
// exactly 0 and every later instant is > 0 (DESIGN 1.1), without any wrap-around (UnixNano wraps in 1678 / 2262).
var year1 = big.NewInt(62135596800)

func coqT(t time.Time) string {
	if t.IsZero() {
		return "0"
	}
	v := new(big.Int).Add(big.NewInt(t.Unix()), year1)
	v.Mul(v, big.NewInt(1_000_000_000)).Add(v, big.NewInt(int64(t.Nanosecond())))
	if v.Sign() < 0 {
		panic("instant before year 1")
	}
	hi := new(big.Int).Rsh(v, 32)
	lo := new(big.Int).And(v, big.NewInt(0xffffffff))
	return fmt.Sprintf("(zi2 %s %s)", hi.String(), lo.String())
}

func ft(t time.Time) string {
	if t.IsZero() {
		return "<zero>"
	}
	return t.UTC().Format(time.RFC3339Nano)
}

func lsMap(ls model.LabelSet) map[string]string {
	m := map[string]string{}
	for k, v := range ls {
		m[string(k)] = string(v)
	}
	return m
}

func fromAlert(a *alert.Alert) oalert {
	return oalert{labels: lsMap(a.Labels), annots: lsMap(a.Annotations), starts: a.StartsAt, ends: a.EndsAt,
		gen: a.GeneratorURL, updated: a.UpdatedAt, timeout: a.Timeout}
}

func key(m map[string]string) string {
	ks := vh.SortedKeys(m)
	var sb strings.Builder
	for _, k := range ks {
		fmt.Fprintf(&sb, "%q=%q,", k, m[k])
	}
	return sb.String()
}

func coqLS(m map[string]string) string {
	ks := vh.SortedKeys(m)
	parts := make([]string, len(ks))
	for i, k := range ks {
		parts[i] = vh.Pair(vh.Str(k), vh.Str(m[k]))
	}
	return vh.List(parts)
}

func (a oalert) coqAlert() string {
	return vh.App("mkAlert", coqLS(a.labels), coqLS(a.annots), coqT(a.starts), coqT(a.ends), vh.Str(a.gen), coqT(a.updated), vh.Bool(a.timeout))
}

func (a oalert) coqG() string {
	return vh.App("mkG", coqLS(a.labels), coqLS(a.annots), coqT(a.starts), coqT(a.ends), vh.Str(a.gen), coqT(a.updated),
		vh.ListOf(a.receivers, vh.Str), vh.Str(a.state))
}

func sortO(xs []oalert) {
	sort.SliceStable(xs, func(i, j int) bool { return key(xs[i].labels) < key(xs[j].labels) })
}

func kvMap(kvs []KV, isAnnot bool) map[string]string {
	m := map[string]string{}
	for _, kv := range kvs {
		m[names[kv.N]] = values[kv.V]
	}
	return m
}

func (p PAlert) coqP() string {
	return vh.App("mkP", coqLS(kvMap(p.Labels, false)), coqLS(kvMap(p.Annots, true)), coqT(p.startT()), coqT(p.endT()), vh.Str(gens[p.Gen]))
}

func (d DAlert) coqA() string {
	return vh.App("mkAlert", coqLS(kvMap(d.Labels, false)), coqLS(kvMap(d.Annots, true)), coqT(d.startT()), coqT(d.endT()), vh.Str(gens[d.Gen]), coqT(gtime(d.Updated)), vh.Bool(d.Timeout))
}

func gtime(ns int64) time.Time {
	if ns == 0 {
		return time.Time{}
	}
	return time.Unix(0, ns).UTC()
}

// ---------- callback recording PostDelete / PostGC ----------

type gcRec struct {
	deleted []oalert
	fps     []model.Fingerprint
	delFps  []model.Fingerprint
	gcCalls int
}

func (g *gcRec) PreStore(_ *alert.Alert, _ bool) error { return nil }
func (g *gcRec) PostStore(_ *alert.Alert, _ bool)      {}
func (g *gcRec) PostDelete(a *alert.Alert) {
	g.deleted = append(g.deleted, fromAlert(a))
	g.delFps = append(g.delFps, a.Fingerprint())
}
func (g *gcRec) PostGC(fps model.Fingerprints) {
	g.fps = append(g.fps, fps...)
	g.gcCalls++
}

// ---------- reference validity (independent of the code under test) ----------

var classicName = regexp.MustCompile(`^[a-zA-Z_][a-zA-Z0-9_]*$`)

func refNameOK(mode, n string) bool {
	if mode == featurecontrol.FeatureClassicMode {
		return classicName.MatchString(n)
	}
	return n != "" && utf8.ValidString(n)
}

// refValid: the documented validity of a posted alert (after dropping empty-valued labels).
func refValid(mode string, p PAlert, now time.Time, rt int64) bool {
	ls := map[string]string{}
	for k, v := range kvMap(p.Labels, false) {
		if v != "" {
			ls[k] = v
		}
	}
	if len(ls) == 0 {
		return false
	}
	for k, v := range ls {
		if !refNameOK(mode, k) || !utf8.ValidString(v) {
			return false
		}
	}
	for k, v := range kvMap(p.Annots, true) {
		if !refNameOK(mode, k) || !utf8.ValidString(v) {
			return false
		}
	}
	// the interval after defaulting (missing end = now + resolve_timeout, missing start = now or the end) must not be reversed
	s, e := p.startT(), p.endT()
	if e.IsZero() {
		e = now.Add(time.Duration(rt))
	}
	if s.IsZero() {
		s = now
		if !p.endT().IsZero() {
			s = p.endT()
		}
	}
	return !e.Before(s)
}

// refReason classifies why the reference considers a posted alert invalid (histogram only).
func refReason(mode string, p PAlert) string {
	n := 0
	for k, v := range kvMap(p.Labels, false) {
		if v == "" {
			continue
		}
		n++
		if !refNameOK(mode, k) {
			return "label-name"
		}
		if !utf8.ValidString(v) {
			return "label-value"
		}
	}
	if n == 0 {
		return "no-labels"
	}
	for k, v := range kvMap(p.Annots, true) {
		if !refNameOK(mode, k) || !utf8.ValidString(v) {
			return "annotation"
		}
	}
	return "end-before-start"
}

func cleanedKey(p PAlert) string {
	ls := map[string]string{}
	for k, v := range kvMap(p.Labels, false) {
		if v != "" {
			ls[k] = v
		}
	}
	return key(ls)
}

// ---------- generator ----------

type gen struct {
	r        *vh.Rand
	c        *Case
	now      int64
	instants []int64 // interesting instants: receive times, submitted starts/ends, defaults, gc ticks
}

func (g *gen) nextTick() int64 {
	k := (g.now-epoch)/g.c.GC + 1
	return epoch + k*g.c.GC
}

var deltas = []int64{0, 0, 0, 1, -1, 1, -1, int64(time.Second), -int64(time.Second), int64(time.Minute), -int64(time.Minute), int64(10 * time.Minute), -int64(10 * time.Minute)}

func (g *gen) instant() int64 {
	r := g.r
	var base int64
	switch r.Intn(6) {
	case 0:
		base = g.now
	case 1:
		base = g.now + g.c.RT
	case 2:
		base = g.nextTick()
	default:
		base = vh.Pick(r, g.instants)
	}
	return base + vh.Pick(r, deltas)
}

func (g *gen) note(ts ...int64) {
	for _, t := range ts {
		if t != 0 {
			g.instants = append(g.instants, t)
		}
	}
	if len(g.instants) > 24 {
		g.instants = g.instants[len(g.instants)-24:]
	}
}

// label-set identities: a few base sets, optionally decorated with empty-valued or invalid labels
var baseSets = [][]KV{
	{{0, 0}},         // alertname=A
	{{0, 0}, {1, 2}}, // alertname=A, job=web
	{{0, 1}, {2, 4}}, // alertname=B, instance=日本
	{{3, 0}},         // sev=A (no alertname)
}

// whitespace / case variants of the base values (index into values)
var variants = map[int][]int{0: {6, 7, 8, 9}, 1: {12}, 2: {11}}

// limited: label sets for a case with the per-alertname limit on: at most Limit distinct (cleaned, valid) label sets
// per alertname over the whole case; decorations only of kinds that never make a new stored label set (empty-valued
// labels are dropped, the empty name is invalid in every mode).
func family(i int) KV {
	if i == 2 {
		return KV{3, 0}
	}
	return KV{0, i}
}

func (g *gen) limited() []KV {
	r := g.r
	inst := []int{2, 1, 4}[r.Intn(g.c.Limit)] // instance = web | B | 日本
	ls := []KV{family(r.Intn(3)), {2, inst}}  // alertname = A | B | none (sev=A instead: the bucket of the empty name)
	if r.Chance(1, 4) {
		ls = append(ls, KV{1, vEmpty})
	}
	if r.Chance(1, 10) {
		ls = append(ls, KV{6, 0})
	}
	return ls
}

func (g *gen) labels(direct bool) []KV {
	r := g.r
	if g.c.Limit > 0 {
		return g.limited()
	}
	ls := append([]KV(nil), baseSets[r.Intn(3+r.Intn(2))]...)
	if r.Chance(1, 4) { // a value that differs from the base value only in whitespace / case / NBSP: another label set
		i := r.Intn(len(ls))
		if vs := variants[ls[i].V]; len(vs) > 0 {
			ls[i].V = vh.Pick(r, vs)
		}
	}
	has := func(n int) bool {
		for _, kv := range ls {
			if kv.N == n {
				return true
			}
		}
		return false
	}
	if r.Chance(1, 4) { // an empty-valued label: dropped before fingerprinting
		n := vh.Pick(r, []int{1, 2, 3, 4, 6})
		if !has(n) {
			ls = append(ls, KV{n, vEmpty})
		}
	}
	if r.Chance(1, 12) { // only empty-valued labels / no labels at all
		ls = nil
		if r.Bool() {
			ls = []KV{{1, vEmpty}}
		}
	}
	if r.Chance(1, 7) { // a name that is invalid in some or all modes
		n := vh.Pick(r, []int{4, 5, 6, 6})
		if direct && r.Chance(1, 3) {
			n = nInvalidUTF8Name
		}
		if !has(n) {
			ls = append(ls, KV{n, vh.Pick(r, []int{0, 1, 4})})
		}
	}
	if direct && r.Chance(1, 10) { // invalid UTF-8 value (cannot travel through JSON)
		if !has(3) {
			ls = append(ls, KV{3, vInvalidUTF8Value})
		}
	}
	if r.Chance(1, 15) && !has(3) { // a value made of white space only is a value (not "empty")
		ls = append(ls, KV{3, 10})
	}
	return ls
}

func (g *gen) annots(direct bool) []KV {
	r := g.r
	switch r.Intn(8) {
	case 0:
		return []KV{{1, 0}}
	case 1:
		return []KV{{1, vEmpty}} // empty annotation values are kept
	case 2:
		return []KV{{1, 1}, {3, 2}}
	case 4:
		return []KV{{1, vh.Pick(r, []int{6, 7, 9, 10, 11, 12})}} // surrounding white space in annotation values is kept
	case 3:
		if r.Chance(1, 2) {
			return []KV{{vh.Pick(r, []int{4, 5, 6}), 0}} // invalid annotation name (mode dependent)
		}
		if direct {
			return []KV{{1, vInvalidUTF8Value}}
		}
	}
	return nil
}

func (g *gen) palert(direct bool) PAlert {
	r := g.r
	p := PAlert{Labels: g.labels(direct), Annots: g.annots(direct), Gen: r.Intn(2) * r.Intn(2)}
	if !r.Chance(7, 20) {
		p.Starts = g.instant()
	}
	if !r.Chance(8, 20) {
		p.Ends = g.instant()
	}
	// now and then a timestamp from the pool of unusual literals instead (also in place of a missing one)
	if r.Chance(1, 8) {
		p.Starts, p.StartsStamp = 0, 1+r.Intn(len(stamps))
	}
	if r.Chance(1, 8) {
		p.Ends, p.EndsStamp = 0, 1+r.Intn(len(stamps))
	}
	if !p.startT().IsZero() && !p.endT().IsZero() && p.endT().Before(p.startT()) && !r.Chance(1, 4) {
		p.Starts, p.Ends = p.Ends, p.Starts
		p.StartsStamp, p.EndsStamp = p.EndsStamp, p.StartsStamp
	}
	g.note(p.Starts, p.Ends)
	return p
}

func genCase(r *vh.Rand, maxOps int) Case {
	c := Case{
		RT:        vh.Pick(r, []int64{int64(5 * time.Minute), int64(5 * time.Minute), int64(time.Minute), int64(time.Hour), 0, 1}),
		GC:        vh.Pick(r, []int64{int64(time.Minute), int64(7 * time.Minute), int64(30 * time.Minute)}),
		Mode:      vh.Pick(r, []string{"", "", featurecontrol.FeatureClassicMode, featurecontrol.FeatureUTF8StrictMode}),
		Transport: vh.Pick(r, []string{"http", "direct"}),
	}
	if r.Chance(1, 5) {
		c.Limit = r.Range(1, 3)
		c.NamesInMetrics = r.Bool()
	}
	if c.Limit == 0 && r.Chance(2, 5) {
		c.Tree = r.Range(1, len(trees))
	}
	g := &gen{r: r, c: &c, now: epoch, instants: []int64{epoch}}
	direct := c.Transport == "direct"
	n := r.Range(3, maxOps)
	if c.Limit > 0 && r.Chance(2, 3) {
		// fill the limit first: every admitted label set of every family, firing for two hours
		op := Op{Kind: "post"}
		for f := 0; f < 3; f++ {
			for i := 0; i < c.Limit; i++ {
				op.Batch = append(op.Batch, PAlert{Labels: []KV{family(f), {2, []int{2, 1, 4}[i]}}, Ends: epoch + int64(2*time.Hour)})
			}
		}
		c.Ops = append(c.Ops, op)
		g.note(epoch + int64(2*time.Hour))
	}
	for i := 0; i < n; i++ {
		var dt int64
		switch r.Intn(10) {
		case 0, 1:
			dt = 0
		case 2:
			dt = 1
		case 3:
			dt = vh.Pick(r, []int64{int64(time.Second), int64(time.Minute), int64(5 * time.Minute)})
		case 4:
			dt = c.RT + vh.Pick(r, []int64{0, 1, -1})
		case 5, 6:
			dt = g.nextTick() - g.now + vh.Pick(r, []int64{0, 0, 1, -1})
		default:
			t := g.instant()
			dt = t - g.now
		}
		if dt < 0 || dt > int64(3*time.Hour) {
			dt = int64(time.Duration(r.Intn(90)) * time.Second)
		}
		g.now += dt
		op := Op{Dt: dt}
		switch k := r.Intn(10); {
		case k < 7:
			op.Kind = "post"
			m := vh.Pick(r, []int{1, 1, 1, 2, 2, 3, 4})
			for j := 0; j < m; j++ {
				if j > 0 && r.Chance(1, 3) { // same label set twice in one batch
					p := g.palert(direct)
					p.Labels = op.Batch[r.Intn(j)].Labels
					op.Batch = append(op.Batch, p)
					continue
				}
				op.Batch = append(op.Batch, g.palert(direct))
			}
			if c.Limit > 0 && r.Chance(1, 2) {
				// over-limit NEW alerts at the head of the batch, before the updates of admitted ones
				var extras []PAlert
				for j := r.Range(1, 2); j > 0; j-- {
					extras = append(extras, PAlert{Labels: []KV{family(r.Intn(3)), {2, 0}}, Extra: true})
				}
				op.Batch = append(extras, op.Batch...)
			}
			g.note(g.now, g.now+c.RT)
		case k < 8:
			op.Kind = "put"
			m := r.Range(1, 2)
			for j := 0; j < m; j++ {
				p := g.palert(direct)
				if c.Limit > 0 { // a direct Put stores the label set as it is: keep it one of the admitted ones
					var ls []KV
					for _, kv := range p.Labels {
						if kv.V != vEmpty && kv.N != 6 {
							ls = append(ls, kv)
						}
					}
					p.Labels = ls
				}
				d := DAlert{PAlert: p, Updated: g.now + vh.Pick(r, []int64{0, 0, -1, 1, -int64(time.Minute), int64(time.Minute), -int64(time.Hour)}), Timeout: r.Chance(1, 3)}
				if d.Starts == 0 && d.StartsStamp == 0 && !r.Chance(1, 5) {
					d.Starts = g.now
				}
				op.Direct = append(op.Direct, d)
			}
		default:
			op.Kind = "sleep"
		}
		if r.Chance(1, 3) {
			for j := r.Range(1, 2); j > 0; j-- {
				op.RecvQ = append(op.RecvQ, r.Intn(len(recvQueries)))
			}
		}
		c.Ops = append(c.Ops, op)
	}
	return c
}

// ---------- receivers (reference: written here, independent of dispatch.Route) ----------

// rnode: one route of a configured routing tree, as the HARNESS describes it. The YAML handed to config.Load is
// generated from it, and refReceivers evaluates it with its own walk — never with dispatch.Route.Match, which the API and
// the dispatcher share (a defect there would make them agree with each other).
type rnode struct {
	recv   string
	mn, mv string // equality matcher name="value" ("" = the root: matches everything)
	cont   bool   // continue: true
	kids   []*rnode
}

// the routing trees of multi-receiver cases (index = Case.tree() - 1)
var trees = []*rnode{
	// 1: first match wins / a continue sibling followed by a matching one
	{recv: "team-a", kids: []*rnode{
		{recv: "legacy-team-b", mn: "alertname", mv: "B"},
		{recv: "team-a-escalation", mn: "job", mv: "web", cont: true},
		{recv: "team-b", mn: "job", mv: "web"},
	}},
	// 2: matching with continue, then NON-matching without continue, then matching; a further sibling after a matching
	// one without continue is not reached
	{recv: "team-a", kids: []*rnode{
		{recv: "team-a-escalation", mn: "job", mv: "web", cont: true},
		{recv: "legacy-team-b", mn: "alertname", mv: "B"},
		{recv: "team-b", mn: "job", mv: "web"},
		{recv: "team-ops", mn: "alertname", mv: "A"},
	}},
	// 3: the same sibling pattern nested inside a continue child, and again after it at the top level
	{recv: "team-a", kids: []*rnode{
		{recv: "team-b", mn: "alertname", mv: "A", cont: true, kids: []*rnode{
			{recv: "team-a-escalation", mn: "job", mv: "web", cont: true},
			{recv: "legacy-team-b", mn: "instance", mv: "web"},
			{recv: "team-b-web", mn: "job", mv: "web"},
		}},
		{recv: "legacy-team-b", mn: "alertname", mv: "B"},
		{recv: "team-ops", mn: "job", mv: "web"},
		{recv: "team-b", mn: "sev", mv: "A"},
	}},
}

func (n *rnode) yaml(sb *strings.Builder, ind string) {
	if n.mn != "" {
		fmt.Fprintf(sb, "%s- matchers: [ %s=%q ]\n%s  receiver: %s\n", ind, n.mn, n.mv, ind, n.recv)
		if n.cont {
			fmt.Fprintf(sb, "%s  continue: true\n", ind)
		}
		ind += "  "
	} else {
		fmt.Fprintf(sb, "%sreceiver: %s\n", ind, n.recv)
	}
	if len(n.kids) > 0 {
		fmt.Fprintf(sb, "%sroutes:\n", ind)
		for _, k := range n.kids {
			k.yaml(sb, ind)
		}
	}
}

func (n *rnode) receivers(seen map[string]bool, out *[]string) {
	if !seen[n.recv] {
		seen[n.recv] = true
		*out = append(*out, n.recv)
	}
	for _, k := range n.kids {
		k.receivers(seen, out)
	}
}

func treeYAML(n *rnode) string {
	var sb strings.Builder
	sb.WriteString("route:\n")
	n.yaml(&sb, "  ")
	sb.WriteString("receivers:\n")
	for _, r := range treeReceivers(n) {
		fmt.Fprintf(&sb, "- name: %s\n", r)
	}
	return sb.String()
}

func treeReceivers(n *rnode) []string {
	var out []string
	n.receivers(map[string]bool{}, &out)
	return out
}

// eval: the documented routing walk (depth-first; the children of a matching route are tried in order; a matching
// child ends the walk over its siblings unless it says continue; a route none of whose children matched is itself
// the match)
func (n *rnode) eval(ls map[string]string) []string {
	if n.mn != "" && ls[n.mn] != n.mv {
		return nil
	}
	var all []string
	for _, k := range n.kids {
		m := k.eval(ls)
		all = append(all, m...)
		if len(m) > 0 && !k.cont {
			break
		}
	}
	if len(all) == 0 {
		all = []string{n.recv}
	}
	return all
}

// tree: 0 = the single-receiver configuration, k = trees[k-1]
func (c *Case) tree() int {
	if c.Tree > 0 {
		return c.Tree
	}
	if c.Routing {
		return 1
	}
	return 0
}

// refReceivers: the receivers the configured tree selects for a label set
func refReceivers(c *Case, ls map[string]string) []string {
	if c.tree() == 0 {
		return []string{"default"}
	}
	return trees[c.tree()-1].eval(ls)
}

// values of the ?receiver= parameter: plain names, regexes, un-parenthesised alternations whose alternatives are a
// prefix / suffix of other receiver names, a partial name, an invalid expression
var recvQueries = []string{"team-a", "team-a|team-b", "team-b|team-a", "(team-a|team-b)", "team-.*", "legacy-.*|team-a", "team", ".*",
	"team-a-escalation", "default", "def|xyz", "default|x", "[", "team-ops", "team-b-web|team-ops", "team-b", "team-b.*"}

// refRecvMatch: the documented meaning of ?receiver=: the expression must match a WHOLE receiver name
func refRecvMatch(q string) (func(string) bool, bool) {
	re, err := regexp.Compile("^(?:" + q + ")$")
	if err != nil {
		return nil, false
	}
	return re.MatchString, true
}

// ---------- execution against the real handlers ----------

type sys struct {
	api    *apiv2.API
	alerts *mem.Alerts
	reg    *prometheus.Registry       // the provider's metrics
	rf     func(*dispatch.Route) bool // the route filter the last GET /alerts/groups handed to the dispatcher
	rec    *gcRec
	direct bool
}

func boolp(b bool) *bool { return &b }

func (s *sys) post(t *testing.T, batch []PAlert) int {
	if s.direct {
		var pas open_api_models.PostableAlerts
		for _, p := range batch {
			pa := &open_api_models.PostableAlert{
				Annotations: open_api_models.LabelSet(kvMap(p.Annots, true)),
				StartsAt:    strfmt.DateTime(p.startT()),
				EndsAt:      strfmt.DateTime(p.endT()),
				Alert:       open_api_models.Alert{GeneratorURL: strfmt.URI(gens[p.Gen]), Labels: open_api_models.LabelSet(kvMap(p.Labels, false))},
			}
			pas = append(pas, pa)
		}
		req := httptest.NewRequest("POST", "/api/v2/alerts", nil)
		resp := s.api.VerifPostAlerts(alert_ops.PostAlertsParams{HTTPRequest: req, Alerts: pas})
		w := httptest.NewRecorder()
		resp.WriteResponse(w, runtime.JSONProducer())
		return w.Code
	}
	var items []map[string]any
	for _, p := range batch {
		it := map[string]any{"labels": kvMap(p.Labels, false)}
		if len(p.Annots) > 0 {
			it["annotations"] = kvMap(p.Annots, true)
		}
		if txt := p.startTxt(); txt != "" {
			it["startsAt"] = txt
		}
		if txt := p.endTxt(); txt != "" {
			it["endsAt"] = txt
		}
		if gens[p.Gen] != "" {
			it["generatorURL"] = gens[p.Gen]
		}
		items = append(items, it)
	}
	body, err := json.Marshal(items)
	if err != nil {
		t.Fatal(err)
	}
	req := httptest.NewRequest("POST", "/api/v2/alerts", bytes.NewReader(body))
	req.Header.Set("Content-Type", "application/json")
	w := httptest.NewRecorder()
	s.api.Handler.ServeHTTP(w, req)
	return w.Code
}

func (s *sys) get(t *testing.T) ([]oalert, int, []string) { return s.getR(t, nil) }

// limited: the provider's alertmanager_alerts_limited_total, summed over its label values
func (s *sys) limited(t *testing.T) float64 {
	mfs, err := s.reg.Gather()
	if err != nil {
		t.Fatal(err)
	}
	sum := 0.0
	for _, mf := range mfs {
		if mf.GetName() == "alertmanager_alerts_limited_total" {
			for _, m := range mf.GetMetric() {
				sum += m.GetCounter().GetValue()
			}
		}
	}
	return sum
}

// groupsReceivers: GET /api/v2/alerts/groups?receiver=q; returns the status and the receivers of the configured routes
// that the handler's route filter lets through (the dispatcher side is a stub that records the filter)
func (s *sys) groupsReceivers(q string, routes *dispatch.Route) (int, map[string]bool) {
	s.rf = nil
	req := httptest.NewRequest("GET", "/api/v2/alerts/groups?receiver="+url.QueryEscape(q), nil)
	w := httptest.NewRecorder()
	s.api.Handler.ServeHTTP(w, req)
	out := map[string]bool{}
	if s.rf != nil {
		routes.Walk(func(r *dispatch.Route) {
			if s.rf(r) {
				out[r.RouteOpts.Receiver] = true
			}
		})
	}
	return w.Code, out
}

func (s *sys) getR(t *testing.T, recv *string) ([]oalert, int, []string) {
	var payload open_api_models.GettableAlerts
	code := 0
	target := "/api/v2/alerts"
	if recv != nil {
		target += "?receiver=" + url.QueryEscape(*recv)
	}
	if s.direct {
		req := httptest.NewRequest("GET", target, nil)
		resp := s.api.VerifGetAlerts(alert_ops.GetAlertsParams{HTTPRequest: req, Receiver: recv, Active: boolp(true), Inhibited: boolp(true), Silenced: boolp(true), Unprocessed: boolp(true)})
		ok, isOK := resp.(*alert_ops.GetAlertsOK)
		if !isOK {
			w := httptest.NewRecorder()
			resp.WriteResponse(w, runtime.JSONProducer())
			return nil, w.Code, nil
		}
		payload, code = ok.Payload, 200
	} else {
		req := httptest.NewRequest("GET", target, nil)
		w := httptest.NewRecorder()
		s.api.Handler.ServeHTTP(w, req)
		code = w.Code
		if code != 200 {
			return nil, code, nil
		}
		if err := json.Unmarshal(w.Body.Bytes(), &payload); err != nil {
			t.Fatalf("GET body: %v", err)
		}
	}
	var out []oalert
	var fps []string
	for _, ga := range payload {
		o := oalert{labels: map[string]string(ga.Labels), annots: map[string]string(ga.Annotations), gen: string(ga.GeneratorURL), fromGet: true}
		if o.labels == nil {
			o.labels = map[string]string{}
		}
		if o.annots == nil {
			o.annots = map[string]string{}
		}
		o.starts, o.ends, o.updated = time.Time(*ga.StartsAt), time.Time(*ga.EndsAt), time.Time(*ga.UpdatedAt)
		for _, r := range ga.Receivers {
			o.receivers = append(o.receivers, *r.Name)
		}
		o.state = *ga.Status.State
		o.nonEmptyMuteList = len(ga.Status.SilencedBy)+len(ga.Status.InhibitedBy)+len(ga.Status.MutedBy) > 0
		o.fp = *ga.Fingerprint
		out = append(out, o)
		fps = append(fps, *ga.Fingerprint)
	}
	return out, code, fps
}

func (s *sys) dump() []oalert {
	it := s.alerts.GetPending()
	defer it.Close()
	var out []oalert
	for a := range it.Next() {
		out = append(out, fromAlert(a.Data))
	}
	sortO(out)
	return out
}

const cfgYAML = `
route:
  receiver: default
receivers:
- name: default
`

type tagset map[string]int

// runCase executes one case; returns the Coq history items, oracle violations and branch tags.
func runCase(t *testing.T, c *Case) (hist []string, viol []vh.Violation, tags tagset, nameTbl, valueTbl map[string]bool, routeTbl map[string]string) {
	tags = tagset{}
	routeTbl = map[string]string{}
	nameTbl, valueTbl = map[string]bool{}, map[string]bool{}
	violate := func(k, what string) { viol = append(viol, vh.Violation{Key: k, What: what, Case: c}) }
	synctest.Test(t, func(t *testing.T) {
		logger := promslog.NewNopLogger()
		features := c.Mode
		if c.NamesInMetrics {
			if features != "" {
				features += ","
			}
			features += featurecontrol.FeatureAlertNamesInMetrics
		}
		flags, err := featurecontrol.NewFlags(logger, features)
		if err != nil {
			t.Fatal(err)
		}
		compat.InitFromFlags(logger, flags)
		ctx, cancel := context.WithCancel(context.Background())
		defer cancel()
		rec := &gcRec{}
		reg := prometheus.NewRegistry()
		var s *sys
		alerts, err := mem.NewAlerts(ctx, time.Duration(c.GC), c.Limit, rec, logger, eventrecorder.NopRecorder(), reg, flags)
		if err != nil {
			t.Fatal(err)
		}
		defer alerts.Close()
		sils, err := silence.New(silence.Options{Metrics: prometheus.NewRegistry()})
		if err != nil {
			t.Fatal(err)
		}
		silencer := silence.NewSilencer(sils, logger, eventrecorder.NopRecorder())
		inhibitor := inhibit.NewInhibitor(alerts, nil, logger, eventrecorder.NopRecorder())
		api, err := apiv2.NewAPI(alerts,
			func(_ context.Context, rf func(*dispatch.Route) bool, _ func(*alert.Alert, time.Time) bool) (dispatch.AlertGroups, map[model.Fingerprint][]string, error) {
				s.rf = rf
				return nil, nil, nil
			},
			func(string, string) ([]string, bool) { return nil, false },
			sils, nil, logger, prometheus.NewRegistry())
		if err != nil {
			t.Fatal(err)
		}
		yaml := cfgYAML
		if c.tree() > 0 {
			yaml = treeYAML(trees[c.tree()-1])
		}
		cfg, err := config.Load(yaml)
		if err != nil {
			t.Fatal(err)
		}
		cfg.Global.ResolveTimeout = model.Duration(c.RT)
		api.Update(cfg, func(ctx context.Context, ls model.LabelSet) {
			inhibitor.Mutes(ctx, ls)
			silencer.Mutes(ctx, ls)
		})
		s = &sys{api: api, alerts: alerts, reg: reg, rec: rec, direct: c.Transport == "direct"}
		routes := dispatch.NewRoute(cfg.Route, nil)
		sub := alerts.Subscribe("verif")
		defer sub.Close()
		drain := func() []oalert {
			var out []oalert
			for {
				select {
				case a := <-sub.Next():
					out = append(out, fromAlert(a.Data))
				default:
					return out
				}
			}
		}
		if time.Now().UnixNano() != epoch {
			t.Fatalf("bubble does not start at the expected epoch: %d", time.Now().UnixNano())
		}

		prev := map[string]oalert{} // dump after the previous op
		// GET with ?receiver=: exactly the listed alerts one of whose receivers the expression matches as a whole
		recvOracle := func(nowNs int64, q string) {
			now := gtime(nowNs)
			match, valid := refRecvMatch(q)
			got, code, _ := s.getR(t, &q)
			gcode, groutes := s.groupsReceivers(q, routes)
			if !valid {
				tags["receiver-query-invalid-regex"]++
				if code != 400 || gcode != 400 {
					violate("get-receiver-filter-wrong", fmt.Sprintf("?receiver=%s does not compile but GET /alerts answered %d, /alerts/groups %d", q, code, gcode))
				}
				return
			}
			if code != 200 || gcode != 200 {
				violate("get-receiver-filter-wrong", fmt.Sprintf("?receiver=%s: GET /alerts answered %d, /alerts/groups %d", q, code, gcode))
				return
			}
			want := map[string]bool{}
			for k, st := range prev {
				if !st.ends.IsZero() && st.ends.Before(now) {
					continue
				}
				for _, rc := range refReceivers(c, st.labels) {
					if match(rc) {
						want[k] = true
					}
				}
			}
			have := map[string]bool{}
			for _, a := range got {
				have[key(a.labels)] = true
			}
			for k := range want {
				if !have[k] {
					violate("get-receiver-filter-wrong", fmt.Sprintf("GET /alerts?receiver=%s omits %s (receivers %v)", q, k, refReceivers(c, prev[k].labels)))
				}
			}
			for _, a := range got {
				if !want[key(a.labels)] {
					violate("get-receiver-filter-wrong", fmt.Sprintf("GET /alerts?receiver=%s lists %s whose receivers are %v", q, key(a.labels), a.receivers))
				}
			}
			if len(want) > 0 && len(want) < len(prev) {
				tags["receiver-query-selects-a-proper-subset"]++
			}
			all := []string{"default"}
			if c.tree() > 0 {
				all = treeReceivers(trees[c.tree()-1])
			}
			for _, rc := range all {
				if match(rc) != groutes[rc] {
					violate("groups-receiver-filter-wrong", fmt.Sprintf("GET /alerts/groups?receiver=%s: route of receiver %s passes the filter = %v, want %v", q, rc, groutes[rc], match(rc)))
				}
			}
			tags["receiver-query"]++
		}
		add := func(nowNs int64, opTerm, outTerm string) {
			hist = append(hist, fmt.Sprintf("(%s, %s, %s)", coqT(gtime(nowNs)), opTerm, outTerm))
		}
		// observe: GET + dump, with the GET-exactness oracle; returns the dump as a map
		observe := func(nowNs int64, after string) map[string]oalert {
			now := gtime(nowNs)
			got, code, _ := s.get(t)
			if code != 200 {
				violate("get-failed", fmt.Sprintf("GET /api/v2/alerts returned %d", code))
			}
			sortO(got)
			add(nowNs, "OGet", vh.App("RGet", vh.ListOf(got, oalert.coqG)))
			d := s.dump()
			add(nowNs, "ODump", vh.App("RDump", vh.ListOf(d, oalert.coqAlert)))
			cur := map[string]oalert{}
			for _, a := range d {
				if _, dup := cur[key(a.labels)]; dup {
					violate("store-duplicate-label-set", "two stored alerts with the same label set")
				}
				cur[key(a.labels)] = a
			}
			// GET returns exactly the stored alerts whose end has not passed, with the stored (merged) times
			seen := map[string]bool{}
			for _, a := range got {
				k := key(a.labels)
				st, ok := cur[k]
				if seen[k] {
					violate("get-not-exact", "GET lists a label set twice")
				}
				seen[k] = true
				if !ok {
					violate("get-not-exact", fmt.Sprintf("after %s: GET lists %s which is not stored", after, k))
					continue
				}
				if !st.ends.IsZero() && st.ends.Before(now) {
					violate("get-not-exact", fmt.Sprintf("after %s: GET lists %s whose end %s has passed at %s", after, k, ft(st.ends), ft(now)))
				}
				if !a.starts.Equal(st.starts) || !a.ends.Equal(st.ends) || !a.updated.Equal(st.updated) || a.gen != st.gen || key(a.annots) != key(st.annots) {
					violate("get-times-differ-from-store", fmt.Sprintf("after %s: GET shows %s with other times/annotations than stored", after, k))
				}
				if want := refReceivers(c, a.labels); strings.Join(a.receivers, ",") != strings.Join(want, ",") {
					violate("get-receivers-wrong", fmt.Sprintf("receivers of %s: %v, want %v", k, a.receivers, want))
				}
				if len(refReceivers(c, a.labels)) > 1 {
					tags["get-alert-with-several-receivers"]++
				}
				routeTbl[k] = vh.Pair(coqLS(a.labels), vh.ListOf(refReceivers(c, a.labels), vh.Str))
				if a.state != "active" || a.nonEmptyMuteList {
					violate("get-status-wrong", fmt.Sprintf("state %s", a.state))
				}
				ls := model.LabelSet{}
				for n, v := range a.labels {
					ls[model.LabelName(n)] = model.LabelValue(v)
				}
				if a.fp != ls.Fingerprint().String() {
					violate("get-fingerprint-wrong", "fingerprint is not that of the label set")
				}
			}
			for k, st := range cur {
				switch {
				case st.ends.Equal(now):
					tags["get-at-exact-end-listed"]++
				case !st.ends.IsZero() && st.ends.Before(now):
					tags["get-hides-ended-alert"]++
				case st.ends.IsZero():
					tags["get-zero-end-listed"]++
				}
				if (st.ends.IsZero() || !st.ends.Before(now)) && !seen[k] {
					violate("get-not-exact", fmt.Sprintf("after %s: stored alert %s with end %s >= now %s is missing from GET", after, k, ft(st.ends), ft(now)))
				}
			}
			return cur
		}
		// clauses that hold across every op: alerts only vanish in a gc run, and then only resolved ones
		vanish := func(cur map[string]oalert, nowNs int64, gcRan bool, deleted []oalert) {
			now := gtime(nowNs)
			del := map[string]bool{}
			for _, a := range deleted {
				del[key(a.labels)] = true
			}
			for k, p := range prev {
				if _, ok := cur[k]; ok {
					continue
				}
				if !gcRan {
					violate("alert-vanished-without-gc", "a stored alert disappeared outside garbage collection: "+k)
				} else if p.ends.IsZero() || p.ends.After(now) {
					violate("gc-removed-unresolved", fmt.Sprintf("gc at %s removed %s whose end is %s", ft(now), k, ft(p.ends)))
				}
				if gcRan && !del[k] {
					violate("gc-callback-missing", "gc removed an alert without PostDelete: "+k)
				}
			}
		}

		sleepTo := func(target int64) {
			// run through every gc tick on the way (tick first, then whatever happens at the same instant)
			for {
				now := time.Now().UnixNano()
				k := (now-epoch)/c.GC + 1
				tick := epoch + k*c.GC
				if tick > target {
					break
				}
				rec.deleted, rec.fps, rec.delFps, rec.gcCalls = nil, nil, nil, 0
				time.Sleep(time.Duration(tick - now))
				synctest.Wait()
				deleted := append([]oalert(nil), rec.deleted...)
				sortO(deleted)
				add(tick, "OGC", vh.App("RGC", vh.ListOf(deleted, oalert.coqAlert)))
				tags["gc"]++
				if len(deleted) > 0 {
					tags["gc-removed"]++
				}
				if (len(deleted) > 0) != (rec.gcCalls == 1) || len(rec.fps) != len(rec.delFps) {
					violate("gc-callbacks-inconsistent", "PostGC not called exactly once with the deleted fingerprints")
				} else {
					for i := range rec.fps {
						if rec.fps[i] != rec.delFps[i] {
							violate("gc-callbacks-inconsistent", "PostGC fingerprints differ from PostDelete alerts")
						}
					}
				}
				cur := observe(tick, "gc")
				vanish(cur, tick, true, deleted)
				for k, a := range cur {
					if !a.ends.IsZero() && !a.ends.After(gtime(tick)) {
						violate("gc-kept-resolved", fmt.Sprintf("gc at %s kept %s whose end is %s", ft(gtime(tick)), k, ft(a.ends)))
					}
					if p, ok := prev[k]; !ok || !sameO(p, a) {
						violate("gc-changed-alert", "gc changed or created "+k)
					}
				}
				for _, a := range deleted {
					if p, ok := prev[key(a.labels)]; !ok || !sameO(p, a) {
						violate("gc-callback-wrong-alert", "PostDelete got an alert that was not stored like that")
					}
					if a.ends.Equal(gtime(tick)) {
						tags["gc-removed-at-exact-end"]++
					}
				}
				prev = cur
			}
			if d := target - time.Now().UnixNano(); d > 0 {
				time.Sleep(time.Duration(d))
			}
			synctest.Wait()
		}

		for i := range c.Ops {
			op := &c.Ops[i]
			sleepTo(time.Now().UnixNano() + op.Dt)
			now := time.Now().UnixNano()
			op.Now = now
			switch op.Kind {
			case "post":
				for _, p := range op.Batch {
					noteStrings(nameTbl, valueTbl, p)
				}
				// over-limit NEW alerts at the head of the batch: sent only when the refusal is certain (the stored live
				// alerts of that alertname fill the limit), and then not part of the batch the model / the clauses see
				var send, batch, extras []PAlert
				for _, p := range op.Batch {
					if !p.Extra {
						send, batch = append(send, p), append(batch, p)
						continue
					}
					name, live := kvMap(p.Labels, false)["alertname"], 0
					for _, st := range prev {
						if st.labels["alertname"] == name && st.ends.After(gtime(now)) {
							live++
						}
					}
					if _, stored := prev[cleanedKey(p)]; !stored && live == c.Limit && len(batch) == 0 && refValid(c.Mode, p, gtime(now), c.RT) {
						send, extras = append(send, p), append(extras, p)
					}
				}
				limitedBefore := s.limited(t)
				code := s.post(t, send)
				op.Code = code
				sent := drain()
				add(now, vh.App("OPost", vh.ListOf(batch, PAlert.coqP)), vh.App("RPost", vh.Z(int64(code)), vh.ListOf(sent, oalert.coqAlert)))
				cur := observe(now, "post")
				vanish(cur, now, false, nil)
				postOracle(c, batch, gtime(now), code, prev, cur, sent, violate, tags)
				if len(extras) > 0 {
					tags["post-over-limit-new-alert-first"]++
					if len(batch) > 0 {
						tags["post-over-limit-new-alert-before-updates"]++
					}
					for _, p := range extras {
						if _, ok := cur[cleanedKey(p)]; ok {
							violate("over-limit-new-alert-admitted", "a new label set beyond the per-alertname limit was stored: "+cleanedKey(p))
						}
					}
				}
				if d := s.limited(t) - limitedBefore; d != float64(len(extras)) {
					violate("limit-refusal-not-counted", fmt.Sprintf("%d alerts refused by the per-alertname limit (alert-names-in-metrics=%v) but alertmanager_alerts_limited_total grew by %v", len(extras), c.NamesInMetrics, d))
				}
				prev = cur
			case "put":
				var as []*alert.Alert
				for _, d := range op.Direct {
					noteStrings(nameTbl, valueTbl, d.PAlert)
					a := &alert.Alert{Alert: model.Alert{Labels: model.LabelSet{}, Annotations: model.LabelSet{}, StartsAt: d.startT(), EndsAt: d.endT(), GeneratorURL: gens[d.Gen]},
						UpdatedAt: gtime(d.Updated), Timeout: d.Timeout}
					for k, v := range kvMap(d.Labels, false) {
						a.Labels[model.LabelName(k)] = model.LabelValue(v)
					}
					for k, v := range kvMap(d.Annots, true) {
						a.Annotations[model.LabelName(k)] = model.LabelValue(v)
					}
					as = append(as, a)
					if p, ok := prev[key(kvMap(d.Labels, false))]; ok && len(op.Direct) == 1 {
						if gtime(d.Updated).Before(p.updated) {
							tags["put-older-than-stored"]++
						}
					}
				}
				if err := alerts.Put(context.Background(), as...); err != nil {
					violate("put-error", err.Error())
				}
				sent := drain()
				add(now, vh.App("OPut", vh.ListOf(op.Direct, DAlert.coqA)), vh.App("RPut", vh.ListOf(sent, oalert.coqAlert)))
				tags["put"]++
				cur := observe(now, "put")
				vanish(cur, now, false, nil)
				prev = cur
			default:
				tags["sleep"]++
				cur := observe(now, "sleep")
				vanish(cur, now, false, nil)
				prev = cur
			}
			for _, qi := range op.RecvQ {
				recvOracle(now, recvQueries[qi])
			}
		}
	})
	return hist, viol, tags, nameTbl, valueTbl, routeTbl
}

func sameO(a, b oalert) bool {
	return key(a.labels) == key(b.labels) && key(a.annots) == key(b.annots) && a.starts.Equal(b.starts) && a.ends.Equal(b.ends) &&
		a.gen == b.gen && a.updated.Equal(b.updated) && a.timeout == b.timeout
}

func noteStrings(nameTbl, valueTbl map[string]bool, p PAlert) {
	for _, kvs := range [][]KV{p.Labels, p.Annots} {
		for _, kv := range kvs {
			nameTbl[names[kv.N]] = compat.IsValidLabelName(model.LabelName(names[kv.N]))
			valueTbl[values[kv.V]] = model.LabelValue(values[kv.V]).IsValid()
		}
	}
}

// postOracle: the contract clauses of C13 for one POST, stated on observations only (stored alerts before/after,
// response code, alerts handed to subscribers). Clauses about merged times are applied to label sets that occur once
// among the valid alerts of the batch (for repeated ones the clauses compose and are covered by the model comparison).
func postOracle(c *Case, batch []PAlert, now time.Time, code int, prev, cur map[string]oalert, sent []oalert, violate func(k, what string), tags tagset) {
	rt := time.Duration(c.RT)
	nValid := 0
	perKey := map[string]int{}
	for _, p := range batch {
		if refValid(c.Mode, p, now, c.RT) {
			nValid++
			perKey[cleanedKey(p)]++
		} else {
			tags["invalid:"+refReason(c.Mode, p)]++
		}
	}
	switch {
	case nValid == len(batch):
		tags["post-all-valid"]++
	case nValid == 0:
		tags["post-all-invalid"]++
	default:
		tags["post-mixed"]++
	}
	if c.Limit > 0 {
		tags["post-with-per-alertname-limit"]++
	}
	want := 200
	if nValid != len(batch) {
		want = 400
	}
	if code != want {
		violate("response-class-wrong", fmt.Sprintf("POST with %d/%d valid alerts answered %d, want %d", nValid, len(batch), code, want))
	}
	if len(sent) != nValid {
		// what Put stores is what the subscribers (the dispatcher) are handed: one update per valid alert, in order
		stored := 0
		for _, p := range batch {
			if a, ok := cur[cleanedKey(p)]; ok && refValid(c.Mode, p, now, c.RT) && a.updated.Equal(now) {
				stored++
			}
		}
		if stored == nValid && len(sent) < nValid {
			violate("stored-update-not-handed-to-subscribers", fmt.Sprintf("%d valid alerts stored by the POST but only %d updates reached the subscriber", nValid, len(sent)))
		} else {
			violate("valid-alert-not-stored", fmt.Sprintf("%d valid alerts in the batch but %d were put", nValid, len(sent)))
		}
	}
	// label sets not named by a valid alert are untouched
	for k, p := range prev {
		if perKey[k] == 0 {
			if a, ok := cur[k]; ok && !sameO(a, p) {
				violate("untouched-alert-changed", "POST changed a stored alert whose label set was not (validly) submitted: "+k)
			}
		}
	}
	for k := range cur {
		if _, was := prev[k]; !was && perKey[k] == 0 {
			violate("invalid-alert-stored", "POST stored a label set that no valid alert of the batch has: "+k)
		}
	}
	for _, p := range batch {
		if !refValid(c.Mode, p, now, c.RT) {
			continue
		}
		k := cleanedKey(p)
		a, ok := cur[k]
		if !ok {
			violate("valid-alert-not-stored", "a valid alert of the batch is not stored under its own label set: "+k)
			continue
		}
		if o, had := prev[k]; had && o.updated.After(now) {
			tags["post-onto-future-updated"]++ // only reachable through the direct Put ops; Merge keeps the stored side
			continue
		}
		if !a.updated.Equal(now) {
			violate("updated-at-not-receive-time", fmt.Sprintf("stored updatedAt %s, receive time %s", ft(a.updated), ft(now)))
		}
		if perKey[k] != 1 {
			tags["post-same-labelset-twice-in-batch"]++
			continue
		}
		if len(kvMap(p.Labels, false)) != len(a.labels) {
			tags["post-empty-label-dropped"]++
		}
		if p.StartsStamp > 0 || p.EndsStamp > 0 {
			tags["post-unusual-timestamp-literal"]++
		}
		// submitted interval after defaulting
		ps, pe := p.startT(), p.endT()
		s, e := ps, pe
		if pe.IsZero() {
			e = now.Add(rt)
			tags["post-end-missing"]++
		}
		if ps.IsZero() {
			tags["post-start-missing"]++
			if pe.IsZero() {
				s = now
			} else {
				s = pe
			}
		}
		old, had := prev[k]
		if key(a.annots) != key(kvMap(p.Annots, true)) || a.gen != gens[p.Gen] {
			violate("annotations-not-latest", "stored annotations/generatorURL are not those of the latest submission")
		}
		if !had {
			tags["post-fresh"]++
			if !a.starts.Equal(s) || !a.ends.Equal(e) || a.timeout != pe.IsZero() {
				violate("defaults-wrong", fmt.Sprintf("fresh alert (startsAt %q endsAt %q at %s) stored as [%s,%s] timeout=%v, want [%s,%s]", p.startTxt(), p.endTxt(), ft(now), ft(a.starts), ft(a.ends), a.timeout, ft(s), ft(e)))
			}
			continue
		}
		intersect := s.Before(old.ends) && old.starts.Before(e)
		switch {
		case intersect:
			tags["post-intersects-stored"]++
			m := s
			if old.starts.Before(m) {
				m = old.starts
			}
			if !a.starts.Equal(m) {
				violate("earliest-start-lost", fmt.Sprintf("stored [%s,%s], submitted [%s,%s] intersect, but start is %s", ft(old.starts), ft(old.ends), ft(s), ft(e), ft(a.starts)))
			}
		case !s.Before(old.ends):
			tags["post-after-stored-interval"]++
			if s.Equal(old.ends) {
				tags["post-touching-start-eq-old-end"]++
			}
			if !a.starts.Equal(s) || !a.ends.Equal(e) {
				violate("refire-not-restarted", fmt.Sprintf("stored [%s,%s], submitted later [%s,%s], now stored [%s,%s]", ft(old.starts), ft(old.ends), ft(s), ft(e), ft(a.starts), ft(a.ends)))
			}
		default:
			tags["post-before-stored-interval"]++
			if e.Equal(old.starts) {
				tags["post-touching-end-eq-old-start"]++
			}
			if !a.starts.Equal(s) {
				violate("earliest-start-lost", "submission entirely before the stored interval did not set the start")
			}
		}
		if a.starts.After(s) {
			violate("start-later-than-submitted", "stored start is later than the submitted start")
		}
		if pe.IsZero() {
			// missing endsAt: receive time + resolve_timeout, pushed forward by every re-send
			if a.ends.Before(now.Add(rt)) {
				violate("end-not-pushed-forward", fmt.Sprintf("re-send without endsAt at %s left the end at %s < now+resolve_timeout", ft(now), ft(a.ends)))
			}
			if old.timeout && !a.ends.Equal(now.Add(rt)) {
				violate("end-not-pushed-forward", "timeout-only alert: end is not receive time + resolve_timeout")
			}
			if !a.ends.Equal(now.Add(rt)) {
				tags["post-explicit-later-end-kept"]++
			}
		} else if !pe.After(now) {
			// explicit end in the past (or now): resolved immediately
			tags["post-end-in-past"]++
			if a.ends.After(now) {
				violate("past-end-not-resolved", fmt.Sprintf("alert posted with end %s <= now %s is stored with end %s", ft(pe), ft(now), ft(a.ends)))
			}
			if !a.ends.Equal(pe) {
				tags["post-later-resolved-end-kept"]++
			}
		}
		if !a.ends.Equal(e) && !a.ends.Equal(old.ends) {
			violate("end-from-nowhere", "stored end is neither the submitted nor the previous end")
		}
	}
}

func TestCheck(t *testing.T) {
	env := vh.GetEnv()
	run := vh.NewRun(env, "AM.Run.C13Run")
	// app engine: the REAL application wiring (package app) in real time, in its own process; reports through run.
	// true = the replay file held an app-engine case and has been handled.
	if appsys.Part(t, env, run, "C13") {
		return
	}
	strfmt.MarshalFormat = time.RFC3339Nano // GET bodies carry full-precision instants (default: milliseconds)
	var cases []Case
	if env.Replay != "" {
		var c Case
		if err := vh.LoadReplayCase(env.Replay, &c); err != nil {
			t.Fatal(err)
		}
		cases = append(cases, c)
	} else {
		cases = append(cases, vh.LoadCorpus[Case](env, "C13")...)
		r := vh.NewRand(env.Seed)
		n := env.N(500, 4)
		maxOps := 12
		if env.Tier == "thorough" {
			maxOps = 20
		}
		for i := 0; i < n; i++ {
			cases = append(cases, genCase(r.Fork(), maxOps))
		}
	}
	for i := range cases {
		c := &cases[i]
		hist, viol, tags, nameTbl, valueTbl, routeTbl := runCase(t, c)
		tbl := func(m map[string]bool) string {
			ks := vh.SortedKeys(m)
			parts := make([]string, len(ks))
			for i, k := range ks {
				parts[i] = vh.Pair(vh.Str(k), vh.Bool(m[k]))
			}
			return vh.List(parts)
		}
		var rts []string
		if c.tree() > 0 {
			for _, k := range vh.SortedKeys(routeTbl) {
				rts = append(rts, routeTbl[k])
			}
		}
		term := fmt.Sprintf("mkCase %s %s %s %s [\n  %s]", vh.Z(c.RT), tbl(nameTbl), tbl(valueTbl), vh.List(rts), strings.Join(hist, ";\n  "))
		nontrivial := tags["post-intersects-stored"]+tags["post-after-stored-interval"]+tags["post-before-stored-interval"] > 0
		run.Add(term, c, nontrivial)
		for _, v := range viol {
			run.Violate(v.Key, v.What, v.Case)
		}
		for _, k := range vh.SortedKeys(tags) {
			run.Count("cases_with_branch", k)
		}
		run.Count("transport", c.Transport)
		run.Count("per_alertname_limit", fmt.Sprintf("%d", c.Limit))
		run.Count("routing_tree", fmt.Sprintf("%d", c.tree()))
		run.Count("mode", "mode="+c.Mode)
		run.Count("history_len", fmt.Sprintf("%02d-%02d", len(c.Ops)/5*5, len(c.Ops)/5*5+4))
	}
	if err := run.Finish("random POST/direct-Put/sleep histories over a few label sets (incl. empty-valued and invalid labels, values differing only in white space / case, unusual timestamp literals from the epoch to year 9999, a fifth of the cases with the per-alertname limit on at capacity) against the real api/v2 handlers + provider/mem under synctest; gc runs on the provider's own ticker; after every op GET /api/v2/alerts and the provider's full list are recorded; non-trivial = some POST met an already stored alert of its label set; distinct by full history text"); err != nil {
		t.Fatal(err)
	}
}

var _ = http.StatusOK
