//go:build verif && appsysworker

package worker

import (
	"fmt"
	"sort"
	"strings"
	"time"
)

// Common instants of the real-time scenarios.
const (
	gw    = 1 * time.Second // group_wait
	gi    = 2 * time.Second // group_interval
	slack = 2 * time.Second // an observation within bound+slack is on time
	late  = 6 * time.Second // ... within bound+slack+late is "late": counted inconclusive; beyond: it never happened
)

func init() {
	for _, k := range []string{"steady", "retry-5xx", "reload-same", "reload-http", "reload-add", "reload-inflight-email", "reload-inflight-webhook", "restart", "repeat"} {
		register("C04", k, c04Scenario)
	}
}

// groupOf names the group a recorded notification is about (label g of the group labels; discord/email carry it in
// the title / subject the harness configured).
func groupOf(r Req) string {
	if r.Kind == "webhook" {
		return r.Msg.GroupLabels["g"]
	}
	if i := strings.Index(r.Raw, "g="); i >= 0 {
		f := strings.Fields(r.Raw[i+2:])
		if len(f) > 0 {
			return strings.Trim(f[0], `",}`)
		}
	}
	return ""
}

type c04Alert struct{ G, ID string }

// sel returns the notifications to endpoint ep about group g with the given status that were delivered: not cut off
// by the client and not answered with an error (requests still in flight count).
func sel(reqs []Req, ep, g, status string) []Req {
	var out []Req
	for _, r := range reqs {
		if r.Name == ep && groupOf(r) == g && r.Msg.Status == status && !r.Aborted && r.Code < 300 {
			out = append(out, r)
		}
	}
	return out
}

// selDone: like sel, but only requests that have been answered (a request still in flight may yet be answered with an
// error).
func selDone(reqs []Req, ep, g, status string) []Req {
	var out []Req
	for _, r := range sel(reqs, ep, g, status) {
		if !r.Done.IsZero() {
			out = append(out, r)
		}
	}
	return out
}

func c04Scenario(s *sc) {
	kind := s.c.Kind
	// ---- configuration ----
	ri := time.Hour
	if kind == "repeat" {
		ri = 6 * time.Second
	}
	gw := gw
	smtpDelay := 2 * time.Second
	if kind == "reload-inflight-email" {
		// The old dispatcher's groups are not waited for by a reload: a delivery that cannot be cancelled (SMTP) goes on
		// in the background and writes its log entry when it ends. The new dispatcher must therefore flush AFTER that:
		// a group_wait longer than the delivery, and alerts young enough at the reload to get the full group_wait.
		gw = 3 * time.Second
	}
	rc := Recv{Name: "r0", Hooks: []Hook{{SendResolved: true}, {SendResolved: false}}, Discord: 1}
	if kind == "reload-inflight-email" {
		rc.Email = true
	}
	gi := gi
	if kind == "retry-5xx" {
		// a long group_interval tells a retry INSIDE the flush (about 1-3 s of backoff) from a second try by the next
		// flush (>= 10 s later, beyond the late bound): without the inner retry the delivery counts as never made
		gi = 10 * time.Second
	}
	conf := Conf{Root: Route{Receiver: "r0", GroupBy: []string{"g"}, GW: gw, GI: gi, RI: ri}, Receivers: []Recv{rc}}
	rc1 := Recv{Name: "r1", Hooks: []Hook{{SendResolved: true}}}
	two := s.r.Bool()
	if two { // every alert is routed to r1 as well (a matching child with continue, then a matching child for r0)
		conf.Receivers = append(conf.Receivers, rc1)
		conf.Root.Routes = []Route{{Receiver: "r1", Matchers: []string{`alertname="A"`}, Continue: true}, {Receiver: "r0", Matchers: []string{`alertname="A"`}}}
	}
	sendResolved := map[string]bool{"r0.w0": true, "r0.w1": false, "r0.d0": true, "r0.e0": true, "r0.w2": true, "r1.w0": true}
	// ---- alerts: one or two groups, 1..3 alerts in the first ----
	var alerts []c04Alert
	n1 := 1 + s.r.Intn(3)
	for i := 0; i < n1; i++ {
		alerts = append(alerts, c04Alert{"g1", fmt.Sprintf("a%d", i)})
	}
	if s.r.Bool() && kind != "reload-inflight-webhook" && kind != "retry-5xx" { // (retry-5xx: both scripted failures must hit the same group) // (one group there: the only request before the reload is the slow one)
		alerts = append(alerts, c04Alert{"g2", "b0"})
	}
	groups := map[string][]string{}
	for _, a := range alerts {
		groups[a.G] = append(groups[a.G], a.ID)
	}
	gnames := make([]string, 0, len(groups))
	for g := range groups {
		gnames = append(gnames, g)
	}
	sort.Strings(gnames)
	s.logf("kind=%s repeat_interval=%s groups=%v", kind, ri, groups)

	in, err := s.instance(nil)
	s.must(err, "instance")
	if kind == "reload-inflight-email" {
		in.Sink.SMTPDelay(smtpDelay)
	}
	if kind == "reload-inflight-webhook" {
		in.Sink.Script("r0.w0", Resp{DelayMs: 3000})
	}
	if kind == "retry-5xx" {
		// recoverable failures first: the retry loop inside the flush must go on until a send succeeds
		in.Sink.Script("r0.w0", Resp{Code: 500}, Resp{Code: 503}, Resp{Code: 200})
	}
	s.must(in.WriteConfig(conf.YAML(in.Sink)), "write config")
	s.must(in.Start(), "start")

	startsAt := time.Now().Add(-100 * time.Millisecond)
	if kind == "reload-inflight-email" {
		startsAt = time.Now().Add(8 * time.Second)
	}
	post := func(ends time.Time) time.Time {
		var as []AlertIn
		for _, a := range alerts {
			st, en := startsAt, ends
			as = append(as, AlertIn{Labels: map[string]string{"alertname": "A", "g": a.G, "id": a.ID}, StartsAt: &st, EndsAt: &en})
		}
		t := time.Now()
		_, err := in.PostAlerts(as)
		s.must(err, "post alerts")
		return t
	}
	endpoints := rc.Endpoints()
	if two {
		endpoints = append(endpoints, rc1.Endpoints()...)
	}
	tPost := post(time.Now().Add(10 * time.Minute))
	s.logf("posted %d firing alerts", len(alerts))

	// ---- first notification: every integration, every group, within group_wait (+slack) ----
	inflightEP := map[string]string{"reload-inflight-email": "r0.e0", "reload-inflight-webhook": "r0.w0"}[kind]
	firstOK := func(reqs []Req) bool {
		for _, ep := range endpoints {
			for _, g := range gnames {
				if ep == inflightEP {
					continue
				}
				if len(selDone(reqs, ep, g, "firing")) == 0 {
					return false
				}
			}
		}
		return true
	}
	backoff := time.Duration(0)
	if kind == "retry-5xx" {
		backoff = 3 * time.Second // two retries of the exponential backoff (0.5 s and 0.75 s, each randomised by +-50%)
	}
	if !in.Sink.WaitFor(tPost.Add(gw+backoff+slack), firstOK) {
		if in.Sink.WaitFor(tPost.Add(gw+backoff+slack+late), firstOK) {
			s.inconclusive("first notification later than group_wait+%s", backoff+slack)
			return
		}
		for _, ep := range endpoints {
			for _, g := range gnames {
				if ep != inflightEP && len(sel(in.Sink.Reqs(), ep, g, "firing")) == 0 {
					s.violate("no-firing-notification", "integration %s got no firing notification for group %s within group_wait+%s", ep, g, backoff+slack+late)
				}
			}
		}
		return
	}
	first := map[string]time.Time{} // ep/g -> arrival of the first firing notification
	for _, ep := range endpoints {
		for _, g := range gnames {
			rs := sel(in.Sink.Reqs(), ep, g, "firing")
			if len(rs) == 0 {
				continue
			}
			first[ep+"/"+g] = rs[0].T
			if rs[0].T.Before(tPost.Add(gw - 10*time.Millisecond)) {
				s.violate("notified-before-group-wait", "integration %s was notified %.3fs after the alert was posted, group_wait is %s", ep, rs[0].T.Sub(tPost).Seconds(), gw)
			}
			if rs[0].Kind == "webhook" {
				if got := rs[0].Msg.IDs("firing"); strings.Join(got, ",") != strings.Join(sorted(groups[g]), ",") {
					s.inconclusive("first flush of group %s did not hold every posted alert (%v)", g, got)
					return
				}
			}
		}
	}
	s.logf("first notifications complete")
	s.count("first-notification-on-time")
	// the event must not race with the tail of the first deliveries: every request answered, plus a margin for the
	// client side to read the answer and write its log entry
	allDone := func(reqs []Req) bool {
		for _, r := range reqs {
			if r.Done.IsZero() && r.Name != inflightEP {
				return false
			}
		}
		return true
	}
	in.Sink.WaitFor(time.Now().Add(5*time.Second), allDone)
	if !in.ClientSettled(inflightEP, 0) {
		s.inconclusive("the application had not returned from its first deliveries 8s after the receivers answered them")
		return
	}
	quiet := time.Now().Add(time.Second)
	sleepTo := func(t time.Time) {
		if t.Before(quiet) {
			t = quiet
		}
		time.Sleep(time.Until(t))
	}

	// ---- the event ----
	var tEvent time.Time // the instant after which the (new) dispatcher is live
	newEP := ""
	switch kind {
	case "steady", "repeat":
		tEvent = time.Now()
	case "retry-5xx":
		tEvent = time.Now()
		// What the product guarantees: a failed attempt does not discharge the notification - it is tried again (inside
		// the flush, or by a later flush) until a send succeeds. That every group has a DELIVERED notification on r0.w0
		// is already established above (its absence is reported as no-firing-notification). How many attempts fail before
		// is not guaranteed: the two scripted failures are per endpoint, so two groups share them (one failure each), and
		// backoff instants are the product's own. Judged per (endpoint, group): every answered failure is followed by a
		// delivery of the same group.
		nFailed := 0
		for _, g := range gnames {
			var lastFail time.Time
			for _, r := range in.Sink.Of("r0.w0") {
				if groupOf(r) == g && !r.Done.IsZero() && r.Code >= 500 {
					nFailed++
					if r.T.After(lastFail) {
						lastFail = r.T
					}
				}
			}
			ds := selDone(in.Sink.Reqs(), "r0.w0", g, "firing")
			if !lastFail.IsZero() && (len(ds) == 0 || !ds[len(ds)-1].T.After(lastFail)) {
				// (not reachable while the script only fails the first two requests; kept as the statement of the oracle)
				s.violate("failed-delivery-not-retried", "group %s: the receiver answered an attempt with a 5xx and no delivered notification followed it", g)
				return
			}
		}
		if nFailed == 0 {
			s.inconclusive("the scripted receiver failures were not exercised")
			return
		}
		s.count("failed-attempts-followed-by-a-delivery")
	case "reload-same", "reload-http", "reload-add":
		sleepTo(tPost.Add(gw + time.Second))
		if kind == "reload-add" {
			rc2 := rc
			rc2.Hooks = append(append([]Hook{}, rc.Hooks...), Hook{SendResolved: true})
			conf2 := conf
			conf2.Receivers = []Recv{rc2}
			if two {
				conf2.Receivers = append(conf2.Receivers, rc1)
			}
			s.must(in.WriteConfig(conf2.YAML(in.Sink)), "write config 2")
			newEP = "r0.w2"
			endpoints = rc2.Endpoints()
			if two {
				endpoints = append(endpoints, rc1.Endpoints()...)
			}
		}
		if kind == "reload-http" {
			code, body, err := in.ReloadHTTP()
			s.must(err, "reload request")
			if code != 200 {
				s.violate("valid-reload-rejected", "POST /-/reload of an unchanged valid configuration answered %d %s", code, strings.TrimSpace(body))
				return
			}
		} else if err := in.Reload(); err != nil {
			s.violate("valid-reload-rejected", "Reload of a valid configuration failed: %v", err)
			return
		}
		tEvent = time.Now()
		s.logf("reload done")
	case "reload-inflight-email", "reload-inflight-webhook":
		// wait until the slow delivery is in flight, then reload at once
		inflight := func(reqs []Req) bool {
			for _, r := range reqs {
				if r.Name == inflightEP {
					return true
				}
			}
			return false
		}
		if !in.Sink.WaitFor(tPost.Add(gw+slack+late), inflight) {
			s.violate("no-firing-notification", "integration %s got no firing notification within group_wait+%s", inflightEP, slack+late)
			return
		}
		time.Sleep(time.Until(quiet)) // the fast siblings' deliveries are over on both sides
		tR0 := time.Now()
		err := in.Reload()
		tEvent = time.Now()
		if err != nil {
			s.violate("valid-reload-rejected", "Reload of a valid configuration failed: %v", err)
			return
		}
		s.logf("reload issued while the delivery to %s was in flight; took %.2fs", inflightEP, tEvent.Sub(tR0).Seconds())
		if kind == "reload-inflight-webhook" {
			in.Sink.WaitFor(time.Now().Add(2*time.Second), func(reqs []Req) bool {
				for _, r := range reqs {
					if r.Name == inflightEP {
						return !r.Done.IsZero()
					}
				}
				return false
			})
			if rs := in.Sink.Of(inflightEP); !rs[0].Aborted {
				s.inconclusive("the slow webhook request was not cut off by the reload")
				return
			}
			s.count("in-flight-webhook-request-aborted-by-reload")
		}
		rs := in.Sink.Of(inflightEP)
		if kind == "reload-inflight-email" {
			if !rs[0].Done.IsZero() && rs[0].Done.Before(tR0) {
				s.inconclusive("the slow delivery was not in flight when the reload began")
				return
			}
			first[inflightEP+"/"+groupOf(rs[0])] = rs[0].T
			// judge only when the delivery (and the log write that follows it) ended well before the first flush of the
			// new dispatcher, which comes group_wait after the reload for these young alerts
			for _, r := range rs {
				if r.Done.IsZero() {
					in.Sink.WaitFor(time.Now().Add(smtpDelay+time.Second), func(reqs []Req) bool {
						for _, q := range reqs {
							if q.Name == inflightEP && q.Done.IsZero() {
								return false
							}
						}
						return true
					})
				}
			}
			for _, r := range in.Sink.Of(inflightEP) {
				if r.Done.IsZero() || r.Done.Add(1200*time.Millisecond).After(tEvent.Add(gw)) || !startsAt.Add(gw).After(tEvent) {
					s.inconclusive("the slow delivery did not end well before the first flush after the reload")
					return
				}
			}
			s.count("in-flight-email-outlived-the-reload")
		}
	case "restart":
		sleepTo(tPost.Add(gw + time.Second))
		s.must(in.Stop(), "stop")
		s.must(in.Start(), "start again on the same data dir")
		post(time.Now().Add(10 * time.Minute))
		tEvent = time.Now()
		s.logf("restarted on the same data dir and re-posted the same alerts")
	}

	// ---- observation window: at least one flush of every group on the live dispatcher ----
	window := gw + gi + 500*time.Millisecond
	if kind == "retry-5xx" {
		window = 2 * time.Second
	}
	if newEP != "" {
		ok := func(reqs []Req) bool {
			for _, g := range gnames {
				if len(selDone(reqs, newEP, g, "firing")) == 0 {
					return false
				}
			}
			return true
		}
		if !in.Sink.WaitFor(tEvent.Add(gw+slack), ok) {
			if in.Sink.WaitFor(tEvent.Add(gw+slack+late), ok) {
				s.inconclusive("notification of the added integration later than group_wait+%s after the reload", slack)
			} else {
				s.violate("added-integration-not-notified", "the reload added integration %s to the receiver; it got no firing notification for the still firing group within %s", newEP, gw+slack+late)
			}
		} else {
			s.count("added-integration-notified")
		}
	}
	if kind == "reload-inflight-webhook" {
		// the aborted delivery must be made up for by the new dispatcher
		ok := func(reqs []Req) bool {
			for _, g := range gnames {
				if len(selDone(reqs, inflightEP, g, "firing")) == 0 {
					return false
				}
			}
			return true
		}
		if !in.Sink.WaitFor(tEvent.Add(gw+slack), ok) {
			if in.Sink.WaitFor(tEvent.Add(gw+slack+late), ok) {
				s.inconclusive("re-delivery after the aborted request later than group_wait+%s", slack)
			} else {
				s.violate("aborted-delivery-never-repeated", "the delivery to %s was cut off by the reload and not repeated within %s", inflightEP, gw+slack+late)
			}
		}
		for _, g := range gnames {
			rs := sel(in.Sink.Reqs(), inflightEP, g, "firing")
			if len(rs) > 0 {
				first[inflightEP+"/"+g] = rs[0].T
			}
		}
	}
	if kind == "repeat" {
		// the unchanged group is notified again once repeat_interval has elapsed, at a flush tick, not earlier
		ok := func(reqs []Req) bool {
			for _, ep := range endpoints {
				for _, g := range gnames {
					if len(sel(reqs, ep, g, "firing")) < 2 {
						return false
					}
				}
			}
			return true
		}
		var firstMax time.Time
		for _, t := range first {
			if t.After(firstMax) {
				firstMax = t
			}
		}
		bound := firstMax.Add(ri + 2*gi)
		onTime := in.Sink.WaitFor(bound.Add(slack), ok)
		if !onTime && !in.Sink.WaitFor(bound.Add(slack+late), ok) {
			s.violate("repeat-missing", "unchanged firing group: no second notification to every integration within repeat_interval+2*group_interval+%s", slack+late)
		} else if !onTime {
			s.inconclusive("repeat later than repeat_interval+2*group_interval+%s", slack)
		} else {
			s.count("repeat-on-time")
		}
		for _, ep := range endpoints {
			for _, g := range gnames {
				rs := sel(in.Sink.Reqs(), ep, g, "firing")
				if len(rs) >= 2 && rs[1].T.Sub(rs[0].T) < ri-50*time.Millisecond {
					s.violate("repeat-before-repeat-interval", "unchanged group %s: integration %s was notified again %.3fs after the first notification, repeat_interval is %s", g, ep, rs[1].T.Sub(rs[0].T).Seconds(), ri)
				}
			}
		}
		window = 0
	}
	time.Sleep(time.Until(tEvent.Add(window)))

	// ---- judge: no notification of the unchanged group besides the expected ones ----
	judgeFiring := func(phase string, until time.Time) {
		reqs := in.Sink.Reqs()
		for _, ep := range endpoints {
			for _, g := range gnames {
				want := 1
				if kind == "repeat" {
					want = 2
				}
				var rs []Req
				for _, r := range sel(reqs, ep, g, "firing") {
					if r.T.Before(until) {
						rs = append(rs, r)
					}
				}
				if kind == "repeat" && len(rs) == 3 && rs[2].T.Sub(rs[1].T) >= ri {
					continue // a third one that is due again
				}
				if len(rs) > want {
					extra := rs[want]
					when := "without any change"
					switch {
					case kind == "restart" && extra.T.After(tEvent.Add(-time.Second)):
						when = "after the restart on the same data dir"
					case strings.HasPrefix(kind, "reload") && extra.T.After(tEvent.Add(-time.Second)):
						when = "after the reload"
					}
					s.violate("unchanged-group-renotified", "%s: integration %s got %d firing notifications for unchanged group %s (repeat_interval %s); the extra one came %.2fs after the first, %s", phase, ep, len(rs), g, ri, extra.T.Sub(rs[0].T).Seconds(), when)
				}
			}
		}
	}
	tResolve := time.Now()
	s.logf("observation window over: %s", summary(in.Sink.Reqs()))
	judgeFiring("while firing", tResolve)
	if s.violated() {
		return
	}
	s.count("no-renotification-judged")
	if kind == "retry-5xx" {
		return // (the resolved round would take another group_interval of 10 s)
	}

	// ---- resolve: exactly one resolved notification per integration that wants them ----
	time.Sleep(time.Until(startsAt.Add(200 * time.Millisecond)))
	post(time.Now().Add(-10 * time.Millisecond))
	tResolve = time.Now()
	s.logf("posted the alerts as resolved")
	resOK := func(reqs []Req) bool {
		for _, ep := range endpoints {
			for _, g := range gnames {
				if sendResolved[ep] && len(selDone(reqs, ep, g, "resolved")) == 0 {
					return false
				}
			}
		}
		return true
	}
	if !in.Sink.WaitFor(tResolve.Add(gi+slack), resOK) {
		if in.Sink.WaitFor(tResolve.Add(gi+slack+late), resOK) {
			s.inconclusive("resolved notification later than group_interval+%s", slack)
			return
		}
		for _, ep := range endpoints {
			for _, g := range gnames {
				if sendResolved[ep] && len(sel(in.Sink.Reqs(), ep, g, "resolved")) == 0 {
					s.violate("no-resolved-notification", "integration %s (send_resolved) got no resolved notification for group %s within group_interval+%s", ep, g, slack+late)
				}
			}
		}
		return
	}
	time.Sleep(gi + 700*time.Millisecond)
	reqs := in.Sink.Reqs()
	s.logf("end: %s", summary(reqs))
	for _, ep := range endpoints {
		for _, g := range gnames {
			rs := sel(reqs, ep, g, "resolved")
			switch {
			case !sendResolved[ep] && len(rs) > 0:
				s.violate("resolved-sent-despite-send-resolved-false", "integration %s has send_resolved=false and got a resolved notification for group %s", ep, g)
			case sendResolved[ep] && len(rs) > 1:
				s.violate("resolved-notified-twice", "integration %s got %d resolved notifications for group %s", ep, len(rs), g)
			case sendResolved[ep] && rs[0].Kind == "webhook":
				if got := rs[0].Msg.IDs("resolved"); len(got) != len(rs[0].Msg.Alerts) {
					s.violate("resolved-notification-lists-firing", "resolved notification to %s lists alerts that are not resolved: %+v", ep, rs[0].Msg.Alerts)
				}
			}
		}
	}
	s.count("resolved-once-judged")
}

// summary renders the requests seen so far as "endpoint:status@seconds-after-the-first-request".
func summary(reqs []Req) string {
	var sb strings.Builder
	for i, r := range reqs {
		if i > 0 {
			sb.WriteString(" ")
		}
		st := r.Msg.Status
		if r.Aborted {
			st += "(aborted)"
		}
		fmt.Fprintf(&sb, "%s:%s:%s@%.2f", r.Name, groupOf(r), st, r.T.Sub(reqs[0].T).Seconds())
	}
	return sb.String()
}

func sorted(xs []string) []string {
	out := append([]string{}, xs...)
	sort.Strings(out)
	return out
}
