//go:build verif && appsysworker

package worker

import (
	"fmt"
	"sort"
	"strings"
	"time"
)

func init() {
	register("C13", "status-silenced-and-inhibited", c13Status)
	// C03: an inhibited alert is reported suppressed with its inhibiting alert; C02: the reported silence status equals
	// the stored silences - also when both hold for one alert, and in the single cases
	register("C03", "status-silenced-and-inhibited", c13Status)
	register("C02", "status-silenced-and-inhibited", c13Status)
	multiplicity["C03/status-silenced-and-inhibited"] = 3
	// the same inside a group that a mute time interval mutes right now: the grouped view still reports who silences
	// and who inhibits each alert
	for _, p := range []string{"C13", "C03", "C02"} {
		register(p, "status-silenced-and-inhibited-in-a-muted-group", c13Status)
		multiplicity[p+"/status-silenced-and-inhibited-in-a-muted-group"] = 2
	}
	multiplicity["C02/status-silenced-and-inhibited"] = 3
	register("C13", "muted-by-names-the-current-interval", c13MutedBy)
	multiplicity["C13/status-silenced-and-inhibited"] = 3
	multiplicity["C13/muted-by-names-the-current-interval"] = 2
}

func c13Status(s *sc) {
	mutedGroup := strings.Contains(s.c.Kind, "muted-group")
	conf := Conf{
		Root:      Route{Receiver: "r0", GroupBy: []string{"id"}, GW: gw, GI: gi, RI: time.Hour},
		Receivers: []Recv{{Name: "r0", Hooks: []Hook{{SendResolved: false}}}},
		Inhibit:   []Inhibit{{Source: []string{`sev="crit"`}, Target: []string{`sev="warn"`}, Equal: []string{"svc"}}},
	}
	if mutedGroup {
		// every alert goes through a route that a mute interval containing the present instant mutes
		// (ONE group for all alerts: an alert that is alone in its group and inhibited is dropped before the time-interval
		// stages run, so its group would never be marked muted)
		conf.Root.Routes = []Route{{Receiver: "r0", Matchers: []string{`alertname="A"`}, Mute: []string{"ti"}, GroupBy: []string{"alertname"}}}
		conf.Intervals = []Interval{{Name: "ti", Times: rangesAround(time.Now())}}
	}
	in, err := s.instance(nil)
	s.must(err, "instance")
	s.must(in.WriteConfig(conf.YAML(in.Sink)), "write config")
	s.must(in.Start(), "start")
	now := time.Now()
	mk := func(ms ...Matcher) string {
		id, _, err := in.PostSilence(SilenceIn{Matchers: ms, StartsAt: now, EndsAt: now.Add(time.Hour), CreatedBy: "appsys", Comment: "c13"})
		s.must(err, "create silence")
		return id
	}
	silBoth := []string{mk(Matcher{Name: "id", Value: "both", IsEqual: true})}
	if s.r.Bool() {
		silBoth = append(silBoth, mk(Matcher{Name: "id", Value: "bo.*", IsRegex: true, IsEqual: true}))
	}
	sort.Strings(silBoth)
	silSil := []string{mk(Matcher{Name: "id", Value: "sil", IsEqual: true})}
	end := now.Add(10 * time.Minute)
	al := func(id, sev, svc string) AlertIn {
		return AlertIn{Labels: map[string]string{"alertname": "A", "id": id, "sev": sev, "svc": svc}, EndsAt: &end}
	}
	alerts := []AlertIn{al("src", "crit", "a"), al("both", "warn", "a"), al("inh", "warn", "a"), al("sil", "warn", "b"), al("act", "warn", "b")}
	if s.r.Bool() { // order of arrival must not matter
		alerts[0], alerts[4] = alerts[4], alerts[0]
	}
	tPost := time.Now()
	_, err = in.PostAlerts(alerts)
	s.must(err, "post alerts")

	get := func(q string) map[string]AlertOut {
		as, err := in.GetAlerts(q)
		s.must(err, "GET alerts "+q)
		out := map[string]AlertOut{}
		for _, a := range as {
			out[a.Labels["id"]] = a
		}
		return out
	}
	// the inhibitor learns about the source asynchronously: wait until the plain inhibited alert shows it
	var full map[string]AlertOut
	dl := time.Now().Add(10 * time.Second)
	for {
		full = get("")
		if a, ok := full["inh"]; ok && len(a.Status.InhibitedBy) > 0 {
			break
		}
		if time.Now().After(dl) {
			s.violate("inhibited-alert-not-reported-inhibited", "10s after the source alert was accepted GET /api/v2/alerts still reports no inhibitedBy for the target alert (status %+v)", full["inh"].Status)
			return
		}
		time.Sleep(50 * time.Millisecond)
	}
	tInhVisible := time.Now()
	// judge a list fetched AFTER the inhibitor is known to have the source: within the list fetched above, alerts
	// evaluated before the source arrived at the inhibitor may legitimately lack inhibitedBy
	full = get("")
	fpSrc := full["src"].Fingerprint
	type want struct {
		state    string
		sil, inh []string
	}
	wants := map[string]want{
		"src":  {"active", nil, nil},
		"act":  {"active", nil, nil},
		"sil":  {"suppressed", silSil, nil},
		"inh":  {"suppressed", nil, []string{fpSrc}},
		"both": {"suppressed", silBoth, []string{fpSrc}},
	}
	for _, id := range []string{"both", "inh", "sil", "act", "src"} {
		w, a := wants[id], full[id]
		gs, gin := sorted(a.Status.SilencedBy), sorted(a.Status.InhibitedBy)
		if a.Status.State != w.state || strings.Join(gs, ",") != strings.Join(w.sil, ",") || strings.Join(gin, ",") != strings.Join(w.inh, ",") {
			key := "alert-status-wrong"
			if id == "both" {
				key = "silenced-and-inhibited-alert-status-incomplete"
			}
			s.violate(key, "alert %q: GET /api/v2/alerts reports state=%s silencedBy=%v inhibitedBy=%v; the stored silences and the firing source alert give state=%s silencedBy=%v inhibitedBy=%v", id, a.Status.State, gs, gin, w.state, w.sil, w.inh)
		}
	}
	if s.violated() {
		return
	}
	s.count("status-block-judged")
	// ---- filters agree with the status block ----
	for _, sil := range []bool{true, false} {
		for _, inh := range []bool{true, false} {
			for _, act := range []bool{true, false} {
				got := get(fmt.Sprintf("silenced=%v&inhibited=%v&active=%v", sil, inh, act))
				var wantIDs, gotIDs []string
				for id, a := range full {
					if (!act && a.Status.State == "active") || (!sil && len(a.Status.SilencedBy) > 0) || (!inh && len(a.Status.InhibitedBy) > 0) {
						continue
					}
					wantIDs = append(wantIDs, id)
				}
				for id, a := range got {
					gotIDs = append(gotIDs, id)
					if f := full[id]; strings.Join(sorted(a.Status.SilencedBy), ",") != strings.Join(sorted(f.Status.SilencedBy), ",") || strings.Join(a.Status.InhibitedBy, ",") != strings.Join(f.Status.InhibitedBy, ",") {
						s.violate("filtered-status-differs", "alert %q has a different status block under ?silenced=%v&inhibited=%v&active=%v: %+v vs %+v", id, sil, inh, act, a.Status, f.Status)
					}
				}
				sort.Strings(wantIDs)
				sort.Strings(gotIDs)
				if strings.Join(wantIDs, ",") != strings.Join(gotIDs, ",") {
					s.violate("filter-disagrees-with-status", "GET /api/v2/alerts?silenced=%v&inhibited=%v&active=%v returns %v; by the status blocks of the unfiltered list it must return %v", sil, inh, act, gotIDs, wantIDs)
				}
			}
		}
	}
	// ---- the grouped view carries the same status ----
	if mutedGroup {
		// wait until the groups have flushed once (the flush marks them muted by the interval)
		dl := tPost.Add(gw + slack + late)
		for {
			groups, err := in.GetGroups()
			s.must(err, "GET groups")
			marked := 0
			for _, g := range groups {
				for _, a := range g.Alerts {
					if strings.Join(a.Status.MutedBy, ",") == "ti" {
						marked++
					}
				}
			}
			if marked == len(full) {
				break
			}
			if time.Now().After(dl) {
				s.inconclusive("the groups were not reported muted by the interval within group_wait+%s (%d of %d)", slack+late, marked, len(full))
				return
			}
			time.Sleep(100 * time.Millisecond)
		}
	}
	groups, err := in.GetGroups()
	s.must(err, "GET groups")
	seen := 0
	for _, g := range groups {
		for _, a := range g.Alerts {
			seen++
			f := full[a.Labels["id"]]
			wantState := f.Status.State
			if mutedGroup {
				wantState = "suppressed" // muted by the interval, whatever else holds
			}
			if a.Status.State != wantState || strings.Join(sorted(a.Status.SilencedBy), ",") != strings.Join(sorted(f.Status.SilencedBy), ",") || strings.Join(a.Status.InhibitedBy, ",") != strings.Join(f.Status.InhibitedBy, ",") {
				what := ""
				if mutedGroup {
					what = " (its group is muted by time interval ti right now: mutedBy=" + strings.Join(a.Status.MutedBy, ",") + ")"
				}
				s.violate("groups-status-differs-from-alerts-status", "alert %q%s: /alerts/groups reports state=%s silencedBy=%v inhibitedBy=%v, /alerts reports state=%s silencedBy=%v inhibitedBy=%v", a.Labels["id"], what, a.Status.State, a.Status.SilencedBy, a.Status.InhibitedBy, f.Status.State, f.Status.SilencedBy, f.Status.InhibitedBy)
			}
		}
	}
	if seen != len(full) && !s.violated() {
		s.violate("groups-view-incomplete", "/alerts/groups lists %d of the %d alerts", seen, len(full))
	}
	if s.violated() {
		return
	}
	s.count("filters-judged")
	if mutedGroup {
		time.Sleep(time.Until(tPost.Add(gw + 1200*time.Millisecond)))
		if n := len(in.Sink.Reqs()); n > 0 {
			s.violate("muted-group-notified", "every group is inside the mute interval and %d notification(s) went out", n)
			return
		}
		s.count("muted-group-status-judged")
		return
	}
	// ---- and only the unsuppressed alerts are notified ----
	if tInhVisible.After(tPost.Add(gw - 300*time.Millisecond)) {
		s.inconclusive("the inhibitor saw the source alert too close to the first flush to judge the deliveries")
		return
	}
	listed := func(reqs []Req, id string) bool {
		for _, r := range reqs {
			for _, a := range r.Msg.Alerts {
				if a.Labels["id"] == id {
					return true
				}
			}
		}
		return false
	}
	ok := func(reqs []Req) bool { return listed(reqs, "src") && listed(reqs, "act") }
	if !in.Sink.WaitFor(tPost.Add(gw+slack), ok) {
		if !in.Sink.WaitFor(tPost.Add(gw+slack+late), ok) {
			s.violate("active-alert-not-notified", "the active alerts were not notified within group_wait+%s", slack+late)
		} else {
			s.inconclusive("notifications later than group_wait+%s", slack)
		}
		return
	}
	time.Sleep(time.Second)
	for _, id := range []string{"both", "inh", "sil"} {
		if listed(in.Sink.Reqs(), id) {
			s.violate("suppressed-alert-notified", "alert %q is reported %s by the API and was notified", id, wants[id].state)
		}
	}
	s.count("deliveries-judged")
}

// rangesAround renders [center-2h, center+2h) as HH:MM ranges of a day in UTC (split at midnight when needed).
func rangesAround(center time.Time) [][2]string {
	m := center.UTC().Hour()*60 + center.UTC().Minute()
	a, b := ((m-120)%1440+1440)%1440, (m+120)%1440
	f := func(x int) string { return fmt.Sprintf("%02d:%02d", x/60, x%60) }
	if a < b {
		return [][2]string{{f(a), f(b)}}
	}
	out := [][2]string{{f(a), "24:00"}}
	if b > 0 {
		out = append(out, [2]string{"00:00", f(b)})
	}
	return out
}

// mutedByOf polls the grouped view for the alert's mutedBy list until cond holds or the deadline passes.
func mutedByOf(s *sc, in *Instance, id string, deadline time.Time, cond func(state string, mutedBy []string) bool) (string, []string, bool) {
	for {
		groups, err := in.GetGroups()
		s.must(err, "GET groups")
		state, mb, found := "", []string(nil), false
		for _, g := range groups {
			for _, a := range g.Alerts {
				if a.Labels["id"] == id {
					state, mb, found = a.Status.State, a.Status.MutedBy, true
				}
			}
		}
		if found && cond(state, mb) {
			return state, mb, true
		}
		if time.Now().After(deadline) {
			return state, mb, false
		}
		time.Sleep(100 * time.Millisecond)
	}
}

func c13MutedBy(s *sc) {
	now := time.Now()
	near, far := rangesAround(now), rangesAround(now.Add(12*time.Hour))
	mkConf := func(a, b [][2]string, note string) Conf {
		return Conf{
			Root: Route{Receiver: "r0", GroupBy: []string{"id"}, GW: gw, GI: gi, RI: time.Hour,
				Routes: []Route{{Receiver: "r0", Matchers: []string{`grp="m"`}, Mute: []string{"tiA", "tiB"}}}},
			Receivers: []Recv{{Name: "r0", Hooks: []Hook{{SendResolved: false}}}},
			Intervals: []Interval{{Name: "tiA", Times: a}, {Name: "tiB", Times: b}},
			MuteStyle: s.c.Seed%2 == 0,
			Comment:   note,
		}
	}
	in, err := s.instance(nil)
	s.must(err, "instance")
	s.must(in.WriteConfig(mkConf(near, far, "tiA contains now").YAML(in.Sink)), "write config")
	s.must(in.Start(), "start")
	end := now.Add(10 * time.Minute)
	tPost := time.Now()
	_, err = in.PostAlerts([]AlertIn{{Labels: map[string]string{"alertname": "A", "grp": "m", "id": "m1"}, EndsAt: &end}})
	s.must(err, "post alert")
	is := func(want ...string) func(string, []string) bool {
		return func(_ string, mb []string) bool { return strings.Join(mb, ",") == strings.Join(want, ",") }
	}
	step := func(phase string, t0 time.Time, want []string, wantState string) bool {
		st, mb, ok := mutedByOf(s, in, "m1", t0.Add(gw+slack), is(want...))
		if !ok {
			st, mb, ok = mutedByOf(s, in, "m1", t0.Add(gw+slack+late), is(want...))
			if ok {
				s.inconclusive("%s: the grouped view showed the new state later than group_wait+%s", phase, slack)
				return false
			}
			s.violate("muted-by-not-the-interval-that-mutes-now", "%s: /alerts/groups reports mutedBy=%v (state %s) for the group %s after its flush; the intervals that contain the present instant are %v", phase, mb, st, (gw + slack + late).String(), want)
			return false
		}
		if st != wantState {
			s.violate("muted-group-state-wrong", "%s: mutedBy=%v but state=%s, want %s", phase, mb, st, wantState)
			return false
		}
		s.logf("%s: mutedBy=%v state=%s", phase, mb, st)
		return true
	}
	if !step("first flush, tiA contains now", tPost, []string{"tiA"}, "suppressed") {
		return
	}
	if n := len(in.Sink.Reqs()); n > 0 {
		s.violate("muted-group-notified", "the group is inside mute interval tiA and was notified")
		return
	}
	s.must(in.WriteConfig(mkConf(far, near, "tiB contains now").YAML(in.Sink)), "write config 2")
	if err := in.Reload(); err != nil {
		s.violate("valid-reload-rejected", "Reload failed: %v", err)
		return
	}
	if !step("second muted flush, now tiB contains now", time.Now(), []string{"tiB"}, "suppressed") {
		return
	}
	if n := len(in.Sink.Reqs()); n > 0 {
		s.violate("muted-group-notified", "the group is inside mute interval tiB and was notified")
		return
	}
	s.count("two-muted-flushes-by-different-intervals-judged")
	s.must(in.WriteConfig(mkConf(far, far, "no interval contains now").YAML(in.Sink)), "write config 3")
	if err := in.Reload(); err != nil {
		s.violate("valid-reload-rejected", "Reload failed: %v", err)
		return
	}
	t3 := time.Now()
	if !step("third flush, no interval contains now", t3, nil, "active") {
		return
	}
	if !in.Sink.WaitFor(t3.Add(gw+slack+late), func(reqs []Req) bool { return len(reqs) > 0 }) {
		s.violate("unmuted-group-not-notified", "no mute interval contains the present instant any more and the group was not notified within group_wait+%s", slack+late)
		return
	}
	s.count("unmuted-flush-judged")
}

func init() {
	register("C13", "muted-by-across-a-minute-boundary", c13MinuteBoundary)
}

// c13MinuteBoundary: no reload - the SAME group is muted by tiA up to the next minute boundary and by tiB from it on.
// Needs the wall clock to cross a minute boundary: run in full only in the thorough tier (<= 62 s), in the quick tier
// only when the boundary is at most 10 s away.
func c13MinuteBoundary(s *sc) {
	now := time.Now().UTC()
	boundary := now.Truncate(time.Minute).Add(time.Minute)
	if wait := boundary.Sub(now); cp(s.c, "thorough", 0) == 0 && (wait > 10*time.Second || wait < 4*time.Second) {
		s.count("skipped in the quick tier: next minute boundary not 4-10 s away")
		return
	} else if wait < 4*time.Second {
		time.Sleep(wait + 100*time.Millisecond)
		now = time.Now().UTC()
		boundary = now.Truncate(time.Minute).Add(time.Minute)
	}
	f := func(t time.Time) string { return t.Format("15:04") }
	day := func(from, to time.Time) [][2]string { // [from, to) within one UTC day, else split
		if to.Hour() == 0 && to.Minute() == 0 {
			return [][2]string{{f(from), "24:00"}}
		}
		if from.Day() != to.Day() {
			return [][2]string{{f(from), "24:00"}, {"00:00", f(to)}}
		}
		return [][2]string{{f(from), f(to)}}
	}
	conf := Conf{
		Root: Route{Receiver: "r0", GroupBy: []string{"id"}, GW: gw, GI: gi, RI: time.Hour,
			Routes: []Route{{Receiver: "r0", Matchers: []string{`grp="m"`}, Mute: []string{"tiA", "tiB"}}}},
		Receivers: []Recv{{Name: "r0", Hooks: []Hook{{SendResolved: false}}}},
		Intervals: []Interval{{Name: "tiA", Times: day(boundary.Add(-2*time.Hour), boundary)}, {Name: "tiB", Times: day(boundary, boundary.Add(2*time.Hour))}},
	}
	in, err := s.instance(nil)
	s.must(err, "instance")
	s.must(in.WriteConfig(conf.YAML(in.Sink)), "write config")
	s.must(in.Start(), "start")
	end := now.Add(10 * time.Minute)
	tPost := time.Now()
	_, err = in.PostAlerts([]AlertIn{{Labels: map[string]string{"alertname": "A", "grp": "m", "id": "m1"}, EndsAt: &end}})
	s.must(err, "post alert")
	is := func(want string) func(string, []string) bool {
		return func(_ string, mb []string) bool { return strings.Join(mb, ",") == want }
	}
	if time.Until(boundary) < gw+slack {
		s.inconclusive("too close to the minute boundary to see the first muted flush")
		return
	}
	if _, mb, ok := mutedByOf(s, in, "m1", tPost.Add(gw+slack), is("tiA")); !ok {
		if time.Now().After(boundary.Add(-300 * time.Millisecond)) {
			s.inconclusive("the minute boundary passed before the first muted flush was seen")
		} else if _, mb, ok = mutedByOf(s, in, "m1", tPost.Add(gw+slack+late), is("tiA")); ok {
			s.inconclusive("first muted flush later than group_wait+%s", slack)
		} else {
			s.violate("muted-by-not-the-interval-that-mutes-now", "before %s UTC: /alerts/groups reports mutedBy=%v, the interval containing the present instant is tiA", f(boundary), mb)
		}
		return
	}
	s.logf("muted by tiA; waiting for %s UTC", f(boundary))
	time.Sleep(time.Until(boundary))
	// the first flush after the boundary comes within one group_interval
	if st, mb, ok := mutedByOf(s, in, "m1", boundary.Add(gi+slack), is("tiB")); !ok {
		if st, mb, ok = mutedByOf(s, in, "m1", boundary.Add(gi+slack+late), is("tiB")); ok {
			s.inconclusive("first flush after the boundary later than group_interval+%s", slack)
		} else {
			s.violate("muted-by-not-the-interval-that-mutes-now", "%s after %s UTC (several flushes later) /alerts/groups still reports mutedBy=%v (state %s); only tiB contains the present instant", gi+slack+late, f(boundary), mb, st)
		}
		return
	}
	if n := len(in.Sink.Reqs()); n > 0 {
		s.violate("muted-group-notified", "the group was inside a mute interval throughout and was notified")
		return
	}
	s.count("two-consecutive-muted-flushes-by-different-intervals-judged (no reload)")
}
