//go:build verif && appsysworker

package worker

import (
	"context"
	"fmt"
	"net"
	"os"
	"path/filepath"
	"strings"
	"time"
)

// C11: a GRACEFUL stop whose HTTP drain uses up the shutdown budget (a client request still in flight) must still write
// the shutdown snapshots: silences and notification-log entries younger than the last periodic snapshot survive.

func init() {
	register("C11", "graceful-stop-with-stalled-client-short-deadline", c11StalledStop)
	register("C11", "graceful-stop-with-stalled-client-default-budget", c11StalledStop)
	register("C11", "graceful-stop-with-expired-context", c11StalledStop)
}

func c11StalledStop(s *sc) {
	kind := s.c.Kind
	conf := Conf{Root: Route{Receiver: "r0", GroupBy: []string{"id"}, GW: gw, GI: gi, RI: time.Hour}, Receivers: []Recv{{Name: "r0", Hooks: []Hook{{SendResolved: false}}}}}
	in, err := s.instance(nil) // default maintenance interval (15 min): only the shutdown snapshot can persist anything
	s.must(err, "instance")
	s.must(in.WriteConfig(conf.YAML(in.Sink)), "write config")
	s.must(in.Start(), "start")
	now := time.Now()
	sid, _, err := in.PostSilence(SilenceIn{Matchers: []Matcher{{Name: "x", Value: "1", IsEqual: true}}, StartsAt: now, EndsAt: now.Add(time.Hour), CreatedBy: "appsys", Comment: "must survive"})
	s.must(err, "create silence")
	old, end := now.Add(-5*time.Second), now.Add(10*time.Minute)
	al := func(id, x string) AlertIn {
		return AlertIn{Labels: map[string]string{"alertname": "A", "id": id, "x": x}, StartsAt: &old, EndsAt: &end}
	}
	tPost := time.Now()
	_, err = in.PostAlerts([]AlertIn{al("a2", "2")})
	s.must(err, "post alert")
	listed := func(reqs []Req, id string) int {
		n := 0
		for _, r := range reqs {
			for _, a := range r.Msg.Alerts {
				if a.Labels["id"] == id {
					n++
				}
			}
		}
		return n
	}
	if !in.Sink.WaitFor(tPost.Add(gw+slack+late), func(reqs []Req) bool { return listed(reqs, "a2") > 0 }) {
		s.violate("unsilenced-alert-not-notified", "the alert was not notified within group_wait+%s", slack+late)
		return
	}
	if !in.ClientSettled("", 500*time.Millisecond) {
		s.inconclusive("the application had not returned from its delivery 8s after the receiver answered")
		return
	}
	before, err := in.GetSilences()
	s.must(err, "GET silences")
	// a client request that is still in flight when Stop is called: headers and half a body, then silence
	var conn net.Conn
	if !strings.Contains(kind, "expired-context") {
		conn, err = net.DialTimeout("tcp", in.Addr, 5*time.Second)
		s.must(err, "dial")
		defer conn.Close()
		_, err = fmt.Fprintf(conn, "POST /api/v2/alerts HTTP/1.1\r\nHost: %s\r\nContent-Type: application/json\r\nContent-Length: 400\r\n\r\n[{\"labels\":{\"alertname\":", in.Addr)
		s.must(err, "send half a request")
		time.Sleep(200 * time.Millisecond) // the server has the connection in its active state
	}
	ctx, cancel := context.Background(), func() {}
	switch {
	case strings.Contains(kind, "short-deadline"):
		ctx, cancel = context.WithTimeout(context.Background(), 300*time.Millisecond)
	case strings.Contains(kind, "expired-context"):
		c, cf := context.WithCancel(context.Background())
		cf() // an embedder's context that is already done: the drain phase gets no time at all
		ctx, cancel = c, func() {}
	}
	nBefore := len(in.Sink.Reqs())
	t0 := time.Now()
	stopErr := in.StopCtx(ctx)
	cancel()
	s.logf("Stop returned after %.2fs: %v", time.Since(t0).Seconds(), stopErr)
	if conn != nil {
		conn.Close()
	}
	// the files a restart will load: the stop must have left the notification-log snapshot behind (the silences one too)
	for _, f := range []string{"nflog", "silences"} {
		if fi, err := os.Stat(filepath.Join(in.Dir, "data", f)); err != nil || fi.Size() == 0 {
			s.logf("after Stop the snapshot file data/%s is missing or empty (%v)", f, err)
			s.count("snapshot file missing or empty after the stop: " + f)
		}
	}
	s.must(in.Start(), "start again on the same data dir")
	after, err := in.GetSilences()
	s.must(err, "GET silences after restart")
	how := map[string]string{
		"graceful-stop-with-stalled-client-short-deadline": "graceful Stop with a 300 ms deadline while one client request was still in flight",
		"graceful-stop-with-stalled-client-default-budget": "graceful Stop (background context, built-in budget) while one client request was still in flight",
		"graceful-stop-with-expired-context":               "graceful Stop with a context that was already done",
	}[kind]
	if len(before) != 1 || len(after) != 1 || after[0].ID != sid || silKey(after[0]) != silKey(before[0]) {
		s.violate("silence-lost-at-restart", "%s (it returned %v): %d silence(s) before, %d after the restart on the same data dir - the shutdown snapshot of the silences was not written", how, stopErr, len(before), len(after))
	}
	tPost = time.Now()
	_, err = in.PostAlerts([]AlertIn{al("a2", "2"), al("a6", "6"), al("a1", "1")})
	s.must(err, "post alerts after restart")
	ctl := func(reqs []Req) bool { return listed(reqs[nBefore:], "a6") > 0 }
	if !in.Sink.WaitFor(tPost.Add(gw+slack), ctl) {
		if in.Sink.WaitFor(tPost.Add(gw+slack+late), ctl) {
			s.inconclusive("control notification after the restart later than group_wait+%s", slack)
		} else {
			s.violate("unsilenced-alert-not-notified", "after the restart the new alert a6 was not notified within group_wait+%s", slack+late)
		}
		return
	}
	time.Sleep(1500 * time.Millisecond)
	reqs := in.Sink.Reqs()[nBefore:]
	if listed(reqs, "a2") > 0 {
		s.violate("notification-repeated-after-restart", "%s (it returned %v): the unchanged firing alert, notified before, was notified again after the restart on the same data dir (repeat_interval 1h) - the shutdown snapshot of the notification log was not written", how, stopErr)
	}
	if !s.violated() && listed(reqs, "a1") > 0 {
		s.violate("active-silence-does-not-mute-after-restart", "the alert matching the surviving silence %s was notified after the restart", sid)
	}
	if !s.violated() {
		s.count("state-survives-a-graceful-stop-that-spent-its-budget")
	}
}
