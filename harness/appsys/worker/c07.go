//go:build verif && appsysworker

package worker

import (
	"fmt"
	"regexp"
	"sort"
	"strings"
	"time"

	"verifharness/vh"
)

func init() {
	register("C07", "tree-failed-reload-bad-ca", c07Scenario)
	register("C07", "tree-failed-reload-bad-template", c07Scenario)
	register("C07", "tree-failed-reload-bad-tracing", c07Scenario)
	multiplicity["C07/tree-failed-reload-bad-tracing"] = 3
	multiplicity["C07/tree-failed-reload-bad-ca"] = 3
	multiplicity["C07/tree-failed-reload-bad-template"] = 3
}

// ---- reference router (written against the documentation, independent of dispatch.Route) ----

type refMatcher struct {
	name, op, val string
}

func parseRefMatcher(s string) refMatcher {
	for _, op := range []string{"=~", "!~", "!=", "="} {
		if i := strings.Index(s, op); i > 0 {
			return refMatcher{s[:i], op, strings.Trim(s[i+len(op):], `"`)}
		}
	}
	panic("bad matcher " + s)
}

func (m refMatcher) holds(ls map[string]string) bool {
	v := ls[m.name] // absent label = empty string
	switch m.op {
	case "=":
		return v == m.val
	case "!=":
		return v != m.val
	case "=~":
		return regexp.MustCompile("^(?:" + m.val + ")$").MatchString(v)
	default:
		return !regexp.MustCompile("^(?:" + m.val + ")$").MatchString(v)
	}
}

// refRoute: the receivers (one per chosen route, in depth-first order) for a label set.
func refRoute(rt Route, ls map[string]string) []string {
	for _, m := range rt.Matchers {
		if !parseRefMatcher(m).holds(ls) {
			return nil
		}
	}
	for n, v := range rt.Match { // deprecated forms: match = equality, match_re = anchored regex; all are conjuncts
		if !(refMatcher{n, "=", v}).holds(ls) {
			return nil
		}
	}
	for n, v := range rt.MatchRE {
		if !(refMatcher{n, "=~", v}).holds(ls) {
			return nil
		}
	}
	var out []string
	for _, ch := range rt.Routes {
		got := refRoute(ch, ls)
		out = append(out, got...)
		if len(got) > 0 && !ch.Continue {
			break
		}
	}
	if len(out) == 0 {
		out = []string{rt.Receiver}
	}
	return out
}

var c07Matchers = []string{`a="x"`, `a="y"`, `b="x"`, `b="y"`, `a!="x"`, `b!="y"`, `b=~"x|y"`, `a=~"x|y"`, `b=""`, `a!~"y"`}

func genTree(r *vh.Rand, nrecv int) Route {
	var gen func(depth int, inherited string) []Route
	gen = func(depth int, inherited string) []Route {
		n := r.Intn(4)
		if depth == 0 {
			n = 2 + r.Intn(3)
		}
		if depth >= 2 {
			n = 0
		}
		var out []Route
		seen := map[string]bool{}
		for i := 0; i < n; i++ {
			ms := []string{vh.Pick(r, c07Matchers)}
			if r.Chance(1, 3) {
				m2 := vh.Pick(r, c07Matchers)
				if m2 != ms[0] {
					ms = append(ms, m2)
				}
			}
			key := strings.Join(ms, ",")
			if seen[key] {
				continue // sibling routes with identical matchers share a route key (and so group keys): a configuration oddity outside the property
			}
			seen[key] = true
			ch := Route{Matchers: ms, Continue: r.Chance(2, 5)}
			ch.Receiver = inherited
			if r.Chance(4, 5) {
				ch.Receiver = fmt.Sprintf("r%d", r.Intn(nrecv))
			}
			ch.Routes = gen(depth+1, ch.Receiver)
			out = append(out, ch)
		}
		return out
	}
	root := Route{Receiver: "r0", GroupBy: []string{"id"}, GW: gw, GI: gi, RI: time.Hour}
	root.Routes = gen(0, "r0")
	// one route that mixes the deprecated match / match_re with three or more separate matchers entries (the legacy
	// label sorts before the last new-style matcher): the application builds its tree twice from the same parsed
	// configuration (dispatcher, API) and both builds must see every conjunct
	// (the new-style matcher that sorts LAST decides something: b; the legacy label a sorts before it)
	mix := vh.Pick(r, []Route{
		{Matchers: []string{`alertname="A"`, `alertname!="B"`, `b="y"`}, Match: map[string]string{"a": "x"}},
		{Matchers: []string{`alertname=~"A|B"`, `alertname!="C"`, `b=~"x"`}, MatchRE: map[string]string{"a": "x|y"}},
		{Matchers: []string{`alertname="A"`, `alertname!="B"`, `alertname!="C"`, `alertname=~"A.*"`, `b="x"`}, Match: map[string]string{"a": "y"}},
		{Matchers: []string{`a=~"x|y"`, `alertname="A"`, `b="y"`}, Match: map[string]string{"a": "x"}},
	})
	mix.Receiver = fmt.Sprintf("r%d", r.Intn(nrecv))
	mix.Continue = r.Bool()
	at := r.Intn(len(root.Routes) + 1)
	root.Routes = append(root.Routes[:at], append([]Route{mix}, root.Routes[at:]...)...)
	return root
}

func usedReceivers(rt Route, into map[string]bool) {
	into[rt.Receiver] = true
	for _, ch := range rt.Routes {
		usedReceivers(ch, into)
	}
}

func treeString(rt Route, ind string) string {
	s := fmt.Sprintf("%s%v -> %s", ind, rt.Matchers, rt.Receiver)
	if len(rt.Match) > 0 || len(rt.MatchRE) > 0 {
		s = fmt.Sprintf("%s%v match%v match_re%v -> %s", ind, rt.Matchers, rt.Match, rt.MatchRE, rt.Receiver)
	}
	if rt.Continue {
		s += " (continue)"
	}
	for _, ch := range rt.Routes {
		s += "\n" + treeString(ch, ind+"  ")
	}
	return s
}

var c07LabelSets = func() []map[string]string {
	var out []map[string]string
	for _, a := range []string{"x", "y", ""} {
		for _, b := range []string{"x", "y", ""} {
			ls := map[string]string{"alertname": "A"}
			if a != "" {
				ls["a"] = a
			}
			if b != "" {
				ls["b"] = b
			}
			out = append(out, ls)
		}
	}
	return out
}()

func withID(ls map[string]string, id string) map[string]string {
	out := map[string]string{"id": id}
	for k, v := range ls {
		out[k] = v
	}
	return out
}

func c07Scenario(s *sc) {
	const nrecv = 5
	t1 := genTree(s.r, nrecv)
	var t2 Route
	for tries := 0; ; tries++ {
		t2 = genTree(s.r, nrecv)
		differs := 0
		for _, ls := range c07LabelSets {
			if strings.Join(refRoute(t1, ls), ",") != strings.Join(refRoute(t2, ls), ",") {
				differs++
			}
		}
		if differs >= 3 || tries > 50 {
			break
		}
	}
	s.logf("tree 1:\n%s", treeString(t1, "  "))
	s.logf("tree 2:\n%s", treeString(t2, "  "))
	recvs := func(bad bool) []Recv {
		var out []Recv
		for i := 0; i < nrecv; i++ {
			out = append(out, Recv{Name: fmt.Sprintf("r%d", i), Hooks: []Hook{{SendResolved: false}}})
		}
		if bad {
			out = append(out, Recv{Name: "rbad", Hooks: []Hook{{SendResolved: false, BadCA: true}}})
		}
		return out
	}
	in, err := s.instance(nil)
	s.must(err, "instance")
	conf1 := Conf{Root: t1, Receivers: recvs(false), Comment: "tree 1"}
	s.must(in.WriteConfig(conf1.YAML(in.Sink)), "write config")
	s.must(in.Start(), "start")

	// one batch: post one alert per label set, wait for the deliveries the reference expects, compare API view,
	// deliveries and reference per alert
	batch := func(name string, live Route, phase string) bool {
		type exp struct {
			ls   map[string]string
			want []string
		}
		var alerts []AlertIn
		exps := map[string]exp{}
		end := time.Now().Add(10 * time.Minute)
		for k, ls := range c07LabelSets {
			id := fmt.Sprintf("%s-%d", name, k)
			l := withID(ls, id)
			alerts = append(alerts, AlertIn{Labels: l, EndsAt: &end})
			exps[id] = exp{l, sorted(refRoute(live, ls))}
		}
		tPost := time.Now()
		_, err := in.PostAlerts(alerts)
		s.must(err, "post alerts")
		delivered := func(reqs []Req) map[string][]string { // id -> receivers (one per distinct group key), sorted
			seen := map[string]bool{}
			out := map[string][]string{}
			for _, r := range reqs {
				for _, a := range r.Msg.Alerts {
					id := a.Labels["id"]
					if _, mine := exps[id]; !mine || a.Status != "firing" {
						continue
					}
					k := id + "|" + r.Msg.GroupKey + "|" + r.Name
					if !seen[k] {
						seen[k] = true
						out[id] = append(out[id], strings.TrimSuffix(r.Name, ".w0"))
					}
				}
			}
			for id := range out {
				sort.Strings(out[id])
			}
			return out
		}
		covers := func(reqs []Req) bool {
			got := delivered(reqs)
			for id, e := range exps {
				have := map[string]int{}
				for _, r := range got[id] {
					have[r]++
				}
				for _, r := range e.want {
					have[r]--
				}
				for _, n := range have {
					if n < 0 {
						return false
					}
				}
			}
			return true
		}
		onTime := in.Sink.WaitFor(tPost.Add(gw+slack), covers)
		if !onTime {
			in.Sink.WaitFor(tPost.Add(gw+slack+late), covers)
		}
		time.Sleep(1200 * time.Millisecond) // room for deliveries the reference does not expect
		got := delivered(in.Sink.Reqs())
		api, err := in.GetAlerts("")
		s.must(err, "GET alerts")
		apiRecv := map[string][]string{}
		for _, a := range api {
			apiRecv[a.Labels["id"]] = a.ReceiverNames()
		}
		bad := false
		for _, id := range vh.SortedKeys(exps) {
			e := exps[id]
			w, g, a := strings.Join(e.want, ","), strings.Join(got[id], ","), strings.Join(apiRecv[id], ",")
			if w == g && w == a {
				continue
			}
			bad = true
			lsTxt := fmt.Sprintf("{a=%q b=%q}", e.ls["a"], e.ls["b"])
			missingOnly := func() bool { // deliveries are a sub-multiset of the reference
				have := map[string]int{}
				for _, r := range e.want {
					have[r]++
				}
				for _, r := range got[id] {
					have[r]--
					if have[r] < 0 {
						return false
					}
				}
				return true
			}
			switch {
			case a != w && phase == "after-failed-reload":
				s.violate("api-receivers-differ-from-live-routing-after-failed-reload", "after a reload that failed, the API reports receivers [%s] for label set %s; the tree that is still live routes it to [%s] and the notifications went to [%s]", a, lsTxt, w, g)
			case a != w:
				s.violate("api-receivers-differ-from-routing-rule", "%s: the API reports receivers [%s] for label set %s, the routing rule on the live tree says [%s] (notifications went to [%s])", phase, a, lsTxt, w, g)
			case !missingOnly():
				s.violate("delivered-to-unrouted-receiver", "%s: label set %s was delivered to [%s]; API and routing rule on the live tree say [%s]", phase, lsTxt, g, w)
			case onTime:
				// (cannot happen: on time means the expected deliveries were all seen)
				s.inconclusive("delivery bookkeeping inconsistent")
			case !covers(in.Sink.Reqs()):
				s.violate("routed-receiver-not-notified", "%s: label set %s is routed to [%s] (API and routing rule agree) but only [%s] were notified within group_wait+%s", phase, lsTxt, w, g, slack+late)
			default:
				s.inconclusive("deliveries later than group_wait+%s", slack)
			}
			break
		}
		if !bad {
			s.count("batch-judged-" + phase)
		}
		return !bad
	}

	if !batch("p1", t1, "initial") {
		return
	}
	// ---- a reload that config.Load accepts and the application fails to apply ----
	conf2bad := Conf{Root: t2, Receivers: recvs(true), Comment: "tree 2, cannot be applied"}
	if strings.HasSuffix(s.c.Kind, "bad-tracing") {
		conf2bad.Receivers = recvs(false)
		conf2bad.BadTracing = true
	} else if strings.HasSuffix(s.c.Kind, "bad-ca") {
		// some route must use the receiver whose HTTP client cannot be built
		conf2bad.Root.Routes = append(append([]Route{}, t2.Routes...), Route{Receiver: "rbad", Matchers: []string{`never="matches"`}})
	} else {
		conf2bad.Receivers = recvs(false)
		p, err := in.WriteFile("broken.tmpl", "{{ define \"x\" }}{{ .Foo ")
		s.must(err, "write template")
		conf2bad.Templates = []string{p}
	}
	s.must(in.WriteConfig(conf2bad.YAML(in.Sink)), "write config 2 (bad)")
	if err := in.Reload(); err == nil {
		s.violate("unappliable-reload-accepted", "Reload returned no error for a configuration that cannot be applied (%s)", s.c.Kind)
		return
	} else {
		s.logf("reload failed as it must: %.120s", err.Error())
	}
	if !batch("p2", t1, "after-failed-reload") {
		return
	}
	// ---- the same tree, applicable: takes effect ----
	conf2 := Conf{Root: t2, Receivers: recvs(false), Comment: "tree 2"}
	s.must(in.WriteConfig(conf2.YAML(in.Sink)), "write config 2")
	if err := in.Reload(); err != nil {
		s.violate("valid-reload-rejected", "Reload of a valid configuration failed: %v", err)
		return
	}
	s.logf("valid reload done")
	batch("p3", t2, "after-valid-reload")
}
