//go:build verif && appsysworker

package worker

import (
	"encoding/json"
	"fmt"
	"io"
	"log"
	"os"
	"strings"
	"testing"
	"time"

	"github.com/prometheus/common/promslog"

	"github.com/prometheus/alertmanager/featurecontrol"
	"github.com/prometheus/alertmanager/matcher/compat"

	"verifharness/appsys"
)

func initProcess() {
	// net/http logs a stack for every handler the API framework panics out of when a client goes away mid-response
	log.SetOutput(io.Discard)
	// what cmd/alertmanager does before app.Run: select the matcher parser mode from the (empty) feature flags
	l := promslog.NewNopLogger()
	if ff, err := featurecontrol.NewFlags(l, ""); err == nil {
		compat.InitFromFlags(l, ff)
	}
}

// TestWorker is the entry point used by appsys.Part: reads the job, runs the scenarios, writes the outcomes.
func TestWorker(t *testing.T) {
	jp, op := os.Getenv("APPSYS_JOB"), os.Getenv("APPSYS_OUT")
	if jp == "" || op == "" {
		t.Skip("not started by the app-engine front end")
	}
	b, err := os.ReadFile(jp)
	if err != nil {
		t.Fatal(err)
	}
	var job appsys.Job
	if err := json.Unmarshal(b, &job); err != nil {
		t.Fatal(err)
	}
	initProcess()
	cases := job.Cases
	if len(cases) == 0 {
		cases = Gen(job)
	}
	outs := RunAll(cases, 16, job.Logs)
	if len(job.Cases) > 0 {
		// replay: scenarios that depend on a race inside the product (e.g. which of several back-to-back gossip sends
		// overlap) do not show it in every run; a cluster replay that saw nothing is repeated up to three more times
		for i := range outs {
			for attempt := 0; cases[i].Prop == "C08" && attempt < 3 && len(outs[i].Findings) == 0 && outs[i].Err == ""; attempt++ {
				again := RunCase(cases[i], job.Logs)
				again.Trace = append([]string{fmt.Sprintf("(replay attempt %d; earlier attempts showed no violation)", attempt+2)}, again.Trace...)
				outs[i] = again
			}
		}
	}
	ob, err := json.Marshal(outs)
	if err != nil {
		t.Fatal(err)
	}
	if err := os.WriteFile(op+".tmp", ob, 0o644); err != nil {
		t.Fatal(err)
	}
	if err := os.Rename(op+".tmp", op); err != nil {
		t.Fatal(err)
	}
}

// TestChildInstance is the body of a child instance process (see child.go).
func TestChildInstance(t *testing.T) {
	sp := os.Getenv("APPSYS_CHILD")
	if sp == "" {
		t.Skip("not started as a child instance")
	}
	initProcess()
	if err := runChild(sp); err != nil {
		t.Fatal(err)
	}
}

// TestStandalone runs app-engine parts outside a property check (development and stability loops):
//
//	APPSYS_PROP=C04,C07 [APPSYS_KIND=substring] [VERIF_TIER=thorough] [VERIF_SEED=n] go test -tags verif,appsysworker -overlay ... -run TestStandalone ./appsys/worker/
func TestStandalone(t *testing.T) {
	props := os.Getenv("APPSYS_PROP")
	if props == "" {
		t.Skip("APPSYS_PROP not set")
	}
	initProcess()
	seed := uint64(1)
	fmt.Sscan(os.Getenv("VERIF_SEED"), &seed)
	bad := 0
	for _, prop := range strings.Split(props, ",") {
		var cases []Case
		for _, c := range Gen(appsys.Job{Prop: prop, Seed: seed, Tier: os.Getenv("VERIF_TIER"), Mode: os.Getenv("VERIF_MODE")}) {
			if k := os.Getenv("APPSYS_KIND"); k == "" || strings.Contains(c.Kind, k) {
				cases = append(cases, c)
			}
		}
		t0 := time.Now()
		outs := RunAll(cases, 16, os.Getenv("APPSYS_LOGS") != "")
		for _, o := range outs {
			st := "ok"
			switch {
			case o.Err != "":
				st = "HARNESS-ERROR " + o.Err
				bad++
			case len(o.Findings) > 0:
				st = fmt.Sprintf("VIOLATION %v", o.Findings)
				bad++
			case len(o.Inconclusive) > 0:
				st = fmt.Sprintf("inconclusive %v", o.Inconclusive)
			}
			fmt.Printf("%s %-28s seed=%-20d %5.1fs %s %v\n", prop, o.Case.Kind, o.Case.Seed, o.WallSec, st, o.Counts)
			if st != "ok" || os.Getenv("APPSYS_TRACE") != "" {
				fmt.Println("   " + strings.Join(o.Trace, "\n   "))
			}
			if (o.Err != "" || len(o.Findings) > 0) && os.Getenv("APPSYS_LOGS") != "" {
				for _, l := range o.Logs {
					fmt.Println(l)
				}
			}
		}
		fmt.Printf("%s: %d scenarios in %.1fs\n", prop, len(outs), time.Since(t0).Seconds())
	}
	if bad > 0 {
		t.Errorf("%d scenarios with violations or harness errors", bad)
	}
}
