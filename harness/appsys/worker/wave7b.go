//go:build verif && appsysworker

package worker

import (
	"time"
)

// C05 / C06: an alert that was notified as firing resolves; before the group's next flush the configuration is
// reloaded. The dispatcher built by the reload must still hold the group (with its resolved alert), so the receiver
// that was told "firing" is told "resolved".

func init() {
	for _, p := range []string{"C05", "C06"} {
		register(p, "resolved-pending-across-reload", resolvedAcrossReload)
		multiplicity[p+"/resolved-pending-across-reload"] = 3
	}
}

func resolvedAcrossReload(s *sc) {
	const giS = 5 * time.Second // long enough to resolve and reload between two flushes
	conf := Conf{Root: Route{Receiver: "r0", GroupBy: []string{"g"}, GW: gw, GI: giS, RI: time.Hour}, Receivers: []Recv{{Name: "r0", Hooks: []Hook{{SendResolved: true}, {SendResolved: false}}}}}
	in, err := s.instance(nil)
	s.must(err, "instance")
	s.must(in.WriteConfig(conf.YAML(in.Sink)), "write config")
	s.must(in.Start(), "start")
	n := 1 + s.r.Intn(3)
	begin, end := time.Now().Add(-100*time.Millisecond), time.Now().Add(10*time.Minute)
	mk := func(ends time.Time, only int) []AlertIn {
		var as []AlertIn
		for i := 0; i < n; i++ {
			st, en := begin, ends
			if only >= 0 && i != only {
				en = end
			}
			as = append(as, AlertIn{Labels: map[string]string{"alertname": "A", "g": "g1", "id": string(rune('a' + i))}, StartsAt: &st, EndsAt: &en})
		}
		return as
	}
	tPost := time.Now()
	_, err = in.PostAlerts(mk(end, -1))
	s.must(err, "post alerts")
	first := func(reqs []Req) bool {
		return len(selDone(reqs, "r0.w0", "g1", "firing")) > 0 && len(selDone(reqs, "r0.w1", "g1", "firing")) > 0
	}
	if !in.Sink.WaitFor(tPost.Add(gw+slack), first) {
		if in.Sink.WaitFor(tPost.Add(gw+slack+late), first) {
			s.inconclusive("first notification later than group_wait+%s", slack)
		} else {
			s.violate("no-firing-notification", "no firing notification within group_wait+%s", slack+late)
		}
		return
	}
	f0 := selDone(in.Sink.Reqs(), "r0.w0", "g1", "firing")[0]
	if len(f0.Msg.Alerts) != n {
		s.inconclusive("the first flush did not hold every posted alert")
		return
	}
	if !in.ClientSettled("", 300*time.Millisecond) {
		s.inconclusive("the application had not returned from its first deliveries 8s after the receivers answered")
		return
	}
	// resolve all alerts (or, with several, sometimes only one: the group stays alive either way) and reload at once
	only := -1
	if n > 1 && s.r.Bool() {
		only = s.r.Intn(n)
	}
	_, err = in.PostAlerts(mk(time.Now().Add(-10*time.Millisecond), only))
	s.must(err, "post resolved alerts")
	if time.Since(f0.T) > giS-1500*time.Millisecond {
		s.inconclusive("the next flush of the old dispatcher was too close to place the reload before it")
		return
	}
	if s.c.Seed%2 == 0 { // a trivially changed file
		conf.Comment = "reloaded"
		s.must(in.WriteConfig(conf.YAML(in.Sink)), "write config")
	}
	if err := in.Reload(); err != nil {
		s.violate("valid-reload-rejected", "Reload failed: %v", err)
		return
	}
	tReload := time.Now()
	s.logf("told firing (%d alerts); %s resolved %.2fs after the notification; reloaded %.2fs after it (next flush of the old dispatcher was due at %s)", n, map[bool]string{true: "all", false: "one"}[only < 0], time.Since(f0.T).Seconds()-0.0, tReload.Sub(f0.T).Seconds(), giS)
	// the new dispatcher holds the group; its flush (at once for these old alerts, at the latest after group_wait, and
	// in any case within one group_interval) tells the send_resolved integration
	res := func(reqs []Req) bool {
		for _, r := range reqs {
			if r.Name == "r0.w0" && r.T.After(tReload.Add(-time.Second)) && !r.Aborted && r.Code < 300 && len(r.Msg.IDs("resolved")) > 0 {
				return true
			}
		}
		return false
	}
	if !in.Sink.WaitFor(tReload.Add(giS+slack), res) {
		if in.Sink.WaitFor(tReload.Add(giS+slack+late), res) {
			s.inconclusive("notification of the resolution later than group_interval+%s after the reload", slack)
		} else {
			s.violate("resolved-pending-at-reload-never-notified", "integration r0.w0 (send_resolved) was told that %d alert(s) fire; %s resolved and the configuration was reloaded before the group's next flush: no notification listing the resolution came within group_interval+%s after the reload (GET /api/v2/alerts/groups lists %d group(s) now)", n, map[bool]string{true: "all of them", false: "one of them"}[only < 0], slack+late, countGroups(in))
		}
		return
	}
	time.Sleep(time.Second)
	for _, r := range in.Sink.Of("r0.w1") {
		if len(r.Msg.IDs("resolved")) > 0 {
			s.violate("resolved-sent-despite-send-resolved-false", "integration r0.w1 has send_resolved=false and got a notification listing resolved alerts")
			return
		}
	}
	s.count("resolution-notified-after-reload")
}

func countGroups(in *Instance) int {
	gs, err := in.GetGroups()
	if err != nil {
		return -1
	}
	return len(gs)
}
