//go:build verif && appsysworker

package worker

import (
	"errors"
	"fmt"
	"strings"
	"time"
)

func init() {
	for _, bad := range []string{"invalid-yaml", "unknown-receiver", "late-bad-ca", "late-bad-template", "late-bad-tracing"} {
		for _, via := range []string{"api", "http"} {
			register("C17", "rejected-"+bad+"-"+via, c17Scenario)
		}
		// C01: after ANY rejected reload a newly posted alert is still delivered, per the old routing
		register("C01", "rejected-"+bad+"-api", c17Scenario)
		if strings.HasPrefix(bad, "late-") {
			// C13 / C07: after a reload rejected at a late step the API (alert defaults, receivers) still serves the old
			// configuration, like the dispatcher
			register("C13", "rejected-"+bad+"-api", c17Scenario)
			register("C07", "rejected-"+bad+"-api", c17Scenario)
		}
	}
}

func c17Scenario(s *sc) {
	kind := s.c.Kind
	viaHTTP := strings.HasSuffix(kind, "-http")
	hook := func(names ...string) []Recv {
		var out []Recv
		for _, n := range names {
			out = append(out, Recv{Name: n, Hooks: []Hook{{SendResolved: false}}})
		}
		return out
	}
	root := func(hi string) Route {
		return Route{Receiver: "r0", GroupBy: []string{"id"}, GW: gw, GI: gi, RI: time.Hour,
			Routes: []Route{{Receiver: hi, Matchers: []string{`sev="hi"`}}}}
	}
	const rtA, rtB = 5 * time.Minute, 17 * time.Minute
	confA := Conf{Root: root("r1"), Receivers: hook("r0", "r1", "r2"), Comment: "configuration A", ResolveTimeout: rtA}
	confB := Conf{Root: root("r2"), Receivers: hook("r0", "r2", "r3"), Comment: "configuration B", ResolveTimeout: rtB}
	in, err := s.instance(nil)
	s.must(err, "instance")
	textA, textB := confA.YAML(in.Sink), confB.YAML(in.Sink)
	s.must(in.WriteConfig(textA), "write config A")
	s.must(in.Start(), "start")

	rejectedBefore := false
	// a reload that does not return is an observation of its own: "never hangs", and after a rejected reload the
	// coordinator must stay usable. The scenario ends there (the instance is abandoned by Close under a watchdog).
	hangs := func(how string) {
		key := "reload-hangs"
		if rejectedBefore {
			key = "reload-hangs-after-rejected-reload"
		}
		s.violate(key, "%s did not return (rejected reload before: %v): the running configuration stays, but every later reload blocks", how, rejectedBefore)
		panic(stopScenario{})
	}
	reload := func() (failed bool, detail string) {
		defer func() { rejectedBefore = rejectedBefore || failed }()
		if viaHTTP {
			code, body, err := in.ReloadHTTP()
			var ne interface{ Timeout() bool }
			if err != nil && errors.As(err, &ne) && ne.Timeout() {
				in.hung = true
				hangs("POST /-/reload (20 s client timeout)")
			}
			s.must(err, "POST /-/reload")
			return code != 200, fmt.Sprintf("HTTP %d %.100s", code, strings.TrimSpace(body))
		}
		if err := in.Reload(); err != nil {
			if errors.Is(err, ErrHung) {
				hangs(fmt.Sprintf("App.Reload (%s watchdog)", reloadWatchdog))
			}
			return true, fmt.Sprintf("%.120s", err.Error())
		}
		return false, "nil"
	}
	statusSeen := map[string]string{}
	// view: what the public surfaces say is in force
	view := func(phase, wantText string, wantRecv []string, wantMetric float64) bool {
		ok := true
		if m, found := in.Metric("alertmanager_config_last_reload_successful"); !found || m != wantMetric {
			s.violate("reload-success-metric-wrong", "%s: alertmanager_config_last_reload_successful is %v (present=%v), want %v", phase, m, found, wantMetric)
			ok = false
		}
		// the status API serves the loaded configuration re-rendered (Config.String()): identify it by its receivers
		txt, err := in.StatusConfig()
		s.must(err, "GET status")
		which := "neither the old nor the offered configuration"
		switch hasA, hasB := strings.Contains(txt, "name: r1"), strings.Contains(txt, "name: r3"); {
		case hasA && !hasB:
			which = "A"
		case hasB && !hasA:
			which = "B"
		}
		if which != wantText {
			s.violate("status-config-not-the-one-in-force", "%s: GET /api/v2/status shows configuration %s, in force is %s", phase, which, wantText)
			ok = false
		}
		if prev, seen := statusSeen[which]; seen && prev != txt && ok {
			s.violate("status-config-rendering-changed", "%s: GET /api/v2/status renders configuration %s differently than before", phase, which)
			ok = false
		}
		statusSeen[which] = txt
		rs, err := in.Receivers()
		s.must(err, "GET receivers")
		if strings.Join(rs, ",") != strings.Join(wantRecv, ",") {
			s.violate("receivers-list-not-the-one-in-force", "%s: GET /api/v2/receivers lists %v, the configuration in force defines %v", phase, rs, wantRecv)
			ok = false
		}
		return ok
	}
	// deliver: one alert with sev=hi must reach want (and the API must say so) and must not reach other
	deliver := func(phase, id, want, other string) bool {
		end := time.Now().Add(10 * time.Minute)
		tPost := time.Now()
		// (the second alert has no endsAt: the API stamps it with now + resolve_timeout of the configuration in force)
		_, err := in.PostAlerts([]AlertIn{{Labels: map[string]string{"alertname": "A", "sev": "hi", "id": id}, EndsAt: &end}, {Labels: map[string]string{"alertname": "A", "sev": "lo", "id": id + "-noend"}}})
		s.must(err, "post alert")
		tPosted := time.Now()
		wantRT := rtA
		if want == "r2" {
			wantRT = rtB
		}
		if got, err := in.GetAlerts("filter=" + "id%3D%22" + id + "-noend%22"); err == nil && len(got) == 1 {
			lo, hi := tPost.Add(wantRT-5*time.Second), tPosted.Add(wantRT+5*time.Second)
			if got[0].EndsAt.Before(lo) || got[0].EndsAt.After(hi) {
				s.violate("alert-timeout-not-the-configuration-in-force", "%s: an alert posted without endsAt got endsAt = post time + %s; resolve_timeout of the configuration in force is %s (the other configuration says %s)", phase, got[0].EndsAt.Sub(tPost).Round(time.Second), wantRT, rtA+rtB-wantRT)
				return false
			}
		} else {
			s.must(fmt.Errorf("%d alerts, %v", len(got), err), "GET the alert without endsAt")
		}
		got := func(ep string) func([]Req) bool {
			return func(reqs []Req) bool {
				for _, r := range reqs {
					if r.Name == ep+".w0" && len(r.Msg.Alerts) > 0 && r.Msg.Alerts[0].Labels["id"] == id {
						return true
					}
				}
				return false
			}
		}
		onTime := in.Sink.WaitFor(tPost.Add(gw+slack), got(want))
		arrived := onTime || in.Sink.WaitFor(tPost.Add(gw+slack+late), got(want))
		time.Sleep(1200 * time.Millisecond)
		wrong := got(other)(in.Sink.Reqs())
		api, err := in.GetAlerts("filter=" + "id%3D%22" + id + "%22")
		s.must(err, "GET alerts")
		apiRecv := "?"
		if len(api) == 1 {
			apiRecv = strings.Join(api[0].ReceiverNames(), ",")
		}
		switch {
		case wrong:
			s.violate("routing-not-the-configuration-in-force", "%s: an alert with sev=hi was delivered to %s; the configuration in force routes it to %s (API says [%s])", phase, other, want, apiRecv)
		case apiRecv != want:
			s.violate("api-routing-not-the-configuration-in-force", "%s: the API reports receivers [%s] for an alert with sev=hi; the configuration in force routes it to %s (delivered there: %v)", phase, apiRecv, want, arrived)
		case !arrived:
			s.violate("routed-receiver-not-notified", "%s: an alert with sev=hi was not delivered to %s within group_wait+%s", phase, want, slack+late)
		case !onTime:
			s.inconclusive("delivery later than group_wait+%s", slack)
			return false
		default:
			return true
		}
		return false
	}

	if !view("after start", "A", []string{"r0", "r1", "r2"}, 1) || !deliver("after start", "a1", "r1", "r2") {
		return
	}
	// ---- the rejected reload ----
	bad := textB
	switch {
	case strings.Contains(kind, "invalid-yaml"):
		bad = textB + "  - name: [unclosed\n"
	case strings.Contains(kind, "unknown-receiver"):
		c := confB
		c.Root = root("nosuch")
		bad = c.YAML(in.Sink)
	case strings.Contains(kind, "late-bad-ca"):
		c := confB
		c.Receivers = append(hook("r0", "r2", "r3"), Recv{Name: "rbad", Hooks: []Hook{{BadCA: true}}})
		c.Root.Routes = append(append([]Route{}, c.Root.Routes...), Route{Receiver: "rbad", Matchers: []string{`never="matches"`}})
		bad = c.YAML(in.Sink)
	case strings.Contains(kind, "late-bad-tracing"):
		c := confB
		c.BadTracing = true
		bad = c.YAML(in.Sink)
	case strings.Contains(kind, "late-bad-template"):
		p, err := in.WriteFile("broken.tmpl", "{{ define \"x\" }}{{ .Foo ")
		s.must(err, "write template")
		c := confB
		c.Templates = []string{p}
		bad = c.YAML(in.Sink)
	}
	s.must(in.WriteConfig(bad), "write rejected config")
	failed, detail := reload()
	s.logf("reload of the bad configuration: %s", detail)
	if !failed {
		s.violate("bad-reload-reported-as-success", "a reload of a configuration that cannot be used (%s) reported success (%s)", kind, detail)
		return
	}
	// (both are judged, so that a run reports the status view AND the alert defaults / receivers / routing)
	okView := view("after the rejected reload", "A", []string{"r0", "r1", "r2"}, 0)
	okDeliver := deliver("after the rejected reload", "a2", "r1", "r2")
	if !okView || !okDeliver {
		return
	}
	s.count("rejected-reload-judged")
	// ---- a later valid reload takes effect ----
	s.must(in.WriteConfig(textB), "write config B")
	failed, detail = reload()
	if failed {
		s.violate("valid-reload-rejected", "a valid configuration was rejected after an earlier rejected reload: %s", detail)
		return
	}
	if view("after the valid reload", "B", []string{"r0", "r2", "r3"}, 1) && deliver("after the valid reload", "a3", "r2", "r1") {
		s.count("later-valid-reload-judged")
	}
}
