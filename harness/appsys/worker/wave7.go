//go:build verif && appsysworker

package worker

import (
	"context"
	"fmt"
	"strings"
	"time"

	"github.com/prometheus/alertmanager/app"
)

// C11: a notification that COMPLETES while the application shuts down. Whatever the process itself recorded as
// delivered (its own request counters say: one request, none failed) must be in the shutdown snapshot of the
// notification log, i.e. must not be notified again after the restart. The teardown window is made wide by a silence
// store that takes a while to snapshot (large comments); the receiver holds its answer until shortly after Stop began.
// On the unchanged order of teardown the dispatcher is stopped first and the held request is cancelled (the receiver
// sees the client go away): that delivery failed, being notified again after the restart is then correct.

func init() {
	register("C11", "delivery-completing-during-shutdown", c11DeliveryDuringStop)
	multiplicity["C11/delivery-completing-during-shutdown"] = 2
}

func c11DeliveryDuringStop(s *sc) {
	const mi = 2 * time.Second
	conf := Conf{Root: Route{Receiver: "r0", GroupBy: []string{"id"}, GW: gw, GI: gi, RI: time.Hour}, Receivers: []Recv{{Name: "r0", Hooks: []Hook{{SendResolved: false}}}}}
	in, err := s.instance(func(o *app.Options) { o.MaintenanceInterval = mi })
	s.must(err, "instance")
	s.must(in.WriteConfig(conf.YAML(in.Sink)), "write config")
	s.must(in.Start(), "start")
	now := time.Now()
	// ~70 MB of silences (each record well below the 4 MiB the loader accepts)
	big := strings.Repeat("0123456789abcdef", 3<<20/16)
	const nBig = 24
	for i := 0; i < nBig; i++ {
		_, _, err := in.PostSilence(SilenceIn{Matchers: []Matcher{{Name: "never", Value: fmt.Sprintf("m%d", i), IsEqual: true}}, StartsAt: now, EndsAt: now.Add(time.Hour), CreatedBy: "appsys", Comment: big})
		s.must(err, "create a large silence")
	}
	metric := func(name string) float64 { v, _ := in.Metric(name); return v }
	// how long does one snapshot of this store take here? (two periodic ones after the last create; the second is whole)
	var dur time.Duration
	for k := 0; k < 2; k++ {
		c0, s0 := metric("alertmanager_silences_snapshot_duration_seconds"), sumOf(in, "alertmanager_silences_snapshot_duration_seconds")
		dl := time.Now().Add(2*mi + slack + late)
		for metric("alertmanager_silences_snapshot_duration_seconds") <= c0 && time.Now().Before(dl) {
			time.Sleep(20 * time.Millisecond)
		}
		if metric("alertmanager_silences_snapshot_duration_seconds") <= c0 {
			s.inconclusive("no periodic snapshot within two maintenance intervals+%s", slack+late)
			return
		}
		dur = time.Duration((sumOf(in, "alertmanager_silences_snapshot_duration_seconds") - s0) * float64(time.Second))
	}
	s.logf("one snapshot of the silences (%d MB) takes %s here", nBig*3, dur.Round(time.Millisecond))
	if dur < 150*time.Millisecond {
		s.count("teardown window shorter than 150 ms on this disk (low sensitivity)")
	}
	in.Sink.Hold("r0.w0")
	old, end := now.Add(-5*time.Second), now.Add(10*time.Minute)
	al := func(id string) AlertIn {
		return AlertIn{Labels: map[string]string{"alertname": "A", "id": id}, StartsAt: &old, EndsAt: &end}
	}
	tPost := time.Now()
	_, err = in.PostAlerts([]AlertIn{al("d1")})
	s.must(err, "post alert")
	if !in.Sink.WaitFor(tPost.Add(gw+slack+late), func(reqs []Req) bool { return len(reqs) > 0 }) {
		s.violate("unsilenced-alert-not-notified", "no notification attempt within group_wait+%s", slack+late)
		return
	}
	reg1 := in.Reg
	stopped := make(chan error, 1)
	t0 := time.Now()
	go func() { stopped <- in.StopCtx(context.Background()) }()
	wait := dur / 3
	if wait < 100*time.Millisecond {
		wait = 100 * time.Millisecond
	}
	if wait > 400*time.Millisecond {
		wait = 400 * time.Millisecond
	}
	time.Sleep(wait)
	in.Sink.Release("r0.w0")
	var stopErr error
	select {
	case stopErr = <-stopped:
	case <-time.After(60 * time.Second):
		s.inconclusive("Stop did not return within 60s")
		return
	}
	first := in.Sink.Reqs()[0]
	total, failed := counterOf(reg1, "alertmanager_notification_requests_total"), counterOf(reg1, "alertmanager_notification_requests_failed_total")
	s.logf("Stop took %.2fs (%v); the receiver answered %.0f ms after Stop began: aborted=%v code=%d; the first process counts %v notify requests, %v failed", time.Since(t0).Seconds(), stopErr, float64(wait.Milliseconds()), first.Aborted, first.Code, total, failed)
	deliveredAndRecorded := !first.Aborted && first.Code == 200 && total >= 1 && failed == 0
	nBefore := len(in.Sink.Reqs())
	s.must(in.Start(), "start again on the same data dir")
	tPost = time.Now()
	_, err = in.PostAlerts([]AlertIn{al("d1"), al("ctl")})
	s.must(err, "post alerts after restart")
	listed := func(reqs []Req, id string) int {
		n := 0
		for _, r := range reqs {
			for _, a := range r.Msg.Alerts {
				if a.Labels["id"] == id && !r.Aborted && r.Code == 200 {
					n++
				}
			}
		}
		return n
	}
	ctl := func(reqs []Req) bool { return listed(reqs[nBefore:], "ctl") > 0 }
	if !in.Sink.WaitFor(tPost.Add(gw+slack), ctl) {
		if in.Sink.WaitFor(tPost.Add(gw+slack+late), ctl) {
			s.inconclusive("control notification after the restart later than group_wait+%s", slack)
		} else {
			s.violate("unsilenced-alert-not-notified", "after the restart the control alert was not notified within group_wait+%s", slack+late)
		}
		return
	}
	time.Sleep(1500 * time.Millisecond)
	again := listed(in.Sink.Reqs()[nBefore:], "d1")
	switch {
	case deliveredAndRecorded && again > 0:
		s.violate("recorded-delivery-missing-from-shutdown-snapshot", "a notification completed while the application was stopping (the receiver answered 200 %d ms after Stop began; the process's own counters say 1 request, 0 failed - it recorded the delivery); after the clean restart on the same data dir the same unchanged alert was notified again (repeat_interval 1h): the delivery is in no snapshot of the notification log", wait.Milliseconds())
	case deliveredAndRecorded:
		s.count("delivery completed during the stop and survived the restart")
	case again > 0:
		s.count("in-flight delivery cancelled by the stop, notified after the restart (correct)")
	default:
		s.inconclusive("the delivery was cut off by the stop (aborted=%v, failed requests %v) and yet not repeated after the restart", first.Aborted, failed)
	}
}
