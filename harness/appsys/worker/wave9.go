//go:build verif && appsysworker

package worker

// C04, across a graceful stop that uses up its shutdown budget: a notification was delivered and logged; one client
// request is still in flight when Stop is called (a raw TCP connection that has sent the headers and half the body of a
// POST /api/v2/alerts and then stalls), so the graceful HTTP shutdown spends the whole budget (the built-in 5 s, or a
// 300 ms deadline of the caller). The teardown must still write the shutdown snapshot of the notification log: after a
// restart on the same data dir the unchanged, still firing group is NOT notified again within repeat_interval (1 h) -
// exactly one notification in all - while a new control alert is. The scenario itself is c11StalledStop (wave6b.go,
// written for C11's "state survives a graceful restart"); its notification oracle is the C04 clause.

func init() {
	register("C04", "graceful-stop-with-stalled-client-default-budget", c11StalledStop)
	register("C04", "graceful-stop-with-stalled-client-short-deadline", c11StalledStop)
}
