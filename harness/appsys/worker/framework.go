//go:build verif && appsysworker

package worker

import (
	"fmt"
	"runtime/debug"
	"sort"
	"sync"
	"time"

	"verifharness/appsys"
	"verifharness/vh"
)

type Case = appsys.Case
type Outcome = appsys.Outcome
type Finding = appsys.Finding

func cp(c *Case, name string, def int) int {
	if v, ok := c.P[name]; ok {
		return v
	}
	return def
}

// sc is the per-scenario context handed to scenario functions.
type sc struct {
	c       *Case
	o       *Outcome
	r       *vh.Rand
	t0      time.Time
	mu      sync.Mutex
	in      []*Instance
	cleanup []func()
}

func (s *sc) logf(f string, a ...any) {
	s.mu.Lock()
	defer s.mu.Unlock()
	s.o.Trace = append(s.o.Trace, fmt.Sprintf("%7.3fs ", time.Since(s.t0).Seconds())+fmt.Sprintf(f, a...))
}

func (s *sc) violate(key, f string, a ...any) {
	what := fmt.Sprintf(f, a...)
	s.logf("VIOLATION %s: %s", key, what)
	s.mu.Lock()
	s.o.Findings = append(s.o.Findings, Finding{Key: key, What: what})
	s.mu.Unlock()
}

func (s *sc) violated() bool {
	s.mu.Lock()
	defer s.mu.Unlock()
	return len(s.o.Findings) > 0
}

func (s *sc) inconclusive(f string, a ...any) {
	why := fmt.Sprintf(f, a...)
	s.logf("inconclusive: %s", why)
	s.mu.Lock()
	s.o.Inconclusive = append(s.o.Inconclusive, why)
	s.mu.Unlock()
}

func (s *sc) count(bucket string) {
	s.mu.Lock()
	s.o.Counts[bucket]++
	s.mu.Unlock()
}

// instance creates an instance that is closed (and its log kept) when the scenario ends.
func (s *sc) instance(mod modFunc) (*Instance, error) { return s.instanceWithSink(mod, nil) }

func (s *sc) instanceWithSink(mod modFunc, sink *Sink) (*Instance, error) {
	in, err := NewInstanceWithSink(mod, sink)
	if err != nil {
		return nil, err
	}
	s.mu.Lock()
	s.in = append(s.in, in)
	s.mu.Unlock()
	return in, nil
}

type scenarioFunc func(s *sc)

var registry = map[string]map[string]scenarioFunc{} // prop -> kind -> scenario

// multiplicity: scenario families that run several differently seeded instances per round.
var multiplicity = map[string]int{}

func register(prop, kind string, f scenarioFunc) {
	if registry[prop] == nil {
		registry[prop] = map[string]scenarioFunc{}
	}
	registry[prop][kind] = f
}

func kindsOf(prop string) []string {
	ks := make([]string, 0, len(registry[prop]))
	for k := range registry[prop] {
		ks = append(ks, k)
	}
	sort.Strings(ks)
	return ks
}

// harnessErr aborts a scenario for a reason that says nothing about the product (could not start the sink, a
// harness-side HTTP failure ...).
type harnessErr struct{ err error }

func (s *sc) must(err error, what string) {
	if err != nil {
		s.logf("harness error: %s: %v", what, err)
		panic(harnessErr{fmt.Errorf("%s: %w", what, err)})
	}
}

// stopScenario ends a scenario early, after its finding has been recorded.
type stopScenario struct{}

// RunCase runs one scenario to completion.
func RunCase(c Case, keepLogs bool) (out Outcome) {
	out = Outcome{Case: c, Counts: map[string]int{}}
	f := registry[c.Prop][c.Kind]
	if f == nil {
		out.Err = fmt.Sprintf("unknown appsys scenario %s/%s", c.Prop, c.Kind)
		return out
	}
	s := &sc{c: &out.Case, o: &out, r: vh.NewRand(c.Seed), t0: time.Now()}
	defer func() {
		if p := recover(); p != nil {
			if e, ok := p.(harnessErr); ok {
				out.Err = e.err.Error()
			} else if _, ok := p.(stopScenario); ok {
				// the scenario ended itself after a finding that makes the rest meaningless (a hung call)
			} else {
				out.Err = fmt.Sprintf("scenario panicked: %v\n%s", p, debug.Stack())
			}
		}
		for _, f := range s.cleanup {
			f()
		}
		for _, in := range s.in {
			in.Close()
			if keepLogs || out.Err != "" {
				out.Logs = append(out.Logs, in.Log.String())
			}
		}
		out.WallSec = time.Since(s.t0).Seconds()
	}()
	f(s)
	return out
}

// RunAll runs the cases par at a time, results in input order.
func RunAll(cases []Case, par int, keepLogs bool) []Outcome {
	outs := make([]Outcome, len(cases))
	sem := make(chan struct{}, par)
	var wg sync.WaitGroup
	for i := range cases {
		wg.Add(1)
		sem <- struct{}{}
		go func(i int) {
			defer wg.Done()
			defer func() { <-sem }()
			outs[i] = RunCase(cases[i], keepLogs)
		}(i)
	}
	wg.Wait()
	return outs
}

// rounds: how many times each scenario family runs (with different seeds) per tier.
func rounds(tier, mode string) int {
	switch {
	case tier == "thorough":
		return 4
	case mode == "search":
		return 2
	}
	return 1
}

// Gen generates the cases of a property's app-engine part.
func Gen(job appsys.Job) []Case {
	r := vh.NewRand(job.Seed*1000003 + 0xA99)
	var cs []Case
	for round := 0; round < rounds(job.Tier, job.Mode); round++ {
		for _, k := range kindsOf(job.Prop) {
			n := 1
			if g := multiplicity[job.Prop+"/"+k]; g > 0 {
				n = g
			}
			for i := 0; i < n; i++ {
				c := Case{Engine: "appsys", Prop: job.Prop, Kind: k, Seed: r.U64() >> 1}
				if job.Tier == "thorough" {
					c.P = map[string]int{"thorough": 1}
				}
				cs = append(cs, c)
			}
		}
	}
	return cs
}
