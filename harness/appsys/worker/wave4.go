//go:build verif && appsysworker

package worker

import (
	"fmt"
	"net/http"
	"sort"
	"strconv"
	"strings"
	"sync"
	"sync/atomic"
	"time"

	"github.com/prometheus/alertmanager/app"
)

func init() {
	register("C04", "repeat-on-time-across-reloads-with-start-delay", c04RepeatStartDelay)
	register("C04", "repeat-on-time-across-one-reload-with-long-start-delay", c04RepeatStartDelay)
	register("C05", "resolved-arrives-after-restart", c05ResolvedAfterRestart)
	multiplicity["C05/resolved-arrives-after-restart"] = 3
	register("C06", "payload-lists-the-whole-group", c06Payload)
	multiplicity["C06/payload-lists-the-whole-group"] = 3
	register("C13", "receivers-per-alert-in-one-response", c13ReceiversPerAlert)
	multiplicity["C13/receivers-per-alert-in-one-response"] = 2
	register("C18", "get-limit-holds-past-the-http-timeout", c18PastTimeout)
	multiplicity["C18/get-limit-holds-past-the-http-timeout"] = 2
	http.HandleFunc("/debug/appsys/slow", slowHandler)
}

// ---------------------------------------------------------------------------------------------------------------
// C04: Options.DispatchStartDelay > group_interval. Dispatchers built by reloads must start at process start + delay
// (long past), not delay after the reload: the repeat of an unchanged group stays on time across reloads.

func c04RepeatStartDelay(s *sc) {
	single := strings.Contains(s.c.Kind, "one-reload")
	delay, ri, giS := 3*time.Second, 4*time.Second, 1*time.Second
	if single {
		// one reload shifts a re-armed start by `delay` once: only a shift beyond slack+late can be told from a late
		// repeat, so this family needs a long delay and runs in the thorough tier only
		if cp(s.c, "thorough", 0) == 0 {
			s.count("skipped in the quick tier (needs a 12 s start delay)")
			return
		}
		delay = 12 * time.Second
	}
	conf := Conf{Root: Route{Receiver: "r0", GroupBy: []string{"id"}, GW: gw, GI: giS, RI: ri}, Receivers: []Recv{{Name: "r0", Hooks: []Hook{{SendResolved: false}}}}}
	in, err := s.instance(func(o *app.Options) { o.DispatchStartDelay = delay })
	s.must(err, "instance")
	s.must(in.WriteConfig(conf.YAML(in.Sink)), "write config")
	tStart := time.Now()
	s.must(in.Start(), "start")
	end, begin := time.Now().Add(10*time.Minute), time.Now().Add(-5*time.Second)
	_, err = in.PostAlerts([]AlertIn{{Labels: map[string]string{"alertname": "A", "id": "r1"}, StartsAt: &begin, EndsAt: &end}})
	s.must(err, "post alert")
	nth := func(n int) func([]Req) bool {
		return func(reqs []Req) bool {
			k := 0
			for _, r := range reqs {
				if !r.Aborted && r.Code < 300 && !r.Done.IsZero() {
					k++
				}
			}
			return k >= n
		}
	}
	if !in.Sink.WaitFor(tStart.Add(delay+gw+slack), nth(1)) {
		if in.Sink.WaitFor(tStart.Add(delay+gw+slack+late), nth(1)) {
			s.inconclusive("first notification later than start+delay+group_wait+%s", slack)
		} else {
			s.violate("no-firing-notification", "DispatchStartDelay=%s: no notification within start+delay+group_wait+%s", delay, slack+late)
		}
		return
	}
	var t1 time.Time
	for _, r := range in.Sink.Reqs() {
		if !r.Aborted && r.Code < 300 && !r.Done.IsZero() {
			t1 = r.T
			break
		}
	}
	if !in.ClientSettled("", 500*time.Millisecond) {
		s.inconclusive("the application had not returned from its first delivery 8s after the receiver answered")
		return
	}
	// reloads of the unchanged file: one, or one every 2 s (> group_interval, so flushes fit in between)
	stop := make(chan struct{})
	var wg sync.WaitGroup
	nReloads := 0
	var reloadErr error
	wg.Add(1)
	go func() {
		defer wg.Done()
		for {
			if err := in.Reload(); err != nil {
				reloadErr = err
				return
			}
			nReloads++
			if single {
				return
			}
			select {
			case <-time.After(2 * time.Second):
			case <-stop:
				return
			}
		}
	}()
	bound := t1.Add(ri + giS)
	onTime := in.Sink.WaitFor(bound.Add(slack), nth(2))
	arrived := onTime || in.Sink.WaitFor(bound.Add(slack+late), nth(2))
	close(stop)
	wg.Wait()
	var t2 time.Time
	k := 0
	for _, r := range in.Sink.Reqs() {
		if !r.Aborted && r.Code < 300 && !r.Done.IsZero() {
			if k++; k == 2 {
				t2 = r.T
			}
		}
	}
	s.logf("first notification %.2fs after start; repeat arrived=%v (%.2fs after the first); %d reloads; start delay %s group_interval %s repeat_interval %s", t1.Sub(tStart).Seconds(), arrived, t2.Sub(t1).Seconds(), nReloads, delay, giS, ri)
	switch {
	case reloadErr != nil:
		s.violate("valid-reload-rejected", "Reload of the unchanged configuration failed: %v", reloadErr)
	case !arrived:
		s.violate("repeat-late-after-reload", "DispatchStartDelay=%s (long past), group_interval=%s, repeat_interval=%s: the unchanged firing group was not notified again within repeat_interval+group_interval+%s after the previous notification while the unchanged configuration was reloaded %d times", delay, giS, ri, slack+late, nReloads)
	case t2.Sub(t1) < ri-50*time.Millisecond:
		s.violate("repeat-before-repeat-interval", "the unchanged group was notified again %.3fs after the first notification, repeat_interval is %s", t2.Sub(t1).Seconds(), ri)
	case !onTime:
		s.inconclusive("repeat later than repeat_interval+group_interval+%s", slack)
	default:
		s.count("repeat-on-time-across-reloads")
	}
}

// ---------------------------------------------------------------------------------------------------------------
// C05: told "firing", restart on the same data dir (alerts are not persisted, the notification log is), the resolved
// alert arrives afterwards: the receiver must be told "resolved".

func c05ResolvedAfterRestart(s *sc) {
	conf := Conf{Root: Route{Receiver: "r0", GroupBy: []string{"g"}, GW: gw, GI: gi, RI: time.Hour}, Receivers: []Recv{{Name: "r0", Hooks: []Hook{{SendResolved: true}, {SendResolved: false}}}}}
	in, err := s.instance(nil)
	s.must(err, "instance")
	s.must(in.WriteConfig(conf.YAML(in.Sink)), "write config")
	s.must(in.Start(), "start")
	n := 1 + s.r.Intn(3)
	begin, end := time.Now().Add(-100*time.Millisecond), time.Now().Add(10*time.Minute)
	mk := func(ends time.Time) []AlertIn {
		var as []AlertIn
		for i := 0; i < n; i++ {
			st, en := begin, ends
			as = append(as, AlertIn{Labels: map[string]string{"alertname": "A", "g": "g1", "id": fmt.Sprintf("a%d", i)}, StartsAt: &st, EndsAt: &en})
		}
		return as
	}
	tPost := time.Now()
	_, err = in.PostAlerts(mk(end))
	s.must(err, "post alerts")
	first := func(reqs []Req) bool {
		return len(selDone(reqs, "r0.w0", "g1", "firing")) > 0 && len(selDone(reqs, "r0.w1", "g1", "firing")) > 0
	}
	if !in.Sink.WaitFor(tPost.Add(gw+slack), first) {
		if in.Sink.WaitFor(tPost.Add(gw+slack+late), first) {
			s.inconclusive("first notification later than group_wait+%s", slack)
		} else {
			s.violate("no-firing-notification", "no firing notification within group_wait+%s", slack+late)
		}
		return
	}
	if got := selDone(in.Sink.Reqs(), "r0.w0", "g1", "firing")[0].Msg.IDs("firing"); len(got) != n {
		s.inconclusive("the first flush did not hold every posted alert")
		return
	}
	if !in.ClientSettled("", time.Second) {
		s.inconclusive("the application had not returned from its first deliveries 8s after the receivers answered")
		return
	}
	s.must(in.Stop(), "stop")
	s.must(in.Start(), "start again on the same data dir")
	s.logf("told firing; restarted on the same data dir; now the resolved alerts arrive")
	tRes := time.Now()
	_, err = in.PostAlerts(mk(time.Now().Add(-10 * time.Millisecond)))
	s.must(err, "post resolved alerts")
	res := func(reqs []Req) bool { return len(selDone(reqs, "r0.w0", "g1", "resolved")) > 0 }
	if !in.Sink.WaitFor(tRes.Add(gw+slack), res) {
		if in.Sink.WaitFor(tRes.Add(gw+gi+slack+late), res) {
			s.inconclusive("resolved notification later than group_wait+%s after the resolved alerts were posted", slack)
		} else {
			s.violate("told-firing-never-told-resolved-after-restart", "integration r0.w0 (send_resolved) was told that %d alert(s) fire; after a clean restart on the same data dir the resolved alerts were posted and accepted, and no resolved notification came within %s", n, gw+gi+slack+late)
		}
		return
	}
	time.Sleep(gi + 500*time.Millisecond)
	reqs := in.Sink.Reqs()
	if k := len(selDone(reqs, "r0.w0", "g1", "resolved")); k != 1 {
		s.violate("resolved-notified-twice", "integration r0.w0 got %d resolved notifications", k)
		return
	}
	if k := len(sel(reqs, "r0.w1", "g1", "resolved")); k != 0 {
		s.violate("resolved-sent-despite-send-resolved-false", "integration r0.w1 has send_resolved=false and got a resolved notification")
		return
	}
	s.count("resolved-after-restart-judged")
}

// ---------------------------------------------------------------------------------------------------------------
// C06: the notification of a group lists every alert of the group - also when the alerts share no label and no
// annotation at all.

func c06Payload(s *sc) {
	conf := Conf{
		Root: Route{Receiver: "r0", GroupBy: []string{}, GW: gw, GI: gi, RI: time.Hour, Routes: []Route{
			{Receiver: "rd", Matchers: []string{`alertname=~"D.*"`}},                              // one group (group_by: [] inherited): alerts with nothing in common
			{Receiver: "rs", Matchers: []string{`alertname=~"S.*"`}},                              // one group: alerts sharing a label and an annotation
			{Receiver: "rl", Matchers: []string{`alertname=~"L.*"`}, GroupBy: []string{"absent"}}, // grouped on a label they all lack
		}},
		Receivers: []Recv{{Name: "r0", Hooks: []Hook{{}}}, {Name: "rd", Hooks: []Hook{{}}}, {Name: "rs", Hooks: []Hook{{}}}, {Name: "rl", Hooks: []Hook{{}}}},
	}
	in, err := s.instance(nil)
	s.must(err, "instance")
	s.must(in.WriteConfig(conf.YAML(in.Sink)), "write config")
	s.must(in.Start(), "start")
	now, end := time.Now(), time.Now().Add(10*time.Minute)
	nD, nS, nL := 4+s.r.Intn(5), 2+s.r.Intn(5), 3+s.r.Intn(4)
	var as []AlertIn
	want := map[string][]string{} // receiver -> alertnames of its one group
	for i := 0; i < nD; i++ {
		name := fmt.Sprintf("D%d", i)
		a := AlertIn{Labels: map[string]string{"alertname": name, fmt.Sprintf("k%d", i): "v"}, StartsAt: &now, EndsAt: &end}
		if i%2 == 0 {
			a.Annotations = map[string]string{fmt.Sprintf("n%d", i): "text"}
		}
		as = append(as, a)
		want["rd"] = append(want["rd"], name)
	}
	for i := 0; i < nS; i++ {
		name := fmt.Sprintf("S%d", i)
		as = append(as, AlertIn{Labels: map[string]string{"alertname": name, "team": "x"}, Annotations: map[string]string{"runbook": "r"}, StartsAt: &now, EndsAt: &end})
		want["rs"] = append(want["rs"], name)
	}
	for i := 0; i < nL; i++ {
		name := fmt.Sprintf("L%d", i)
		as = append(as, AlertIn{Labels: map[string]string{"alertname": name, fmt.Sprintf("q%d", i): "v"}, StartsAt: &now, EndsAt: &end})
		want["rl"] = append(want["rl"], name)
	}
	for i := len(as) - 1; i > 0; i-- { // arrival order must not matter
		j := s.r.Intn(i + 1)
		as[i], as[j] = as[j], as[i]
	}
	tPost := time.Now()
	_, err = in.PostAlerts(as)
	s.must(err, "post alerts")
	recvs := []string{"rd", "rs", "rl"}
	all := func(reqs []Req) bool {
		for _, rc := range recvs {
			ok := false
			for _, r := range reqs {
				ok = ok || (r.Name == rc+".w0" && !r.Done.IsZero())
			}
			if !ok {
				return false
			}
		}
		return true
	}
	if !in.Sink.WaitFor(tPost.Add(gw+slack), all) {
		if in.Sink.WaitFor(tPost.Add(gw+slack+late), all) {
			s.inconclusive("notifications later than group_wait+%s", slack)
		} else {
			s.violate("routed-receiver-not-notified", "not every group was notified within group_wait+%s", slack+late)
		}
		return
	}
	groups, err := in.GetGroups()
	s.must(err, "GET groups")
	names := func(m HookMsg) []string {
		var out []string
		for _, a := range m.Alerts {
			out = append(out, a.Labels["alertname"])
		}
		sort.Strings(out)
		return out
	}
	for _, rc := range recvs {
		first := in.Sink.Of(rc + ".w0")[0]
		var api []string
		nGroups := 0
		for _, g := range groups {
			if g.Receiver.Name == rc {
				nGroups++
				for _, a := range g.Alerts {
					api = append(api, a.Labels["alertname"])
				}
			}
		}
		sort.Strings(api)
		w, got := sorted(want[rc]), names(first.Msg)
		if strings.Join(api, ",") != strings.Join(w, ",") || nGroups != 1 {
			s.inconclusive("the grouped view of receiver %s does not show one group holding the posted alerts (%d groups, %v)", rc, nGroups, api)
			return
		}
		if strings.Join(got, ",") != strings.Join(w, ",") {
			kind := map[string]string{"rd": "share no label and no annotation", "rs": "share a label and an annotation", "rl": "are grouped on a label they all lack and share nothing else"}[rc]
			if len(got) < len(w) && first.T.Sub(tPost) < gw+500*time.Millisecond && len(in.Sink.Of(rc+".w0")) > 1 {
				// (a flush that came before the whole batch was ingested is followed by a second notification)
				s.inconclusive("the first flush came before the whole batch was stored")
				return
			}
			s.violate("payload-does-not-list-the-whole-group", "the group of receiver %s holds %d alerts that %s (GET /alerts/groups lists %v); the webhook payload of its notification lists only %v with truncatedAlerts=%d", rc, len(w), kind, api, got, first.Msg.TruncatedAlerts)
			return
		}
		if first.Msg.TruncatedAlerts != 0 {
			s.violate("payload-truncated-without-limit", "no max_alerts is configured and the payload reports truncatedAlerts=%d", first.Msg.TruncatedAlerts)
			return
		}
		wantCommon := map[string]string{}
		if rc == "rs" {
			wantCommon["team"] = "x"
		}
		if fmt.Sprint(first.Msg.CommonLabels) != fmt.Sprint(wantCommon) && !(len(first.Msg.CommonLabels) == 0 && len(wantCommon) == 0) {
			s.violate("common-labels-wrong", "receiver %s: commonLabels=%v, the alerts have exactly %v in common", rc, first.Msg.CommonLabels, wantCommon)
			return
		}
	}
	s.count("payload-lists-the-whole-group-judged")
}

// ---------------------------------------------------------------------------------------------------------------
// C13: one GET /api/v2/alerts response with alerts routed to DIFFERENT receivers: each alert carries its own.

func c13ReceiversPerAlert(s *sc) {
	conf := Conf{
		Root: Route{Receiver: "r0", GroupBy: []string{"id"}, GW: gw, GI: gi, RI: time.Hour, Routes: []Route{
			{Receiver: "r1", Matchers: []string{`team="a"`}, Continue: true},
			{Receiver: "r2", Matchers: []string{`sev="hi"`}, Continue: true},
			{Receiver: "r3", Matchers: []string{`team="b"`}},
		}},
		Receivers: []Recv{{Name: "r0", Hooks: []Hook{{}}}, {Name: "r1", Hooks: []Hook{{}}}, {Name: "r2", Hooks: []Hook{{}}}, {Name: "r3", Hooks: []Hook{{}}}},
	}
	in, err := s.instance(nil)
	s.must(err, "instance")
	s.must(in.WriteConfig(conf.YAML(in.Sink)), "write config")
	s.must(in.Start(), "start")
	end := time.Now().Add(10 * time.Minute)
	type al struct {
		team, sev string
		want      []string
	}
	cases := map[string]al{
		"p0": {"", "", []string{"r0"}},
		"p1": {"a", "", []string{"r1"}},
		"p2": {"a", "hi", []string{"r1", "r2"}},
		"p3": {"b", "hi", []string{"r2", "r3"}},
		"p4": {"b", "", []string{"r3"}},
		"p5": {"", "hi", []string{"r2"}},
	}
	var as []AlertIn
	for _, id := range sortedKeysOf(cases) {
		c := cases[id]
		ls := map[string]string{"alertname": "A", "id": id}
		if c.team != "" {
			ls["team"] = c.team
		}
		if c.sev != "" {
			ls["sev"] = c.sev
		}
		as = append(as, AlertIn{Labels: ls, EndsAt: &end})
	}
	for i := len(as) - 1; i > 0; i-- {
		j := s.r.Intn(i + 1)
		as[i], as[j] = as[j], as[i]
	}
	_, err = in.PostAlerts(as)
	s.must(err, "post alerts")
	for _, q := range []string{"", "silenced=true&inhibited=true&active=true", "receiver=r.%2A"} {
		got, err := in.GetAlerts(q)
		s.must(err, "GET alerts")
		if len(got) != len(cases) {
			s.violate("get-alerts-incomplete", "GET /api/v2/alerts?%s returns %d of the %d firing alerts", q, len(got), len(cases))
			return
		}
		for _, a := range got {
			id := a.Labels["id"]
			if w, g := strings.Join(cases[id].want, ","), strings.Join(a.ReceiverNames(), ","); w != g {
				s.violate("alert-shows-another-alerts-receivers", "one GET /api/v2/alerts?%s response with %d alerts routed to different receivers: alert {team=%q sev=%q} is routed to [%s] and is shown with receivers [%s]", q, len(got), cases[id].team, cases[id].sev, w, g)
				return
			}
		}
	}
	s.count("receivers-per-alert-judged")
}

func sortedKeysOf[V any](m map[string]V) []string {
	ks := make([]string, 0, len(m))
	for k := range m {
		ks = append(ks, k)
	}
	sort.Strings(ks)
	return ks
}

// ---------------------------------------------------------------------------------------------------------------
// C18: with an HTTP timeout configured, a GET whose handler is still running after the timeout still holds its slot.
// The slow handler is the embedder's own: the application forwards /debug/* to http.DefaultServeMux, where this
// process registers a handler that ignores the request context and sleeps (as a handler stuck in a system call would).

var slowByHost sync.Map // instance address -> *atomic.Int64: slow handlers running for that instance

func slowCounter(host string) *atomic.Int64 {
	v, _ := slowByHost.LoadOrStore(host, new(atomic.Int64))
	return v.(*atomic.Int64)
}

func slowHandler(w http.ResponseWriter, r *http.Request) {
	ms, _ := strconv.Atoi(r.URL.Query().Get("ms"))
	c := slowCounter(r.Host)
	c.Add(1)
	defer c.Add(-1)
	time.Sleep(time.Duration(ms) * time.Millisecond)
	_, _ = w.Write([]byte("done\n"))
}

func c18PastTimeout(s *sc) {
	n := 2 + s.r.Intn(3)
	const timeout = time.Second
	const hold = 5 * time.Second
	in, err := s.instance(func(o *app.Options) { o.GetConcurrency = n; o.HTTPTimeout = timeout })
	s.must(err, "instance")
	conf := Conf{Root: Route{Receiver: "r0", GroupBy: []string{"id"}, GW: 30 * time.Second, GI: time.Minute, RI: time.Hour}, Receivers: []Recv{{Name: "r0", Hooks: []Hook{{}}}}}
	s.must(in.WriteConfig(conf.YAML(in.Sink)), "write config")
	s.must(in.Start(), "start")
	slowRunning := slowCounter(in.Addr)
	gauge := func() float64 { v, _ := in.Metric("alertmanager_http_requests_in_flight"); return v }
	refused := func() float64 { v, _ := in.Metric("alertmanager_http_concurrency_limit_exceeded_total"); return v }
	type res struct {
		code int
		body string
	}
	resc := make(chan res, n)
	tHold := time.Now()
	for i := 0; i < n; i++ {
		go func() {
			code, body, _ := in.do("GET", fmt.Sprintf("/debug/appsys/slow?ms=%d", hold.Milliseconds()), nil)
			resc <- res{code, string(body)}
		}()
	}
	// the clients are answered at the timeout; the handlers run on
	timedOut := 0
	for i := 0; i < n; i++ {
		select {
		case r := <-resc:
			if r.code == 503 && strings.Contains(r.body, "timeout") {
				timedOut++
			}
		case <-time.After(timeout + slack + late):
		}
	}
	if timedOut != n || slowRunning.Load() != int64(n) || time.Since(tHold) > hold-1500*time.Millisecond {
		s.inconclusive("could not get %d slow GETs answered by the HTTP timeout with their handlers still running (answered %d, running %d, %.1fs)", n, timedOut, slowRunning.Load(), time.Since(tHold).Seconds())
		return
	}
	s.logf("GetConcurrency=%d HTTPTimeout=%s: %d slow GETs answered by the timeout, their handlers still running; in-flight gauge %v", n, timeout, n, gauge())
	r0 := refused()
	nRef := 0
	for _, p := range []string{"/-/healthy", "/api/v2/status", "/api/v2/receivers"} {
		code, body, err := in.do("GET", p, nil)
		s.must(err, "probe GET "+p)
		if slowRunning.Load() != int64(n) {
			s.inconclusive("the slow handlers ended during the probes")
			return
		}
		if g := gauge(); g > float64(n) {
			s.violate("more-gets-in-flight-than-the-limit", "GetConcurrency=%d: alertmanager_http_requests_in_flight reads %v", n, g)
			return
		}
		if code != 503 || !strings.Contains(string(body), "Limit of concurrent GET") {
			s.violate("get-admitted-beyond-concurrency-limit", "GetConcurrency=%d, HTTPTimeout=%s: %d GETs were answered by the timeout while their handlers are still running (the embedder's slow /debug handler counts %d running); a further GET %s was answered %d %.60q instead of the limit's 503 (in-flight gauge %v)", n, timeout, n, slowRunning.Load(), p, code, strings.TrimSpace(string(body)), gauge())
			return
		}
		nRef++
	}
	if d := refused() - r0; d < float64(nRef) {
		s.violate("refused-get-not-counted", "%d GETs were refused with 503, alertmanager_http_concurrency_limit_exceeded_total grew by %v", nRef, d)
		return
	}
	s.count("limit-holds-past-the-timeout-judged")
	// when the handlers end, room is back
	dl := time.Now().Add(hold + slack)
	for slowRunning.Load() > 0 && time.Now().Before(dl) {
		time.Sleep(50 * time.Millisecond)
	}
	time.Sleep(200 * time.Millisecond)
	if code, _, err := in.do("GET", "/api/v2/status", nil); err != nil || code != 200 {
		if gauge() > 0 {
			s.inconclusive("slots not yet released after the slow handlers ended")
			return
		}
		s.violate("get-refused-below-concurrency-limit", "all slow handlers have ended (gauge %v) and GET /api/v2/status is answered %d (%v)", gauge(), code, err)
	}
}
