//go:build verif && appsysworker

// Package appsys runs the REAL application wiring (package app: app.New / Start / Reload / Stop) as a black box, in
// real time: temp data dir, a configuration file written by the harness, an ephemeral listener on 127.0.0.1, its own
// prometheus registry, and receivers (webhook / discord-style JSON / SMTP) that point at servers owned by the
// harness. Scenarios drive it only through public surfaces (HTTP API v2, /-/reload or App.Reload, the registry the
// embedder handed in, Stop + New on the same data dir, rewriting the configuration file).
//
// This engine cannot use testing/synctest (real sockets are not durably blocking). All oracles therefore judge
// content and order, and instants only against generous bounds; a scenario whose timing cannot be judged is counted
// as inconclusive and never alarms.
package worker

import (
	"bytes"
	"context"
	"encoding/json"
	"errors"
	"fmt"
	"io"
	"log/slog"
	"net/http"
	"os"
	"path/filepath"
	"sort"
	"strings"
	"sync"
	"time"

	"github.com/prometheus/client_golang/prometheus"
	dto "github.com/prometheus/client_model/go"
	"github.com/prometheus/exporter-toolkit/web"

	"github.com/prometheus/alertmanager/app"
	"github.com/prometheus/alertmanager/featurecontrol"
)

var newMu sync.Mutex

type logBuf struct {
	mu sync.Mutex
	b  bytes.Buffer
}

func (l *logBuf) Write(p []byte) (int, error) {
	l.mu.Lock()
	defer l.mu.Unlock()
	if l.b.Len() < 4<<20 {
		l.b.Write(p)
	}
	return len(p), nil
}
func (l *logBuf) String() string {
	l.mu.Lock()
	defer l.mu.Unlock()
	return l.b.String()
}

// Instance is one running application plus the receivers it notifies.
type Instance struct {
	Dir     string // scenario directory: alertmanager.yml, data/, templates
	CfgPath string
	Sink    *Sink
	App     *app.App
	hung    bool // an application call exceeded its watchdog
	Reg     *prometheus.Registry
	Addr    string
	Log     *logBuf
	mod     func(*app.Options)
	hc      *http.Client
	Starts  int
}

// NewInstance creates the scenario directory and the sink; Start brings the application up.
func NewInstance(mod func(*app.Options)) (*Instance, error) { return NewInstanceWithSink(mod, nil) }

// NewInstanceWithSink: several instances (a cluster) can notify the same receivers.
func NewInstanceWithSink(mod func(*app.Options), sink *Sink) (*Instance, error) {
	dir, err := os.MkdirTemp("", "appsys-")
	if err != nil {
		return nil, err
	}
	if sink == nil {
		sink, err = NewSink()
	}
	if err != nil {
		os.RemoveAll(dir)
		return nil, err
	}
	in := &Instance{Dir: dir, CfgPath: filepath.Join(dir, "alertmanager.yml"), Sink: sink, Log: &logBuf{}, mod: mod}
	in.hc = &http.Client{Transport: &http.Transport{MaxIdleConnsPerHost: 4, IdleConnTimeout: 5 * time.Second}, Timeout: 20 * time.Second}
	return in, nil
}

func (in *Instance) WriteConfig(cfg string) error {
	tmp := in.CfgPath + ".tmp"
	if err := os.WriteFile(tmp, []byte(cfg), 0o600); err != nil {
		return err
	}
	return os.Rename(tmp, in.CfgPath)
}

func (in *Instance) WriteFile(name, content string) (string, error) {
	p := filepath.Join(in.Dir, name)
	return p, os.WriteFile(p, []byte(content), 0o600)
}

// Start = app.New + Start on the instance's data dir (the same one after a Stop: a restart).
func (in *Instance) Start() error {
	logger := slog.New(slog.NewTextHandler(in.Log, &slog.HandlerOptions{Level: slog.LevelDebug}))
	ff, err := featurecontrol.NewFlags(logger, "")
	if err != nil {
		return err
	}
	addrs := []string{"127.0.0.1:0"}
	systemd := false
	webCfg := ""
	opts := app.DefaultOptions()
	opts.ConfigFile = in.CfgPath
	opts.DataDir = filepath.Join(in.Dir, "data")
	opts.WebConfig = &web.FlagConfig{WebListenAddresses: &addrs, WebSystemdSocket: &systemd, WebConfigFile: &webCfg}
	opts.Logger = logger
	in.Reg = prometheus.NewRegistry()
	opts.Registerer = in.Reg
	opts.Flagger = ff
	if in.mod != nil {
		in.mod(&opts)
	}
	// One app.New at a time: building the API analyses the embedded OpenAPI document through go-openapi's
	// process-wide schema cache, which is not safe for concurrent use (seen once in ~300 parallel starts as "fatal
	// error: concurrent map writes"). The product builds one application per process, so this is an artefact of
	// running many instances in one process, not a finding.
	newMu.Lock()
	a, err := app.New(opts)
	newMu.Unlock()
	if err != nil {
		return fmt.Errorf("app.New: %w", err)
	}
	if err := a.Start(); err != nil {
		_ = a.Stop(context.Background())
		return fmt.Errorf("app.Start: %w", err)
	}
	in.App, in.Addr = a, a.Addr()
	in.Starts++
	deadline := time.Now().Add(10 * time.Second)
	for {
		code, _, err := in.do("GET", "/-/healthy", nil)
		if err == nil && code == 200 {
			return nil
		}
		if time.Now().After(deadline) {
			_ = a.Stop(context.Background())
			in.App = nil
			return fmt.Errorf("instance never became healthy: %v", err)
		}
		time.Sleep(20 * time.Millisecond)
	}
}

// Stop shuts the application down cleanly (the data dir stays).
func (in *Instance) Stop() error {
	if in.App == nil {
		return nil
	}
	in.hc.CloseIdleConnections()
	a := in.App
	in.App = nil
	if !in.hung {
		return a.Stop(context.Background())
	}
	// an earlier call hangs inside the application: do not let Stop wait for it forever
	done := make(chan error, 1)
	go func() { done <- a.Stop(context.Background()) }()
	select {
	case err := <-done:
		return err
	case <-time.After(20 * time.Second):
		return ErrHung
	}
}

// StopCtx is App.Stop with the caller's context (a deadline for the graceful part); the error of Stop is returned and
// the instance counts as stopped either way.
func (in *Instance) StopCtx(ctx context.Context) error {
	if in.App == nil {
		return nil
	}
	in.hc.CloseIdleConnections()
	err := in.App.Stop(ctx)
	in.App = nil
	return err
}

// Close stops everything and removes the scenario directory.
func (in *Instance) Close() {
	_ = in.Stop()
	in.Sink.Close()
	os.RemoveAll(in.Dir)
}

// ErrHung: an application call did not return within its watchdog (the goroutine making it is abandoned).
var ErrHung = errors.New("the call did not return within the watchdog (hangs)")

const reloadWatchdog = 15 * time.Second

// Reload is App.Reload under a watchdog: a reload that blocks (e.g. on a coordinator mutex that an earlier reload
// never released) must become a judged observation, not a harness timeout.
func (in *Instance) Reload() error {
	a := in.App
	done := make(chan error, 1)
	go func() { done <- a.Reload() }()
	select {
	case err := <-done:
		return err
	case <-time.After(reloadWatchdog):
		in.hung = true
		return ErrHung
	}
}

// ReloadHTTP posts /-/reload and returns the status code.
func (in *Instance) ReloadHTTP() (int, string, error) {
	code, body, err := in.do("POST", "/-/reload", nil)
	return code, string(body), err
}

func (in *Instance) do(method, path string, body any) (int, []byte, error) {
	var rd io.Reader
	if body != nil {
		b, err := json.Marshal(body)
		if err != nil {
			return 0, nil, err
		}
		rd = bytes.NewReader(b)
	}
	req, err := http.NewRequest(method, "http://"+in.Addr+path, rd)
	if err != nil {
		return 0, nil, err
	}
	if body != nil {
		req.Header.Set("Content-Type", "application/json")
	}
	resp, err := in.hc.Do(req)
	if err != nil {
		return 0, nil, err
	}
	defer resp.Body.Close()
	b, err := io.ReadAll(resp.Body)
	return resp.StatusCode, b, err
}

// ---- API v2 ----

type AlertIn struct {
	Labels      map[string]string `json:"labels"`
	Annotations map[string]string `json:"annotations,omitempty"`
	StartsAt    *time.Time        `json:"startsAt,omitempty"`
	EndsAt      *time.Time        `json:"endsAt,omitempty"`
}

type AlertOut struct {
	Labels      map[string]string `json:"labels"`
	StartsAt    time.Time         `json:"startsAt"`
	EndsAt      time.Time         `json:"endsAt"`
	Fingerprint string            `json:"fingerprint"`
	Receivers   []struct {
		Name string `json:"name"`
	} `json:"receivers"`
	Status struct {
		State       string   `json:"state"`
		SilencedBy  []string `json:"silencedBy"`
		InhibitedBy []string `json:"inhibitedBy"`
		MutedBy     []string `json:"mutedBy"`
	} `json:"status"`
}

func (a AlertOut) ReceiverNames() []string {
	out := []string{}
	for _, r := range a.Receivers {
		out = append(out, r.Name)
	}
	sort.Strings(out)
	return out
}

type GroupOut struct {
	Labels   map[string]string `json:"labels"`
	Receiver struct {
		Name string `json:"name"`
	} `json:"receiver"`
	Alerts []AlertOut `json:"alerts"`
}

type Matcher struct {
	Name    string `json:"name"`
	Value   string `json:"value"`
	IsRegex bool   `json:"isRegex"`
	IsEqual bool   `json:"isEqual"`
}

type SilenceIn struct {
	ID        string    `json:"id,omitempty"`
	Matchers  []Matcher `json:"matchers"`
	StartsAt  time.Time `json:"startsAt"`
	EndsAt    time.Time `json:"endsAt"`
	CreatedBy string    `json:"createdBy"`
	Comment   string    `json:"comment"`
}

type SilenceOut struct {
	ID        string    `json:"id"`
	Matchers  []Matcher `json:"matchers"`
	StartsAt  time.Time `json:"startsAt"`
	EndsAt    time.Time `json:"endsAt"`
	UpdatedAt time.Time `json:"updatedAt"`
	CreatedBy string    `json:"createdBy"`
	Comment   string    `json:"comment"`
	Status    struct {
		State string `json:"state"`
	} `json:"status"`
}

func (in *Instance) PostAlerts(as []AlertIn) (int, error) {
	code, body, err := in.do("POST", "/api/v2/alerts", as)
	if err == nil && code != 200 {
		err = fmt.Errorf("POST alerts: %d %s", code, strings.TrimSpace(string(body)))
	}
	return code, err
}

// GetAlerts with a raw query string ("" or "silenced=false&active=true" ...).
func (in *Instance) GetAlerts(query string) ([]AlertOut, error) {
	p := "/api/v2/alerts"
	if query != "" {
		p += "?" + query
	}
	code, body, err := in.do("GET", p, nil)
	if err != nil {
		return nil, err
	}
	if code != 200 {
		return nil, fmt.Errorf("GET alerts: %d %s", code, strings.TrimSpace(string(body)))
	}
	var out []AlertOut
	return out, json.Unmarshal(body, &out)
}

func (in *Instance) GetGroups() ([]GroupOut, error) { return in.GetGroupsQ("") }

// GetGroupsQ: with a raw query string, e.g. "muted=false".
func (in *Instance) GetGroupsQ(query string) ([]GroupOut, error) {
	p := "/api/v2/alerts/groups"
	if query != "" {
		p += "?" + query
	}
	code, body, err := in.do("GET", p, nil)
	if err != nil {
		return nil, err
	}
	if code != 200 {
		return nil, fmt.Errorf("GET groups: %d %s", code, strings.TrimSpace(string(body)))
	}
	var out []GroupOut
	return out, json.Unmarshal(body, &out)
}

func (in *Instance) PostSilence(s SilenceIn) (string, int, error) {
	code, body, err := in.do("POST", "/api/v2/silences", s)
	if err != nil {
		return "", 0, err
	}
	if code != 200 {
		return "", code, fmt.Errorf("POST silence: %d %s", code, strings.TrimSpace(string(body)))
	}
	var r struct {
		SilenceID string `json:"silenceID"`
	}
	err = json.Unmarshal(body, &r)
	return r.SilenceID, code, err
}

func (in *Instance) DeleteSilence(id string) (int, error) {
	code, _, err := in.do("DELETE", "/api/v2/silence/"+id, nil)
	return code, err
}

func (in *Instance) GetSilences() ([]SilenceOut, error) {
	code, body, err := in.do("GET", "/api/v2/silences", nil)
	if err != nil {
		return nil, err
	}
	if code != 200 {
		return nil, fmt.Errorf("GET silences: %d %s", code, strings.TrimSpace(string(body)))
	}
	var out []SilenceOut
	if err := json.Unmarshal(body, &out); err != nil {
		return nil, err
	}
	sort.Slice(out, func(i, j int) bool { return out[i].ID < out[j].ID })
	return out, nil
}

// ClusterStatus is the cluster block of GET /api/v2/status.
type ClusterStatus struct {
	Name   string `json:"name"`
	Status string `json:"status"`
	Peers  []struct {
		Name    string `json:"name"`
		Address string `json:"address"`
	} `json:"peers"`
}

func (c ClusterStatus) PeerNames() []string {
	out := []string{}
	for _, p := range c.Peers {
		out = append(out, p.Name)
	}
	sort.Strings(out)
	return out
}

func (in *Instance) ClusterStatus() (ClusterStatus, error) {
	var r struct {
		Cluster ClusterStatus `json:"cluster"`
	}
	code, body, err := in.do("GET", "/api/v2/status", nil)
	if err != nil {
		return r.Cluster, err
	}
	if code != 200 {
		return r.Cluster, fmt.Errorf("GET status: %d", code)
	}
	return r.Cluster, json.Unmarshal(body, &r)
}

// StatusConfig returns config.original of GET /api/v2/status.
func (in *Instance) StatusConfig() (string, error) {
	code, body, err := in.do("GET", "/api/v2/status", nil)
	if err != nil {
		return "", err
	}
	if code != 200 {
		return "", fmt.Errorf("GET status: %d", code)
	}
	var r struct {
		Config struct {
			Original string `json:"original"`
		} `json:"config"`
	}
	return r.Config.Original, json.Unmarshal(body, &r)
}

func (in *Instance) Receivers() ([]string, error) {
	code, body, err := in.do("GET", "/api/v2/receivers", nil)
	if err != nil {
		return nil, err
	}
	if code != 200 {
		return nil, fmt.Errorf("GET receivers: %d", code)
	}
	var r []struct {
		Name string `json:"name"`
	}
	if err := json.Unmarshal(body, &r); err != nil {
		return nil, err
	}
	out := []string{}
	for _, x := range r {
		out = append(out, x.Name)
	}
	sort.Strings(out)
	return out, nil
}

// ClientSettled waits until the application has RETURNED from at least as many notify attempts as the sink has
// answered (counter alertmanager_notification_requests_total, incremented when an integration's Notify returns; the
// notification-log write follows in the same goroutine without blocking), then margin more. ignore = requests of the
// sink that are knowingly still in flight. false = not observed within 8 s (the machine is too loaded to order the next
// step after the deliveries).
func (in *Instance) ClientSettled(ignoreEndpoint string, margin time.Duration) bool {
	dl := time.Now().Add(8 * time.Second)
	for {
		answered, pending := 0, 0
		for _, r := range in.Sink.Reqs() {
			switch {
			case r.Name == ignoreEndpoint:
			case r.Done.IsZero():
				pending++
			default:
				answered++
			}
		}
		ignored := 0.0
		if ignoreEndpoint != "" {
			for _, r := range in.Sink.Of(ignoreEndpoint) {
				if !r.Done.IsZero() {
					ignored++
				}
			}
		}
		returned, _ := in.Metric("alertmanager_notification_requests_total")
		if pending == 0 && returned-ignored >= float64(answered) {
			time.Sleep(margin)
			return true
		}
		if time.Now().After(dl) {
			return false
		}
		time.Sleep(20 * time.Millisecond)
	}
}

// Metric reads one sample from the registry the harness handed to the application (sum over all label sets that
// contain the given label pairs); ok=false when the family does not exist.
func (in *Instance) Metric(name string, labels ...string) (float64, bool) {
	mfs, err := in.Reg.Gather()
	if err != nil {
		return 0, false
	}
	for _, mf := range mfs {
		if mf.GetName() != name {
			continue
		}
		sum, found := 0.0, false
		for _, m := range mf.GetMetric() {
			if !hasLabels(m, labels) {
				continue
			}
			found = true
			switch {
			case m.Gauge != nil:
				sum += m.Gauge.GetValue()
			case m.Counter != nil:
				sum += m.Counter.GetValue()
			case m.Histogram != nil:
				sum += float64(m.Histogram.GetSampleCount())
			case m.Summary != nil:
				sum += float64(m.Summary.GetSampleCount())
			case m.Untyped != nil:
				sum += m.Untyped.GetValue()
			}
		}
		return sum, found
	}
	return 0, false
}

func hasLabels(m *dto.Metric, kv []string) bool {
	for i := 0; i+1 < len(kv); i += 2 {
		ok := false
		for _, lp := range m.GetLabel() {
			if lp.GetName() == kv[i] && lp.GetValue() == kv[i+1] {
				ok = true
			}
		}
		if !ok {
			return false
		}
	}
	return true
}

// sumOf reads the sample sum of a histogram or summary of the instance's registry.
func sumOf(in *Instance, name string) float64 {
	mfs, err := in.Reg.Gather()
	if err != nil {
		return 0
	}
	sum := 0.0
	for _, mf := range mfs {
		if mf.GetName() != name {
			continue
		}
		for _, m := range mf.GetMetric() {
			if m.Histogram != nil {
				sum += m.Histogram.GetSampleSum()
			}
			if m.Summary != nil {
				sum += m.Summary.GetSampleSum()
			}
		}
	}
	return sum
}

// counterOf sums a counter family over all label sets of a registry (also one of an instance that has stopped).
func counterOf(reg *prometheus.Registry, name string) float64 {
	mfs, err := reg.Gather()
	if err != nil {
		return 0
	}
	sum := 0.0
	for _, mf := range mfs {
		if mf.GetName() != name {
			continue
		}
		for _, m := range mf.GetMetric() {
			if m.Counter != nil {
				sum += m.Counter.GetValue()
			}
		}
	}
	return sum
}
