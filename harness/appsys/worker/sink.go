//go:build verif && appsysworker

package worker

import (
	"bufio"
	"encoding/json"
	"fmt"
	"io"
	"net"
	"net/http"
	"net/http/httptest"
	"sort"
	"strings"
	"sync"
	"time"
)

// HookAlert is one alert of a webhook payload.
type HookAlert struct {
	Status   string            `json:"status"`
	Labels   map[string]string `json:"labels"`
	StartsAt time.Time         `json:"startsAt"`
	EndsAt   time.Time         `json:"endsAt"`
}

// HookMsg is the part of the webhook payload the oracles read.
type HookMsg struct {
	Status          string            `json:"status"`
	Receiver        string            `json:"receiver"`
	GroupKey        string            `json:"groupKey"`
	TruncatedAlerts int               `json:"truncatedAlerts"`
	GroupLabels     map[string]string `json:"groupLabels"`
	CommonLabels    map[string]string `json:"commonLabels"`
	Alerts          []HookAlert       `json:"alerts"`
}

// Req is one request (or mail) a harness-owned receiver endpoint saw.
type Req struct {
	T       time.Time // arrival
	Done    time.Time // response written (zero while in flight)
	Name    string    // endpoint name, e.g. "r0.w1"
	Kind    string    // webhook | discord | email
	Code    int       // response sent (0 = the client went away before the response)
	Aborted bool      // the client closed / cancelled the request before the response was written
	Msg     HookMsg   // webhook: decoded payload; discord/email: Status and the ids found in the text
	Raw     string    // discord/email: the text searched for the status
}

// Resp scripts the answer to the k-th request of an endpoint.
type Resp struct {
	Code    int `json:"code,omitempty"`     // 0 = 200
	DelayMs int `json:"delay_ms,omitempty"` // wait before answering (aborted when the client goes away)
}

// Sink is the set of receiver endpoints one scenario owns: an HTTP server (webhook and discord-style JSON
// endpoints under /hook/<name> and /discord/<name>) and a minimal SMTP server.
type Sink struct {
	HTTP *httptest.Server
	smtp net.Listener

	mu      sync.Mutex
	reqs    []*Req
	script  map[string][]Resp
	count   map[string]int
	changed chan struct{}
	closed  bool
	smtpDly time.Duration
	wg      sync.WaitGroup
	holds   map[string]chan struct{} // endpoint -> closed by Release: requests wait for it before answering
}

func NewSink() (*Sink, error) {
	s := &Sink{script: map[string][]Resp{}, count: map[string]int{}, changed: make(chan struct{})}
	s.HTTP = httptest.NewServer(http.HandlerFunc(s.serve))
	l, err := net.Listen("tcp", "127.0.0.1:0")
	if err != nil {
		s.HTTP.Close()
		return nil, err
	}
	s.smtp = l
	s.wg.Add(1)
	go s.smtpLoop()
	return s, nil
}

func (s *Sink) Close() {
	s.mu.Lock()
	was := s.closed
	s.closed = true
	s.mu.Unlock()
	if was {
		return
	}
	s.smtp.Close()
	s.HTTP.CloseClientConnections()
	s.HTTP.Close()
}

func (s *Sink) HookURL(name string) string    { return s.HTTP.URL + "/hook/" + name }
func (s *Sink) DiscordURL(name string) string { return s.HTTP.URL + "/discord/" + name }
func (s *Sink) SMTPAddr() string              { return s.smtp.Addr().String() }

// Script sets the answers of endpoint name (k-th request gets rs[k]; 200 at once when exhausted).
func (s *Sink) Script(name string, rs ...Resp) {
	s.mu.Lock()
	s.script[name] = rs
	s.mu.Unlock()
}

// Hold makes every request to endpoint name wait (before it is answered) until Release(name) - or until the client
// goes away, which is recorded as aborted.
func (s *Sink) Hold(name string) {
	s.mu.Lock()
	if s.holds == nil {
		s.holds = map[string]chan struct{}{}
	}
	s.holds[name] = make(chan struct{})
	s.mu.Unlock()
}

func (s *Sink) Release(name string) {
	s.mu.Lock()
	if ch, ok := s.holds[name]; ok {
		close(ch)
		delete(s.holds, name)
	}
	s.mu.Unlock()
}

// SMTPDelay makes the SMTP server wait d before acknowledging the end of DATA.
func (s *Sink) SMTPDelay(d time.Duration) {
	s.mu.Lock()
	s.smtpDly = d
	s.mu.Unlock()
}

func (s *Sink) notifyLocked() {
	close(s.changed)
	s.changed = make(chan struct{})
}

func (s *Sink) add(r *Req) Resp {
	s.mu.Lock()
	defer s.mu.Unlock()
	s.reqs = append(s.reqs, r)
	k := s.count[r.Name]
	s.count[r.Name] = k + 1
	s.notifyLocked()
	if sc := s.script[r.Name]; k < len(sc) {
		return sc[k]
	}
	return Resp{}
}

func (s *Sink) finish(r *Req, code int, aborted bool) {
	s.mu.Lock()
	r.Done, r.Code, r.Aborted = time.Now(), code, aborted
	s.notifyLocked()
	s.mu.Unlock()
}

func (s *Sink) serve(w http.ResponseWriter, hr *http.Request) {
	body, _ := io.ReadAll(hr.Body)
	now := time.Now()
	parts := strings.SplitN(strings.TrimPrefix(hr.URL.Path, "/"), "/", 2)
	if len(parts) != 2 {
		http.Error(w, "unknown endpoint", 404)
		return
	}
	r := &Req{T: now, Name: parts[1], Kind: "webhook"}
	switch parts[0] {
	case "hook":
		_ = json.Unmarshal(body, &r.Msg)
	case "discord":
		r.Kind = "discord"
		r.Raw = string(body)
		r.Msg.Status = textStatus(r.Raw)
	default:
		http.Error(w, "unknown endpoint", 404)
		return
	}
	resp := s.add(r)
	s.mu.Lock()
	hold := s.holds[r.Name]
	s.mu.Unlock()
	if hold != nil {
		select {
		case <-hold:
		case <-hr.Context().Done():
			s.finish(r, 0, true)
			return
		}
	}
	if resp.DelayMs > 0 {
		select {
		case <-time.After(time.Duration(resp.DelayMs) * time.Millisecond):
		case <-hr.Context().Done():
			s.finish(r, 0, true)
			return
		}
	}
	code := resp.Code
	if code == 0 {
		code = 200
	}
	if hr.Context().Err() != nil {
		s.finish(r, 0, true)
		return
	}
	w.WriteHeader(code)
	_, _ = w.Write([]byte("{}"))
	s.finish(r, code, false)
}

func textStatus(s string) string {
	switch {
	case strings.Contains(s, "FIRING"), strings.Contains(s, "firing"):
		return "firing"
	case strings.Contains(s, "RESOLVED"), strings.Contains(s, "resolved"):
		return "resolved"
	}
	return ""
}

// ---- SMTP ----

func (s *Sink) smtpLoop() {
	defer s.wg.Done()
	for {
		c, err := s.smtp.Accept()
		if err != nil {
			return
		}
		go s.smtpConn(c)
	}
}

func (s *Sink) smtpConn(c net.Conn) {
	defer c.Close()
	br := bufio.NewReader(c)
	say := func(f string, a ...any) { fmt.Fprintf(c, f+"\r\n", a...) }
	say("220 sink ESMTP")
	rcpt := ""
	for {
		_ = c.SetReadDeadline(time.Now().Add(30 * time.Second))
		line, err := br.ReadString('\n')
		if err != nil {
			return
		}
		cmd := strings.ToUpper(strings.TrimSpace(line))
		switch {
		case strings.HasPrefix(cmd, "EHLO"), strings.HasPrefix(cmd, "HELO"):
			say("250 sink")
		case strings.HasPrefix(cmd, "MAIL FROM"):
			say("250 ok")
		case strings.HasPrefix(cmd, "RCPT TO"):
			rcpt = strings.Trim(strings.TrimSpace(line[len("RCPT TO:"):]), "<> \r\n")
			say("250 ok")
		case cmd == "DATA":
			say("354 go ahead")
			var sb strings.Builder
			for {
				l, err := br.ReadString('\n')
				if err != nil {
					return
				}
				if l == ".\r\n" || l == ".\n" {
					break
				}
				sb.WriteString(l)
			}
			name := rcpt
			if i := strings.Index(name, "@"); i >= 0 {
				name = name[:i]
			}
			r := &Req{T: time.Now(), Name: name, Kind: "email", Raw: subjectOf(sb.String())}
			r.Msg.Status = textStatus(r.Raw)
			s.add(r)
			s.mu.Lock()
			d := s.smtpDly
			s.mu.Unlock()
			if d > 0 {
				time.Sleep(d)
			}
			say("250 queued")
			s.finish(r, 250, false)
		case cmd == "QUIT":
			say("221 bye")
			return
		case cmd == "RSET", cmd == "NOOP":
			say("250 ok")
		default:
			say("502 not implemented")
		}
	}
}

func subjectOf(msg string) string {
	for _, l := range strings.Split(msg, "\n") {
		if strings.HasPrefix(strings.ToLower(l), "subject:") {
			return strings.TrimSpace(l[len("subject:"):])
		}
		if strings.TrimSpace(l) == "" {
			break
		}
	}
	return ""
}

// ---- reading ----

// Reqs returns a snapshot (copies) of all requests seen so far, in arrival order.
func (s *Sink) Reqs() []Req {
	s.mu.Lock()
	defer s.mu.Unlock()
	out := make([]Req, len(s.reqs))
	for i, r := range s.reqs {
		out[i] = *r
	}
	return out
}

// Of returns the requests of endpoint name.
func (s *Sink) Of(name string) []Req {
	var out []Req
	for _, r := range s.Reqs() {
		if r.Name == name {
			out = append(out, r)
		}
	}
	return out
}

// WaitFor polls cond on the request list until it holds or the deadline passes; it wakes on every change.
func (s *Sink) WaitFor(deadline time.Time, cond func([]Req) bool) bool {
	for {
		s.mu.Lock()
		ch := s.changed
		s.mu.Unlock()
		if cond(s.Reqs()) {
			return true
		}
		left := time.Until(deadline)
		if left <= 0 {
			return false
		}
		if left > 250*time.Millisecond {
			left = 250 * time.Millisecond
		}
		select {
		case <-ch:
		case <-time.After(left):
		}
	}
}

// Settle waits (up to 5 s) until every request seen so far has been answered, then margin more: the client side
// reads the answer and writes its notification-log entry only after that.
func (s *Sink) Settle(margin time.Duration) {
	s.WaitFor(time.Now().Add(5*time.Second), func(reqs []Req) bool {
		for _, r := range reqs {
			if r.Done.IsZero() {
				return false
			}
		}
		return true
	})
	time.Sleep(margin)
}

// IDs lists the values of label "id" of the alerts with the given status ("" = any) of a webhook payload, sorted.
func (m HookMsg) IDs(status string) []string {
	var out []string
	for _, a := range m.Alerts {
		if status == "" || a.Status == status {
			out = append(out, a.Labels["id"])
		}
	}
	sort.Strings(out)
	return out
}
