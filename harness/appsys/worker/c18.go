//go:build verif && appsysworker

package worker

import (
	"fmt"
	"net"
	"os"
	"strconv"
	"strings"
	"syscall"
	"time"

	"github.com/prometheus/alertmanager/app"
)

func init() {
	for _, k := range []string{"get-limit-held-on-both-trees", "get-limit-held-on-root-tree", "get-limit-held-on-api-tree"} {
		register("C18", k, c18Scenario)
	}
	multiplicity["C18/get-limit-held-on-both-trees"] = 3
}

// held is one GET kept in flight.
type held struct {
	c    net.Conn
	what string
}

func (h *held) release() { h.c.Close() }

// holdRoot keeps a GET of the root router tree in flight: a delta profile (?seconds=N) of the pprof endpoints the
// application serves under /debug/ sleeps N seconds inside the handler (and returns at once when the client goes away).
func holdRoot(addr string, seconds int) (*held, error) {
	c, err := net.DialTimeout("tcp", addr, 5*time.Second)
	if err != nil {
		return nil, err
	}
	_, err = fmt.Fprintf(c, "GET /debug/pprof/goroutine?seconds=%d HTTP/1.1\r\nHost: %s\r\n\r\n", seconds, addr)
	return &held{c, "root:/debug/pprof/goroutine?seconds"}, err
}

// holdAPI keeps a GET of the /api/v2 tree in flight: the response (all alerts, with large annotations) is bigger than
// what the socket buffers between a handler and a client that never reads can take.
func holdAPI(addr string) (*held, error) {
	d := net.Dialer{Timeout: 5 * time.Second, Control: func(_, _ string, rc syscall.RawConn) error {
		var serr error
		err := rc.Control(func(fd uintptr) { serr = syscall.SetsockoptInt(int(fd), syscall.SOL_SOCKET, syscall.SO_RCVBUF, 4096) })
		if err != nil {
			return err
		}
		return serr
	}}
	c, err := d.Dial("tcp", addr)
	if err != nil {
		return nil, err
	}
	_, err = fmt.Fprintf(c, "GET /api/v2/alerts HTTP/1.1\r\nHost: %s\r\n\r\n", addr)
	return &held{c, "api:/api/v2/alerts (reader that never reads)"}, err
}

func tcpWmemMax() int {
	b, err := os.ReadFile("/proc/sys/net/ipv4/tcp_wmem")
	if err != nil {
		return 4 << 20
	}
	f := strings.Fields(string(b))
	if len(f) != 3 {
		return 4 << 20
	}
	n, err := strconv.Atoi(f[2])
	if err != nil {
		return 4 << 20
	}
	return n
}

func c18Scenario(s *sc) {
	n := 2 + s.r.Intn(3) // the configured GET concurrency
	var nRoot int
	switch s.c.Kind {
	case "get-limit-held-on-both-trees":
		nRoot = 1 + s.r.Intn(n-1) // 1..n-1: both trees hold some
	case "get-limit-held-on-root-tree":
		nRoot = n
	default:
		nRoot = 0
	}
	nAPI := n - nRoot
	in, err := s.instance(func(o *app.Options) { o.GetConcurrency = n })
	s.must(err, "instance")
	conf := Conf{Root: Route{Receiver: "r0", GroupBy: []string{"id"}, GW: 30 * time.Second, GI: time.Minute, RI: time.Hour}, Receivers: []Recv{{Name: "r0", Hooks: []Hook{{}}}}}
	s.must(in.WriteConfig(conf.YAML(in.Sink)), "write config")
	s.must(in.Start(), "start")
	s.logf("GetConcurrency=%d; holding %d GETs on the root tree and %d on the /api/v2 tree", n, nRoot, nAPI)

	if nAPI > 0 {
		// make GET /api/v2/alerts bigger than the socket buffers
		need := 2*tcpWmemMax() + (8 << 20)
		if need > 96<<20 {
			s.inconclusive("socket send buffers too large to hold a GET open with a reader that never reads")
			return
		}
		per := 512 << 10
		big := strings.Repeat("x", per)
		end := time.Now().Add(10 * time.Minute)
		var as []AlertIn
		for i := 0; i*per < need; i++ {
			as = append(as, AlertIn{Labels: map[string]string{"alertname": "A", "id": fmt.Sprintf("big%d", i)}, Annotations: map[string]string{"blob": big}, EndsAt: &end})
			if len(as) == 8 {
				_, err := in.PostAlerts(as)
				s.must(err, "post big alerts")
				as = nil
			}
		}
		if len(as) > 0 {
			_, err := in.PostAlerts(as)
			s.must(err, "post big alerts")
		}
	}
	gauge := func() float64 {
		v, _ := in.Metric("alertmanager_http_requests_in_flight")
		return v
	}
	refused := func() float64 {
		v, _ := in.Metric("alertmanager_http_concurrency_limit_exceeded_total")
		return v
	}
	var hs []*held
	defer func() {
		for _, h := range hs {
			h.release()
		}
	}()
	for i := 0; i < nRoot; i++ {
		h, err := holdRoot(in.Addr, 12)
		s.must(err, "hold a root-tree GET")
		hs = append(hs, h)
	}
	for i := 0; i < nAPI; i++ {
		h, err := holdAPI(in.Addr)
		s.must(err, "hold an api-tree GET")
		hs = append(hs, h)
	}
	dl := time.Now().Add(5 * time.Second)
	for gauge() != float64(n) && time.Now().Before(dl) {
		time.Sleep(20 * time.Millisecond)
	}
	if g := gauge(); g != float64(n) {
		s.inconclusive("could not hold %d GETs in flight (alertmanager_http_requests_in_flight=%v)", n, g)
		return
	}
	tHeld := time.Now()
	r0 := refused()
	// ---- the (N+1)-th GET anywhere is refused and counted; POSTs pass ----
	probes := []string{"/-/healthy", "/api/v2/status", "/metrics", "/api/v2/silences", "/api/v2/receivers"}
	nRef := 0
	for _, p := range probes {
		code, _, err := in.do("GET", p, nil)
		s.must(err, "probe GET "+p)
		if g := gauge(); g != float64(n) || time.Since(tHeld) > 8*time.Second {
			s.inconclusive("the held GETs did not stay in flight during the probes")
			return
		}
		if code != 503 {
			tree := "root"
			if strings.HasPrefix(p, "/api/v2") {
				tree = "/api/v2"
			}
			s.violate("get-admitted-beyond-concurrency-limit", "GetConcurrency=%d with %d GETs in flight (%d on the root tree, %d on the /api/v2 tree): a further GET %s (%s tree) was answered %d instead of 503", n, n, nRoot, nAPI, p, tree, code)
			return
		}
		nRef++
	}
	// every refusal is reported: the counter grows at least by the refusals seen (a transparent client-side retry of
	// an idempotent GET could add more; not guaranteed either way, so only "fewer" is judged)
	if d := refused() - r0; d < float64(nRef) {
		s.violate("refused-get-not-counted", "%d GETs were refused with 503, alertmanager_http_concurrency_limit_exceeded_total grew by %v", nRef, d)
		return
	}
	end := time.Now().Add(10 * time.Minute)
	if code, err := in.PostAlerts([]AlertIn{{Labels: map[string]string{"alertname": "A", "id": "post"}, EndsAt: &end}}); err != nil || code != 200 {
		s.violate("post-refused-by-get-limit", "with %d GETs in flight a POST /api/v2/alerts was answered %d (%v); POSTs are not limited", n, code, err)
		return
	}
	if _, code, err := in.PostSilence(SilenceIn{Matchers: []Matcher{{Name: "x", Value: "y", IsEqual: true}}, StartsAt: time.Now(), EndsAt: end, CreatedBy: "appsys", Comment: "c18"}); err != nil || code != 200 {
		s.violate("post-refused-by-get-limit", "with %d GETs in flight a POST /api/v2/silences was answered %d (%v); POSTs are not limited", n, code, err)
		return
	}
	s.count("limit-judged")
	// ---- room is made by completion ----
	hs[0].release()
	dl = time.Now().Add(5 * time.Second)
	for gauge() != float64(n-1) && time.Now().Before(dl) {
		time.Sleep(20 * time.Millisecond)
	}
	if g := gauge(); g != float64(n-1) {
		s.inconclusive("the released GET (%s) did not leave the handler within 5s (in flight %v)", hs[0].what, g)
		return
	}
	if code, _, err := in.do("GET", "/api/v2/status", nil); err != nil || code != 200 {
		s.violate("get-refused-below-concurrency-limit", "GetConcurrency=%d with %d GETs in flight: GET /api/v2/status was answered %d (%v)", n, n-1, code, err)
		return
	}
	s.count("room-after-completion-judged")
}
