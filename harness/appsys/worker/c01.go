//go:build verif && appsysworker

package worker

import (
	"sync"
	"time"

	"github.com/prometheus/alertmanager/app"
)

func init() {
	register("C01", "start-delay-reload-storm", c01StartDelay)
	register("C01", "start-delay-single-reload", c01StartDelay)
	multiplicity["C01/start-delay-reload-storm"] = 2
	// the delivery obligations of the C04 families that are about C01: every integration is notified, a failed
	// delivery is retried until one succeeds, an integration added by a reload is notified
	register("C01", "retry-5xx", c04Scenario)
	register("C01", "reload-add", c04Scenario)
	register("C01", "steady", c04Scenario)
}

// c01StartDelay: Options.DispatchStartDelay postpones dispatching until process start + delay. Reloads build new
// dispatchers; they must start at the SAME instant (process start + delay), so reloads - however frequent - never
// postpone a notification beyond start + delay + group_wait.
func c01StartDelay(s *sc) {
	single := s.c.Kind == "start-delay-single-reload"
	delay := 1500 * time.Millisecond
	if single {
		// one reload just before the start instant shifts a wrongly computed start by ~delay: only a delay beyond
		// slack+late can be told from a late delivery, so this family runs in the thorough tier only
		if cp(s.c, "thorough", 0) == 0 {
			s.count("skipped in the quick tier (needs a 10 s start delay)")
			return
		}
		delay = 10 * time.Second
	}
	conf := Conf{Root: Route{Receiver: "r0", GroupBy: []string{"id"}, GW: gw, GI: gi, RI: time.Hour}, Receivers: []Recv{{Name: "r0", Hooks: []Hook{{SendResolved: false}}}}}
	in, err := s.instance(func(o *app.Options) { o.DispatchStartDelay = delay })
	s.must(err, "instance")
	s.must(in.WriteConfig(conf.YAML(in.Sink)), "write config")
	tStart := time.Now() // not later than the application's own start time
	s.must(in.Start(), "start")
	// The alert is older than group_wait, so every dispatcher flushes it as soon as it runs. (A young alert gets a
	// fresh group_wait from every new dispatcher: reloads more frequent than group_wait legitimately keep postponing
	// its first notification - not what this scenario is about.)
	end, begin := time.Now().Add(10*time.Minute), time.Now().Add(-5*time.Second)
	_, err = in.PostAlerts([]AlertIn{{Labels: map[string]string{"alertname": "A", "id": "d1"}, StartsAt: &begin, EndsAt: &end}})
	s.must(err, "post alert")
	tPosted := time.Now()
	got := func(reqs []Req) bool { return len(reqs) > 0 }
	// bound: the later of (start + delay) and (post + group_wait); both are at most start + delay + group_wait here
	bound := tStart.Add(delay + gw)
	if b2 := tPosted.Add(delay + gw); single && b2.After(bound) {
		bound = b2
	}
	stop := make(chan struct{})
	var wg sync.WaitGroup
	nReloads := 0
	var reloadErr error
	wg.Add(1)
	go func() {
		defer wg.Done()
		if single {
			select {
			case <-time.After(time.Until(tStart.Add(delay - 500*time.Millisecond))):
			case <-stop:
				return
			}
			reloadErr = in.Reload()
			nReloads++
			return
		}
		for {
			select {
			case <-time.After(700 * time.Millisecond):
			case <-stop:
				return
			}
			if err := in.Reload(); err != nil {
				reloadErr = err
				return
			}
			nReloads++
		}
	}()
	onTime := in.Sink.WaitFor(bound.Add(slack), got)
	arrived := onTime || in.Sink.WaitFor(bound.Add(slack+late), got)
	close(stop)
	wg.Wait()
	s.logf("delivered=%v (%.2fs after start), %d reloads meanwhile, start delay %s", arrived, time.Since(tStart).Seconds(), nReloads, delay)
	switch {
	case reloadErr != nil:
		s.violate("valid-reload-rejected", "Reload of the unchanged configuration failed: %v", reloadErr)
	case !arrived:
		s.violate("reloads-postpone-notifications", "DispatchStartDelay=%s, group_wait=%s: the alert posted right after the start was not notified within start+delay+group_wait+%s while the (unchanged) configuration was reloaded %d times", delay, gw, slack+late, nReloads)
	case !onTime:
		s.inconclusive("notification later than start+delay+group_wait+%s", slack)
	default:
		if r := in.Sink.Reqs()[0]; r.T.Before(tStart.Add(delay - 50*time.Millisecond)) {
			s.violate("notified-before-dispatch-start-delay", "DispatchStartDelay=%s: a notification went out %.2fs after the start", delay, r.T.Sub(tStart).Seconds())
			return
		}
		s.count("delivered-by-start+delay+group_wait despite reloads")
	}
}
