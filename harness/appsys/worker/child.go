//go:build verif && appsysworker

package worker

import (
	"encoding/json"
	"fmt"
	"net/http"
	"os"
	"os/exec"
	"path/filepath"
	"strings"
	"time"

	"github.com/prometheus/alertmanager/app"
)

// A child instance is a real application instance in its OWN operating-system process (this test binary started again
// with TestChildInstance), so that it can be killed without any shutdown code running (SIGKILL: no cluster leave, no
// final snapshots).

type childSpec struct {
	Dir      string   `json:"dir"`
	Name     string   `json:"name"`
	Bind     string   `json:"bind"`
	Peers    []string `json:"peers"`
	SettleMs int      `json:"settle_ms"`
}

func clusterMod(name, bind string, peers []string, settle time.Duration) modFunc {
	return clusterModPP(name, bind, peers, settle, time.Minute)
}

// clusterModPP: with an explicit push/pull interval. The default (1 min) is used by most scenarios: a short one would
// mask lost gossip broadcasts by full-state exchanges.
func clusterModPP(name, bind string, peers []string, settle, pushPull time.Duration) modFunc {
	return func(o *app.Options) {
		o.ClusterBindAddr = bind
		o.ClusterAdvertiseAddr = bind
		o.ClusterPeerName = name
		o.Peers = peers
		o.PeerTimeout = peerTimeout
		o.GossipInterval = 50 * time.Millisecond
		o.PushPullInterval = pushPull
		o.ProbeInterval = 300 * time.Millisecond
		o.ProbeTimeout = 150 * time.Millisecond
		o.TCPTimeout = 2 * time.Second
		o.SettleTimeout = settle
		o.ReconnectInterval = 2 * time.Second
		o.AllowInsecureAdvertise = true
	}
}

// runChild is the body of TestChildInstance.
func runChild(specJSON string) error {
	var sp childSpec
	if err := json.Unmarshal([]byte(specJSON), &sp); err != nil {
		return err
	}
	in := &Instance{Dir: sp.Dir, CfgPath: filepath.Join(sp.Dir, "alertmanager.yml"), Log: &logBuf{}, mod: clusterMod(sp.Name, sp.Bind, sp.Peers, time.Duration(sp.SettleMs)*time.Millisecond)}
	in.hc = &http.Client{Timeout: 20 * time.Second}
	if err := in.Start(); err != nil {
		_ = os.WriteFile(filepath.Join(sp.Dir, "child.err"), []byte(err.Error()), 0o644)
		return err
	}
	if err := os.WriteFile(filepath.Join(sp.Dir, "addr.tmp"), []byte(in.Addr), 0o644); err != nil {
		return err
	}
	if err := os.Rename(filepath.Join(sp.Dir, "addr.tmp"), filepath.Join(sp.Dir, "addr")); err != nil {
		return err
	}
	time.Sleep(10 * time.Minute) // the parent kills this process long before
	return nil
}

type child struct {
	in  *Instance
	cmd *exec.Cmd
}

// Kill ends the child process at once (SIGKILL).
func (c *child) Kill() {
	if c.cmd.Process != nil {
		_ = c.cmd.Process.Kill()
		_, _ = c.cmd.Process.Wait()
	}
}

// startChild starts a clustered instance in its own process; cfg is the configuration text (receivers pointing at the
// parent's sink).
func startChild(s *sc, sink *Sink, name string, peers []string, settle time.Duration, cfg string) (*child, int) {
	for try := 0; ; try++ {
		port, err := freePort()
		s.must(err, "find a cluster port")
		c, err := startChildOn(s, sink, name, port, peers, settle, cfg)
		if err == nil {
			return c, port
		}
		if try < 5 && strings.Contains(err.Error(), "address already in use") {
			s.logf("cluster port %d of %s was taken, trying another", port, name)
			continue
		}
		s.must(err, "child instance")
	}
}

func startChildOn(s *sc, sink *Sink, name string, port int, peers []string, settle time.Duration, cfg string) (*child, error) {
	dir, err := os.MkdirTemp("", "appsys-child-")
	s.must(err, "child dir")
	in := &Instance{Dir: dir, CfgPath: filepath.Join(dir, "alertmanager.yml"), Sink: sink, Log: &logBuf{}}
	in.hc = &http.Client{Transport: &http.Transport{MaxIdleConnsPerHost: 4, IdleConnTimeout: 5 * time.Second}, Timeout: 20 * time.Second}
	s.must(in.WriteConfig(cfg), "write child config")
	sp, _ := json.Marshal(childSpec{Dir: dir, Name: name, Bind: fmt.Sprintf("127.0.0.1:%d", port), Peers: peers, SettleMs: int(settle / time.Millisecond)})
	cmd := exec.Command(os.Args[0], "-test.run", "^TestChildInstance$", "-test.timeout", "5m")
	cmd.Env = append(os.Environ(), "APPSYS_CHILD="+string(sp), "APPSYS_JOB=", "APPSYS_OUT=", "APPSYS_PROP=")
	s.must(cmd.Start(), "start child process")
	c := &child{in: in, cmd: cmd}
	s.mu.Lock()
	s.cleanup = append(s.cleanup, func() { c.Kill(); os.RemoveAll(dir) })
	s.mu.Unlock()
	dl := time.Now().Add(20 * time.Second)
	for {
		if b, err := os.ReadFile(filepath.Join(dir, "addr")); err == nil {
			in.Addr = string(b)
			return c, nil
		}
		if b, err := os.ReadFile(filepath.Join(dir, "child.err")); err == nil {
			c.Kill()
			return nil, fmt.Errorf("%s", b)
		}
		if time.Now().After(dl) {
			c.Kill()
			return nil, fmt.Errorf("no address after 20s")
		}
		time.Sleep(50 * time.Millisecond)
	}
}
