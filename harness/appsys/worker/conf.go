//go:build verif && appsysworker

package worker

import (
	"fmt"
	"sort"
	"strings"
	"time"

	"github.com/prometheus/alertmanager/app"
)

type modFunc = func(*app.Options)

// Hook is one webhook integration; its endpoint name is "<receiver>.w<k>" unless Name is set.
type Hook struct {
	Name         string
	SendResolved bool
	BadCA        bool // tls_config.ca_file names a file that does not exist: config.Load accepts it, building the client fails
}

type Recv struct {
	Name    string
	Hooks   []Hook
	Discord int  // number of discord-style JSON integrations ("<receiver>.d<k>"), send_resolved true
	Email   bool // one email integration to "<receiver>.e0@sink" through the sink's SMTP server, send_resolved true
}

type Route struct {
	Receiver string
	Matchers []string          // e.g. `a="x"`, `b=~"x|y"`
	Match    map[string]string // deprecated match: (equality)
	MatchRE  map[string]string // deprecated match_re: (anchored regex)
	Continue bool
	GroupBy  []string // nil = inherit
	GW, GI   time.Duration
	RI       time.Duration
	Mute     []string
	Active   []string
	Routes   []Route
}

type Interval struct {
	Name  string
	Times [][2]string // HH:MM pairs
	Loc   string      // "" = none (UTC)
}

type Inhibit struct {
	Source, Target []string
	Equal          []string
}

type Conf struct {
	Root      Route
	Receivers []Recv
	Intervals []Interval
	MuteStyle bool // write the intervals under the deprecated mute_time_intervals key
	Inhibit   []Inhibit
	Templates []string
	Comment   string
	// BadTracing adds a tracing section that config.Load accepts and the tracing manager cannot apply (the CA file of
	// its TLS configuration does not exist): the LAST fallible step of a reload.
	BadTracing bool
	// ResolveTimeout: global resolve_timeout (0 = 5m).
	ResolveTimeout time.Duration
}

func d(x time.Duration) string {
	if x%time.Second == 0 {
		return fmt.Sprintf("%ds", int(x/time.Second))
	}
	return fmt.Sprintf("%dms", int(x/time.Millisecond))
}

func (rt Route) yaml(sb *strings.Builder, ind string, root bool) {
	w := func(f string, a ...any) { sb.WriteString(ind + fmt.Sprintf(f, a...) + "\n") }
	w("receiver: %s", rt.Receiver)
	if len(rt.Matchers) > 0 {
		w("matchers:")
		for _, m := range rt.Matchers {
			w("- '%s'", m)
		}
	}
	for _, leg := range []struct {
		key string
		m   map[string]string
	}{{"match", rt.Match}, {"match_re", rt.MatchRE}} {
		if len(leg.m) > 0 {
			w("%s:", leg.key)
			names := make([]string, 0, len(leg.m))
			for n := range leg.m {
				names = append(names, n)
			}
			sort.Strings(names)
			for _, n := range names {
				w("  %s: '%s'", n, leg.m[n])
			}
		}
	}
	if rt.Continue {
		w("continue: true")
	}
	if rt.GroupBy != nil {
		w("group_by: [%s]", strings.Join(rt.GroupBy, ", "))
	}
	if rt.GW > 0 {
		w("group_wait: %s", d(rt.GW))
	}
	if rt.GI > 0 {
		w("group_interval: %s", d(rt.GI))
	}
	if rt.RI > 0 {
		w("repeat_interval: %s", d(rt.RI))
	}
	if len(rt.Mute) > 0 {
		w("mute_time_intervals: [%s]", strings.Join(rt.Mute, ", "))
	}
	if len(rt.Active) > 0 {
		w("active_time_intervals: [%s]", strings.Join(rt.Active, ", "))
	}
	if len(rt.Routes) > 0 {
		w("routes:")
		for _, ch := range rt.Routes {
			var sub strings.Builder
			ch.yaml(&sub, ind+"  ", false)
			s := sub.String()
			// first line gets the list dash
			sb.WriteString(ind + "- " + strings.TrimPrefix(s, ind+"  "))
		}
	}
}

// YAML renders the configuration text with the receivers pointing at sink.
func (c Conf) YAML(sink *Sink) string {
	var sb strings.Builder
	if c.Comment != "" {
		sb.WriteString("# " + c.Comment + "\n")
	}
	rt := "5m"
	if c.ResolveTimeout > 0 {
		rt = d(c.ResolveTimeout)
	}
	sb.WriteString("global:\n  resolve_timeout: " + rt + "\n  smtp_from: am@sink\n  smtp_smarthost: " + sink.SMTPAddr() + "\n  smtp_require_tls: false\n")
	if len(c.Templates) > 0 {
		sb.WriteString("templates:\n")
		for _, t := range c.Templates {
			sb.WriteString("- '" + t + "'\n")
		}
	}
	if c.BadTracing {
		sb.WriteString("tracing:\n  endpoint: 127.0.0.1:1\n  client_type: grpc\n  tls_config:\n    ca_file: /nonexistent/appsys-tracing-ca.pem\n")
	}
	sb.WriteString("route:\n")
	c.Root.yaml(&sb, "  ", true)
	if len(c.Inhibit) > 0 {
		sb.WriteString("inhibit_rules:\n")
		for _, ir := range c.Inhibit {
			sb.WriteString("- source_matchers: ['" + strings.Join(ir.Source, "', '") + "']\n")
			sb.WriteString("  target_matchers: ['" + strings.Join(ir.Target, "', '") + "']\n")
			if len(ir.Equal) > 0 {
				sb.WriteString("  equal: [" + strings.Join(ir.Equal, ", ") + "]\n")
			}
		}
	}
	if len(c.Intervals) > 0 {
		if c.MuteStyle {
			sb.WriteString("mute_time_intervals:\n")
		} else {
			sb.WriteString("time_intervals:\n")
		}
		for _, ti := range c.Intervals {
			sb.WriteString("- name: " + ti.Name + "\n  time_intervals:\n  - times:\n")
			for _, tr := range ti.Times {
				fmt.Fprintf(&sb, "    - start_time: '%s'\n      end_time: '%s'\n", tr[0], tr[1])
			}
			if ti.Loc != "" {
				sb.WriteString("    location: '" + ti.Loc + "'\n")
			}
		}
	}
	sb.WriteString("receivers:\n")
	for _, rc := range c.Receivers {
		sb.WriteString("- name: " + rc.Name + "\n")
		if len(rc.Hooks) > 0 {
			sb.WriteString("  webhook_configs:\n")
			for k, h := range rc.Hooks {
				name := h.Name
				if name == "" {
					name = fmt.Sprintf("%s.w%d", rc.Name, k)
				}
				fmt.Fprintf(&sb, "  - url: %s\n    send_resolved: %v\n", sink.HookURL(name), h.SendResolved)
				if h.BadCA {
					sb.WriteString("    http_config:\n      tls_config:\n        ca_file: /nonexistent/appsys-ca.pem\n")
				}
			}
		}
		if rc.Email {
			fmt.Fprintf(&sb, "  email_configs:\n  - to: %s.e0@sink\n    send_resolved: true\n    headers:\n      Subject: 'status {{ .Status }} g={{ .GroupLabels.g }} end'\n", rc.Name)
		}
		if rc.Discord > 0 {
			sb.WriteString("  discord_configs:\n")
			for k := 0; k < rc.Discord; k++ {
				fmt.Fprintf(&sb, "  - webhook_url: %s\n    send_resolved: true\n    title: 'status {{ .Status }} g={{ .GroupLabels.g }} end'\n", sink.DiscordURL(fmt.Sprintf("%s.d%d", rc.Name, k)))
			}
		}
	}
	return sb.String()
}

// HookNames lists the endpoint names of a receiver, in integration order.
func (rc Recv) Endpoints() []string {
	var out []string
	for k, h := range rc.Hooks {
		if h.Name != "" {
			out = append(out, h.Name)
		} else {
			out = append(out, fmt.Sprintf("%s.w%d", rc.Name, k))
		}
	}
	if rc.Email {
		out = append(out, rc.Name+".e0")
	}
	for k := 0; k < rc.Discord; k++ {
		out = append(out, fmt.Sprintf("%s.d%d", rc.Name, k))
	}
	return out
}
