//go:build verif && appsysworker

package worker

import (
	"strings"
	"sync"
	"time"
)

func init() {
	for _, k := range []string{"mute-interval-contains-now-in-utc", "mute-interval-contains-now-in-local-zone-only", "active-interval-contains-now-in-utc",
		"active-interval-contains-now-in-local-zone-only", "mute-interval-with-location-contains-now"} {
		register("C15", k, c15Scenario)
	}
}

var c15Zone sync.Once

// c15Scenario: the process's local zone is UTC+12 (time.Now() carries it, as it does on a host whose TZ is not UTC).
// An interval without a location must be evaluated in UTC; one with a location in that location.
func c15Scenario(s *sc) {
	c15Zone.Do(func() { time.Local = time.FixedZone("HOST+12", 12*3600) })
	if _, off := time.Now().Zone(); off != 12*3600 {
		s.must(errNoZone, "set the process's local zone")
	}
	kind := s.c.Kind
	now := time.Now()
	utcNow, localNow := rangesAround(now), rangesAround(now.Add(12*time.Hour)) // "localNow": the wall clock of the host zone read as if it were UTC
	ti := Interval{Name: "ti"}
	wantMuted := false
	route := Route{Receiver: "r0", Matchers: []string{`grp="t"`}}
	switch kind {
	case "mute-interval-contains-now-in-utc":
		ti.Times, route.Mute, wantMuted = utcNow, []string{"ti"}, true
	case "mute-interval-contains-now-in-local-zone-only":
		ti.Times, route.Mute, wantMuted = localNow, []string{"ti"}, false
	case "active-interval-contains-now-in-utc":
		ti.Times, route.Active, wantMuted = utcNow, []string{"ti"}, false
	case "active-interval-contains-now-in-local-zone-only":
		ti.Times, route.Active, wantMuted = localNow, []string{"ti"}, true
	case "mute-interval-with-location-contains-now":
		// Etc/GMT-12 is UTC+12: the host's wall clock
		ti.Times, ti.Loc, route.Mute, wantMuted = localNow, "Etc/GMT-12", []string{"ti"}, true
	}
	conf := Conf{
		Root:      Route{Receiver: "r0", GroupBy: []string{"id"}, GW: gw, GI: gi, RI: time.Hour, Routes: []Route{route}},
		Receivers: []Recv{{Name: "r0", Hooks: []Hook{{SendResolved: false}}}},
		Intervals: []Interval{ti},
		MuteStyle: len(route.Mute) > 0 && s.c.Seed%2 == 0,
	}
	s.logf("host zone UTC+12; now %s UTC; interval %v location %q; mute=%v active=%v", now.UTC().Format("15:04"), ti.Times, ti.Loc, route.Mute, route.Active)
	in, err := s.instance(nil)
	s.must(err, "instance")
	s.must(in.WriteConfig(conf.YAML(in.Sink)), "write config")
	s.must(in.Start(), "start")
	end := now.Add(10 * time.Minute)
	tPost := time.Now()
	_, err = in.PostAlerts([]AlertIn{
		{Labels: map[string]string{"alertname": "A", "grp": "t", "id": "timed"}, EndsAt: &end},
		{Labels: map[string]string{"alertname": "A", "grp": "other", "id": "control"}, EndsAt: &end},
	})
	s.must(err, "post alerts")
	listed := func(reqs []Req, id string) bool {
		for _, r := range reqs {
			for _, a := range r.Msg.Alerts {
				if a.Labels["id"] == id {
					return true
				}
			}
		}
		return false
	}
	want := func(reqs []Req) bool { return listed(reqs, "control") && (wantMuted || listed(reqs, "timed")) }
	if !in.Sink.WaitFor(tPost.Add(gw+slack), want) {
		if in.Sink.WaitFor(tPost.Add(gw+slack+late), want) {
			s.inconclusive("notifications later than group_wait+%s", slack)
			return
		}
		if !listed(in.Sink.Reqs(), "control") {
			s.violate("ungated-route-not-notified", "the alert on the route without time intervals was not notified within group_wait+%s", slack+late)
			return
		}
		s.violate("interval-evaluated-in-the-wrong-zone", "%s: the interval %v (location %q) does not gate the present instant %s UTC, yet the alert was not notified within group_wait+%s (host zone is UTC+12)", kind, ti.Times, ti.Loc, now.UTC().Format("15:04"), slack+late)
		return
	}
	time.Sleep(1200 * time.Millisecond)
	if wantMuted && listed(in.Sink.Reqs(), "timed") {
		s.violate("interval-evaluated-in-the-wrong-zone", "%s: the interval %v (location %q) gates the present instant %s UTC, yet the alert was notified (host zone is UTC+12)", kind, ti.Times, ti.Loc, now.UTC().Format("15:04"))
		return
	}
	wantMB := ""
	if wantMuted {
		wantMB = "ti"
	}
	st, mb, _ := mutedByOf(s, in, "timed", time.Now().Add(slack), func(_ string, mb []string) bool { return strings.Join(mb, ",") == wantMB })
	if strings.Join(mb, ",") != wantMB {
		s.violate("muted-by-disagrees-with-gating", "%s: the flush was gated=%v but /alerts/groups reports mutedBy=%v state=%s", kind, wantMuted, mb, st)
		return
	}
	s.count("gating-judged")
}

type noZone struct{}

func (noZone) Error() string { return "time.Local could not be changed" }

var errNoZone = noZone{}
