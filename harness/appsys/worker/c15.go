//go:build verif && appsysworker

package worker

import (
	"strings"
	"sync"
	"time"
)

func init() {
	for _, k := range []string{"mute-interval-contains-now-in-utc", "mute-interval-contains-now-in-local-zone-only", "active-interval-contains-now-in-utc",
		"active-interval-contains-now-in-local-zone-only", "mute-interval-with-location-contains-now",
		"mute-interval-on-a-route-to-a-receiver-without-integrations", "active-interval-on-a-route-to-a-receiver-without-integrations"} {
		register("C15", k, c15Scenario)
	}
	register("C15", "muted-state-in-api-follows-reloads", c15Reloads)
	// C06: the grouped view (incl. ?muted=false) shows exactly the live groups that are (not) muted now
	register("C06", "muted-state-in-api-follows-reloads", c15Reloads)
	multiplicity["C06/muted-state-in-api-follows-reloads"] = 2
}

// c15Reloads: the group's muted state as GET /api/v2/alerts/groups reports it must follow the flushes across
// configuration reloads. A sequence of configurations, each applied by a (successful) reload, in which the present
// instant is: inside mute interval tiA / inside tiB / outside both / outside the route's only active interval.
// Consecutive states differ, so the first flush after every reload has a muted state unlike the one before the
// reload; after it the API must report exactly the names that gate the present instant (none when not gated), and
// the notification must go out exactly in the ungated states.
func c15Reloads(s *sc) {
	now := time.Now()
	near, far := rangesAround(now), rangesAround(now.Add(12*time.Hour))
	type state struct {
		name   string
		a, b   [][2]string
		mute   []string
		active []string
		want   []string
	}
	states := []state{
		{"inside mute interval tiA", near, far, []string{"tiA", "tiB"}, nil, []string{"tiA"}},
		{"inside mute interval tiB", far, near, []string{"tiA", "tiB"}, nil, []string{"tiB"}},
		{"outside every interval", far, far, []string{"tiA", "tiB"}, nil, nil},
		{"outside the only active interval tiA", far, far, []string{"tiB"}, []string{"tiA"}, []string{"tiA"}},
		{"inside active interval tiA, no mute interval applies", near, far, []string{"tiB"}, []string{"tiA"}, nil},
	}
	// a random walk over the states without repeating the muted-by answer
	n := 3
	if cp(s.c, "thorough", 0) == 1 {
		n = 6
	}
	var seq []state
	for len(seq) < n {
		st := states[s.r.Intn(len(states))]
		if len(seq) > 0 && strings.Join(seq[len(seq)-1].want, ",") == strings.Join(st.want, ",") {
			continue
		}
		seq = append(seq, st)
	}
	mkConf := func(st state) Conf {
		return Conf{
			Root: Route{Receiver: "r0", GroupBy: []string{"id"}, GW: gw, GI: gi, RI: time.Hour,
				Routes: []Route{{Receiver: "r0", Matchers: []string{`grp="m"`}, Mute: st.mute, Active: st.active}}},
			Receivers: []Recv{{Name: "r0", Hooks: []Hook{{SendResolved: false}}}},
			Intervals: []Interval{{Name: "tiA", Times: st.a}, {Name: "tiB", Times: st.b}},
			MuteStyle: false,
			Comment:   st.name,
		}
	}
	in, err := s.instance(nil)
	s.must(err, "instance")
	end := now.Add(10 * time.Minute)
	for i, st := range seq {
		s.must(in.WriteConfig(mkConf(st).YAML(in.Sink)), "write config")
		var t0 time.Time
		if i == 0 {
			s.must(in.Start(), "start")
			t0 = time.Now()
			_, err = in.PostAlerts([]AlertIn{{Labels: map[string]string{"alertname": "A", "grp": "m", "id": "m1"}, EndsAt: &end}, {Labels: map[string]string{"alertname": "A", "grp": "other", "id": "c1"}, EndsAt: &end}})
			s.must(err, "post alert")
		} else {
			if err := in.Reload(); err != nil {
				s.violate("valid-reload-rejected", "Reload failed: %v", err)
				return
			}
			t0 = time.Now()
		}
		phase := "configuration " + string(rune('1'+i)) + " (" + st.name + ")"
		// (notifications about m1 only: the control alert c1 on the ungated root route is notified on its own)
		m1Reqs := func(reqs []Req) []Req {
			var out []Req
			for _, r := range reqs {
				for _, a := range r.Msg.Alerts {
					if a.Labels["id"] == "m1" {
						out = append(out, r)
						break
					}
				}
			}
			return out
		}
		nBefore := len(m1Reqs(in.Sink.Reqs()))
		is := func(_ string, mb []string) bool { return strings.Join(mb, ",") == strings.Join(st.want, ",") }
		// the group's first flush under this configuration comes group_wait after the (re)start of the dispatcher
		if len(st.want) == 0 && nBefore == 0 {
			// ungated and never notified so far (afterwards the notification log suppresses repeats for repeat_interval):
			// the notification must go out; only then is the API view judged
			sent := func(reqs []Req) bool { return len(m1Reqs(reqs)) > nBefore }
			if !in.Sink.WaitFor(t0.Add(gw+slack), sent) {
				if in.Sink.WaitFor(t0.Add(gw+slack+late), sent) {
					s.inconclusive("%s: notification later than group_wait+%s", phase, slack)
					return
				}
				s.violate("ungated-flush-not-notified", "%s: no interval gates the present instant and the group was not notified within group_wait+%s", phase, slack+late)
				return
			}
		}
		stt, mb, ok := mutedByOf(s, in, "m1", t0.Add(gw+slack), is)
		if !ok {
			stt, mb, ok = mutedByOf(s, in, "m1", t0.Add(gw+slack+late), is)
			if ok {
				s.inconclusive("%s: the grouped view showed the new state later than group_wait+%s", phase, slack)
				return
			}
			s.violate("muted-state-in-api-does-not-follow-the-flush", "%s, applied by a reload: %s after it GET /api/v2/alerts/groups reports mutedBy=%v (state %s) for the group; the flush under this configuration is gated by %v", phase, (gw + slack + late).String(), mb, stt, st.want)
			return
		}
		wantState := "active"
		if len(st.want) > 0 {
			wantState = "suppressed"
		}
		if stt != wantState {
			s.violate("muted-group-state-wrong", "%s: mutedBy=%v but state=%s, want %s", phase, mb, stt, wantState)
			return
		}
		if len(st.want) > 0 {
			// gated: let one more group_interval pass; nothing may have been sent under this configuration
			time.Sleep(gi + 300*time.Millisecond)
			for _, r := range m1Reqs(in.Sink.Reqs())[nBefore:] {
				if r.T.After(t0.Add(200 * time.Millisecond)) {
					s.violate("gated-flush-notified", "%s: the group was notified %.2fs after the configuration was applied", phase, r.T.Sub(t0).Seconds())
					return
				}
			}
			if _, mb2, _ := mutedByOf(s, in, "m1", time.Now(), is); strings.Join(mb2, ",") != strings.Join(st.want, ",") {
				s.violate("muted-state-in-api-does-not-follow-the-flush", "%s: after a further flush the API reports mutedBy=%v, want %v", phase, mb2, st.want)
				return
			}
		}
		// ?muted=false lists exactly the live groups that are not muted now (the control group always, m1's iff ungated)
		unm, err := in.GetGroupsQ("muted=false")
		s.must(err, "GET groups muted=false")
		hasM1, hasCtl := false, false
		for _, g := range unm {
			for _, a := range g.Alerts {
				hasM1 = hasM1 || a.Labels["id"] == "m1"
				hasCtl = hasCtl || a.Labels["id"] == "c1"
			}
		}
		if hasM1 != (len(st.want) == 0) || !hasCtl {
			s.violate("unmuted-groups-view-not-the-live-partition", "%s: the group of m1 is muted by %v now and the control group is never muted; GET /api/v2/alerts/groups?muted=false lists m1's group: %v, the control group: %v", phase, st.want, hasM1, hasCtl)
			return
		}
		s.logf("%s: mutedBy=%v state=%s", phase, mb, stt)
		s.count("state-after-reload-judged")
	}
}

var c15Zone sync.Once

// c15Scenario: the process's local zone is UTC+12 (time.Now() carries it, as it does on a host whose TZ is not UTC).
// An interval without a location must be evaluated in UTC; one with a location in that location.
func c15Scenario(s *sc) {
	c15Zone.Do(func() { time.Local = time.FixedZone("HOST+12", 12*3600) })
	if _, off := time.Now().Zone(); off != 12*3600 {
		s.must(errNoZone, "set the process's local zone")
	}
	kind := s.c.Kind
	now := time.Now()
	utcNow, localNow := rangesAround(now), rangesAround(now.Add(12*time.Hour)) // "localNow": the wall clock of the host zone read as if it were UTC
	ti := Interval{Name: "ti"}
	wantMuted := false
	route := Route{Receiver: "r0", Matchers: []string{`grp="t"`}}
	switch kind {
	case "mute-interval-contains-now-in-utc":
		ti.Times, route.Mute, wantMuted = utcNow, []string{"ti"}, true
	case "mute-interval-contains-now-in-local-zone-only":
		ti.Times, route.Mute, wantMuted = localNow, []string{"ti"}, false
	case "active-interval-contains-now-in-utc":
		ti.Times, route.Active, wantMuted = utcNow, []string{"ti"}, false
	case "active-interval-contains-now-in-local-zone-only":
		ti.Times, route.Active, wantMuted = localNow, []string{"ti"}, true
	case "mute-interval-on-a-route-to-a-receiver-without-integrations":
		// nothing is ever sent to such a receiver, but the group is still muted and must be reported so
		ti.Times, route.Mute, route.Receiver, wantMuted = utcNow, []string{"ti"}, "blackhole", true
	case "active-interval-on-a-route-to-a-receiver-without-integrations":
		ti.Times, route.Active, route.Receiver, wantMuted = localNow, []string{"ti"}, "blackhole", true
	case "mute-interval-with-location-contains-now":
		// Etc/GMT-12 is UTC+12: the host's wall clock
		ti.Times, ti.Loc, route.Mute, wantMuted = localNow, "Etc/GMT-12", []string{"ti"}, true
	}
	conf := Conf{
		Root:      Route{Receiver: "r0", GroupBy: []string{"id"}, GW: gw, GI: gi, RI: time.Hour, Routes: []Route{route}},
		Receivers: []Recv{{Name: "r0", Hooks: []Hook{{SendResolved: false}}}, {Name: "blackhole"}},
		Intervals: []Interval{ti},
		MuteStyle: len(route.Mute) > 0 && s.c.Seed%2 == 0,
	}
	s.logf("host zone UTC+12; now %s UTC; interval %v location %q; mute=%v active=%v", now.UTC().Format("15:04"), ti.Times, ti.Loc, route.Mute, route.Active)
	in, err := s.instance(nil)
	s.must(err, "instance")
	s.must(in.WriteConfig(conf.YAML(in.Sink)), "write config")
	s.must(in.Start(), "start")
	end := now.Add(10 * time.Minute)
	tPost := time.Now()
	_, err = in.PostAlerts([]AlertIn{
		{Labels: map[string]string{"alertname": "A", "grp": "t", "id": "timed"}, EndsAt: &end},
		{Labels: map[string]string{"alertname": "A", "grp": "other", "id": "control"}, EndsAt: &end},
	})
	s.must(err, "post alerts")
	listed := func(reqs []Req, id string) bool {
		for _, r := range reqs {
			for _, a := range r.Msg.Alerts {
				if a.Labels["id"] == id {
					return true
				}
			}
		}
		return false
	}
	want := func(reqs []Req) bool { return listed(reqs, "control") && (wantMuted || listed(reqs, "timed")) }
	if !in.Sink.WaitFor(tPost.Add(gw+slack), want) {
		if in.Sink.WaitFor(tPost.Add(gw+slack+late), want) {
			s.inconclusive("notifications later than group_wait+%s", slack)
			return
		}
		if !listed(in.Sink.Reqs(), "control") {
			s.violate("ungated-route-not-notified", "the alert on the route without time intervals was not notified within group_wait+%s", slack+late)
			return
		}
		s.violate("interval-evaluated-in-the-wrong-zone", "%s: the interval %v (location %q) does not gate the present instant %s UTC, yet the alert was not notified within group_wait+%s (host zone is UTC+12)", kind, ti.Times, ti.Loc, now.UTC().Format("15:04"), slack+late)
		return
	}
	time.Sleep(1200 * time.Millisecond)
	if wantMuted && listed(in.Sink.Reqs(), "timed") {
		s.violate("interval-evaluated-in-the-wrong-zone", "%s: the interval %v (location %q) gates the present instant %s UTC, yet the alert was notified (host zone is UTC+12)", kind, ti.Times, ti.Loc, now.UTC().Format("15:04"))
		return
	}
	wantMB := ""
	if wantMuted {
		wantMB = "ti"
	}
	st, mb, _ := mutedByOf(s, in, "timed", time.Now().Add(slack), func(_ string, mb []string) bool { return strings.Join(mb, ",") == wantMB })
	if strings.Join(mb, ",") != wantMB {
		s.violate("muted-by-disagrees-with-gating", "%s: the flush was gated=%v but /alerts/groups reports mutedBy=%v state=%s", kind, wantMuted, mb, st)
		return
	}
	s.count("gating-judged")
}

type noZone struct{}

func (noZone) Error() string { return "time.Local could not be changed" }

var errNoZone = noZone{}
