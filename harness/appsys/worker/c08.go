//go:build verif && appsysworker

package worker

import (
	"fmt"
	"net"
	"sort"
	"strings"
	"sync"
	"time"
)

func init() {
	register("C08", "cluster-healthy-pair", c08Healthy)
	register("C08", "cluster-healthy-trio", c08Healthy)
	register("C08", "cluster-member-replaced", c08Replaced)
	register("C08", "cluster-settle-timeout-sole-instance", c08SettleTimeout)
	register("C08", "cluster-settle-timeout-pair", c08SettleTimeout)
	// C01: start-up settling is bounded - an instance whose settling ends by the settle timeout notifies
	register("C01", "cluster-settle-timeout-sole-instance", c08SettleTimeout)
	register("C01", "cluster-short-settle-timeout-sole-instance", c08SettleTimeout)
	register("C01", "cluster-short-settle-timeout-pair", c08SettleTimeout)
	register("C08", "cluster-reload-while-email-in-flight", c08ReloadInflight)
	register("C08", "cluster-oversized-log-entries", c08Oversized)
	multiplicity["C08/cluster-oversized-log-entries"] = 2
	register("C08", "cluster-peer-stops", c08PeerStops)
	register("C08", "cluster-peer-killed", c08PeerStops)
}

const (
	peerTimeout = 2 * time.Second // one position = one peer timeout of waiting
	// "healthy" needs (N-1)*peerTimeout + 5 s < group_interval (the last member's wait must end well inside one interval)
	clusterGI = 10 * time.Second
)

var (
	portMu    sync.Mutex
	portsUsed = map[int]bool{}
)

// freePort finds a port that is free for TCP and UDP on loopback (memberlist binds both) and was not handed out
// before in this process. Another process can still take it before it is bound: startMember retries.
func freePort() (int, error) {
	portMu.Lock()
	defer portMu.Unlock()
	for try := 0; try < 50; try++ {
		l, err := net.Listen("tcp", "127.0.0.1:0")
		if err != nil {
			return 0, err
		}
		port := l.Addr().(*net.TCPAddr).Port
		u, err := net.ListenPacket("udp", fmt.Sprintf("127.0.0.1:%d", port))
		l.Close()
		if err == nil {
			u.Close()
			if !portsUsed[port] {
				portsUsed[port] = true
				return port, nil
			}
		}
	}
	return 0, fmt.Errorf("no port free for tcp+udp")
}

// startMember = newMember + Start, with a new port when the chosen one was taken in the meantime.
func startMember(s *sc, sink *Sink, name string, peers []*member, settle time.Duration, conf Conf) *member {
	for try := 0; ; try++ {
		m := newMember(s, sink, name, peers, settle, conf)
		err := m.in.Start()
		if err == nil {
			return m
		}
		if try < 5 && strings.Contains(err.Error(), "address already in use") {
			s.logf("cluster port %d of %s was taken, trying another", m.port, name)
			continue
		}
		s.must(err, "start "+name)
	}
}

type member struct {
	name string
	port int
	in   *Instance
}

func (m *member) addr() string { return fmt.Sprintf("127.0.0.1:%d", m.port) }

// newMember prepares (does not start) a clustered instance that notifies the shared sink.
func newMember(s *sc, sink *Sink, name string, peers []*member, settle time.Duration, conf Conf) *member {
	port, err := freePort()
	s.must(err, "find a cluster port")
	m := &member{name: name, port: port}
	var peerAddrs []string
	for _, p := range peers {
		peerAddrs = append(peerAddrs, p.addr())
	}
	in, err := s.instanceWithSink(clusterMod(name, m.addr(), peerAddrs, settle), sink)
	s.must(err, "instance "+name)
	s.must(in.WriteConfig(conf.YAML(in.Sink)), "write config "+name)
	m.in = in
	return m
}

func clusterConf() Conf { return clusterConfGI(clusterGI) }

func clusterConfGI(gi time.Duration) Conf {
	return Conf{Root: Route{Receiver: "r0", GroupBy: []string{"id"}, GW: gw, GI: gi, RI: time.Hour}, Receivers: []Recv{{Name: "r0", Hooks: []Hook{{SendResolved: true}}}}}
}

// converged waits until every member reports status ready and the same set of peer names; the ranks of the members'
// own names in that set are then a permutation of 0..n-1.
func converged(s *sc, ms []*member, bound time.Duration) bool {
	want := []string{}
	for _, m := range ms {
		want = append(want, m.name)
	}
	sort.Strings(want)
	dl := time.Now().Add(bound)
	last := ""
	for {
		ok := true
		var views []string
		for _, m := range ms {
			cs, err := m.in.ClusterStatus()
			s.must(err, "GET status of "+m.name)
			views = append(views, fmt.Sprintf("%s:%s%v", m.name, cs.Status, cs.PeerNames()))
			if cs.Status != "ready" || strings.Join(cs.PeerNames(), ",") != strings.Join(want, ",") || cs.Name != m.name {
				ok = false
			}
		}
		last = strings.Join(views, " ")
		if ok {
			s.logf("cluster converged: %s", last)
			return true
		}
		if time.Now().After(dl) {
			s.logf("cluster did not converge: %s", last)
			return false
		}
		time.Sleep(100 * time.Millisecond)
	}
}

// gossipHealthy measures how long a silence created on the first member takes to show up on the last one. The
// duplicate oracle relies on a log entry crossing the cluster within one peer timeout; when even this probe needs more
// than a quarter of it the machine is too loaded to judge.
func gossipHealthy(s *sc, ms []*member) bool {
	if len(ms) < 2 {
		return true
	}
	now := time.Now()
	t0 := time.Now()
	id, _, err := ms[0].in.PostSilence(SilenceIn{Matchers: []Matcher{{Name: "probe", Value: fmt.Sprint(now.UnixNano()), IsEqual: true}}, StartsAt: now, EndsAt: now.Add(time.Minute), CreatedBy: "appsys", Comment: "gossip probe"})
	s.must(err, "create probe silence")
	last := ms[len(ms)-1]
	for time.Since(t0) < peerTimeout {
		sils, err := last.in.GetSilences()
		s.must(err, "GET silences of "+last.name)
		for _, x := range sils {
			if x.ID == id {
				d := time.Since(t0)
				s.logf("gossip probe: %s -> %s in %dms", ms[0].name, last.name, d.Milliseconds())
				if d > peerTimeout/4 {
					s.inconclusive("gossip between the instances is slower than a quarter of the peer timeout (machine too loaded to judge duplicates)")
					return false
				}
				return true
			}
		}
		time.Sleep(10 * time.Millisecond)
	}
	s.inconclusive("a silence did not cross the cluster within one peer timeout (machine too loaded to judge duplicates)")
	return false
}

func postAll(s *sc, ms []*member, as []AlertIn) {
	for _, m := range ms {
		_, err := m.in.PostAlerts(as)
		s.must(err, "post alerts to "+m.name)
	}
}

// notifs counts the delivered notifications about alert id with the given status.
func notifs(reqs []Req, id, status string) int {
	n := 0
	for _, r := range reqs {
		if r.Msg.Status != status || r.Aborted || r.Code >= 300 {
			continue
		}
		for _, a := range r.Msg.Alerts {
			if a.Labels["id"] == id {
				n++
			}
		}
	}
	return n
}

// exactlyOnce: alert ids (one group each) posted to every member at tPost must be notified once, by whichever member,
// within group_wait (+ position waits when nobody may be at position 0 yet) and not again while the members further
// back in the order run their waits.
func exactlyOnce(s *sc, sink *Sink, ids []string, status string, tFrom time.Time, bound time.Duration, n int, what string) bool {
	all := func(reqs []Req) bool {
		for _, id := range ids {
			if notifs(reqs, id, status) == 0 {
				return false
			}
		}
		return true
	}
	if !sink.WaitFor(tFrom.Add(bound+slack), all) {
		if sink.WaitFor(tFrom.Add(bound+slack+late), all) {
			s.inconclusive("%s: %s notification later than %s", what, status, bound+slack)
		} else {
			s.violate("cluster-no-notification", "%s: no instance sent the %s notification for %v within %s", what, status, ids, bound+slack+late)
		}
		return false
	}
	// every other member flushes at about the same instant and waits position*peer_timeout before its log lookup
	time.Sleep(time.Duration(n-1)*peerTimeout + 1500*time.Millisecond)
	for _, id := range ids {
		if k := notifs(sink.Reqs(), id, status); k != 1 {
			s.violate("cluster-duplicate-notification", "%s: the %s notification for %s was delivered %d times by a healthy cluster of %d (gossip over loopback, no faults, the alert did not change)", what, status, id, k, n)
			return false
		}
	}
	return true
}

func c08Healthy(s *sc) {
	n := 2
	if strings.HasSuffix(s.c.Kind, "trio") {
		n = 3
	}
	sink, err := NewSink()
	s.must(err, "sink")
	defer sink.Close()
	names := []string{"am-a", "am-b", "am-c"}[:n]
	// start order is random; positions follow the names
	order := s.r.Intn(2) == 0
	var ms []*member
	for i := range names {
		name := names[i]
		if order {
			name = names[n-1-i]
		}
		ms = append(ms, startMember(s, sink, name, ms, 10*time.Second, clusterConf()))
	}
	if !converged(s, ms, 12*time.Second) {
		s.inconclusive("the cluster did not report ready with %d members within 12s", n)
		return
	}
	if !gossipHealthy(s, ms) {
		return
	}
	now := time.Now()
	end := now.Add(10 * time.Minute)
	as := []AlertIn{
		{Labels: map[string]string{"alertname": "A", "id": "h1"}, StartsAt: &now, EndsAt: &end},
		{Labels: map[string]string{"alertname": "A", "id": "h2"}, StartsAt: &now, EndsAt: &end},
	}
	tPost := time.Now()
	postAll(s, ms, as)
	if !exactlyOnce(s, sink, []string{"h1", "h2"}, "firing", tPost, gw, n, "healthy cluster") {
		return
	}
	s.count("firing-exactly-once")
	if n > 2 {
		return // (the resolved round of a trio would not fit the quick budget)
	}
	// resolve everywhere: one resolved notification at the next flush
	rend := time.Now().Add(-10 * time.Millisecond)
	for i := range as {
		as[i].EndsAt = &rend
	}
	postAll(s, ms, as)
	if exactlyOnce(s, sink, []string{"h1", "h2"}, "resolved", time.Now(), clusterGI, n, "healthy cluster") {
		s.count("resolved-exactly-once")
	}
}

// c08Replaced: members am-a, am-b; am-a leaves and am-c joins while no flush (no position evaluation) happens; the
// positions are then am-b=0, am-c=1 and a new alert is notified once.
func c08Replaced(s *sc) {
	sink, err := NewSink()
	s.must(err, "sink")
	defer sink.Close()
	const longGI = 30 * time.Second // x1's second flush must not fall into the replacement
	a := startMember(s, sink, "am-a", nil, 10*time.Second, clusterConfGI(longGI))
	b := startMember(s, sink, "am-b", []*member{a}, 10*time.Second, clusterConfGI(longGI))
	if !converged(s, []*member{a, b}, 12*time.Second) {
		s.inconclusive("the pair did not report ready within 12s")
		return
	}
	if !gossipHealthy(s, []*member{a, b}) {
		return
	}
	now := time.Now()
	end := now.Add(10 * time.Minute)
	tPost := time.Now()
	postAll(s, []*member{a, b}, []AlertIn{{Labels: map[string]string{"alertname": "A", "id": "x1"}, StartsAt: &now, EndsAt: &end}})
	if !exactlyOnce(s, sink, []string{"x1"}, "firing", tPost, gw, 2, "pair am-a, am-b") {
		return
	}
	// x1's next flush is group_interval after the first: the replacement happens well inside that gap
	s.must(a.in.Stop(), "stop am-a")
	c := startMember(s, sink, "am-c", []*member{b}, 10*time.Second, clusterConfGI(longGI))
	if !converged(s, []*member{b, c}, 12*time.Second) {
		s.inconclusive("the pair am-b, am-c did not report ready within 12s")
		return
	}
	if time.Since(tPost) > gw+longGI-3*time.Second {
		s.inconclusive("the replacement took longer than the gap between two flushes")
		return
	}
	if !gossipHealthy(s, []*member{b, c}) {
		return
	}
	now2 := time.Now()
	tPost2 := time.Now()
	postAll(s, []*member{b, c}, []AlertIn{{Labels: map[string]string{"alertname": "A", "id": "x2"}, StartsAt: &now2, EndsAt: &end}})
	// nobody may be at position 0 when positions are wrong: allow one peer timeout more for the first notification
	if exactlyOnce(s, sink, []string{"x2"}, "firing", tPost2, gw+peerTimeout, 2, "after am-a was replaced by am-c (members am-b, am-c)") {
		s.count("exactly-once-after-member-replacement")
	}
}

// c08SettleTimeout: settling ends by its timeout (0): the instance must still become ready and notify.
func c08SettleTimeout(s *sc) {
	sink, err := NewSink()
	s.must(err, "sink")
	defer sink.Close()
	var ms []*member
	settle := time.Duration(0) // as the acceptance tests use it
	if strings.Contains(s.c.Kind, "short") {
		settle = 300 * time.Millisecond // shorter than the seconds of stable membership that settling needs
	}
	a := startMember(s, sink, "am-a", nil, settle, clusterConf())
	ms = append(ms, a)
	if strings.HasSuffix(s.c.Kind, "pair") {
		ms = append(ms, startMember(s, sink, "am-b", []*member{a}, settle, clusterConf()))
	}
	tStart := time.Now()
	if !converged(s, ms, slack+late) {
		for _, m := range ms {
			if cs, _ := m.in.ClusterStatus(); cs.Status != "ready" {
				s.violate("cluster-never-ready-after-settle-timeout", "settle timeout %s: %.1fs after the start %s still reports cluster status %q", settle, time.Since(tStart).Seconds(), m.name, cs.Status)
				return
			}
		}
		s.inconclusive("membership did not converge within %s", slack+late)
		return
	}
	if !gossipHealthy(s, ms) {
		return
	}
	now := time.Now()
	end := now.Add(10 * time.Minute)
	tPost := time.Now()
	postAll(s, ms, []AlertIn{{Labels: map[string]string{"alertname": "A", "id": "s1"}, StartsAt: &now, EndsAt: &end}})
	if exactlyOnce(s, sink, []string{"s1"}, "firing", tPost, gw, len(ms), "settling ended by its timeout") {
		s.count("notifies-after-settle-timeout")
	}
}

// c08PeerStops: one of two members goes away; the other still delivers new alerts (and does not repeat old ones).
func c08PeerStops(s *sc) {
	sink, err := NewSink()
	s.must(err, "sink")
	defer sink.Close()
	killed := strings.HasSuffix(s.c.Kind, "killed")
	var a *member
	var ch *child
	if killed {
		// am-a runs in its own process so that it can be killed without leaving the cluster
		var port int
		ch, port = startChild(s, sink, "am-a", nil, 10*time.Second, clusterConf().YAML(sink))
		a = &member{name: "am-a", port: port, in: ch.in}
	} else {
		a = startMember(s, sink, "am-a", nil, 10*time.Second, clusterConf())
	}
	b := startMember(s, sink, "am-b", []*member{a}, 10*time.Second, clusterConf())
	if !converged(s, []*member{a, b}, 12*time.Second) {
		s.inconclusive("the pair did not report ready within 12s")
		return
	}
	if !gossipHealthy(s, []*member{a, b}) {
		return
	}
	now := time.Now()
	end := now.Add(10 * time.Minute)
	tPost := time.Now()
	postAll(s, []*member{a, b}, []AlertIn{{Labels: map[string]string{"alertname": "A", "id": "p1"}, StartsAt: &now, EndsAt: &end}})
	if !exactlyOnce(s, sink, []string{"p1"}, "firing", tPost, gw, 2, "pair") {
		return
	}
	// the member at position 0 goes away
	if killed {
		ch.Kill()
		s.logf("am-a killed (SIGKILL: no leave)")
	} else {
		s.must(a.in.Stop(), "stop am-a")
	}
	now2 := time.Now()
	tPost2 := time.Now()
	postAll(s, []*member{b}, []AlertIn{{Labels: map[string]string{"alertname": "A", "id": "p2"}, StartsAt: &now2, EndsAt: &end}})
	if exactlyOnce(s, sink, []string{"p2"}, "firing", tPost2, gw+peerTimeout, 1, "survivor am-b after am-a stopped") {
		if k := notifs(sink.Reqs(), "p1", "firing"); k != 1 {
			s.violate("cluster-duplicate-notification", "the unchanged alert p1 was notified %d times (once by the pair, again by the survivor)", k)
			return
		}
		s.count("survivor-delivers")
	}
}

// c08Oversized: one group of 120 alerts and a receiver with two integrations: each integration's log entry lists 120
// alert hashes, which makes its gossip message larger than half a gossip packet - it travels over the reliable (TCP)
// path, is never re-gossiped, and full-state exchanges (push/pull, 1 min) are far slower than the peer timeout. Both
// entries are queued back to back; both must reach the later-positioned member before its wait ends, so each
// (group, integration) is notified exactly once by the healthy pair.
func c08Oversized(s *sc) {
	sink, err := NewSink()
	s.must(err, "sink")
	defer sink.Close()
	conf := Conf{Root: Route{Receiver: "r0", GroupBy: []string{"g"}, GW: gw, GI: clusterGI, RI: time.Hour},
		Receivers: []Recv{{Name: "r0", Hooks: []Hook{{SendResolved: false}, {SendResolved: false}, {SendResolved: false}}}}}
	a := startMember(s, sink, "am-a", nil, 10*time.Second, conf)
	b := startMember(s, sink, "am-b", []*member{a}, 10*time.Second, conf)
	ms := []*member{a, b}
	if !converged(s, ms, 12*time.Second) {
		s.inconclusive("the pair did not report ready within 12s")
		return
	}
	if !gossipHealthy(s, ms) {
		return
	}
	// three groups x three integrations = nine oversized entries queued within a few milliseconds
	const nAlerts = 90
	groups := []string{"big1", "big2", "big3"}
	now := time.Now() // young alerts: the groups wait their full group_wait, so one flush holds the whole batch
	end := now.Add(10 * time.Minute)
	var as []AlertIn
	for _, g := range groups {
		for i := 0; i < nAlerts; i++ {
			as = append(as, AlertIn{Labels: map[string]string{"alertname": "A", "g": g, "id": fmt.Sprintf("%s-%03d", g, i)}, StartsAt: &now, EndsAt: &end})
		}
	}
	tPost := time.Now()
	postAll(s, ms, as)
	eps := []string{"r0.w0", "r0.w1", "r0.w2"}
	delivered := func(reqs []Req, ep, g string) []Req {
		var out []Req
		for _, r := range reqs {
			if r.Name == ep && r.Msg.Status == "firing" && !r.Aborted && r.Code < 300 && r.Msg.GroupLabels["g"] == g {
				out = append(out, r)
			}
		}
		return out
	}
	all := func(reqs []Req) bool {
		for _, ep := range eps {
			for _, g := range groups {
				if len(delivered(reqs, ep, g)) == 0 {
					return false
				}
			}
		}
		return true
	}
	if !sink.WaitFor(tPost.Add(gw+slack), all) {
		if sink.WaitFor(tPost.Add(gw+slack+late), all) {
			s.inconclusive("first notification later than group_wait+%s", slack)
		} else {
			s.violate("cluster-no-notification", "no instance notified every integration for the three groups of %d alerts within %s", nAlerts, gw+slack+late)
		}
		return
	}
	// the later-positioned member flushes at about the same instant and looks the log up after one peer timeout
	time.Sleep(peerTimeout + 1500*time.Millisecond)
	reqs := sink.Reqs()
	for _, ep := range eps {
		for _, g := range groups {
			if ds := delivered(reqs, ep, g); len(ds[0].Msg.Alerts) != nAlerts {
				s.inconclusive("the first flush did not hold the whole batch (%d of %d alerts)", len(ds[0].Msg.Alerts), nAlerts)
				return
			}
		}
	}
	// evidence that the scenario exercised the oversized path: the sender queued its log entries there
	sent := 0.0
	for _, m := range ms {
		v, _ := m.in.Metric("alertmanager_oversized_gossip_message_sent_total", "key", "nfl")
		if v > sent {
			sent = v
		}
	}
	s.logf("oversized nfl messages sent by the notifying member: %v", sent)
	for _, ep := range eps {
		for _, g := range groups {
			if ds := delivered(reqs, ep, g); len(ds) != 1 {
				s.violate("cluster-duplicate-notification", "a healthy pair (gossip probe fast, no faults) notified integration %s %d times for the unchanged group %s of %d alerts; the second came %.2fs after the first (the log entries of such groups travel as oversized gossip messages, nine of them back to back; the notifying member sent %v of them)", ep, len(ds), g, nAlerts, ds[1].T.Sub(ds[0].T).Seconds(), sent)
				return
			}
		}
	}
	if sent < float64(len(eps)*len(groups)) {
		s.inconclusive("the log entries did not all travel as oversized messages")
		return
	}
	s.count("oversized-entries-exactly-once-per-integration")
}

// c08ReloadInflight: healthy pair; the member at position 0 is reloaded while its delivery (SMTP: cannot be cancelled,
// ends successfully) is in flight. The delivered notification must be logged and gossiped all the same: neither the
// reloaded member (after its new dispatcher's group_wait) nor its peer (after its position wait) sends it again.
func c08ReloadInflight(s *sc) {
	sink, err := NewSink()
	s.must(err, "sink")
	defer sink.Close()
	const gwS = 3 * time.Second       // longer than the delivery: the new dispatcher of am-a flushes after it ended
	const smtpDelay = 1 * time.Second // shorter than the peer timeout: am-b looks the entry up after it was gossiped
	sink.SMTPDelay(smtpDelay)
	conf := Conf{Root: Route{Receiver: "r0", GroupBy: []string{"g"}, GW: gwS, GI: clusterGI, RI: time.Hour}, Receivers: []Recv{{Name: "r0", Email: true}}}
	a := startMember(s, sink, "am-a", nil, 10*time.Second, conf)
	b := startMember(s, sink, "am-b", []*member{a}, 10*time.Second, conf)
	ms := []*member{a, b}
	if !converged(s, ms, 12*time.Second) {
		s.inconclusive("the pair did not report ready within 12s")
		return
	}
	if !gossipHealthy(s, ms) {
		return
	}
	// young alerts (startsAt ahead): every dispatcher, also the one built by the reload, waits its full group_wait
	begin, end := time.Now().Add(8*time.Second), time.Now().Add(10*time.Minute)
	tPost := time.Now()
	postAll(s, ms, []AlertIn{{Labels: map[string]string{"alertname": "A", "g": "mail"}, StartsAt: &begin, EndsAt: &end}})
	tPosted := time.Now()
	mails := func(reqs []Req) []Req {
		var out []Req
		for _, r := range reqs {
			if r.Kind == "email" && r.Msg.Status == "firing" {
				out = append(out, r)
			}
		}
		return out
	}
	if !sink.WaitFor(tPost.Add(gwS+slack+late), func(reqs []Req) bool { return len(mails(reqs)) > 0 }) {
		s.violate("cluster-no-notification", "no instance sent the mail within group_wait+%s", slack+late)
		return
	}
	tR0 := time.Now()
	if err := a.in.Reload(); err != nil {
		s.violate("valid-reload-rejected", "Reload of am-a failed: %v", err)
		return
	}
	tReloaded := time.Now()
	sink.WaitFor(time.Now().Add(smtpDelay+slack), func(reqs []Req) bool { m := mails(reqs); return len(m) > 0 && !m[0].Done.IsZero() })
	m0 := mails(sink.Reqs())[0]
	s.logf("mail in flight from %.2fs to %.2fs after the post; am-a reloaded at %.2fs", m0.T.Sub(tPost).Seconds(), m0.Done.Sub(tPost).Seconds(), tR0.Sub(tPost).Seconds())
	switch {
	case m0.Done.IsZero() || !m0.Done.After(tR0):
		s.inconclusive("the slow delivery was not in flight when the reload began")
		return
	case m0.Done.Add(700 * time.Millisecond).After(tPosted.Add(gwS + peerTimeout)):
		s.inconclusive("the delivery did not end well before the peer's log lookup (group_wait + peer timeout after the post)")
		return
	case m0.Done.Add(700 * time.Millisecond).After(tReloaded.Add(gwS)):
		s.inconclusive("the delivery did not end well before the first flush of the reloaded member")
		return
	}
	// am-b looks up at post+group_wait+peer_timeout; am-a's new dispatcher flushes group_wait after the reload
	time.Sleep(time.Until(tReloaded.Add(gwS + peerTimeout + 1500*time.Millisecond)))
	if k := len(mails(sink.Reqs())); k != 1 {
		var when []string
		for _, m := range mails(sink.Reqs()) {
			when = append(when, fmt.Sprintf("%.2fs", m.T.Sub(tPost).Seconds()))
		}
		s.violate("cluster-duplicate-notification", "healthy pair; am-a (position 0) was reloaded while its mail was in flight; the mail was delivered (250 at %.2fs) and then sent %d times in all, at %v after the post (am-b's lookup is due at ~%.1fs, am-a's first flush after the reload at ~%.1fs)", m0.Done.Sub(tPost).Seconds(), k, when, (gwS + peerTimeout).Seconds(), tReloaded.Add(gwS).Sub(tPost).Seconds())
		return
	}
	s.count("delivered-once-despite-reload-during-delivery")
}
