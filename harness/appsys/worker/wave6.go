//go:build verif && appsysworker

package worker

import (
	"fmt"
	"strings"
	"time"

	"github.com/prometheus/alertmanager/app"
)

// C18, option matrix: each of the four limit options {max silences, max silence size, per-alert-name limit, GET
// concurrency} is configured or left at its default INDEPENDENTLY of the others; in every combination every configured
// limit is enforced and reported, and every unconfigured one is not applied.

func init() {
	for bits := 0; bits < 16; bits++ {
		register("C18", fmt.Sprintf("limits-matrix-maxsil%d-size%d-name%d-get%d", bits&1, bits>>1&1, bits>>2&1, bits>>3&1), c18Matrix)
	}
}

func c18Matrix(s *sc) {
	var onSil, onSize, onName, onGet int
	fmt.Sscanf(s.c.Kind, "limits-matrix-maxsil%d-size%d-name%d-get%d", &onSil, &onSize, &onName, &onGet)
	const (
		maxSil  = 4
		maxSize = 600 // bytes; a small silence encodes to ~150
		perName = 2
		getN    = 2
	)
	in, err := s.instance(func(o *app.Options) {
		if onSil == 1 {
			o.MaxSilences = maxSil
		}
		if onSize == 1 {
			o.MaxSilenceSizeBytes = maxSize
		}
		if onName == 1 {
			o.PerAlertNameLimit = perName
		}
		if onGet == 1 {
			o.GetConcurrency = getN
		}
	})
	s.must(err, "instance")
	conf := Conf{Root: Route{Receiver: "r0", GroupBy: []string{"id"}, GW: 30 * time.Second, GI: time.Minute, RI: time.Hour}, Receivers: []Recv{{Name: "r0", Hooks: []Hook{{}}}}}
	s.must(in.WriteConfig(conf.YAML(in.Sink)), "write config")
	s.must(in.Start(), "start")
	opts := fmt.Sprintf("max-silences=%d max-silence-size-bytes=%d per-alert-name-limit=%d get-concurrency=%d (0 = not configured)", onSil*maxSil, onSize*maxSize, onName*perName, onGet*getN)
	s.logf("options: %s", opts)
	now := time.Now()
	post := func(id, x, comment string) (string, int) {
		sid, code, err := in.PostSilence(SilenceIn{ID: id, Matchers: []Matcher{{Name: "x", Value: x, IsEqual: true}}, StartsAt: now, EndsAt: now.Add(time.Hour), CreatedBy: "appsys", Comment: comment})
		if err != nil && code == 0 {
			s.must(err, "POST silence")
		}
		return sid, code
	}
	stored := func() map[string]SilenceOut {
		sils, err := in.GetSilences()
		s.must(err, "GET silences")
		m := map[string]SilenceOut{}
		for _, x := range sils {
			m[x.ID] = x
		}
		return m
	}
	big := strings.Repeat("long comment ", 100) // ~1300 bytes

	// ---- size: create and edit ----
	small, code := post("", "s0", "small")
	if code != 200 {
		s.violate("silence-refused-without-a-limit-reached", "%s: a small first silence was answered %d", opts, code)
		return
	}
	n0 := len(stored())
	_, code = post("", "s1", big)
	n1 := len(stored())
	switch {
	case onSize == 1 && (code < 400 || code > 499 || n1 != n0):
		s.violate("silence-size-limit-not-enforced", "%s: creating a silence of ~%d bytes was answered %d and %d silence(s) were stored - the size limit of %d bytes is configured and must refuse it with an error", opts, len(big)+100, code, n1-n0, maxSize)
		return
	case onSize == 0 && (code != 200 || n1 != n0+1):
		s.violate("unconfigured-silence-size-limit-applied", "%s: no size limit is configured and creating a large silence was answered %d (stored %d)", opts, code, n1-n0)
		return
	}
	_, code = post(small, "s0", big) // in-place edit that grows the silence
	after := stored()
	switch {
	case onSize == 1 && (code < 400 || code > 499 || after[small].Comment != "small" || len(after) != n1):
		s.violate("silence-size-limit-not-enforced", "%s: editing a stored silence to ~%d bytes was answered %d; it now reads a %d-byte comment (%d silences stored, %d before) - the size limit of %d bytes must refuse the edit and leave the silence untouched", opts, len(big)+100, code, len(after[small].Comment), len(after), n1, maxSize)
		return
	case onSize == 0 && code != 200:
		s.violate("unconfigured-silence-size-limit-applied", "%s: no size limit is configured and a growing edit was answered %d", opts, code)
		return
	}
	s.count("size-limit-judged")

	// ---- count (expired ones included) ----
	have := len(stored())
	for i := 0; i < maxSil+2; i++ {
		_, code = post("", fmt.Sprintf("c%d", i), "count")
		n := len(stored())
		full := onSil == 1 && have+1 > maxSil
		switch {
		case full && (code < 400 || code > 499 || n != have):
			s.violate("silence-count-limit-not-enforced", "%s: with %d silences stored a further create was answered %d (now %d stored); the limit is %d", opts, have, code, n, maxSil)
			return
		case !full && (code != 200 || n != have+1):
			what := "unconfigured-silence-count-limit-applied"
			if onSil == 1 {
				what = "silence-refused-below-the-count-limit"
			}
			s.violate(what, "%s: with %d silences stored a small create was answered %d (now %d stored)", opts, have, code, n)
			return
		}
		have = n
	}
	s.count("count-limit-judged")

	// ---- per-alert-name limit ----
	end := now.Add(10 * time.Minute)
	var as []AlertIn
	for i := 0; i < perName+2; i++ {
		as = append(as, AlertIn{Labels: map[string]string{"alertname": "Same", "id": fmt.Sprintf("n%d", i)}, EndsAt: &end})
	}
	as = append(as, AlertIn{Labels: map[string]string{"alertname": "Other", "id": "o"}, EndsAt: &end})
	_, err = in.PostAlerts(as)
	s.must(err, "post alerts")
	got, err := in.GetAlerts("")
	s.must(err, "GET alerts")
	same, other := 0, 0
	for _, a := range got {
		switch a.Labels["alertname"] {
		case "Same":
			same++
		case "Other":
			other++
		}
	}
	limited, _ := in.Metric("alertmanager_alerts_limited_total")
	switch {
	case other != 1:
		s.violate("alert-of-another-name-refused", "%s: the alert of another name is not stored", opts)
		return
	case onName == 1 && same > perName:
		s.violate("per-alert-name-limit-not-enforced", "%s: %d alerts of one name are stored, the limit is %d", opts, same, perName)
		return
	case onName == 1 && (same != perName || limited < float64(2)):
		s.violate("per-alert-name-refusal-not-reported", "%s: %d of %d alerts of one name stored, alertmanager_alerts_limited_total=%v (2 refusals expected)", opts, same, perName+2, limited)
		return
	case onName == 0 && (same != perName+2 || limited != 0):
		s.violate("unconfigured-per-alert-name-limit-applied", "%s: no per-alert-name limit is configured and only %d of %d alerts of one name are stored (limited counter %v)", opts, same, perName+2, limited)
		return
	}
	s.count("per-alert-name-limit-judged")

	// ---- GET concurrency ----
	var hs []*held
	defer func() {
		for _, h := range hs {
			h.release()
		}
	}()
	for i := 0; i < getN; i++ {
		h, err := holdRoot(in.Addr, 10)
		s.must(err, "hold a GET")
		hs = append(hs, h)
	}
	gauge := func() float64 { v, _ := in.Metric("alertmanager_http_requests_in_flight"); return v }
	dl := time.Now().Add(5 * time.Second)
	for gauge() != float64(getN) && time.Now().Before(dl) {
		time.Sleep(20 * time.Millisecond)
	}
	if gauge() != float64(getN) {
		s.inconclusive("could not hold %d GETs in flight", getN)
		return
	}
	r0, _ := in.Metric("alertmanager_http_concurrency_limit_exceeded_total")
	code, _, err = in.do("GET", "/api/v2/status", nil)
	s.must(err, "probe GET")
	if gauge() != float64(getN) {
		s.inconclusive("the held GETs did not stay in flight during the probe")
		return
	}
	r1, _ := in.Metric("alertmanager_http_concurrency_limit_exceeded_total")
	switch {
	case onGet == 1 && (code != 503 || r1-r0 < 1):
		s.violate("get-admitted-beyond-concurrency-limit", "%s: with %d GETs in flight a further GET was answered %d (refusals counted: %v)", opts, getN, code, r1-r0)
		return
	case onGet == 0 && code != 200:
		s.violate("unconfigured-get-limit-applied", "%s: no GET concurrency is configured (default max(GOMAXPROCS, 8)) and with %d GETs in flight a further GET was answered %d", opts, getN, code)
		return
	}
	if code, err := in.PostAlerts([]AlertIn{{Labels: map[string]string{"alertname": "Other", "id": "p"}, EndsAt: &end}}); err != nil || code != 200 {
		s.violate("post-refused-by-get-limit", "%s: with %d GETs in flight a POST was answered %d", opts, getN, code)
		return
	}
	s.count("get-limit-judged")
}
