//go:build verif && appsysworker

package worker

import (
	"encoding/json"
	"fmt"
	"net/http"
	"os"
	"os/exec"
	"path/filepath"
	"strconv"
	"strings"
	"time"

	"github.com/prometheus/alertmanager/app"
)

func init() {
	register("C08", "cluster-later-member-takes-over-after-a-long-peer-timeout", c08TakeOver)
	// C01: the cluster wait is bounded slack added to the bound - after it the notification is still delivered
	register("C01", "cluster-later-member-takes-over-after-a-long-peer-timeout", c08TakeOver)
	register("C11", "process-restart-after-clean-stop", c11Process)
	register("C11", "process-killed-after-periodic-snapshot", c11Process)
}

// ---------------------------------------------------------------------------------------------------------------
// C08, "at least one": a pair whose member at position 0 is alive in the gossip mesh but does not deliver (it was
// never sent the alert, or its receiver endpoint answers 503 to everything). The member at position 1 is the only
// one that can deliver; it owes the notification after its position wait. The peer timeout is >= 10 s here (the
// product's default is 15 s; the other cluster scenarios use 2 s) and group_interval is below 10 s: the position
// wait then exceeds the smallest lifetime a flush context may have, so the flush only succeeds when that lifetime
// includes the wait.

func c08TakeOver(s *sc) {
	sink, err := NewSink()
	s.must(err, "sink")
	defer sink.Close()
	pt := 11 * time.Second
	giS := time.Duration(2+s.r.Intn(4)) * time.Second // 2..5 s
	deadReceiver := s.r.Bool()
	if cp(s.c, "thorough", 0) == 1 {
		giS = time.Duration(1+s.r.Intn(9)) * time.Second // 1..9 s
		if s.r.Bool() {
			pt = 15 * time.Second // the default of --cluster.peer-timeout
		}
	}
	longPT := func(o *app.Options) { o.PeerTimeout = pt }
	confB := Conf{Root: Route{Receiver: "r0", GroupBy: []string{"id"}, GW: gw, GI: giS, RI: time.Hour}, Receivers: []Recv{{Name: "r0", Hooks: []Hook{{SendResolved: false}}}}}
	confA := confB
	if deadReceiver {
		// same receiver name and integration index (the key of the notification log), another endpoint
		confA.Receivers = []Recv{{Name: "r0", Hooks: []Hook{{Name: "dead", SendResolved: false}}}}
		rs := make([]Resp, 5000)
		for i := range rs {
			rs[i] = Resp{Code: 503}
		}
		sink.Script("dead", rs...)
	}
	a := startMemberMod(s, sink, "am-a", nil, 10*time.Second, confA, longPT)
	b := startMemberMod(s, sink, "am-b", []*member{a}, 10*time.Second, confB, longPT)
	if !converged(s, []*member{a, b}, 12*time.Second) {
		s.inconclusive("the pair did not report ready within 12s")
		return
	}
	if pos, ok := b.in.Metric("alertmanager_peer_position"); !ok || pos != 1 {
		s.inconclusive("am-b does not report position 1 (%v)", pos)
		return
	}
	s.logf("peer timeout %s, group_interval %s, am-a (position 0): %s", pt, giS, map[bool]string{false: "is never sent the alert", true: "has the alert, its receiver endpoint answers 503"}[deadReceiver])
	now := time.Now()
	end := now.Add(10 * time.Minute)
	as := []AlertIn{{Labels: map[string]string{"alertname": "A", "id": "t1"}, StartsAt: &now, EndsAt: &end}}
	to := []*member{b}
	if deadReceiver {
		to = []*member{a, b}
	}
	tPost := time.Now()
	postAll(s, to, as)
	got := func(reqs []Req) *Req {
		for i, r := range reqs {
			if r.Name == "r0.w0" && r.Msg.Status == "firing" && !r.Aborted && r.Code < 300 && notifs([]Req{r}, "t1", "firing") > 0 {
				return &reqs[i]
			}
		}
		return nil
	}
	have := func(reqs []Req) bool { return got(reqs) != nil }
	bound := gw + pt // group_wait, then one position of waiting for am-a
	if !sink.WaitFor(tPost.Add(bound+slack), have) {
		if sink.WaitFor(tPost.Add(bound+slack+late), have) {
			s.inconclusive("the take-over notification came later than group_wait + peer timeout + %s", slack)
			return
		}
		pos, _ := b.in.Metric("alertmanager_peer_position")
		what := "was never sent the alert"
		if deadReceiver {
			what = fmt.Sprintf("cannot deliver (its receiver endpoint answered 503 to all %d attempts)", len(sink.Of("dead")))
		}
		s.violate("cluster-no-notification", "pair with --cluster.peer-timeout=%s, route group_interval=%s: am-a (position 0) is a live member that %s; am-b (position %v), which has the firing alert and a working receiver, sent nothing within group_wait + 1 x peer timeout + %s (%.0fs after the alert was posted): no instance sends the owed notification", pt, giS, what, pos, slack+late, time.Since(tPost).Seconds())
		return
	}
	r := got(sink.Reqs())
	s.logf("am-b delivered %.2fs after the post", r.T.Sub(tPost).Seconds())
	if r.T.Before(tPost.Add(pt - 500*time.Millisecond)) {
		s.inconclusive("the notification went out before one peer timeout had passed: am-b was not waiting at position 1")
		return
	}
	s.count("later-member-takes-over-after-long-position-wait")
}

// startMemberMod = startMember with further option changes applied after the cluster options.
func startMemberMod(s *sc, sink *Sink, name string, peers []*member, settle time.Duration, conf Conf, extra modFunc) *member {
	for try := 0; ; try++ {
		port, err := freePort()
		s.must(err, "find a cluster port")
		m := &member{name: name, port: port}
		var peerAddrs []string
		for _, p := range peers {
			peerAddrs = append(peerAddrs, p.addr())
		}
		base := clusterMod(name, m.addr(), peerAddrs, settle)
		in, err := s.instanceWithSink(func(o *app.Options) { base(o); extra(o) }, sink)
		s.must(err, "instance "+name)
		s.must(in.WriteConfig(conf.YAML(in.Sink)), "write config "+name)
		m.in = in
		err = in.Start()
		if err == nil {
			return m
		}
		if try < 5 && strings.Contains(err.Error(), "address already in use") {
			s.logf("cluster port %d of %s was taken, trying another", m.port, name)
			continue
		}
		s.must(err, "start "+name)
	}
}

// ---------------------------------------------------------------------------------------------------------------
// C11 with a restart that is a REAL PROCESS restart: the application runs in a child process (this test binary started
// again with TestChildPlain) on a data dir, notifies the parent's webhook sink, and ends - by a clean Stop (shutdown
// snapshot), or by SIGKILL after a periodic snapshot that was taken after the deliveries. A second child process then
// runs the application on the SAME data dir. What the first process wrote must mean the same to the second one:
// the unchanged firing alerts are not notified again (repeat_interval 1h), a new group is, and a new alert in the
// already notified group is.

type plainSpec struct {
	Dir     string `json:"dir"`
	Run     int    `json:"run"`
	MaintMs int    `json:"maint_ms"`
}

func writeFileAtomic(path string, b []byte) error {
	if err := os.WriteFile(path+".tmp", b, 0o644); err != nil {
		return err
	}
	return os.Rename(path+".tmp", path)
}

// runPlainChild is the body of TestChildPlain: an unclustered instance on sp.Dir. Files in sp.Dir, all prefixed
// "run<k>.": addr (written by the child when the instance is healthy), err (start failed), settle (parent: the number
// of deliveries the receivers answered) -> settled (child: "1" when the application had returned from that many
// notify attempts within 8 s, plus one second), stop (parent) -> stopped (child: the error of Stop, or empty), log
// (the application log, rewritten a few times per second).
func runPlainChild(specJSON string) error {
	var sp plainSpec
	if err := json.Unmarshal([]byte(specJSON), &sp); err != nil {
		return err
	}
	var mod modFunc
	if sp.MaintMs > 0 {
		mod = func(o *app.Options) { o.MaintenanceInterval = time.Duration(sp.MaintMs) * time.Millisecond }
	}
	in := &Instance{Dir: sp.Dir, CfgPath: filepath.Join(sp.Dir, "alertmanager.yml"), Log: &logBuf{}, mod: mod}
	in.hc = &http.Client{Timeout: 20 * time.Second}
	f := func(name string) string { return filepath.Join(sp.Dir, fmt.Sprintf("run%d.%s", sp.Run, name)) }
	parent := os.Getppid()
	if err := in.Start(); err != nil {
		_ = os.WriteFile(f("log"), []byte(in.Log.String()), 0o644)
		_ = writeFileAtomic(f("err"), []byte(err.Error()))
		return err
	}
	go func() {
		for {
			_ = writeFileAtomic(f("log"), []byte(in.Log.String()))
			time.Sleep(300 * time.Millisecond)
		}
	}()
	if err := writeFileAtomic(f("addr"), []byte(in.Addr)); err != nil {
		return err
	}
	settledDone := false
	for t0 := time.Now(); time.Since(t0) < 5*time.Minute; time.Sleep(20 * time.Millisecond) {
		if os.Getppid() != parent {
			break // the worker is gone
		}
		if b, err := os.ReadFile(f("settle")); err == nil && !settledDone {
			settledDone = true
			n, _ := strconv.Atoi(strings.TrimSpace(string(b)))
			ok := "0"
			for dl := time.Now().Add(8 * time.Second); time.Now().Before(dl); time.Sleep(20 * time.Millisecond) {
				if v, _ := in.Metric("alertmanager_notification_requests_total"); v >= float64(n) {
					// the notification-log write follows the return of Notify in the same goroutine without blocking
					time.Sleep(time.Second)
					ok = "1"
					break
				}
			}
			_ = writeFileAtomic(f("settled"), []byte(ok))
		}
		if _, err := os.Stat(f("stop")); err == nil {
			msg := ""
			if err := in.Stop(); err != nil {
				msg = err.Error()
			}
			_ = os.WriteFile(f("log"), []byte(in.Log.String()), 0o644)
			return writeFileAtomic(f("stopped"), []byte(msg))
		}
	}
	_ = in.Stop()
	return nil
}

type plainChild struct {
	s   *sc
	in  *Instance // parent side: directory, sink, HTTP client; the application itself lives in the child process
	run int
	cmd *exec.Cmd
}

func (c *plainChild) file(name string) string {
	return filepath.Join(c.in.Dir, fmt.Sprintf("run%d.%s", c.run, name))
}

// waitFile waits until the child has written the file; ok=false when it did not within bound or the process ended.
func (c *plainChild) waitFile(name string, bound time.Duration) (string, bool) {
	for dl := time.Now().Add(bound); ; time.Sleep(20 * time.Millisecond) {
		if b, err := os.ReadFile(c.file(name)); err == nil {
			return string(b), true
		}
		if time.Now().After(dl) {
			return "", false
		}
	}
}

func (c *plainChild) keepLog() {
	if b, err := os.ReadFile(c.file("log")); err == nil {
		fmt.Fprintf(c.in.Log, "---- process %d (pid %d) ----\n%s", c.run, c.cmd.Process.Pid, b)
	}
}

func (c *plainChild) kill() {
	if c.cmd.Process != nil {
		_ = c.cmd.Process.Kill()
		_, _ = c.cmd.Process.Wait()
	}
}

// startPlainChild starts process number run of the application on in.Dir (configuration already written).
func startPlainChild(s *sc, in *Instance, run int, maint time.Duration) *plainChild {
	sp, _ := json.Marshal(plainSpec{Dir: in.Dir, Run: run, MaintMs: int(maint / time.Millisecond)})
	cmd := exec.Command(os.Args[0], "-test.run", "^TestChildPlain$", "-test.timeout", "6m")
	cmd.Env = append(os.Environ(), "APPSYS_CHILD_PLAIN="+string(sp), "APPSYS_CHILD=", "APPSYS_JOB=", "APPSYS_OUT=", "APPSYS_PROP=")
	s.must(cmd.Start(), "start child process")
	c := &plainChild{s: s, in: in, run: run, cmd: cmd}
	s.mu.Lock()
	s.cleanup = append(s.cleanup, c.kill)
	s.mu.Unlock()
	for dl := time.Now().Add(30 * time.Second); ; time.Sleep(30 * time.Millisecond) {
		if b, err := os.ReadFile(c.file("addr")); err == nil {
			in.Addr = string(b)
			s.logf("process %d (pid %d) serves on %s", run, cmd.Process.Pid, in.Addr)
			return c
		}
		if b, err := os.ReadFile(c.file("err")); err == nil {
			c.kill()
			c.keepLog()
			s.must(fmt.Errorf("%s", b), fmt.Sprintf("start of process %d", run))
		}
		if time.Now().After(dl) {
			c.kill()
			c.keepLog()
			s.must(fmt.Errorf("no address after 30s"), fmt.Sprintf("start of process %d", run))
		}
	}
}

func c11Process(s *sc) {
	killed := strings.Contains(s.c.Kind, "killed")
	const mi = 2 * time.Second
	maint := time.Duration(0) // the default (15 min): only the shutdown snapshot is ever written
	if killed {
		maint = mi
	}
	conf := Conf{Root: Route{Receiver: "r0", GroupBy: []string{"g"}, GW: gw, GI: gi, RI: time.Hour}, Receivers: []Recv{{Name: "r0", Hooks: []Hook{{SendResolved: false}}}}}
	in, err := s.instance(nil)
	s.must(err, "instance directory and sink")
	s.must(in.WriteConfig(conf.YAML(in.Sink)), "write config")
	p1 := startPlainChild(s, in, 1, maint)

	now := time.Now()
	end := now.Add(30 * time.Minute)
	extra := s.r.Intn(3) // more label pairs in the hashed label set
	al := func(id, g string) AlertIn {
		ls := map[string]string{"alertname": "A", "id": id, "g": g}
		for i := 0; i < extra; i++ {
			ls[fmt.Sprintf("l%d", i)] = fmt.Sprintf("v%d-%s", i, id)
		}
		return AlertIn{Labels: ls, StartsAt: &now, EndsAt: &end}
	}
	listed := func(reqs []Req, id string) int {
		n := 0
		for _, r := range reqs {
			if r.Aborted || r.Code >= 300 {
				continue
			}
			for _, a := range r.Msg.Alerts {
				if a.Labels["id"] == id && a.Status == "firing" {
					n++
				}
			}
		}
		return n
	}
	tPost := time.Now()
	_, err = in.PostAlerts([]AlertIn{al("a1", "g1"), al("a2", "g1")})
	s.must(err, "post alerts to process 1")
	both := func(reqs []Req) bool {
		for _, r := range reqs {
			if listed([]Req{r}, "a1") > 0 && listed([]Req{r}, "a2") > 0 {
				return true
			}
		}
		return false
	}
	if !in.Sink.WaitFor(tPost.Add(gw+slack), both) {
		if in.Sink.WaitFor(tPost.Add(gw+gi+slack+late), both) {
			s.inconclusive("first notification of the group later than group_wait+%s", slack)
		} else {
			s.violate("alert-not-notified", "process 1: the group of a1 and a2 was not notified within group_wait+group_interval+%s", slack+late)
		}
		return
	}
	in.Sink.Settle(0)
	answered := 0
	for _, r := range in.Sink.Reqs() {
		if !r.Done.IsZero() {
			answered++
		}
	}
	s.must(writeFileAtomic(p1.file("settle"), []byte(strconv.Itoa(answered))), "ask process 1 to settle")
	if v, ok := p1.waitFile("settled", 15*time.Second); !ok || v != "1" {
		s.inconclusive("process 1 had not returned from its deliveries 8s after the receiver answered them")
		return
	}
	tSettled := time.Now()
	s.logf("process 1: group g1 (a1, a2) notified and logged")
	nflogPath := filepath.Join(in.Dir, "data", "nflog")
	if killed {
		// two snapshot files written after this instant: the second one was begun after the first was complete, i.e.
		// certainly after the log entry existed
		last := tSettled
		for k := 0; k < 2; k++ {
			dl := time.Now().Add(2*mi + slack)
			for {
				if st, err := os.Stat(nflogPath); err == nil && st.ModTime().After(last) {
					last = st.ModTime()
					break
				}
				if time.Now().After(dl) {
					s.inconclusive("no periodic snapshot of the notification log within two maintenance intervals+%s", slack)
					return
				}
				time.Sleep(30 * time.Millisecond)
			}
		}
		p1.kill()
		p1.keepLog()
		s.logf("process 1 killed (SIGKILL) after two periodic snapshots that follow the deliveries")
	} else {
		s.must(os.WriteFile(p1.file("stop"), nil, 0o644), "ask process 1 to stop")
		msg, ok := p1.waitFile("stopped", 30*time.Second)
		if !ok {
			p1.kill()
			p1.keepLog()
			s.inconclusive("process 1 did not finish its clean shutdown within 30s")
			return
		}
		_, _ = p1.cmd.Process.Wait()
		p1.keepLog()
		if msg != "" {
			s.violate("clean-stop-failed", "App.Stop of process 1 returned: %s", msg)
			return
		}
		s.logf("process 1 stopped cleanly and exited")
	}
	if st, err := os.Stat(nflogPath); err != nil || st.Size() == 0 {
		s.violate("no-notification-log-snapshot", "after process 1 ended there is no non-empty %s (%v)", nflogPath, err)
		return
	}
	nBefore := len(in.Sink.Reqs())

	// ---- process 2 on the same data dir ----
	p2 := startPlainChild(s, in, 2, 0)
	defer p2.keepLog()
	tPost = time.Now()
	_, err = in.PostAlerts([]AlertIn{al("a1", "g1"), al("a2", "g1"), al("c1", "g2")})
	s.must(err, "post alerts to process 2")
	how := map[bool]string{false: "stopped cleanly (shutdown snapshot)", true: "was killed after a periodic snapshot that followed the deliveries"}[killed]
	ctl := func(reqs []Req) bool { return listed(reqs[nBefore:], "c1") > 0 }
	if !in.Sink.WaitFor(tPost.Add(gw+slack), ctl) {
		if in.Sink.WaitFor(tPost.Add(gw+slack+late), ctl) {
			s.inconclusive("control notification after the process restart later than group_wait+%s", slack)
		} else {
			s.violate("alert-not-notified-after-process-restart", "process 2 (same data dir): the new alert c1 in a new group was not notified within group_wait+%s", slack+late)
		}
		return
	}
	time.Sleep(1500 * time.Millisecond)
	reqs := in.Sink.Reqs()[nBefore:]
	for _, id := range []string{"a1", "a2"} {
		if listed(reqs, id) > 0 {
			s.violate("notification-repeated-after-process-restart", "the firing alert %s was notified by process 1, which then %s; a second operating-system process started on the same data dir and was sent the same, unchanged alert: it notified it again within %.1fs of being sent the alert although repeat_interval is 1h (an in-process Stop + New on the same data dir does not repeat it)", id, how, time.Since(tPost).Seconds())
			return
		}
	}
	s.count("no-repeat-after-process-restart")
	// a new alert in the group that process 1 notified: owed at the group's next flush
	nMid := len(in.Sink.Reqs())
	tPost = time.Now()
	_, err = in.PostAlerts([]AlertIn{al("a3", "g1")})
	s.must(err, "post alert a3 to process 2")
	got3 := func(reqs []Req) bool { return listed(reqs[nMid:], "a3") > 0 }
	if !in.Sink.WaitFor(tPost.Add(gi+slack), got3) {
		if in.Sink.WaitFor(tPost.Add(gi+slack+late), got3) {
			s.inconclusive("notification of the new alert in the old group later than group_interval+%s", slack)
		} else {
			s.violate("new-alert-in-logged-group-not-notified-after-process-restart", "process 2: the new alert a3 joined group g1, whose last notification (a1, a2) was logged by process 1; it was not notified within group_interval+%s", slack+late)
		}
		return
	}
	s.count("new-alert-in-logged-group-notified-after-process-restart")
}
