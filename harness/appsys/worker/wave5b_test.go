//go:build verif && appsysworker

package worker

import (
	"os"
	"testing"
)

// TestChildPlain is the body of an unclustered application process that stops cleanly on request (see wave5b.go).
func TestChildPlain(t *testing.T) {
	sp := os.Getenv("APPSYS_CHILD_PLAIN")
	if sp == "" {
		t.Skip("not started as a plain child instance")
	}
	initProcess()
	if err := runPlainChild(sp); err != nil {
		t.Fatal(err)
	}
}
