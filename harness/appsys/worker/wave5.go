//go:build verif && appsysworker

package worker

import (
	"fmt"
	"sort"
	"strings"
	"time"

	"github.com/prometheus/alertmanager/app"
)

func init() {
	register("C12", "expire-and-edit-after-a-snapshot-then-stop", c12Restart)
	register("C12", "expire-then-stop-at-once", c12Restart)
	register("C12", "expire-and-edit-then-one-maintenance-interval-then-stop", c12Restart)
	multiplicity["C12/expire-and-edit-after-a-snapshot-then-stop"] = 2
	register("C19", "join-gets-silences-and-log-by-full-state-exchange", c19Join)
	register("C19", "rejoin-gets-silences-and-log-by-full-state-exchange", c19Join)
	multiplicity["C19/join-gets-silences-and-log-by-full-state-exchange"] = 2
}

// ---------------------------------------------------------------------------------------------------------------
// C12: what was done to a silence UNDER ITS ID (expire, in-place edit of comment / end) after the last snapshot - and
// with no create / merge afterwards - is still true after a clean restart on the same data dir: an expired silence
// never becomes active again under its id, an in-place edit keeps the id and the edit.

func c12Restart(s *sc) {
	kind := s.c.Kind
	atOnce := kind == "expire-then-stop-at-once"
	waitTick := strings.Contains(kind, "one-maintenance-interval")
	const mi = 2 * time.Second
	var mod modFunc
	if !atOnce {
		mod = func(o *app.Options) { o.MaintenanceInterval = mi }
	}
	conf := Conf{Root: Route{Receiver: "r0", GroupBy: []string{"id"}, GW: gw, GI: gi, RI: time.Hour}, Receivers: []Recv{{Name: "r0", Hooks: []Hook{{SendResolved: false}}}}}
	in, err := s.instance(mod)
	s.must(err, "instance")
	s.must(in.WriteConfig(conf.YAML(in.Sink)), "write config")
	s.must(in.Start(), "start")
	now := time.Now()
	eq := func(n, v string) Matcher { return Matcher{Name: n, Value: v, IsEqual: true} }
	mk := func(what string, ms []Matcher, end time.Time) string {
		id, _, err := in.PostSilence(SilenceIn{Matchers: ms, StartsAt: now, EndsAt: end, CreatedBy: "appsys", Comment: what})
		s.must(err, "create silence "+what)
		return id
	}
	sExp := mk("to be expired", []Matcher{eq("x", "1")}, now.Add(time.Hour))
	sEdit := mk("to be edited in place", []Matcher{eq("x", "2"), {Name: "y", Value: "a.*", IsRegex: true, IsEqual: true}}, now.Add(time.Hour))
	sKeep := mk("untouched", []Matcher{eq("x", "3")}, now.Add(2*time.Hour))
	for i, n := 0, s.r.Intn(3); i < n; i++ {
		mk(fmt.Sprintf("extra %d", i), []Matcher{eq("x", fmt.Sprintf("e%d", i))}, now.Add(time.Duration(20+s.r.Intn(100))*time.Minute))
	}
	metric := func(name string) float64 { v, _ := in.Metric(name); return v }
	if !atOnce {
		// a snapshot that holds the silences as created
		dl := time.Now().Add(mi + slack + late)
		for metric("alertmanager_silences_maintenance_total") < 1 && time.Now().Before(dl) {
			time.Sleep(20 * time.Millisecond)
		}
		if metric("alertmanager_silences_maintenance_total") < 1 {
			s.inconclusive("no maintenance run within one interval+%s", slack+late)
			return
		}
		time.Sleep(150 * time.Millisecond)
		s.logf("a periodic snapshot holds the silences as created")
	}
	// from here on: only changes under an existing id, nothing is created
	if code, err := in.DeleteSilence(sExp); err != nil || code != 200 {
		s.must(fmt.Errorf("code %d err %v", code, err), "expire silence")
	}
	newEnd := now.Add(time.Duration(3+s.r.Intn(20)) * time.Minute).Truncate(time.Millisecond) // shortened
	if s.r.Bool() {
		newEnd = now.Add(time.Duration(3+s.r.Intn(5)) * time.Hour).Truncate(time.Millisecond) // or extended
	}
	edited := false
	if !atOnce || s.r.Bool() {
		// An edit keeps the id only while the silence is active (or pending) and its start is re-submitted unchanged
		// (compared at whole seconds; the server replaced the start given at creation by its own clock). So: read the
		// silence back, re-submit exactly the start it reports, and judge the id only when it is seen active right before
		// and right after the edit.
		cur := func() (SilenceOut, bool) {
			sils, err := in.GetSilences()
			s.must(err, "GET silences")
			for _, x := range sils {
				if x.ID == sEdit {
					return x, true
				}
			}
			return SilenceOut{}, false
		}
		b4, ok := cur()
		if !ok || b4.Status.State != "active" {
			s.inconclusive("the silence to be edited is not active right before the edit (%s)", b4.Status.State)
			return
		}
		id, _, err := in.PostSilence(SilenceIn{ID: sEdit, Matchers: b4.Matchers, StartsAt: b4.StartsAt, EndsAt: newEnd, CreatedBy: "somebody else", Comment: "edited in place"})
		s.must(err, "edit silence")
		af, ok := cur()
		if id != sEdit {
			if !ok || af.Status.State != "active" || !af.StartsAt.Equal(b4.StartsAt) {
				s.inconclusive("the silence was not active with an unchanged start around the edit; a new id is legitimate then")
				return
			}
			s.violate("in-place-edit-changed-the-id", "editing only comment, creator and end of silence %s (active before and after, start re-submitted as reported: %s) gave it the new id %s", sEdit, b4.StartsAt.UTC().Format(time.RFC3339Nano), id)
			return
		}
		edited = true
	}
	if waitTick {
		n0 := metric("alertmanager_silences_maintenance_total")
		dl := time.Now().Add(mi + slack + late)
		for metric("alertmanager_silences_maintenance_total") <= n0 && time.Now().Before(dl) {
			time.Sleep(20 * time.Millisecond)
		}
		if metric("alertmanager_silences_maintenance_total") <= n0 {
			s.inconclusive("no further maintenance run within one interval+%s", slack+late)
			return
		}
		time.Sleep(150 * time.Millisecond)
	}
	before, err := in.GetSilences()
	s.must(err, "GET silences")
	bm := map[string]SilenceOut{}
	for _, x := range before {
		bm[x.ID] = x
	}
	if bm[sExp].Status.State != "expired" || (edited && bm[sEdit].Comment != "edited in place") {
		s.violate("expire-or-edit-not-effective", "before the restart: silence %s is %s after DELETE, the edited one reads %q", sExp, bm[sExp].Status.State, bm[sEdit].Comment)
		return
	}
	s.must(in.Stop(), "stop")
	s.must(in.Start(), "start again on the same data dir")
	after, err := in.GetSilences()
	s.must(err, "GET silences after restart")
	am := map[string]SilenceOut{}
	for _, x := range after {
		am[x.ID] = x
	}
	how := map[bool]string{true: "stopped right after the change (only the shutdown snapshot could hold it)", false: "changed after a periodic snapshot, nothing created afterwards, then a clean stop"}[atOnce]
	if waitTick {
		how = "changed after a periodic snapshot, nothing created afterwards, one more maintenance run, then a clean stop"
	}
	if a, ok := am[sExp]; !ok {
		s.violate("silence-lost-at-restart", "%s: the expired silence %s is gone after the restart", how, sExp)
	} else if a.Status.State != "expired" || !a.EndsAt.Equal(bm[sExp].EndsAt) {
		s.violate("expired-silence-active-again-after-restart", "%s: silence %s was expired through the API (state expired, end %s); after the restart on the same data dir it is %s again under the same id with end %s", how, sExp, bm[sExp].EndsAt.UTC().Format(time.RFC3339), a.Status.State, a.EndsAt.UTC().Format(time.RFC3339))
	}
	if a, ok := am[sEdit]; edited && (!ok || silKey(a) != silKey(bm[sEdit])) {
		s.violate("in-place-edit-lost-at-restart", "%s: silence %s was edited in place (comment, creator, end %s); after the restart it reads comment %q by %q, end %s", how, sEdit, bm[sEdit].EndsAt.UTC().Format(time.RFC3339), a.Comment, a.CreatedBy, a.EndsAt.UTC().Format(time.RFC3339))
	}
	if s.violated() {
		return
	}
	for id, b := range bm {
		if a, ok := am[id]; !ok || silKey(a) != silKey(b) {
			s.violate("silence-changed-at-restart", "%s: silence %s (%s) differs after the restart: before %s, after %s", how, id, b.Comment, silKey(b), silKey(a))
			return
		}
	}
	if len(am) != len(bm) || am[sKeep].Status.State != "active" {
		s.violate("silence-changed-at-restart", "%s: %d silences before, %d after; the untouched one is %s", how, len(bm), len(am), am[sKeep].Status.State)
		return
	}
	s.count("silences-identical-after-restart")
	// and it behaves so: an alert matching only the expired silence is notified, one matching the untouched one is not
	end := time.Now().Add(10 * time.Minute)
	old := time.Now().Add(-5 * time.Second)
	tPost := time.Now()
	_, err = in.PostAlerts([]AlertIn{
		{Labels: map[string]string{"alertname": "A", "id": "m1", "x": "1"}, StartsAt: &old, EndsAt: &end},
		{Labels: map[string]string{"alertname": "A", "id": "m3", "x": "3"}, StartsAt: &old, EndsAt: &end},
	})
	s.must(err, "post alerts")
	got := func(id string) func([]Req) bool {
		return func(reqs []Req) bool {
			for _, r := range reqs {
				for _, a := range r.Msg.Alerts {
					if a.Labels["id"] == id {
						return true
					}
				}
			}
			return false
		}
	}
	if !in.Sink.WaitFor(tPost.Add(gw+slack), got("m1")) {
		if in.Sink.WaitFor(tPost.Add(gw+slack+late), got("m1")) {
			s.inconclusive("notification later than group_wait+%s", slack)
		} else {
			s.violate("expired-silence-mutes-after-restart", "%s: an alert matching only the expired silence %s was not notified within group_wait+%s after the restart", how, sExp, slack+late)
		}
		return
	}
	time.Sleep(time.Second)
	if got("m3")(in.Sink.Reqs()) {
		s.violate("active-silence-does-not-mute-after-restart", "an alert matching the untouched active silence %s was notified after the restart", sKeep)
		return
	}
	s.count("muting-judged-after-restart")
}

// ---------------------------------------------------------------------------------------------------------------
// C19: a joining or re-joining instance obtains the complete current state (silences AND notification log) through
// the full-state exchange of the join - periodic push/pull is an hour away, gossip of the old updates has drained.

func c19Join(s *sc) {
	rejoin := strings.HasPrefix(s.c.Kind, "rejoin")
	// two established members: with a single one memberlist never drains its broadcast queue (nobody to send to) and
	// would hand the old updates to the joiner by gossip
	sink, err := NewSink()
	s.must(err, "sink")
	defer sink.Close()
	conf := clusterConfGI(30 * time.Second)
	start := func(name string, peers []*member) *member {
		for try := 0; ; try++ {
			port, err := freePort()
			s.must(err, "find a cluster port")
			m := &member{name: name, port: port}
			var pa []string
			for _, p := range peers {
				pa = append(pa, p.addr())
			}
			in, err := s.instanceWithSink(clusterModPP(name, m.addr(), pa, 10*time.Second, time.Hour), sink)
			s.must(err, "instance "+name)
			s.must(in.WriteConfig(conf.YAML(in.Sink)), "write config "+name)
			m.in = in
			if err := in.Start(); err == nil {
				return m
			} else if try >= 5 || !strings.Contains(err.Error(), "address already in use") {
				s.must(err, "start "+name)
			}
		}
	}
	a := start("am-a", nil)
	holders := []*member{a, start("am-c", []*member{a})}
	if !converged(s, holders, 12*time.Second) {
		s.inconclusive("the holders did not report ready within 12s")
		return
	}
	var b *member
	if rejoin {
		b = start("am-b", []*member{a})
		if !converged(s, append(append([]*member{}, holders...), b), 12*time.Second) {
			s.inconclusive("the cluster did not report ready within 12s")
			return
		}
		s.must(b.in.Stop(), "stop am-b")
		s.logf("am-b was a member and has stopped; the state changes while it is away")
	}
	// state on the holders: silences (active, pending, expired by hand, edited) and a notification-log entry
	now := time.Now()
	eq := func(n, v string) Matcher { return Matcher{Name: n, Value: v, IsEqual: true} }
	mk := func(on *member, what string, ms []Matcher, st, en time.Time) string {
		id, _, err := on.in.PostSilence(SilenceIn{Matchers: ms, StartsAt: st, EndsAt: en, CreatedBy: "appsys", Comment: what})
		s.must(err, "create silence "+what)
		return id
	}
	last := holders[len(holders)-1]
	sAct := mk(a, "active", []Matcher{eq("x", "1")}, now, now.Add(time.Hour))
	mk(last, "pending", []Matcher{eq("x", "9")}, now.Add(time.Hour), now.Add(2*time.Hour))
	sExp := mk(a, "expired by hand", []Matcher{eq("x", "3")}, now, now.Add(time.Hour))
	if code, err := a.in.DeleteSilence(sExp); err != nil || code != 200 {
		s.must(fmt.Errorf("code %d err %v", code, err), "expire silence")
	}
	for i, n := 0, 1+s.r.Intn(4); i < n; i++ {
		mk(holders[i%len(holders)], fmt.Sprintf("extra %d", i), []Matcher{eq("x", fmt.Sprintf("e%d", i)), {Name: "w", Value: "b|c", IsRegex: true, IsEqual: true}}, now, now.Add(time.Duration(10+s.r.Intn(100))*time.Minute))
	}
	old, end := now.Add(-5*time.Second), now.Add(10*time.Minute)
	logged := AlertIn{Labels: map[string]string{"alertname": "A", "id": "n1", "x": "7"}, StartsAt: &old, EndsAt: &end}
	tPost := time.Now()
	postAll(s, holders, []AlertIn{logged})
	if !exactlyOnce(s, sink, []string{"n1"}, "firing", tPost, gw, len(holders), "the holders") {
		return
	}
	// the holders agree and their gossip queues have drained: nothing of this will reach a joiner by gossip
	view := func(m *member) (string, error) {
		sils, err := m.in.GetSilences()
		if err != nil {
			return "", err
		}
		var ks []string
		for _, x := range sils {
			ks = append(ks, x.ID+" "+silKey(x))
		}
		sort.Strings(ks)
		return strings.Join(ks, "\n"), nil
	}
	dl := time.Now().Add(slack + late)
	for {
		va, err := view(a)
		s.must(err, "GET silences of am-a")
		same, drained := true, true
		for _, h := range holders {
			v, err := view(h)
			s.must(err, "GET silences of "+h.name)
			same = same && v == va
			q, _ := h.in.Metric("alertmanager_cluster_messages_queued")
			drained = drained && q == 0
		}
		if same && drained {
			break
		}
		if time.Now().After(dl) {
			s.inconclusive("the holders did not agree on the silences with drained gossip queues within %s (agree=%v drained=%v)", slack+late, same, drained)
			return
		}
		time.Sleep(100 * time.Millisecond)
	}
	time.Sleep(500 * time.Millisecond)
	want, err := view(a)
	s.must(err, "GET silences of am-a")
	nWant := strings.Count(want, "\n") + 1
	s.logf("holders %d, %d silences, gossip queues drained; now am-b %s (push/pull interval 1h)", len(holders), nWant, map[bool]string{true: "starts again on its data dir and re-joins", false: "joins"}[rejoin])
	tJoin := time.Now()
	if rejoin {
		// same name, same data dir; a new cluster port (in one process the old listeners of am-b stay bound after its
		// leave, a restarted process would get its port back)
		for try := 0; ; try++ {
			port, err := freePort()
			s.must(err, "find a cluster port")
			b.port = port
			b.in.mod = clusterModPP("am-b", b.addr(), []string{a.addr()}, 10*time.Second, time.Hour)
			if err := b.in.Start(); err == nil {
				break
			} else if try >= 5 || !strings.Contains(err.Error(), "address already in use") {
				s.must(err, "start am-b again")
			}
		}
	} else {
		b = start("am-b", []*member{a})
	}
	all := append(append([]*member{}, holders...), b)
	if !converged(s, all, 12*time.Second) {
		s.inconclusive("am-b did not report ready within 12s")
		return
	}
	// the exchange is part of the join; allow the slack for reading it back
	var got string
	dl = time.Now().Add(slack)
	for {
		got, err = view(b)
		s.must(err, "GET silences of am-b")
		if got == want || time.Now().After(dl) {
			break
		}
		time.Sleep(100 * time.Millisecond)
	}
	if got != want {
		have := map[string]bool{}
		for _, l := range strings.Split(got, "\n") {
			have[l] = true
		}
		missing := 0
		for _, l := range strings.Split(want, "\n") {
			if !have[l] {
				missing++
			}
		}
		s.violate("joiner-lacks-silences-after-full-state-exchange", "%.1fs after am-b %s (it reports ready; the next periodic push/pull is an hour away, gossip queues were drained) GET /api/v2/silences of am-b lacks or differs in %d of the %d silences the established members hold (it lists %d)", time.Since(tJoin).Seconds(), map[bool]string{true: "re-joined", false: "joined"}[rejoin], missing, nWant, strings.Count(got, "\n")+1-boolToInt(got == ""))
		return
	}
	s.count("joiner-has-every-silence")
	// notification log: am-b (last in the order) gets the already notified alert and a silenced one; it must send neither
	nBefore := len(sink.Reqs())
	muted := AlertIn{Labels: map[string]string{"alertname": "A", "id": "n2", "x": "1"}, StartsAt: &old, EndsAt: &end}
	ctl := AlertIn{Labels: map[string]string{"alertname": "A", "id": "n3", "x": "8"}, StartsAt: &old, EndsAt: &end}
	tPost = time.Now()
	_, err = b.in.PostAlerts([]AlertIn{logged, muted, ctl})
	s.must(err, "post alerts to am-b")
	pos := time.Duration(len(all)-1) * peerTimeout // am-b's name sorts... see below
	names := []string{}
	for _, m := range all {
		names = append(names, m.name)
	}
	sort.Strings(names)
	for i, n := range names {
		if n == "am-b" {
			pos = time.Duration(i) * peerTimeout
		}
	}
	gotCtl := func(reqs []Req) bool { return notifs(reqs[nBefore:], "n3", "firing") > 0 }
	if !sink.WaitFor(tPost.Add(gw+pos+slack), gotCtl) {
		if sink.WaitFor(tPost.Add(gw+pos+slack+late), gotCtl) {
			s.inconclusive("control notification of am-b later than its position wait+%s", slack)
		} else {
			s.violate("cluster-no-notification", "am-b did not notify a new unsilenced alert within its position wait+%s", slack+late)
		}
		return
	}
	time.Sleep(time.Second)
	reqs := sink.Reqs()[nBefore:]
	if notifs(reqs, "n1", "firing") > 0 {
		s.violate("joiner-lacks-log-entries-after-full-state-exchange", "am-b %s and was given the alert the established members had already notified (log entry gossiped long ago): it notified it again - the notification log did not come with the full-state exchange", map[bool]string{true: "re-joined", false: "joined"}[rejoin])
		return
	}
	if notifs(reqs, "n2", "firing") > 0 {
		s.violate("joiner-does-not-apply-cluster-silence", "am-b lists the active silence %s and notified an alert it matches", sAct)
		return
	}
	s.count("joiner-has-the-log-and-mutes")
}

func boolToInt(b bool) int {
	if b {
		return 1
	}
	return 0
}
