//go:build verif && appsysworker

package worker

import (
	"os"
	"path/filepath"
	"time"

	"github.com/prometheus/alertmanager/app"
)

func init() {
	register("C04", "restart-after-one-failed-snapshot", snapFailScenario)
	register("C11", "restart-after-one-failed-snapshot", snapFailScenario)
}

// snapFailScenario: one periodic snapshot fails (the data dir is away at that moment), nothing is written to the
// stores afterwards, later maintenance runs and the shutdown snapshot happen with the data dir back in place. After a
// clean restart on that data dir the notification log and the silences must be what they were.
func snapFailScenario(s *sc) {
	const mi = 2 * time.Second
	conf := Conf{Root: Route{Receiver: "r0", GroupBy: []string{"id"}, GW: gw, GI: gi, RI: time.Hour}, Receivers: []Recv{{Name: "r0", Hooks: []Hook{{SendResolved: false}}}}}
	in, err := s.instance(func(o *app.Options) { o.MaintenanceInterval = mi })
	s.must(err, "instance")
	s.must(in.WriteConfig(conf.YAML(in.Sink)), "write config")
	s.must(in.Start(), "start")
	tStart := time.Now()
	now := time.Now()
	sid, _, err := in.PostSilence(SilenceIn{Matchers: []Matcher{{Name: "x", Value: "1", IsEqual: true}}, StartsAt: now, EndsAt: now.Add(time.Hour), CreatedBy: "appsys", Comment: "active"})
	s.must(err, "create silence")
	end := now.Add(10 * time.Minute)
	al := func(id, x string) AlertIn {
		return AlertIn{Labels: map[string]string{"alertname": "A", "id": id, "x": x}, StartsAt: &now, EndsAt: &end}
	}
	// the alerts are older than group_wait: flushed at once, so that the log entry exists well before the first
	// maintenance run
	now = now.Add(-2 * time.Second)
	_, err = in.PostAlerts([]AlertIn{al("a1", "1"), al("a2", "2")})
	s.must(err, "post alerts")
	listed := func(reqs []Req, id string) int {
		n := 0
		for _, r := range reqs {
			for _, a := range r.Msg.Alerts {
				if a.Labels["id"] == id {
					n++
				}
			}
		}
		return n
	}
	if !in.Sink.WaitFor(tStart.Add(mi-900*time.Millisecond), func(reqs []Req) bool { return listed(reqs, "a2") > 0 }) {
		s.inconclusive("the first notification did not go out well before the first maintenance run")
		return
	}
	if !in.ClientSettled("", 300*time.Millisecond) {
		s.inconclusive("the application had not returned from its first deliveries 8s after the receivers answered them")
		return
	}
	metric := func(name string) float64 { v, _ := in.Metric(name); return v }
	if metric("alertmanager_nflog_maintenance_total") > 0 || metric("alertmanager_silences_maintenance_total") > 0 {
		s.inconclusive("a maintenance run came before the data dir could be moved away")
		return
	}
	data, away := filepath.Join(in.Dir, "data"), filepath.Join(in.Dir, "data.away")
	s.must(os.Rename(data, away), "move the data dir away")
	s.logf("data dir moved away; waiting for the failing maintenance run")
	failed := func() bool {
		return metric("alertmanager_nflog_maintenance_errors_total") >= 1 && metric("alertmanager_silences_maintenance_errors_total") >= 1
	}
	dl := time.Now().Add(mi + slack)
	for !failed() && time.Now().Before(dl) {
		time.Sleep(20 * time.Millisecond)
	}
	s.must(os.Rename(away, data), "move the data dir back")
	if !failed() {
		s.inconclusive("no failed maintenance run of both stores was observed while the data dir was away")
		return
	}
	n1, n2 := metric("alertmanager_nflog_maintenance_total"), metric("alertmanager_silences_maintenance_total")
	s.logf("one maintenance run of each store failed; data dir is back; waiting for a later run")
	dl = time.Now().Add(2*mi + slack)
	later := func() bool {
		return metric("alertmanager_nflog_maintenance_total") > n1 && metric("alertmanager_silences_maintenance_total") > n2
	}
	for !later() && time.Now().Before(dl) {
		time.Sleep(20 * time.Millisecond)
	}
	if !later() {
		s.inconclusive("no further maintenance run within two intervals")
		return
	}
	time.Sleep(200 * time.Millisecond)
	before, err := in.GetSilences()
	s.must(err, "GET silences")
	nBefore := len(in.Sink.Reqs())
	s.must(in.Stop(), "stop")
	s.must(in.Start(), "start again on the same data dir")
	after, err := in.GetSilences()
	s.must(err, "GET silences after restart")
	if len(before) != 1 || len(after) != 1 || silKey(before[0]) != silKey(after[0]) || after[0].ID != sid {
		s.violate("silence-lost-at-restart", "one periodic snapshot had failed (data dir missing at that moment), later ones and the shutdown snapshot could succeed: %d silences before the clean shutdown, %d after the restart on the same data dir", len(before), len(after))
	}
	silencesOK := !s.violated()
	tPost := time.Now()
	_, err = in.PostAlerts([]AlertIn{al("a1", "1"), al("a2", "2"), al("a6", "6")})
	s.must(err, "post alerts after restart")
	ctl := func(reqs []Req) bool { return listed(reqs[nBefore:], "a6") > 0 }
	if !in.Sink.WaitFor(tPost.Add(gw+slack), ctl) {
		if in.Sink.WaitFor(tPost.Add(gw+slack+late), ctl) {
			s.inconclusive("control notification after the restart later than group_wait+%s", slack)
		} else {
			s.violate("unsilenced-alert-not-notified", "after the restart the new alert a6 was not notified within group_wait+%s", slack+late)
		}
		return
	}
	time.Sleep(1500 * time.Millisecond)
	reqs := in.Sink.Reqs()[nBefore:]
	if listed(reqs, "a2") > 0 {
		s.violate("notification-repeated-after-restart", "one periodic snapshot had failed (data dir missing at that moment), later ones and the shutdown snapshot could succeed; the unchanged firing alert a2, notified before, was notified again after the clean restart (repeat_interval 1h)")
	}
	if silencesOK && listed(reqs, "a1") > 0 {
		s.violate("active-silence-does-not-mute-after-restart", "alert a1 matches silence %s, active before and after the restart, and was notified after the restart", sid)
	}
	if !s.violated() {
		s.count("log-and-silences-survive-a-failed-periodic-snapshot")
	}
}
