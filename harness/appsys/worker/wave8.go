//go:build verif && appsysworker

package worker

import (
	"time"
)

// C08, three members, the FIRST one in the order not delivering: the alert reaches only the members at positions 1
// and 2 (the first member is up and a member of the cluster — the positions stay 0, 1, 2 — but has nothing to
// notify). Position 1 waits one peer timeout, notifies and gossips its log entry; position 2 waits TWO peer
// timeouts, finds the entry and stays silent: exactly one notification. (If every later member waited the same
// single peer timeout, both would wake together, both find no entry and both notify.)

func init() {
	register("C08", "cluster-trio-first-member-without-the-alert", c08TrioFirstSilent)
}

func c08TrioFirstSilent(s *sc) {
	sink, err := NewSink()
	s.must(err, "sink")
	defer sink.Close()
	names := []string{"am-a", "am-b", "am-c"}
	if s.r.Intn(2) == 0 { // start order is irrelevant: positions follow the names
		names = []string{"am-c", "am-a", "am-b"}
	}
	var ms []*member
	for _, name := range names {
		ms = append(ms, startMember(s, sink, name, ms, 10*time.Second, clusterConf()))
	}
	if !converged(s, ms, 12*time.Second) {
		s.inconclusive("the cluster did not report ready with 3 members within 12s")
		return
	}
	if !gossipHealthy(s, ms) {
		return
	}
	var later []*member
	for _, m := range ms {
		if m.name != "am-a" {
			later = append(later, m)
		}
	}
	now := time.Now()
	end := now.Add(10 * time.Minute)
	as := []AlertIn{{Labels: map[string]string{"alertname": "A", "id": "t1"}, StartsAt: &now, EndsAt: &end}}
	tPost := time.Now()
	postAll(s, later, as)
	// the first notification comes from position 1 after group_wait + one peer timeout
	if exactlyOnce(s, sink, []string{"t1"}, "firing", tPost, gw+peerTimeout, 3, "trio whose first member does not have the alert") {
		s.count("firing-exactly-once-with-silent-first-member")
	}
}
