//go:build verif && appsysworker

package worker

import (
	"encoding/json"
	"fmt"
	"strings"
	"time"

	"github.com/prometheus/alertmanager/app"
)

func init() {
	register("C11", "restart-shutdown-snapshot-only", c11Scenario)
	register("C11", "restart-after-periodic-snapshot", c11Scenario)
	multiplicity["C11/restart-shutdown-snapshot-only"] = 2
	multiplicity["C11/restart-after-periodic-snapshot"] = 2
}

func silKey(x SilenceOut) string {
	b, _ := json.Marshal(struct {
		M                []Matcher
		S, E, U          string
		By, Comment, Sta string
	}{x.Matchers, x.StartsAt.UTC().Format(time.RFC3339Nano), x.EndsAt.UTC().Format(time.RFC3339Nano), x.UpdatedAt.UTC().Format(time.RFC3339Nano), x.CreatedBy, x.Comment, x.Status.State})
	return string(b)
}

func c11Scenario(s *sc) {
	periodic := strings.Contains(s.c.Kind, "periodic")
	var mod modFunc
	if periodic {
		mod = func(o *app.Options) { o.MaintenanceInterval = 2 * time.Second }
	}
	conf := Conf{Root: Route{Receiver: "r0", GroupBy: []string{"id"}, GW: gw, GI: gi, RI: time.Hour}, Receivers: []Recv{{Name: "r0", Hooks: []Hook{{SendResolved: false}}}}}
	in, err := s.instance(mod)
	s.must(err, "instance")
	s.must(in.WriteConfig(conf.YAML(in.Sink)), "write config")
	s.must(in.Start(), "start")

	now := time.Now()
	eq := func(n, v string) Matcher { return Matcher{Name: n, Value: v, IsEqual: true} }
	mk := func(what string, ms []Matcher, start, end time.Time) string {
		id, _, err := in.PostSilence(SilenceIn{Matchers: ms, StartsAt: start, EndsAt: end, CreatedBy: "appsys", Comment: what + fmt.Sprintf(" #%d", s.r.Intn(1000))})
		s.must(err, "create silence "+what)
		return id
	}
	sAct := mk("active", []Matcher{eq("x", "1")}, now, now.Add(time.Hour))
	mk("pending", []Matcher{eq("x", "9")}, now.Add(time.Hour), now.Add(2*time.Hour))
	sExp := mk("expired by hand", []Matcher{eq("x", "3")}, now, now.Add(time.Hour))
	shortEnd := now.Add(1200 * time.Millisecond)
	mk("short", []Matcher{eq("x", "4")}, now, shortEnd)
	sRe := mk("regex and negative", []Matcher{{Name: "y", Value: "a.*", IsRegex: true, IsEqual: true}, {Name: "z", Value: "q", IsEqual: false}}, now, now.Add(time.Hour))
	for i, n := 0, s.r.Intn(4); i < n; i++ {
		mk(fmt.Sprintf("extra %d", i), []Matcher{eq("x", fmt.Sprintf("e%d", i)), {Name: "w", Value: "b|c", IsRegex: true, IsEqual: s.r.Bool()}}, now, now.Add(time.Duration(10+s.r.Intn(100))*time.Minute))
	}
	if code, err := in.DeleteSilence(sExp); err != nil || code != 200 {
		s.must(fmt.Errorf("code %d err %v", code, err), "expire silence")
	}

	end := now.Add(10 * time.Minute)
	al := func(id, x string) AlertIn {
		return AlertIn{Labels: map[string]string{"alertname": "A", "id": id, "x": x}, StartsAt: &now, EndsAt: &end}
	}
	tPost := time.Now()
	_, err = in.PostAlerts([]AlertIn{al("a1", "1"), al("a2", "2"), al("a3", "3")})
	s.must(err, "post alerts")
	listed := func(reqs []Req, id string) int {
		n := 0
		for _, r := range reqs {
			for _, a := range r.Msg.Alerts {
				if a.Labels["id"] == id {
					n++
				}
			}
		}
		return n
	}
	both := func(reqs []Req) bool { return listed(reqs, "a2") > 0 && listed(reqs, "a3") > 0 }
	if !in.Sink.WaitFor(tPost.Add(gw+slack), both) {
		if in.Sink.WaitFor(tPost.Add(gw+slack+late), both) {
			s.inconclusive("first notifications later than group_wait+%s", slack)
		} else {
			s.violate("unsilenced-alert-not-notified", "alerts a2 (no silence) and a3 (silence expired by hand) were not both notified within group_wait+%s: a2 %d, a3 %d", slack+late, listed(in.Sink.Reqs(), "a2"), listed(in.Sink.Reqs(), "a3"))
		}
		return
	}
	if listed(in.Sink.Reqs(), "a1") > 0 {
		s.violate("silenced-alert-notified", "alert a1 matches the active silence %s and was notified", sAct)
		return
	}
	s.logf("before restart: a2, a3 notified, a1 silenced")
	var sNew string
	if periodic {
		// wait for a periodic snapshot of both stores, then change things; only the shutdown snapshot can save these
		snap := func() bool {
			a, _ := in.Metric("alertmanager_silences_snapshot_duration_seconds")
			b, _ := in.Metric("alertmanager_nflog_snapshot_duration_seconds")
			return a >= 1 && b >= 1
		}
		dl := time.Now().Add(2*2*time.Second + slack)
		for !snap() && time.Now().Before(dl) {
			time.Sleep(50 * time.Millisecond)
		}
		if !snap() {
			s.inconclusive("no periodic snapshot of both stores within two maintenance intervals+%s", slack)
			return
		}
		s.logf("periodic snapshots taken; now editing")
		// edit in place (same matchers): longer, new comment
		startAct := now // re-submit the start the server reports (an edit with another start replaces the silence)
		if sils, err := in.GetSilences(); err == nil {
			for _, x := range sils {
				if x.ID == sAct {
					startAct = x.StartsAt
				}
			}
		}
		id, _, err := in.PostSilence(SilenceIn{ID: sAct, Matchers: []Matcher{eq("x", "1")}, StartsAt: startAct, EndsAt: now.Add(3 * time.Hour), CreatedBy: "appsys", Comment: "active, extended after the periodic snapshot"})
		s.must(err, "edit silence")
		if id != sAct {
			s.logf("edit replaced the silence: %s -> %s", sAct, id)
			sAct = id
		}
		if code, err := in.DeleteSilence(sRe); err != nil || code != 200 {
			s.must(fmt.Errorf("code %d err %v", code, err), "expire silence after the snapshot")
		}
		sNew = mk("created after the periodic snapshot", []Matcher{eq("x", "5")}, time.Now(), time.Now().Add(time.Hour))
		// and one more delivery whose log entry is younger than the periodic snapshot
		tPost = time.Now()
		_, err = in.PostAlerts([]AlertIn{al("a7", "7")})
		s.must(err, "post alert a7")
		got7 := func(reqs []Req) bool { return listed(reqs, "a7") > 0 }
		if !in.Sink.WaitFor(tPost.Add(gw+slack), got7) {
			s.inconclusive("notification of a7 later than group_wait+%s", slack)
			return
		}
	}
	time.Sleep(time.Until(shortEnd.Add(300 * time.Millisecond)))
	// the client side writes its log entry after the answer
	if !in.ClientSettled("", time.Second) {
		s.inconclusive("the application had not returned from its deliveries 8s after the receivers answered them")
		return
	}
	before, err := in.GetSilences()
	s.must(err, "GET silences")
	nBefore := len(in.Sink.Reqs())
	s.must(in.Stop(), "stop")
	s.must(in.Start(), "start again on the same data dir")
	after, err := in.GetSilences()
	s.must(err, "GET silences after restart")
	s.logf("restarted: %d silences before, %d after", len(before), len(after))

	// ---- silences identical ----
	bm, am := map[string]SilenceOut{}, map[string]SilenceOut{}
	for _, x := range before {
		bm[x.ID] = x
	}
	for _, x := range after {
		am[x.ID] = x
	}
	for id, b := range bm {
		a, ok := am[id]
		switch {
		case !ok:
			s.violate("silence-lost-at-restart", "silence %s (%s, %s) existed before the clean shutdown and is gone after the restart on the same data dir", id, b.Comment, b.Status.State)
		case silKey(a) != silKey(b):
			s.violate("silence-changed-at-restart", "silence %s differs after the restart: before %s, after %s", id, silKey(b), silKey(a))
		}
	}
	for id, a := range am {
		if _, ok := bm[id]; !ok {
			s.violate("silence-appeared-at-restart", "silence %s (%s) exists only after the restart", id, a.Comment)
		}
	}
	if s.violated() {
		return
	}
	s.count("silences-identical-after-restart")

	// ---- muting and the notification log after the restart ----
	tPost = time.Now()
	as := []AlertIn{al("a1", "1"), al("a2", "2"), al("a3", "3"), al("a4", "1"), al("a6", "6"), al("a8", "3")}
	if periodic {
		as = append(as, al("a5", "5"), al("a7", "7"))
	}
	_, err = in.PostAlerts(as)
	s.must(err, "post alerts after restart")
	// a6: no silence at all; a8: matches only the silence that was expired by hand before the shutdown
	ctl := func(reqs []Req) bool { return listed(reqs[nBefore:], "a6") > 0 && listed(reqs[nBefore:], "a8") > 0 }
	if !in.Sink.WaitFor(tPost.Add(gw+slack), ctl) {
		if in.Sink.WaitFor(tPost.Add(gw+slack+late), ctl) {
			s.inconclusive("control notification after the restart later than group_wait+%s", slack)
		} else {
			if listed(in.Sink.Reqs()[nBefore:], "a6") > 0 {
				s.violate("expired-silence-mutes-after-restart", "after the restart the new alert a8, which matches only a silence expired before the shutdown, was not notified within group_wait+%s (the unsilenced a6 was)", slack+late)
			} else {
				s.violate("unsilenced-alert-not-notified", "after the restart the new alert a6 (no silence) was not notified within group_wait+%s", slack+late)
			}
		}
		return
	}
	time.Sleep(1500 * time.Millisecond)
	reqs := in.Sink.Reqs()[nBefore:]
	api, err := in.GetAlerts("")
	s.must(err, "GET alerts")
	st := map[string]AlertOut{}
	for _, a := range api {
		st[a.Labels["id"]] = a
	}
	muted := map[string]string{"a1": sAct, "a4": sAct}
	if periodic {
		muted["a5"] = sNew
	}
	for id, sid := range muted {
		if listed(reqs, id) > 0 {
			s.violate("active-silence-does-not-mute-after-restart", "alert %s matches silence %s, which is active before and after the restart, and was notified after the restart", id, sid)
		}
		if a, ok := st[id]; !ok || a.Status.State != "suppressed" || strings.Join(a.Status.SilencedBy, ",") != sid {
			s.violate("silenced-alert-not-reported-silenced-after-restart", "alert %s matches the active silence %s; after the restart GET /api/v2/alerts reports state %q silencedBy %v", id, sid, a.Status.State, a.Status.SilencedBy)
		}
	}
	repeated := []string{"a2", "a3"}
	if periodic {
		repeated = append(repeated, "a7")
	}
	for _, id := range repeated {
		if listed(reqs, id) > 0 {
			s.violate("notification-repeated-after-restart", "the unchanged firing alert %s was notified before the clean shutdown and again after the restart on the same data dir (repeat_interval 1h)", id)
		}
	}
	if !s.violated() {
		s.count("muting-and-log-judged-after-restart")
	}
}
