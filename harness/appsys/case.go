//go:build verif

// Package appsys is the front end of the app engine: the engine that runs the REAL application wiring (package app:
// app.New / Start / Reload / Stop) as a black box in real time, driven only through public surfaces (HTTP API v2,
// /-/reload or App.Reload, the metrics registry the embedder hands in, Stop + New on the same data dir, rewriting the
// configuration file), with webhook / discord-style / SMTP receivers owned by the harness.
//
// The engine itself lives in package appsys/worker and runs in its OWN PROCESS (a `go test` of that package started
// by Part): package app imports package ui, whose go:embed of ui/app/dist (a build artefact that is not in the
// repository) only compiles with a -overlay that supplies a placeholder, which the check driver's fixed command line
// cannot pass; a separate process also keeps process-global state (time.Local for C15, pprof, the compat parser
// mode the real binary selects) away from the rest of a property's harness, and the real-time scenarios away from
// its CPU-bound parts.
package appsys

import (
	"encoding/json"
	"fmt"
	"os"
	"os/exec"
	"path/filepath"
	"regexp"
	"strings"
	"testing"
	"time"

	"verifharness/vh"
)

// Case is one replayable scenario of the app engine: the scenario family (Kind), its seed and a few integer
// parameters. Everything else (configuration text, alerts, silences, the script) derives from these.
type Case struct {
	Engine   string         `json:"engine"` // always "appsys"
	Prop     string         `json:"prop"`
	Kind     string         `json:"kind"`
	Seed     uint64         `json:"seed"`
	P        map[string]int `json:"p,omitempty"`
	Observed []string       `json:"observed,omitempty"` // reported cases only: the timeline of the failing run
}

type Finding struct {
	Key  string `json:"key"`
	What string `json:"what"`
}

// Outcome is what one scenario run produced.
type Outcome struct {
	Case         Case           `json:"case"`
	Findings     []Finding      `json:"findings,omitempty"`
	Inconclusive []string       `json:"inconclusive,omitempty"`
	Counts       map[string]int `json:"counts,omitempty"`
	Trace        []string       `json:"trace,omitempty"`
	Err          string         `json:"err,omitempty"` // the scenario could not run for a reason that says nothing about the product
	WallSec      float64        `json:"wall_sec"`
	Logs         []string       `json:"logs,omitempty"` // application logs (only kept for failing runs and replays)
}

// Job is what the front end hands to the worker process.
type Job struct {
	Prop  string `json:"prop"`
	Seed  uint64 `json:"seed"`
	Tier  string `json:"tier"`
	Mode  string `json:"mode"`
	Cases []Case `json:"cases,omitempty"` // explicit cases (replay); empty = generate the part's cases
	Logs  bool   `json:"logs,omitempty"`
}

// Part runs the app-engine part of property prop and reports through run (Violate / Count). In replay mode it
// handles the replay file only when it holds an app-engine case: it then runs that scenario, finishes the run and
// returns true (the caller returns at once); otherwise it does nothing and returns false.
func Part(t *testing.T, env vh.Env, run *vh.Run, prop string) bool {
	if env.Replay != "" {
		var c Case
		if err := vh.LoadReplayCase(env.Replay, &c); err != nil || c.Engine != "appsys" {
			return false
		}
		c.Observed = nil
		outs, log, err := launch(env, Job{Prop: c.Prop, Seed: env.Seed, Tier: env.Tier, Mode: env.Mode, Cases: []Case{c}, Logs: os.Getenv("APPSYS_LOGS") != ""})
		if err != nil {
			t.Fatalf("app engine worker failed: %v\n%s", err, tail(log, 4000))
		}
		for _, o := range outs {
			t.Logf("app engine replay %s/%s seed %d (%.1fs)\n%s", o.Case.Prop, o.Case.Kind, o.Case.Seed, o.WallSec, strings.Join(o.Trace, "\n"))
			for i, l := range o.Logs {
				t.Logf("---- application log of instance %d ----\n%s", i, l)
			}
		}
		report(t, run, outs)
		if err := run.Finish("replay of one app-engine scenario"); err != nil {
			t.Fatal(err)
		}
		return true
	}
	if os.Getenv("APPSYS_SKIP") == "1" {
		run.Count("appsys", "skipped by APPSYS_SKIP")
		return false
	}
	t0 := time.Now()
	outs, log, err := launch(env, Job{Prop: prop, Seed: env.Seed, Tier: env.Tier, Mode: env.Mode})
	if err != nil {
		t.Errorf("app engine worker failed: %v\n%s", err, tail(log, 4000))
		return false
	}
	report(t, run, outs)
	run.Count("appsys", fmt.Sprintf("part wall seconds (incl. worker build) ~%d", 5*int((time.Since(t0).Seconds()+2.5)/5)))
	return false
}

func tail(s string, n int) string {
	if len(s) > n {
		return "..." + s[len(s)-n:]
	}
	return s
}

var replaceRe = regexp.MustCompile(`(?m)^replace github\.com/prometheus/alertmanager => (\S+)`)

// launch runs the worker package's TestWorker in its own process.
func launch(env vh.Env, job Job) ([]Outcome, string, error) {
	wd, err := os.Getwd()
	if err != nil {
		return nil, "", err
	}
	mod := wd // the harness module root: the directory holding go.mod
	for {
		if _, err := os.Stat(filepath.Join(mod, "go.mod")); err == nil {
			break
		}
		up := filepath.Dir(mod)
		if up == mod {
			return nil, "", fmt.Errorf("no go.mod above %s", wd)
		}
		mod = up
	}
	repo := os.Getenv("VERIF_REPO")
	if gm, err := os.ReadFile(filepath.Join(mod, "go.mod")); err == nil {
		if m := replaceRe.FindSubmatch(gm); m != nil {
			repo = string(m[1]) // what the build will really use
		}
	}
	if repo == "" {
		repo = "/repo"
	}
	dir, err := os.MkdirTemp(env.Out, "appsys-")
	if err != nil {
		return nil, "", err
	}
	defer os.RemoveAll(dir)
	args := []string{"test", "-tags", "verif,appsysworker", "-count=1", "-timeout", "1500s", "-run", "^TestWorker$"}
	// The check driver may already pass an overlay (GOFLAGS -overlay=..., inherited by the worker's go command); this
	// front end supplies its own only when there is none, so that it also works when started by hand.
	if _, err := os.Stat(filepath.Join(repo, "ui", "app", "dist")); err != nil && !strings.Contains(os.Getenv("GOFLAGS"), "-overlay") {
		// the UI bundle is a build artefact (npm); give go:embed a placeholder so that package ui compiles
		ph := filepath.Join(dir, "index.html")
		if err := os.WriteFile(ph, []byte("<html><body>placeholder for the UI bundle (verification harness)</body></html>\n"), 0o644); err != nil {
			return nil, "", err
		}
		ov, _ := json.Marshal(map[string]any{"Replace": map[string]string{filepath.Join(repo, "ui", "app", "dist", "index.html"): ph}})
		ovp := filepath.Join(dir, "overlay.json")
		if err := os.WriteFile(ovp, ov, 0o644); err != nil {
			return nil, "", err
		}
		args = append(args, "-overlay", ovp)
	}
	args = append(args, "./appsys/worker/")
	jb, _ := json.Marshal(job)
	jobPath, outPath := filepath.Join(dir, "job.json"), filepath.Join(dir, "out.json")
	if err := os.WriteFile(jobPath, jb, 0o644); err != nil {
		return nil, "", err
	}
	var out, ob []byte
	var runErr error
	for attempt := 0; ; attempt++ {
		cmd := exec.Command("go", args...)
		cmd.Dir = mod
		cmd.Env = append(os.Environ(), "APPSYS_JOB="+jobPath, "APPSYS_OUT="+outPath)
		out, runErr = cmd.CombinedOutput()
		ob, err = os.ReadFile(outPath)
		if err == nil {
			break
		}
		// The worker process died (a fatal error of the Go runtime somewhere in the many instances it hosts, the OOM
		// killer ...). Once is retried; twice is reported.
		if attempt >= 1 {
			return nil, string(out), fmt.Errorf("worker wrote no result, twice (%v)", runErr)
		}
	}
	var outs []Outcome
	if err := json.Unmarshal(ob, &outs); err != nil {
		return nil, string(out), err
	}
	return outs, string(out), nil
}

func report(t *testing.T, run *vh.Run, outs []Outcome) {
	nerr := 0
	for i := range outs {
		o := &outs[i]
		name := o.Case.Kind
		run.Count("appsys_scenarios", name)
		switch {
		case o.Err != "":
			nerr++
			run.Count("appsys_outcome", "harness-error")
			t.Logf("appsys %s/%s seed %d: harness error: %v\n%s", o.Case.Prop, name, o.Case.Seed, o.Err, strings.Join(o.Trace, "\n"))
			if strings.HasPrefix(o.Err, "scenario panicked") {
				t.Errorf("app engine: scenario %s/%s seed %d panicked (a defect of the harness, see log)", o.Case.Prop, name, o.Case.Seed)
			}
		case len(o.Findings) > 0:
			run.Count("appsys_outcome", "violation")
		case len(o.Inconclusive) > 0:
			run.Count("appsys_outcome", "inconclusive")
		default:
			run.Count("appsys_outcome", "judged-ok")
		}
		for _, why := range o.Inconclusive {
			run.Count("appsys_inconclusive", name+": "+why)
		}
		for b, n := range o.Counts {
			run.CountN("appsys_observed", b, n)
		}
		seen := map[string]bool{}
		for _, f := range o.Findings {
			if seen[f.Key] {
				continue
			}
			seen[f.Key] = true
			c := o.Case
			c.Observed = o.Trace
			run.Violate("app-"+f.Key, "[app engine, "+name+"] "+f.What, c)
			t.Logf("appsys %s/%s seed %d: %s: %s\n%s", c.Prop, name, c.Seed, f.Key, f.What, strings.Join(o.Trace, "\n"))
		}
	}
	if len(outs) > 0 && nerr*2 > len(outs) {
		t.Errorf("app engine: %d of %d scenarios could not run (see log)", nerr, len(outs))
	}
}
