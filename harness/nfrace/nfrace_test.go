//go:build verif

package nfrace

import (
	"testing"
	"time"
)

func TestSmoke(t *testing.T) {
	t0 := time.Now()
	st, f := Run(t, Params{Seed: 1, Rounds: 20, Expired: 4000, Live: 50, Loggers: 8, PerLogger: 40, Merged: 20, Dedup: true})
	t.Logf("%+v findings=%d in %v", st, len(f), time.Since(t0))
	for _, x := range f {
		t.Errorf("%s: %s", x.Key, x.What)
	}
}
