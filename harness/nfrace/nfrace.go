//go:build verif

// Package nfrace is a judged concurrent engine for the notification log: it runs the real nflog.Log, GC, Merge and
// Query concurrently (real goroutines on all cores, virtual time frozen at one instant inside a synctest bubble) and
// compares the outcome with the order-independent result proved in Proofs/NflogConcProofs.v
// (gc_position_irrelevant, logged_entry_survives_concurrent_gc, gc_merge1_commute): whatever the interleaving,
//   - an entry logged (or merged, unexpired) during the GC is in the log afterwards,
//   - unexpired entries survive, expired entries nobody re-logged are gone,
//
// and, for C04, the real DedupStage does not notify an unchanged group again because its entry was lost.
// The model treats each operation as atomic; this engine is what ties that atomicity to the code.
package nfrace

import (
	"bytes"
	"context"
	"errors"
	"fmt"
	"log/slog"
	"sync"
	"testing"
	"testing/synctest"
	"time"

	"github.com/prometheus/client_golang/prometheus"
	"github.com/prometheus/common/model"
	"google.golang.org/protobuf/encoding/protodelim"
	"google.golang.org/protobuf/types/known/timestamppb"

	"github.com/prometheus/alertmanager/alert"
	"github.com/prometheus/alertmanager/nflog"
	pb "github.com/prometheus/alertmanager/nflog/nflogpb"
	"github.com/prometheus/alertmanager/notify"

	"verifharness/sim"
	"verifharness/vh"
)

type Params struct {
	Seed      uint64 `json:"seed"`
	Rounds    int    `json:"rounds"`
	Expired   int    `json:"expired"`    // entries that have expired when the race starts
	Live      int    `json:"live"`       // entries still unexpired
	Loggers   int    `json:"loggers"`    // goroutines calling Log on expired keys
	PerLogger int    `json:"per_logger"` // Log calls per goroutine
	Merged    int    `json:"merged"`     // expired keys re-delivered by one concurrent Merge of unexpired entries
	Dedup     bool   `json:"dedup"`      // also ask the real DedupStage about re-logged groups afterwards
}

type Finding struct {
	Key  string
	What string
	Case any
}

type Stats struct {
	Rounds, Relogged, Merged, LiveChecked, GoneChecked, DedupAsked int
}

var recv = &pb.Receiver{GroupName: "team-a", Integration: "webhook", Idx: 0}

func gkey(i int) string { return fmt.Sprintf(`{}:{alertname="a%d"}`, i) }

type sendResolved bool

func (s sendResolved) SendResolved() bool { return bool(s) }

func lookup(l *nflog.Log, k string) (*pb.Entry, bool, error) {
	es, err := l.Query(nflog.QGroupKey(k), nflog.QReceiver(recv))
	if errors.Is(err, nflog.ErrNotFound) {
		return nil, false, nil
	}
	if err != nil {
		return nil, false, err
	}
	if len(es) != 1 {
		return nil, false, fmt.Errorf("query returned %d entries", len(es))
	}
	return es[0], true, nil
}

// Run executes the rounds and returns what it covered plus the findings (at most a few per key).
func Run(t *testing.T, p Params) (Stats, []Finding) {
	var st Stats
	var out []Finding
	seen := map[string]int{}
	add := func(key, what string) {
		if seen[key] < 2 {
			out = append(out, Finding{Key: key, What: what, Case: map[string]any{"nfrace": p, "note": "statistical engine: replay re-runs it with these parameters"}})
		}
		seen[key]++
	}
	r := vh.NewRand(p.Seed)
	for round := 0; round < p.Rounds; round++ {
		rs := r.Fork()
		synctest.Test(t, func(t *testing.T) {
			l, err := nflog.New(nflog.Options{Retention: time.Hour, Metrics: prometheus.NewRegistry()})
			if err != nil {
				t.Fatal(err)
			}
			hash := func(i int) uint64 {
				return sim.HashAlert(model.LabelSet{"alertname": model.LabelValue(fmt.Sprintf("a%d", i))})
			}
			// entries 0..Expired-1 logged now, the live ones 90 minutes later, the race 2h after the start
			for i := 0; i < p.Expired; i++ {
				if err := l.Log(recv, gkey(i), []uint64{hash(i)}, nil, nil, 0); err != nil {
					t.Fatal(err)
				}
			}
			time.Sleep(90 * time.Minute)
			for i := p.Expired; i < p.Expired+p.Live; i++ {
				if err := l.Log(recv, gkey(i), []uint64{hash(i)}, nil, nil, 0); err != nil {
					t.Fatal(err)
				}
			}
			time.Sleep(30 * time.Minute)
			now := time.Now()

			// choose distinct expired keys for the loggers and for the merge
			perm := make([]int, p.Expired)
			for i := range perm {
				perm[i] = i
			}
			for i := len(perm) - 1; i > 0; i-- {
				j := rs.Intn(i + 1)
				perm[i], perm[j] = perm[j], perm[i]
			}
			need := p.Loggers*p.PerLogger + p.Merged
			if need > len(perm) {
				need = len(perm)
			}
			chosen := perm[:need]
			mergeKeys := chosen[:min(p.Merged, len(chosen))]
			logKeys := chosen[len(mergeKeys):]

			var batch bytes.Buffer
			for _, i := range mergeKeys {
				e := &pb.MeshEntry{
					Entry: &pb.Entry{Receiver: recv, GroupKey: []byte(gkey(i)), Timestamp: timestamppb.New(now.Add(-time.Second)),
						FiringAlerts: []uint64{hash(i)}},
					ExpiresAt: timestamppb.New(now.Add(time.Hour - time.Second)),
				}
				if _, err := protodelim.MarshalTo(&batch, e); err != nil {
					t.Fatal(err)
				}
			}

			start := make(chan struct{})
			var wg sync.WaitGroup
			errs := make(chan error, p.Loggers+4)
			wg.Add(1)
			go func() {
				defer wg.Done()
				<-start
				if _, err := l.GC(); err != nil {
					errs <- err
				}
			}()
			for g := 0; g < p.Loggers; g++ {
				lo, hi := g*p.PerLogger, (g+1)*p.PerLogger
				if lo > len(logKeys) {
					lo = len(logKeys)
				}
				if hi > len(logKeys) {
					hi = len(logKeys)
				}
				mine := logKeys[lo:hi]
				wg.Add(1)
				go func() {
					defer wg.Done()
					<-start
					for _, i := range mine {
						if err := l.Log(recv, gkey(i), []uint64{hash(i)}, nil, nil, 0); err != nil {
							errs <- err
							return
						}
					}
				}()
			}
			if len(mergeKeys) > 0 {
				wg.Add(1)
				go func() {
					defer wg.Done()
					<-start
					if err := l.Merge(batch.Bytes()); err != nil {
						errs <- err
					}
				}()
			}
			wg.Add(1)
			go func() { // readers must not disturb anything
				defer wg.Done()
				<-start
				for i := 0; i < 200; i++ {
					_, _, _ = lookup(l, gkey(rs.Intn(p.Expired+p.Live)))
				}
			}()
			close(start)
			wg.Wait()
			close(errs)
			for err := range errs {
				add("nflog-operation-failed-under-concurrency", err.Error())
			}
			st.Rounds++

			relogged := map[int]bool{}
			var lost []int
			for _, i := range logKeys {
				relogged[i] = true
				e, ok, err := lookup(l, gkey(i))
				st.Relogged++
				switch {
				case err != nil:
					add("nflog-query-failed", err.Error())
				case !ok:
					lost = append(lost, i)
					add("logged-entry-lost-to-concurrent-gc", fmt.Sprintf("round %d: Log(%s) returned nil at %v while GC ran concurrently; afterwards the log has no entry for the key (any order of the two operations keeps it: c10_logged_entry_survives_concurrent_gc)", round, gkey(i), now.UTC()))
				case !e.Timestamp.AsTime().Equal(now):
					add("logged-entry-not-stored", fmt.Sprintf("round %d: entry for %s has timestamp %v, expected the concurrent Log's %v", round, gkey(i), e.Timestamp.AsTime(), now))
				}
			}
			for _, i := range mergeKeys {
				relogged[i] = true
				_, ok, err := lookup(l, gkey(i))
				st.Merged++
				if err == nil && !ok {
					add("merged-entry-lost-to-concurrent-gc", fmt.Sprintf("round %d: an unexpired replicated entry for %s merged while GC ran concurrently is gone afterwards (c10_gc_merge_commute)", round, gkey(i)))
				}
			}
			for i := p.Expired; i < p.Expired+p.Live; i++ {
				_, ok, err := lookup(l, gkey(i))
				st.LiveChecked++
				if err == nil && !ok {
					add("gc-dropped-unexpired-entry", fmt.Sprintf("round %d: unexpired entry %s dropped by a GC running concurrently with Log calls", round, gkey(i)))
				}
			}
			for i := 0; i < p.Expired; i++ {
				if relogged[i] {
					continue
				}
				_, ok, err := lookup(l, gkey(i))
				st.GoneChecked++
				if err == nil && ok {
					add("expired-entry-survives-gc", fmt.Sprintf("round %d: expired entry %s still present after GC", round, gkey(i)))
				}
			}
			if p.Dedup {
				// C04 in its own terms: the group is unchanged and was notified just now; the next flush (same
				// instant, repeat_interval 4h) must not notify again.
				ask := lost
				if len(ask) > 3 {
					ask = ask[:3]
				}
				for n := 0; len(ask) < 3 && n < len(logKeys); n++ {
					ask = append(ask, logKeys[n])
				}
				stage := notify.NewDedupStage(sendResolved(true), l, recv)
				for _, i := range ask {
					a := &alert.Alert{Alert: model.Alert{Labels: model.LabelSet{"alertname": model.LabelValue(fmt.Sprintf("a%d", i))},
						StartsAt: now.Add(-3 * time.Hour), EndsAt: now.Add(time.Hour)}, UpdatedAt: now.Add(-time.Minute)}
					ctx := notify.WithGroupKey(context.Background(), gkey(i))
					ctx = notify.WithRepeatInterval(ctx, 4*time.Hour)
					ctx = notify.WithNow(ctx, now)
					_, res, err := stage.Exec(ctx, slog.New(slog.DiscardHandler), a)
					st.DedupAsked++
					if err != nil {
						add("dedup-stage-error", err.Error())
					} else if len(res) != 0 {
						add("unchanged-group-notified-again-after-concurrent-gc", fmt.Sprintf("round %d: group %s was notified (nflog.Log returned nil) at %v while the log's GC ran; its firing set is unchanged and repeat_interval (4h) has not elapsed, yet DedupStage lets the next flush notify again because the entry is gone", round, gkey(i), now.UTC()))
					}
				}
			}
		})
	}
	return st, out
}

// ReplayParams returns the engine parameters stored in a replay file written for one of this engine's findings.
func ReplayParams(path string) *Params {
	var c struct {
		Nfrace *Params `json:"nfrace"`
	}
	if err := vh.LoadReplayCase(path, &c); err != nil {
		return nil
	}
	return c.Nfrace
}

// Default parameters per tier: the scan of a GC over Expired entries takes long enough that several Log calls
// queue up behind it on a multi-core machine.
func Default(env vh.Env, dedup bool) Params {
	p := Params{Seed: env.Seed ^ 0x6e6672616365, Rounds: 40, Expired: 4000, Live: 50, Loggers: 8, PerLogger: 40, Merged: 20, Dedup: dedup}
	if env.Tier == "thorough" {
		p.Rounds = 400
	}
	return p
}

// Report adds the engine's coverage counters and findings to a run.
func Report(run *vh.Run, st Stats, fs []Finding) {
	for k, n := range map[string]int{"rounds": st.Rounds, "log-during-gc": st.Relogged, "merge-during-gc": st.Merged,
		"live-entries-checked": st.LiveChecked, "expired-entries-checked": st.GoneChecked, "dedup-stage-asked": st.DedupAsked} {
		run.CountN("concurrent_nflog_engine", k, n)
	}
	for _, f := range fs {
		run.Violate(f.Key, f.What, f.Case)
	}
}
