//go:build verif

// Package c16: correspondence + direct oracle for C16 (matchers: print/parse round-trip, parser agreement,
// exact match semantics) against the real pkg/labels, matcher/parse, matcher/compat and the four call sites.
package c16

import (
	"fmt"
	"testing"

	"verifharness/vh"
)

// ---- JSON/replayable form of a case (byte-exact: strings are []byte, base64 in JSON; Show is for humans) ----

type M struct {
	T int    `json:"t"` // 0 = , 1 != , 2 =~ , 3 !~   (labels.MatchType)
	N []byte `json:"n"`
	V []byte `json:"v"`
	F string `json:"f,omitempty"` // cfg cases: the YAML form the matcher is written in: matchers | match | match_re
}

type KV struct {
	K []byte `json:"k"`
	V []byte `json:"v"`
}

type Case struct {
	Kind  string   `json:"kind"` // match | site | sil | print | parse
	Show  string   `json:"show,omitempty"`
	MSS   [][]M    `json:"mss,omitempty"`      // match
	LS    []KV     `json:"ls,omitempty"`       // match, site
	M     *M       `json:"m,omitempty"`        // site
	MS    []M      `json:"ms,omitempty"`       // print
	Input []byte   `json:"input,omitempty"`    // parse
	Src   string   `json:"src,omitempty"`      // parse: which generator produced the input
	Sils  [][][]M  `json:"sils,omitempty"`     // siln: several silences, each a list of matcher sets
	LSS   [][]KV   `json:"lss,omitempty"`      // api: the alerts of one request, in request order; cfg: the targets
	RSrc  []M      `json:"rule_src,omitempty"` // cfg: source side of the inhibition rule
	RTgt  []M      `json:"rule_tgt,omitempty"` // cfg: target side
	Rt    []M      `json:"route,omitempty"`    // cfg: the child route's matchers
	Args  []string `json:"args,omitempty"`     // amtool: matcher texts given to the real command line
}

func showM(m M) string {
	return fmt.Sprintf("%q %s %q", m.N, []string{"=", "!=", "=~", "!~"}[m.T], m.V)
}

func TestCheck(t *testing.T) {
	env := vh.GetEnv()
	run := vh.NewRun(env, "AM.Run.C16Run")
	setMode("f") // alertmanager's default parser mode; the compat package itself starts in classic mode
	var cases []Case
	if env.Replay != "" {
		var c Case
		if err := vh.LoadReplayCase(env.Replay, &c); err != nil {
			t.Fatal(err)
		}
		cases = append(cases, c)
	} else {
		cases = append(cases, vh.LoadCorpus[Case](env, "C16")...)
		r := vh.NewRand(env.Seed)
		cases = append(cases, genAll(env, r)...)
	}
	for i := range cases {
		c := &cases[i]
		switch c.Kind {
		case "match":
			runMatch(run, c)
		case "site":
			runSite(run, c)
		case "sil":
			runSil(run, c)
		case "siln":
			runSilN(run, c)
		case "api":
			runAPI(t, run, c)
		case "cfg":
			runCfg(t, run, c)
		case "amtool":
			runAmtool(t, run, c)
		case "print":
			runPrint(run, c)
		case "parse":
			runParse(run, c)
		default:
			t.Fatalf("unknown case kind %q", c.Kind)
		}
		run.Count("kind", c.Kind)
	}
	if err := run.Finish(rule); err != nil {
		t.Fatal(err)
	}
}

const rule = "match: 1-3 matcher lists x label sets over small name/value/pattern alphabets, regexp oracle anchored by the harness; " +
	"site: one matcher through NewMatcher / Matchers / route (matchers, match, match_re, JSON config) / silence compile / inhibit rule (source, target, legacy maps) / API filter / v1 JSON; " +
	"sil: 1-3 matcher sets stored as a silence in a real silence.Silences and asked back through Query(QState(active), QMatches(labels)), Silencer.Mutes and (single list) the API filter, on label sets that lack some matched labels or carry them empty, all four operators, regexps that match the empty string; " +
	"siln: 2-3 silences alive at once whose matchers collide on their unquoted text (value starting with ~ = !, name/value splits), checked after Set, after snapshot + restart, and in a second store after ONE Merge of the full state, by Query(QMatches) per silence and Silencer.Mutes; " +
	"api: one GET /api/v2/alerts and one /alerts/groups request through the real handler over 2-4 alerts with differing label names, in the given and the reverse order, each alert's verdict compared; " +
	"regexp shapes (literal, .*, .+, lit.*, .*lit, .*lit.*, ...) against values with newlines / CR / control characters / empty in every semantics case; " +
	"cfg: a YAML configuration with one inhibition rule and one child route whose matchers are written as source_matchers/target_matchers/matchers and as the deprecated source_match, source_match_re, target_match, target_match_re, match, match_re (mixed), loaded by config.Load; both sides of inhibit.NewInhibitRule on the source alert and on 2-4 targets, the real Inhibitor (source alert firing, equal = []) asked Mutes for each target, dispatch.NewRoute matching each target; " +
	"amtool: the REAL amtool command line with default flags (re-executed test binary into cli.Execute; the child sets up its own parser mode) given matcher texts that only the UTF-8 parser accepts, that only the classic parser accepts, that both or neither accept: silence add against an in-process API + store (stored matcher = the server's fallback-mode parse of the same text), silence query, check-config and config routes test on a configuration file with those matchers (accepted iff the server accepts; same receivers as dispatch); " +
	"print: matcher lists over an alphabet rich in quotes, backslashes, newlines, braces, commas, operators, blanks, NUL, multi-byte and invalid UTF-8 -> String() -> every parser; " +
	"list stress: 2-4 matcher lists whose non-last values end in one or two backslashes or carry a quote / escaped quote / escaped backslash right before the separating comma, printed then parsed in every mode, plus raw lists of the same shapes (histogram classic_split_stress); " +
	"parse: raw inputs (grammar-directed + mutated seeds) through labels.ParseMatcher(s), parse.Matcher(s), compat.Matcher(s) in classic/utf8-strict/fallback mode; " +
	"non-trivial = at least one regex matcher or non-ASCII/escaped byte or a parser disagreement/error; distinct by full case text"
