//go:build verif

package c16

import (
	"context"
	"fmt"
	"net/http"
	"net/http/httptest"
	"os"
	"path/filepath"
	"sort"
	"strconv"
	"strings"
	"testing"
	"time"

	"github.com/prometheus/client_golang/prometheus"
	"github.com/prometheus/common/model"
	"github.com/prometheus/common/promslog"

	v2 "github.com/prometheus/alertmanager/api/v2"
	"github.com/prometheus/alertmanager/config"
	"github.com/prometheus/alertmanager/dispatch"
	"github.com/prometheus/alertmanager/matcher/compat"
	"github.com/prometheus/alertmanager/pkg/labels"

	"verifharness/amtoolrun"
	"verifharness/vh"
)

// The real amtool command line: the child process is this test binary re-executed into cli.Execute, so the matcher
// parser mode in it is whatever amtool itself sets up from its (default) flags - nothing here initialises it.
func TestAmtoolHelper(t *testing.T) { amtoolrun.Helper(t) }

// matcher texts: accepted only by the UTF-8 parser, by both, only by the classic parser, by neither
var amtoolTexts = []string{
	`"foo bar"="baz"`, `Ελληνικά!~"a.*"`, `"a=b"=~"x.*"`, `日本="x"`, `foo.bar="x y"`, `"0a"!="q"`, `foo-bar=~"a|b"`, `"é"="é"`,
	`foo="bar"`, `foo=bar`, `a_b:c=~"x|y"`, `job!="a b"`, `sev!~"c.*"`,
	`foo=b\ar`, `foo="b\tar"`, `foo=~\d+`,
	`=x`, `"foo`, `foo bar`,
}

func genAmtoolCase(r *vh.Rand) Case {
	c := Case{Kind: "amtool"}
	// always some UTF-8-only texts, then a random mix
	c.Args = append(c.Args, amtoolTexts[r.Intn(8)], amtoolTexts[r.Intn(8)])
	for i := 0; i < 2; i++ {
		c.Args = append(c.Args, vh.Pick(r, amtoolTexts))
	}
	c.LS = []KV{{[]byte("foo"), []byte("bar")}, {[]byte("job"), []byte(vh.Pick(r, []string{"a", "x"}))}}
	return c
}

func runAmtool(t *testing.T, run *vh.Run, c *Case) {
	home, err := os.MkdirTemp("", "c16amtool")
	if err != nil {
		t.Fatal(err)
	}
	defer os.RemoveAll(home)
	setMode("f") // this process plays the server: alertmanager's default mode
	viol := func(key, what string) { run.Violate(key, what, c) }

	// ---- silence add: one matcher text per invocation, against a real API in front of a real store ----
	for _, text := range c.Args {
		st := newStore(nil)
		api, err := v2.NewAPI(nil, nil, nil, st, nil, promslog.NewNopLogger(), prometheus.NewRegistry())
		if err != nil {
			t.Fatal(err)
		}
		mux := http.NewServeMux()
		mux.Handle("/api/v2/", api.Handler)
		srv := httptest.NewServer(mux)
		// what the server's mode makes of the argument; amtool reads a first argument that is not a matcher as the
		// value of alertname
		eff := text
		if _, err := compat.Matcher(eff, "verif"); err != nil {
			eff = "alertname=" + strconv.Quote(text)
		}
		res := parseAll(eff)
		want := res["kf1"]
		out, code, err := amtoolrun.Run(home, "--alertmanager.url="+srv.URL, "--no-version-check", "silence", "add", "--author=me", "--comment=c16", "--duration=1h", text)
		if err != nil {
			srv.Close()
			t.Fatalf("amtool silence add %q: %v\n%s", text, err, out)
		}
		got := pres{class: "e"}
		all, _, qerr := st.Query(context.Background())
		if code == 0 && qerr == nil && len(all) == 1 && len(all[0].MatcherSets) == 1 && len(all[0].MatcherSets[0].Matchers) == 1 {
			pm := all[0].MatcherSets[0].Matchers[0]
			ty := map[string]labels.MatchType{"EQUAL": labels.MatchEqual, "NOT_EQUAL": labels.MatchNotEqual, "REGEXP": labels.MatchRegexp, "NOT_REGEXP": labels.MatchNotRegexp}[pm.Type.String()]
			got = pres{class: "ok", ms: []*labels.Matcher{{Type: ty, Name: pm.Name, Value: pm.Pattern}}}
		}
		outcome := "rejected by both"
		switch {
		case want.class == "ok" && got.class == "ok" && sameMs(want.ms, got.ms):
			outcome = "stored as the server reads it"
		case want.class == "ok" && got.class == "ok":
			outcome = "stored DIFFERENTLY from the server's reading"
			viol("amtool-silence-add-misreads-matcher", fmt.Sprintf("amtool silence add %q stored %v; the server (fallback mode) reads %q as %v", text, got.ms, eff, want.ms))
		case want.class == "ok":
			outcome = "rejected by amtool, accepted by the server"
			viol("amtool-silence-add-rejects-server-accepted-matcher", fmt.Sprintf("amtool silence add %q: exit %d %q; the server (fallback mode) accepts it as %v", text, code, strings.TrimSpace(out), want.ms))
		case got.class == "ok":
			outcome = "accepted by amtool, rejected by the server"
			viol("amtool-silence-add-accepts-server-rejected-matcher", fmt.Sprintf("amtool silence add %q stored %v; the server rejects %q", text, got.ms, eff))
		}
		run.Count("amtool_silence_add", outcome)
		// silence query with the same matcher lists the silence (when it was stored)
		if got.class == "ok" && want.class == "ok" {
			qout, qcode, err := amtoolrun.Run(home, "--alertmanager.url="+srv.URL, "--no-version-check", "silence", "query", "-q", text)
			if err != nil {
				t.Fatalf("amtool silence query: %v", err)
			}
			// amtool logs parser warnings to the same stream: the id is the last line
			last := func(s string) string { l := strings.Split(strings.TrimSpace(s), "\n"); return l[len(l)-1] }
			if qcode != 0 || last(qout) != last(out) {
				run.Count("amtool_silence_query", "does not list the silence")
				viol("amtool-silence-query-misses-silence", fmt.Sprintf("amtool silence query -q %q: exit %d %q, expected the id %q", text, qcode, strings.TrimSpace(qout), strings.TrimSpace(out)))
			} else {
				run.Count("amtool_silence_query", "lists the silence")
			}
		}
		srv.Close()
		// the same observation for the model: amtool's stored matcher must be the model's fallback-mode parse
		msgs := map[string]bool{}
		if want.class == "re" {
			msgs[want.reMsg] = true
		}
		obs := []string{vh.Pair(vh.Str("kf1"), coqRes(want)), vh.Pair(vh.Str("amtool"), coqRes(got))}
		pc := Case{Kind: "parse", Input: []byte(eff), Src: "amtool silence add argument", Show: fmt.Sprintf("%q", eff)}
		run.Add(vh.App("CParse", coqTables([]string{eff}, badRegexCandidates(eff, msgs)), vh.StrLit(eff), vh.List(obs)), pc, true)
	}

	// ---- check-config and config routes test on a configuration file carrying those matchers ----
	for i, text := range c.Args {
		yaml := "route:\n  receiver: root\n  routes:\n  - receiver: child\n    matchers: [" + yamlStr(text) + "]\nreceivers:\n- name: root\n- name: child\n" +
			"inhibit_rules:\n- source_matchers: [" + yamlStr(text) + "]\n  target_matchers: ['sev=\"x\"']\n"
		file := filepath.Join(home, fmt.Sprintf("am%d.yml", i))
		if err := os.WriteFile(file, []byte(yaml), 0o600); err != nil {
			t.Fatal(err)
		}
		cfg, lerr := config.Load(yaml)
		out, code, err := amtoolrun.Run(home, "check-config", file)
		if err != nil {
			t.Fatalf("amtool check-config: %v\n%s", err, out)
		}
		switch {
		case (lerr == nil) != (code == 0):
			run.Count("amtool_check_config", "DISAGREES with the server")
			viol("amtool-check-config-disagrees-with-server", fmt.Sprintf("matcher %q in a configuration file: the server's config.Load says %v, amtool check-config exits %d: %s", text, lerr, code, strings.TrimSpace(out)))
		case lerr == nil:
			run.Count("amtool_check_config", "accepted by both")
		default:
			run.Count("amtool_check_config", "rejected by both")
		}
		if lerr != nil {
			continue
		}
		// routes test: the receivers amtool resolves for a label set = what the dispatcher's tree resolves
		root := dispatch.NewRoute(cfg.Route, nil)
		ls := mkLabels(c.LS)
		if m, err := compat.Matcher(text, "verif"); err == nil && m.Type == labels.MatchEqual && !strings.ContainsAny(m.Name+m.Value, " ,\"=\\{}") && i%2 == 0 {
			ls[model.LabelName(m.Name)] = model.LabelValue(m.Value) // make the child match sometimes
		}
		var args, wantRecv []string
		for k, v := range ls {
			args = append(args, string(k)+"="+string(v))
		}
		sort.Strings(args)
		for _, rt := range root.Match(ls) {
			wantRecv = append(wantRecv, rt.RouteOpts.Receiver)
		}
		out, code, err = amtoolrun.Run(home, append([]string{"config", "routes", "test", "--config.file=" + file}, args...)...)
		if err != nil {
			t.Fatalf("amtool config routes test: %v\n%s", err, out)
		}
		lines := strings.Split(strings.TrimSpace(out), "\n")
		if code != 0 || lines[len(lines)-1] != strings.Join(wantRecv, ",") {
			run.Count("amtool_routes_test", "DIFFERS from the dispatcher")
			viol("amtool-routes-test-differs-from-dispatcher", fmt.Sprintf("route matcher %q, labels %v: amtool config routes test exits %d with %q, the dispatcher's tree gives %v", text, args, code, strings.TrimSpace(out), wantRecv))
		} else {
			run.Count("amtool_routes_test", "receivers "+strings.Join(wantRecv, ","))
		}
	}
	_ = time.Second
}
