//go:build verif

package c16

import (
	"bytes"
	"context"
	"encoding/json"
	"fmt"
	"net/http"
	"net/http/httptest"
	"net/url"
	"regexp"
	"sort"
	"strings"
	"sync"
	"testing"
	"time"

	"github.com/prometheus/client_golang/prometheus"
	"github.com/prometheus/common/model"
	"github.com/prometheus/common/promslog"
	"google.golang.org/protobuf/types/known/timestamppb"

	"github.com/prometheus/alertmanager/alert"
	v2 "github.com/prometheus/alertmanager/api/v2"
	"github.com/prometheus/alertmanager/config"
	"github.com/prometheus/alertmanager/dispatch"
	"github.com/prometheus/alertmanager/eventrecorder"
	"github.com/prometheus/alertmanager/pkg/labels"
	"github.com/prometheus/alertmanager/provider"
	"github.com/prometheus/alertmanager/silence"
	pb "github.com/prometheus/alertmanager/silence/silencepb"
	"github.com/prometheus/alertmanager/types"

	"verifharness/vh"
	"verifharness/vhm"
)

// ---------- several silences at once: Set, snapshot + restart, one Merge of the full state ----------

// two matchers whose unquoted text name+op+value is the same string
func collidingPair(r *vh.Rand) (M, M, []string) {
	n := vh.Pick(r, semNames)
	p := vh.Pick(r, []string{"a", "a.*", "prod", "b|", "[ab]+", ".*", "x.y"})
	v := vh.Pick(r, []string{"a", "b", "prod", "ab"})
	b := func(s string) []byte { return []byte(s) }
	switch r.Intn(5) {
	case 0: // n=~p  as  = with value ~p   vs   =~ with value p
		return M{T: 0, N: b(n), V: b("~" + p)}, M{T: 2, N: b(n), V: b(p)}, []string{n}
	case 1: // n==v  as  = with value =v   vs   name n= with value v
		return M{T: 0, N: b(n), V: b("=" + v)}, M{T: 0, N: b(n + "="), V: b(v)}, []string{n, n + "="}
	case 2: // n!=v  as  != on n   vs   = on the name n!
		return M{T: 1, N: b(n), V: b(v)}, M{T: 0, N: b(n + "!"), V: b(v)}, []string{n, n + "!"}
	case 3: // n!=~p  as  != with value ~p   vs   =~ on the name n!
		return M{T: 1, N: b(n), V: b("~" + p)}, M{T: 2, N: b(n + "!"), V: b(p)}, []string{n, n + "!"}
	default: // n!~p  as  !~ on n   vs   = on the name n! with value ~p
		return M{T: 3, N: b(n), V: b(p)}, M{T: 0, N: b(n + "!"), V: b("~" + p)}, []string{n, n + "!"}
	}
}

func genSilNCase(r *vh.Rand) Case {
	c := Case{Kind: "siln"}
	m1, m2, names := collidingPair(r)
	ls := map[string]string{}
	for _, kv := range genLS(r) {
		ls[string(kv.K)] = string(kv.V)
	}
	// label values that tell the two colliding matchers apart
	cands := append([]string{string(m1.V), string(m2.V), "a", "ab", "abc", "prod", "b", ""}, semValues...)
	for _, n := range names {
		if !r.Chance(1, 6) {
			ls[n] = vh.Pick(r, cands)
		} else {
			delete(ls, n)
		}
	}
	for _, k := range vh.SortedKeys(ls) {
		c.LS = append(c.LS, KV{[]byte(k), []byte(ls[k])})
	}
	mk := func(m M) [][]M {
		set := []M{m}
		if r.Chance(1, 3) {
			set = append(set, genSemMatcher(r, c.LS))
		}
		if !silSetValid(set) {
			set = append(set, M{T: 1, N: []byte("sev"), V: []byte("zzz")})
		}
		sets := [][]M{set}
		if r.Chance(1, 5) {
			extra := []M{genSemMatcher(r, c.LS)}
			if silSetValid(extra) {
				sets = append(sets, extra)
			}
		}
		return sets
	}
	c.Sils = [][][]M{mk(m1), mk(m2)}
	if r.Chance(1, 2) {
		if r.Chance(1, 2) {
			m3, m4, _ := collidingPair(r)
			c.Sils = append(c.Sils, mk(m3), mk(m4))
		} else {
			c.Sils = append(c.Sils, mk(genSemMatcher(r, c.LS)))
		}
	}
	if r.Chance(1, 3) { // a maintenance silence listing many hosts, alive together with the others
		m, kv := genLongAlt(r)
		var ls []KV
		for _, x := range c.LS {
			if string(x.K) != string(kv.K) {
				ls = append(ls, x)
			}
		}
		c.LS = append(ls, kv)
		c.Sils = append(c.Sils, mk(m))
	}
	vh.Shuffle(r, c.Sils)
	return c
}

func newStore(snapshot *bytes.Buffer) *silence.Silences {
	o := silence.Options{Retention: time.Hour, Metrics: prometheus.NewRegistry(), EventRecorder: eventrecorder.NopRecorder()}
	if snapshot != nil {
		o.SnapshotReader = snapshot
	}
	st, err := silence.New(o)
	if err != nil {
		panic(err)
	}
	return st
}

func runSilN(run *vh.Run, c *Case) {
	ls := mkLabels(c.LS)
	ctx := context.Background()
	a := newStore(nil)
	var all []M
	var ids []string
	var want []bool
	var coqSils []string
	now := time.Now()
	for _, sets := range c.Sils {
		sil := &pb.Silence{Comment: "c16", CreatedBy: "verif", StartsAt: timestamppb.New(now), EndsAt: timestamppb.New(now.Add(time.Hour))}
		var mset labels.MatcherSet
		w := false
		for _, msj := range sets {
			pms := &pb.MatcherSet{}
			ms := labels.Matchers{}
			conj := true
			for _, mj := range msj {
				m, err := realMatcher(mj)
				if err != nil {
					panic(err)
				}
				ms = append(ms, m)
				all = append(all, mj)
				pms.Matchers = append(pms.Matchers, &pb.Matcher{Type: pbTypes[mj.T], Name: string(mj.N), Pattern: string(mj.V)})
				conj = conj && expectHolds(mj, string(ls[model.LabelName(mj.N)]))
			}
			w = w || conj
			msCopy := ms
			mset = append(mset, &msCopy)
			sil.MatcherSets = append(sil.MatcherSets, pms)
		}
		if err := a.Set(ctx, sil); err != nil {
			run.Count("silence_multi", "a silence was rejected by Set (case dropped)")
			return
		}
		ids = append(ids, sil.Id)
		want = append(want, w)
		coqSils = append(coqSils, vhm.MatcherSet(mset))
	}
	wantMute := false
	differ := false
	for i, w := range want {
		wantMute = wantMute || w
		if i > 0 && w != want[0] {
			differ = true
		}
	}
	if differ {
		run.Count("silence_multi", "colliding silences with different verdicts")
	} else {
		run.Count("silence_multi", "all silences agree on the label set")
	}
	var snap bytes.Buffer
	if _, err := a.Snapshot(&snap); err != nil {
		panic(err)
	}
	b := newStore(&snap)
	cst := newStore(nil)
	full, err := a.MarshalBinary()
	if err != nil {
		panic(err)
	}
	if err := cst.Merge(full); err != nil {
		panic(err)
	}
	var oq, om []string
	for _, s := range []struct {
		name string
		st   *silence.Silences
	}{{"first store after Set", a}, {"restarted from the snapshot", b}, {"second store after one Merge of the full state", cst}} {
		res, _, err := s.st.Query(ctx, silence.QState(silence.SilenceStateActive), silence.QMatches(ls))
		if err != nil {
			panic(err)
		}
		hit := map[string]bool{}
		for _, x := range res {
			hit[x.Id] = true
		}
		var got []bool
		for i, id := range ids {
			got = append(got, hit[id])
			if hit[id] != want[i] {
				run.Violate("silence-meaning-differs:"+s.name, fmt.Sprintf("%s: silence %d %v on %v: Query(QMatches) says %v, its matchers' meaning is %v", s.name, i, c.Sils[i], ls, hit[id], want[i]), c)
			}
		}
		oq = append(oq, vh.Pair(vh.Str("Query(QMatches), "+s.name), vh.ListOf(got, vh.Bool)))
		sr := silence.NewSilencer(s.st, promslog.NewNopLogger(), eventrecorder.NopRecorder())
		mu := sr.Mutes(ctx, ls)
		if mu != wantMute {
			run.Violate("silencer-mutes-differs:"+s.name, fmt.Sprintf("%s: Mutes(%v) = %v, expected %v", s.name, ls, mu, wantMute), c)
		}
		om = append(om, vh.Pair(vh.Str("Mutes, "+s.name), vh.Bool(mu)))
		run.Count("silence_multi_site", s.name)
	}
	c.Show = fmt.Sprintf("%d silences vs %v", len(c.Sils), ls)
	term := vh.App("CSilN", tableFor(all, ls), vh.List(coqSils), vhm.Labels(ls), vh.List(oq), vh.List(om))
	run.Add(term, c, differ)
}

// ---------- one API request over several alerts ----------

type fakeAlerts struct {
	mtx  sync.Mutex
	list []*types.Alert
}

func (f *fakeAlerts) iter() provider.AlertIterator {
	f.mtx.Lock()
	defer f.mtx.Unlock()
	ch := make(chan *provider.Alert, len(f.list))
	for _, a := range f.list {
		ch <- &provider.Alert{Data: a}
	}
	close(ch)
	return provider.NewAlertIterator(ch, make(chan struct{}), nil)
}
func (f *fakeAlerts) Subscribe(string) provider.AlertIterator { return f.iter() }
func (f *fakeAlerts) SlurpAndSubscribe(string) ([]*types.Alert, provider.AlertIterator) {
	return nil, f.iter()
}
func (f *fakeAlerts) GetPending() provider.AlertIterator { return f.iter() }
func (f *fakeAlerts) Get(model.Fingerprint) (*types.Alert, error) {
	return nil, provider.ErrNotFound
}
func (f *fakeAlerts) Put(context.Context, ...*types.Alert) error { return nil }

var (
	apiOnce     sync.Once
	theAPI      *v2.API
	theAlerts   = &fakeAlerts{}
	groupsFnGot []bool // verdicts of the filter handed to the alert-groups function, in list order
)

func getAPI() *v2.API {
	apiOnce.Do(func() {
		gf := func(ctx context.Context, _ func(*dispatch.Route) bool, af func(*alert.Alert, time.Time) bool) (dispatch.AlertGroups, map[model.Fingerprint][]string, error) {
			groupsFnGot = nil
			now := time.Now()
			for _, a := range theAlerts.list {
				groupsFnGot = append(groupsFnGot, af(a, now))
			}
			return nil, nil, nil
		}
		api, err := v2.NewAPI(theAlerts, gf, func(string, string) ([]string, bool) { return nil, false }, nil, nil, promslog.NewNopLogger(), prometheus.NewRegistry())
		if err != nil {
			panic(err)
		}
		api.Update(&config.Config{Route: &config.Route{Receiver: "r"}, Receivers: []config.Receiver{{Name: "r"}}}, func(context.Context, model.LabelSet) {})
		theAPI = api
	})
	return theAPI
}

func genAPICase(r *vh.Rand) Case {
	c := Case{Kind: "api"}
	k := r.Range(2, 4)
	var shaped *M
	for i := 0; i < k; i++ {
		var ls []KV
		for _, kv := range genLS(r) {
			if len(kv.V) > 0 { // alerts never carry empty label values
				ls = append(ls, kv)
			}
		}
		if i == 0 && r.Chance(1, 3) {
			m, l2 := withShape(r, ls)
			ls = nil
			for _, kv := range l2 {
				if len(kv.V) > 0 {
					ls = append(ls, kv)
				}
			}
			shaped = &m
		}
		ls = append(ls, KV{[]byte("alertname"), []byte(fmt.Sprintf("A%d", i))})
		c.LSS = append(c.LSS, ls)
	}
	n := vh.Pick(r, []int{1, 1, 2})
	for i := 0; i < n; i++ {
		c.MS = append(c.MS, genSemMatcher(r, c.LSS[r.Intn(k)]))
	}
	if shaped != nil {
		c.MS = append(c.MS, *shaped)
	}
	return c
}

func lsKey(m map[string]string) string {
	ks := vh.SortedKeys(m)
	var sb strings.Builder
	for _, k := range ks {
		fmt.Fprintf(&sb, "%q=%q,", k, m[k])
	}
	return sb.String()
}

func runAPI(t *testing.T, run *vh.Run, c *Case) {
	api := getAPI()
	var ms labels.Matchers
	q := url.Values{}
	for _, mj := range c.MS {
		m, err := realMatcher(mj)
		if err != nil {
			panic(err)
		}
		ms = append(ms, m)
		q.Add("filter", m.String())
	}
	now := time.Now()
	var alerts []*types.Alert
	var lsets []model.LabelSet
	var want []bool
	for _, kvs := range c.LSS {
		ls := mkLabels(kvs)
		lsets = append(lsets, ls)
		alerts = append(alerts, &types.Alert{Alert: model.Alert{Labels: ls, StartsAt: now.Add(-time.Minute), EndsAt: now.Add(time.Hour)}, UpdatedAt: now})
		w := true
		for _, mj := range c.MS {
			_, present := ls[model.LabelName(mj.N)]
			w = w && expectHolds(mj, string(ls[model.LabelName(mj.N)]))
			kind := "positive"
			if mj.T == 1 || mj.T == 3 {
				kind = "negative"
			}
			if present {
				run.Count("api_request", "filter label present in the alert x "+kind+" matcher")
			} else {
				run.Count("api_request", "filter label absent from the alert x "+kind+" matcher")
			}
		}
		want = append(want, w)
	}
	// does an earlier alert carry a filter label that a later one lacks?
	leak := false
	for _, mj := range c.MS {
		seen := false
		for _, ls := range lsets {
			if _, ok := ls[model.LabelName(mj.N)]; ok {
				seen = true
			} else if seen {
				leak = true
			}
		}
	}
	if leak {
		run.Count("api_request", "requests where a later alert lacks a filter label an earlier alert has")
	}
	var obs []string
	record := func(site string, got []bool) {
		obs = append(obs, vh.Pair(vh.Str(site), vh.ListOf(got, vh.Bool)))
		run.Count("api_request_site", site)
		for i := range got {
			if got[i] != want[i] {
				run.Violate("api-filter-meaning-differs:"+site, fmt.Sprintf("%s filter %v: alert %d %v of %v: kept=%v, the filter's meaning is %v", site, q["filter"], i, lsets[i], lsets, got[i], want[i]), c)
				break
			}
		}
	}
	for _, rev := range []bool{false, true} {
		order := make([]int, len(alerts))
		for i := range order {
			order[i] = i
			if rev {
				order[i] = len(alerts) - 1 - i
			}
		}
		list := make([]*types.Alert, len(alerts))
		for pos, i := range order {
			list[pos] = alerts[i]
		}
		theAlerts.mtx.Lock()
		theAlerts.list = list
		theAlerts.mtx.Unlock()
		suffix := ""
		if rev {
			suffix = " (reverse order)"
		}
		// GET /api/v2/alerts
		rec := httptest.NewRecorder()
		api.Handler.ServeHTTP(rec, httptest.NewRequest(http.MethodGet, "/api/v2/alerts?"+q.Encode(), nil))
		if rec.Code != 200 {
			t.Fatalf("GET /api/v2/alerts?%s: status %d: %s", q.Encode(), rec.Code, rec.Body.String())
		}
		var body []struct {
			Labels map[string]string `json:"labels"`
		}
		if err := json.Unmarshal(rec.Body.Bytes(), &body); err != nil {
			t.Fatalf("GET /api/v2/alerts: %v", err)
		}
		kept := map[string]bool{}
		for _, a := range body {
			kept[lsKey(a.Labels)] = true
		}
		got := make([]bool, len(alerts))
		for i, ls := range lsets {
			m := map[string]string{}
			for k, v := range ls {
				m[string(k)] = string(v)
			}
			got[i] = kept[lsKey(m)]
		}
		record("GET /api/v2/alerts"+suffix, got)
		// GET /api/v2/alerts/groups: the filter closure is handed to the alert-groups function
		groupsFnGot = nil
		rec = httptest.NewRecorder()
		api.Handler.ServeHTTP(rec, httptest.NewRequest(http.MethodGet, "/api/v2/alerts/groups?"+q.Encode(), nil))
		if rec.Code != 200 || len(groupsFnGot) != len(alerts) {
			t.Fatalf("GET /api/v2/alerts/groups?%s: status %d, %d verdicts: %s", q.Encode(), rec.Code, len(groupsFnGot), rec.Body.String())
		}
		got = make([]bool, len(alerts))
		for pos, i := range order {
			got[i] = groupsFnGot[pos]
		}
		record("GET /api/v2/alerts/groups"+suffix, got)
	}
	var allLS model.LabelSet = model.LabelSet{}
	var lssCoq []string
	for _, ls := range lsets {
		lssCoq = append(lssCoq, vhm.Labels(ls))
	}
	// the regexp table must cover every alert's values
	var vals []string
	seen := map[string]bool{}
	for _, ls := range lsets {
		for _, v := range ls {
			if !seen[string(v)] {
				seen[string(v)] = true
				vals = append(vals, string(v))
			}
		}
	}
	sort.Strings(vals)
	for i, v := range vals {
		allLS[model.LabelName(fmt.Sprintf("v%d", i))] = model.LabelValue(v)
	}
	c.Show = fmt.Sprintf("filter %v over %v", q["filter"], lsets)
	term := vh.App("CApi", tableFor(c.MS, allLS), vhm.Matchers(ms), vh.List(lssCoq), vh.List(obs))
	run.Add(term, c, leak)
}

var _ = regexp.MustCompile
