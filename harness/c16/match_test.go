//go:build verif

package c16

import (
	"context"
	"encoding/json"
	"fmt"
	"net/http"
	"net/http/httptest"
	"regexp"
	"sort"
	"strings"
	"time"

	"github.com/prometheus/client_golang/prometheus"
	"github.com/prometheus/common/promslog"
	"google.golang.org/protobuf/types/known/timestamppb"

	"github.com/prometheus/alertmanager/alert"
	"github.com/prometheus/alertmanager/eventrecorder"

	"github.com/prometheus/common/model"

	v2 "github.com/prometheus/alertmanager/api/v2"
	"github.com/prometheus/alertmanager/config"
	amcommoncfg "github.com/prometheus/alertmanager/config/common"
	"github.com/prometheus/alertmanager/dispatch"
	"github.com/prometheus/alertmanager/inhibit"
	"github.com/prometheus/alertmanager/pkg/labels"
	"github.com/prometheus/alertmanager/silence"
	pb "github.com/prometheus/alertmanager/silence/silencepb"

	"verifharness/vh"
	"verifharness/vhm"
)

// ---------- part (c): match semantics ----------

var (
	semNames  = []string{"a", "b", "job", "sev"}
	semValues = []string{"", "a", "ab", "abc", "b", "A", "aa", "a\nb", "é", "x.y", "xzy", "ba", "\n", "a\n", "\nb", "ab\n", "a\r", "\r\n", "a\x00b", "b\na",
		"prod", "production", "staging", "pre-staging", "a$", "a$x", "xb", "ax",
		// a backslash followed by n / quote / backslash (these reach every consumer that goes through text)
		`C:\node`, `a\\nb`, `DOMAIN\nagios`, `x\"`, `a\`, `\\n`}
	semPatterns = []string{"a", "a.*", "a|b", ".*", ".+", "", "[ab]+", "a$", "^a", "(?i)a", "a.b", "é", ".", "x.y", "b|", "a{2}", "(?s)a.b", "a|",
		".*b", ".*a.*", "a.+", ".+b", "ab.*", ".*ab", "a.*b", "(?s).*", "b.*", ".*a",
		// user-written anchors: around a top-level alternation, escaped trailing dollar, one side only
		"^a|b$", "^prod|staging$", "^a\\$", "^a$", "^(a|b)$", "^a|b", "a|b$", "^$", "^.*$", "^a.*|b$", "^a$|^b$"}
)

func mkLabels(kvs []KV) model.LabelSet {
	ls := model.LabelSet{}
	for _, kv := range kvs {
		ls[model.LabelName(kv.K)] = model.LabelValue(kv.V)
	}
	return ls
}

func genLS(r *vh.Rand) []KV {
	var kvs []KV
	for _, n := range semNames {
		if r.Chance(3, 5) {
			kvs = append(kvs, KV{[]byte(n), []byte(vh.Pick(r, semValues))})
		}
	}
	return kvs
}

func genSemMatcher(r *vh.Rand, ls []KV) M {
	m := M{T: r.Intn(4), N: []byte(vh.Pick(r, semNames))}
	if m.T >= 2 {
		m.V = []byte(vh.Pick(r, semPatterns))
	} else if len(ls) > 0 && r.Chance(1, 2) {
		m.V = vh.Pick(r, ls).V // often equal to some label's value
	} else {
		m.V = []byte(vh.Pick(r, semValues))
	}
	return m
}

// a regexp of one of the shapes a fast path would special-case, on a literal, together with a label whose value puts
// a newline (or CR / control character / nothing) at every position relative to that literal
var shapeLits = []string{"a", "ab", "db", "prod", "x-1", "é"}

// anchorAlts / anchorPatterns / anchorValues: regexps in which the user wrote ^ and $ himself, around a top-level
// alternation p|q (so that the anchors bind to one alternative each), with an escaped trailing dollar, or on one
// side only; and values that merely start with p / end with q
var anchorAlts = [][2]string{{"prod", "staging"}, {"a", "b"}, {"db", "x-1"}}

func anchorPatterns(p, q string) []string {
	return []string{"^" + p + "|" + q + "$", "^" + p + "|" + q, p + "|" + q + "$", "^(" + p + "|" + q + ")$", "^(?:" + p + "|" + q + ")$", "^" + p + "$", "^" + p, q + "$",
		"^" + p + "\\$", "^" + p + "$|^" + q + "$", "^$", "^.*$", "^" + p + ".*|" + q + "$", "^" + p + "|" + q + "|" + p + q + "$", "^\\^" + p + "$"}
}

func anchorValues(p, q string) []string {
	return []string{p, q, p + "uction", p + "x", "pre-" + q, "x" + q, p + q, q + p, p + "$", p + "$x", "", "^" + p, "x" + p + "y", q + "x", p + "\n", "x\n" + q}
}

// a long alternation of literals with escaped metacharacters (a maintenance silence or a route listing hosts):
// 15, 16, 17 or 40 alternatives, sometimes with one non-literal alternative mixed in; and values that are a
// member, a non-member, the escaped SOURCE TEXT of a member, a member with a suffix, nothing
func genLongAlt(r *vh.Rand) (M, KV) {
	n := vh.Pick(r, []int{15, 16, 16, 17, 17, 40})
	style := r.Intn(4)
	lit := func(i int) (src, val string) {
		switch style {
		case 0:
			return fmt.Sprintf(`db%d\.prod\.example\.com:9100`, i), fmt.Sprintf("db%d.prod.example.com:9100", i)
		case 1:
			return fmt.Sprintf(`web\-%d`, i), fmt.Sprintf("web-%d", i)
		case 2:
			return fmt.Sprintf(`cost\$%d`, i), fmt.Sprintf("cost$%d", i)
		default:
			return fmt.Sprintf(`C:\\dir%d`, i), fmt.Sprintf(`C:\dir%d`, i)
		}
	}
	var alts []string
	for i := 0; i < n; i++ {
		src, _ := lit(i)
		alts = append(alts, src)
	}
	mixed := r.Chance(1, 4)
	if mixed {
		alts[r.Intn(n)] = vh.Pick(r, []string{"x.*", "[ab]", "(?i)q", "a|b"})
	}
	k := r.Intn(n)
	src, val := lit(k)
	_, other := lit(n + 3)
	v := vh.Pick(r, []string{val, val, val, other, src, val + "x", "x" + val, "", val + "\n"})
	name := vh.Pick(r, semNames)
	return M{T: vh.Pick(r, []int{2, 2, 3}), N: []byte(name), V: []byte(strings.Join(alts, "|"))}, KV{[]byte(name), []byte(v)}
}

func genShapePair(r *vh.Rand) (M, KV) {
	if r.Chance(1, 6) {
		return genLongAlt(r)
	}
	if r.Chance(1, 3) {
		alt := vh.Pick(r, anchorAlts)
		n := vh.Pick(r, semNames)
		return M{T: vh.Pick(r, []int{2, 2, 3}), N: []byte(n), V: []byte(vh.Pick(r, anchorPatterns(alt[0], alt[1])))},
			KV{[]byte(n), []byte(vh.Pick(r, anchorValues(alt[0], alt[1])))}
	}
	lit := vh.Pick(r, shapeLits)
	pat := vh.Pick(r, []string{lit, ".*", ".+", lit + ".*", ".*" + lit, ".*" + lit + ".*", lit + ".+", ".+" + lit, ".*" + lit + ".+", lit + ".*" + lit})
	val := vh.Pick(r, []string{lit, lit + "\n", "\n" + lit, lit + "\nx", "x\n" + lit, "x" + lit + "\ny", "x\n" + lit + "y", lit + "\n" + lit, "", "\n", "\n\n",
		lit + "\r", "\r" + lit, lit + "\x00", "x" + lit, lit + "x", "x" + lit + "x", lit + "\u2028", lit + "\r\n", "\x0b" + lit, lit + lit})
	n := vh.Pick(r, semNames)
	return M{T: vh.Pick(r, []int{2, 2, 3}), N: []byte(n), V: []byte(pat)}, KV{[]byte(n), []byte(val)}
}

// withShape replaces the label of the pair's name in ls and returns the matcher
func withShape(r *vh.Rand, ls []KV) (M, []KV) {
	m, kv := genShapePair(r)
	var out []KV
	for _, x := range ls {
		if string(x.K) != string(kv.K) {
			out = append(out, x)
		}
	}
	if !r.Chance(1, 10) { // sometimes leave the label absent
		out = append(out, kv)
	}
	return m, out
}

func countShape(run *vh.Run, m M, v string, present bool) {
	if m.T < 2 {
		return
	}
	shape := "other regexp"
	p := string(m.V)
	isLit := func(x string) bool { return x != "" && regexp.QuoteMeta(x) == x }
	switch {
	case strings.Count(p, "|") >= 14:
		shape = fmt.Sprintf("alternation of %d (escaped literals)", strings.Count(p, "|")+1)
	case strings.HasPrefix(p, "^") && strings.HasSuffix(p, "$") && len(p) > 2:
		shape = "user-anchored ^...$"
	case strings.HasPrefix(p, "^") || strings.HasSuffix(p, "$"):
		shape = "user anchor on one side"
	case p == ".*" || p == ".+":
		shape = p
	case isLit(p):
		shape = "literal"
	case strings.HasPrefix(p, ".*") && strings.HasSuffix(p, ".*") && len(p) > 4 && isLit(p[2:len(p)-2]):
		shape = ".*lit.*"
	case strings.HasSuffix(p, ".*") && isLit(p[:len(p)-2]):
		shape = "lit.*"
	case strings.HasPrefix(p, ".*") && isLit(p[2:]):
		shape = ".*lit"
	}
	val := "plain value"
	switch {
	case !present:
		val = "label absent"
	case v == "":
		val = "empty value"
	case strings.Contains(v, "\n"):
		val = "value with newline"
	case strings.ContainsAny(v, "\r\x00\x0b\u2028"):
		val = "value with CR/control/U+2028"
	}
	run.Count("regexp_shape_x_value", shape+" x "+val)
}

func genMatchCase(r *vh.Rand) Case {
	c := Case{Kind: "match", LS: genLS(r)}
	var shaped *M
	if r.Chance(1, 2) {
		m, ls := withShape(r, c.LS)
		shaped, c.LS = &m, ls
	}
	n := vh.Pick(r, []int{0, 1, 1, 2, 3})
	for i := 0; i < n; i++ {
		var ms []M
		k := vh.Pick(r, []int{0, 1, 2, 2, 3})
		for j := 0; j < k; j++ {
			ms = append(ms, genSemMatcher(r, c.LS))
		}
		c.MSS = append(c.MSS, ms)
	}
	if shaped != nil {
		if len(c.MSS) > 0 && r.Chance(1, 2) {
			c.MSS[0] = append(c.MSS[0], *shaped)
		} else {
			c.MSS = append(c.MSS, []M{*shaped})
		}
	}
	return c
}

func genSiteCase(r *vh.Rand) Case {
	ls := genLS(r)
	m := genSemMatcher(r, ls)
	if r.Chance(1, 2) {
		m, ls = withShape(r, ls)
	}
	return Case{Kind: "site", LS: ls, M: &m}
}

// expected verdict of one matcher, computed by the harness alone (anchoring done here)
func expectHolds(m M, v string) bool {
	switch m.T {
	case 0:
		return v == string(m.V)
	case 1:
		return v != string(m.V)
	}
	re := regexp.MustCompile("^(?:" + string(m.V) + ")$")
	if m.T == 2 {
		return re.MatchString(v)
	}
	return !re.MatchString(v)
}

func tableFor(ms []M, ls model.LabelSet) string {
	var pats, vals []string
	seenP, seenV := map[string]bool{}, map[string]bool{"": true}
	vals = append(vals, "")
	for _, m := range ms {
		if m.T >= 2 && !seenP[string(m.V)] {
			seenP[string(m.V)] = true
			pats = append(pats, string(m.V))
		}
	}
	for _, v := range ls {
		if !seenV[string(v)] {
			seenV[string(v)] = true
			vals = append(vals, string(v))
		}
	}
	sort.Strings(pats)
	sort.Strings(vals)
	return vhm.ReTable(pats, vals)
}

func realMatcher(m M) (*labels.Matcher, error) {
	return labels.NewMatcher(labels.MatchType(m.T), string(m.N), string(m.V))
}

func runMatch(run *vh.Run, c *Case) {
	ls := mkLabels(c.LS)
	var all []M
	var mset labels.MatcherSet
	var obsM, obsMS []string
	nontrivial := false
	allOK, anyOK := true, false
	for _, msj := range c.MSS {
		ms := labels.Matchers{}
		var row []string
		conj := true
		for _, mj := range msj {
			m, err := realMatcher(mj)
			if err != nil {
				panic(fmt.Sprintf("generator produced a pattern that does not compile: %q", mj.V))
			}
			ms = append(ms, m)
			all = append(all, mj)
			v := string(ls[model.LabelName(mj.N)])
			got := m.Matches(v)
			row = append(row, vh.Bool(got))
			if got != expectHolds(mj, v) {
				key := "matcher-verdict-wrong"
				if mj.T >= 2 {
					key = "regex-verdict-not-anchored-full-match"
				}
				run.Violate(key, fmt.Sprintf("Matcher{%s}.Matches(%q) = %v", showM(mj), v, got), c)
			}
			conj = conj && expectHolds(mj, v)
			if mj.T >= 2 {
				nontrivial = true
			}
			run.Count("match_op", []string{"=", "!=", "=~", "!~"}[mj.T])
			{
				lv, present := ls[model.LabelName(mj.N)]
				countShape(run, mj, string(lv), present)
			}
			if _, ok := ls[model.LabelName(mj.N)]; !ok {
				run.Count("match_label", "missing")
			} else {
				run.Count("match_label", "present")
			}
		}
		got := ms.Matches(ls)
		if got != conj {
			run.Violate("matchers-not-conjunction", fmt.Sprintf("Matchers.Matches = %v, conjunction of matchers = %v", got, conj), c)
		}
		allOK = allOK && conj
		anyOK = anyOK || conj
		obsM = append(obsM, vh.List(row))
		obsMS = append(obsMS, vh.Bool(got))
		msCopy := ms
		mset = append(mset, &msCopy)
		run.Count("match_list_len", fmt.Sprint(len(msj)))
		run.Count("match_list_verdict", vh.Bool(got))
	}
	gotSet := mset.Matches(ls)
	if gotSet != anyOK {
		run.Violate("matcherset-not-disjunction", fmt.Sprintf("MatcherSet.Matches = %v, disjunction = %v", gotSet, anyOK), c)
	}
	run.Count("match_set_verdict", vh.Bool(gotSet))
	term := vh.App("CMatch", tableFor(all, ls), vhm.MatcherSet(mset), vhm.Labels(ls), vh.List(obsM), vh.List(obsMS), vh.Bool(gotSet))
	c.Show = fmt.Sprintf("%d lists vs %v", len(c.MSS), ls)
	run.Add(term, c, nontrivial)
}

// ---------- "same meaning everywhere": every construction path on the same (type, name, value) ----------

type siteObs struct {
	name string
	got  bool
}

func sites(m M, ls model.LabelSet) (out []siteObs, skipped []string) {
	add := func(n string, b bool) { out = append(out, siteObs{n, b}) }
	name, val := string(m.N), string(m.V)
	lm, err := realMatcher(m)
	if err != nil {
		panic(err)
	}
	add("new-matcher", lm.Matches(string(ls[model.LabelName(name)])))
	add("matchers", labels.Matchers{lm}.Matches(ls))
	ms1 := labels.Matchers{lm}
	add("matcherset", labels.MatcherSet{&ms1}.Matches(ls))

	// routes
	add("route-matchers", dispatch.NewRoute(&config.Route{Matchers: amcommoncfg.Matchers{lm}}, nil).Match(ls) != nil)
	if m.T == 0 {
		add("route-match", dispatch.NewRoute(&config.Route{Match: map[string]string{name: val}}, nil).Match(ls) != nil)
	}
	var cre amcommoncfg.Regexp
	if m.T == 2 {
		js, _ := json.Marshal(val)
		if err := cre.UnmarshalJSON(js); err != nil {
			panic(err)
		}
		add("route-match_re", dispatch.NewRoute(&config.Route{MatchRE: amcommoncfg.MatchRegexps{name: cre}}, nil).Match(ls) != nil)
	}
	// route from its configuration text form: matchers: ["<String()>"] (compat parser in its default mode)
	var cm amcommoncfg.Matchers
	js, _ := json.Marshal([]string{lm.String()})
	if err := cm.UnmarshalJSON(js); err == nil && len(cm) == 1 {
		add("route-config-text", dispatch.NewRoute(&config.Route{Matchers: cm}, nil).Match(ls) != nil)
	} else {
		skipped = append(skipped, "route-config-text")
	}

	// silences: the matcher compile path
	sil := &pb.Silence{Id: "x", MatcherSets: []*pb.MatcherSet{{Matchers: []*pb.Matcher{{
		Type: []pb.Matcher_Type{pb.Matcher_EQUAL, pb.Matcher_NOT_EQUAL, pb.Matcher_REGEXP, pb.Matcher_NOT_REGEXP}[m.T], Name: name, Pattern: val}}}}}
	if sms, err := silence.VerifCompileMatchers(sil); err == nil {
		add("silence-compile", sms.Matches(ls))
	} else {
		panic(err)
	}

	// inhibit rules
	ir := inhibit.NewInhibitRule(amcommoncfg.InhibitRule{SourceMatchers: amcommoncfg.Matchers{lm}, TargetMatchers: amcommoncfg.Matchers{lm}})
	add("inhibit-source", ir.SourceMatchers.Matches(ls))
	add("inhibit-target", ir.TargetMatchers.Matches(ls))
	if m.T == 0 {
		ir := inhibit.NewInhibitRule(amcommoncfg.InhibitRule{SourceMatch: map[string]string{name: val}, TargetMatch: map[string]string{name: val}})
		add("inhibit-source_match", ir.SourceMatchers.Matches(ls))
		add("inhibit-target_match", ir.TargetMatchers.Matches(ls))
	}
	if m.T == 2 {
		ir := inhibit.NewInhibitRule(amcommoncfg.InhibitRule{SourceMatchRE: amcommoncfg.MatchRegexps{name: cre}, TargetMatchRE: amcommoncfg.MatchRegexps{name: cre}})
		add("inhibit-source_match_re", ir.SourceMatchers.Matches(ls))
		add("inhibit-target_match_re", ir.TargetMatchers.Matches(ls))
	}

	// API filters: filter=<String()> -> parseFilter -> alertMatchesFilterLabels. Alerts never carry empty label
	// values (the API removes them on ingestion), so the label set is passed without them.
	if fms, err := v2.VerifParseFilter([]string{lm.String()}); err == nil {
		als := model.LabelSet{}
		for k, v := range ls {
			if v != "" {
				als[k] = v
			}
		}
		add("api-filter", v2.VerifAlertMatchesFilterLabels(&model.Alert{Labels: als}, fms))
	} else {
		skipped = append(skipped, "api-filter")
	}

	// v1 JSON form of a matcher
	var jm labels.Matcher
	if b, err := json.Marshal(lm); err == nil && json.Unmarshal(b, &jm) == nil {
		add("json-v1", jm.Matches(string(ls[model.LabelName(name)])))
	} else {
		skipped = append(skipped, "json-v1")
	}
	return out, skipped
}

func runSite(run *vh.Run, c *Case) {
	ls := mkLabels(c.LS)
	m := *c.M
	lm, _ := realMatcher(m)
	obs, skipped := sites(m, ls)
	want := expectHolds(m, string(ls[model.LabelName(m.N)]))
	{
		lv, present := ls[model.LabelName(m.N)]
		countShape(run, m, string(lv), present)
	}
	var parts []string
	for _, o := range obs {
		parts = append(parts, vh.Pair(vh.Str(o.name), vh.Bool(o.got)))
		run.Count("site", o.name)
		if o.got != want {
			run.Violate("site-meaning-differs:"+o.name, fmt.Sprintf("%s on %v: %s says %v, the matcher's meaning is %v", showM(m), ls, o.name, o.got, want), c)
		}
	}
	for _, s := range skipped {
		run.Count("site_skipped", s)
	}
	c.Show = fmt.Sprintf("%s vs %v", showM(m), ls)
	term := vh.App("CSite", tableFor([]M{m}, ls), vhm.Matcher(lm), vhm.Labels(ls), vh.List(parts))
	run.Add(term, c, m.T >= 2)
}

// ---------- silences through the public path: Set, then Query(QMatches) / Silencer.Mutes ----------

// what silence validation requires of a matcher set: non-empty, and not every matcher matches the empty string
// (matchesEmpty: "=" with an empty value, "=~" matching ""; negative matchers never count as matching empty)
func silSetValid(ms []M) bool {
	if len(ms) == 0 {
		return false
	}
	for _, m := range ms {
		switch m.T {
		case 0:
			if len(m.V) != 0 {
				return true
			}
		case 2:
			if ok, _ := regexp.MatchString(string(m.V), ""); !ok {
				return true
			}
		default:
			return true
		}
	}
	return false
}

func genSilCase(r *vh.Rand) Case {
	c := Case{Kind: "sil", LS: genLS(r)}
	if r.Chance(1, 2) {
		m, ls := withShape(r, c.LS)
		c.LS = ls
		extra := []M{m}
		if !silSetValid(extra) {
			extra = append(extra, M{T: 0, N: []byte("sev"), V: []byte("a")})
		}
		c.MSS = append(c.MSS, extra)
	}
	n := vh.Pick(r, []int{1, 1, 1, 2, 3})
	for i := 0; i < n; i++ {
		for try := 0; ; try++ {
			var ms []M
			k := vh.Pick(r, []int{1, 1, 2, 2, 3})
			for j := 0; j < k; j++ {
				m := genSemMatcher(r, c.LS)
				if r.Chance(1, 3) { // more negative matchers, often on a label the set lacks
					m.T = vh.Pick(r, []int{1, 3})
					if m.T == 3 {
						m.V = []byte(vh.Pick(r, semPatterns))
					} else {
						m.V = []byte(vh.Pick(r, semValues))
					}
				}
				ms = append(ms, m)
			}
			if silSetValid(ms) || try > 20 {
				c.MSS = append(c.MSS, ms)
				break
			}
		}
	}
	return c
}

var pbTypes = []pb.Matcher_Type{pb.Matcher_EQUAL, pb.Matcher_NOT_EQUAL, pb.Matcher_REGEXP, pb.Matcher_NOT_REGEXP}

func runSil(run *vh.Run, c *Case) {
	ls := mkLabels(c.LS)
	ctx := context.Background()
	var all []M
	var mset labels.MatcherSet
	sil := &pb.Silence{Comment: "c16", CreatedBy: "verif"}
	want := false
	for _, msj := range c.MSS {
		ms := labels.Matchers{}
		pms := &pb.MatcherSet{}
		conj := true
		for _, mj := range msj {
			m, err := realMatcher(mj)
			if err != nil {
				panic(err)
			}
			ms = append(ms, m)
			all = append(all, mj)
			pms.Matchers = append(pms.Matchers, &pb.Matcher{Type: pbTypes[mj.T], Name: string(mj.N), Pattern: string(mj.V)})
			v, present := ls[model.LabelName(mj.N)]
			conj = conj && expectHolds(mj, string(v))
			state := "present"
			if !present {
				state = "absent"
			} else if v == "" {
				state = "present but empty"
			}
			kind := "positive"
			if mj.T == 1 || mj.T == 3 {
				kind = "negative"
			}
			extra := ""
			if mj.T >= 2 {
				if ok, _ := regexp.MatchString("^(?:"+string(mj.V)+")$", ""); ok {
					extra = ", regexp matches the empty string"
				}
			} else if len(mj.V) == 0 {
				extra = ", empty value"
			}
			run.Count("silence_public_path", "label "+state+" x "+kind+" matcher"+extra)
			countShape(run, mj, string(v), present)
		}
		want = want || conj
		msCopy := ms
		mset = append(mset, &msCopy)
		sil.MatcherSets = append(sil.MatcherSets, pms)
	}
	var obs []siteObs
	add := func(n string, got bool) {
		obs = append(obs, siteObs{n, got})
		run.Count("silence_public_site", n)
		if got != want {
			run.Violate("silence-meaning-differs:"+n, fmt.Sprintf("silence %v on %v: %s says %v, the matchers' meaning is %v", sil.MatcherSets, ls, n, got, want), c)
		}
	}
	// white-box compile path (as in the site cases)
	if sms, err := silence.VerifCompileMatchers(sil); err == nil {
		add("silence-compile", sms.Matches(ls))
	}
	// public path: a real store
	st, err := silence.New(silence.Options{Retention: time.Hour, Metrics: prometheus.NewRegistry(), EventRecorder: eventrecorder.NopRecorder()})
	if err != nil {
		panic(err)
	}
	now := time.Now()
	sil.StartsAt = timestamppb.New(now.Add(-time.Minute))
	sil.EndsAt = timestamppb.New(now.Add(time.Hour))
	if err := st.Set(ctx, sil); err != nil {
		run.Count("silence_public_site", "Set rejected the silence (validation)")
	} else {
		res, _, err := st.Query(ctx, silence.QState(silence.SilenceStateActive), silence.QMatches(ls))
		if err != nil {
			panic(err)
		}
		add("Silences.Query(QState(active), QMatches)", len(res) == 1)
		one, _, err := st.Query(ctx, silence.QMatches(ls))
		if err != nil {
			panic(err)
		}
		add("Silences.Query(QMatches)", len(one) == 1)
		sr := silence.NewSilencer(st, promslog.NewNopLogger(), eventrecorder.NopRecorder())
		add("Silencer.Mutes", sr.Mutes(ctx, ls))
		add("Silencer.Mutes (second call, cached)", sr.Mutes(ctx, ls))
	}
	// POST /api/v2/silences with a RAW JSON body (as curl or an older client sends it): isRegex always present,
	// isEqual present-true / present-false / ABSENT (absent means true, says the API specification; only a positive
	// matcher can be written that way). Then the stored silence is asked back through the store and the API.
	if len(c.MSS) == 1 {
		for _, o := range postSilenceRaw(run, c, ls) {
			add(o.name, o.got)
		}
	}
	// API filter path for a single list: filter=<String()>... on the alert's labels (no empty values there)
	if len(c.MSS) == 1 {
		var fs []string
		for _, m := range *mset[0] {
			fs = append(fs, m.String())
		}
		if fms, err := v2.VerifParseFilter(fs); err == nil {
			als := model.LabelSet{}
			for k, v := range ls {
				if v != "" {
					als[k] = v
				}
			}
			add("api-filter", v2.VerifAlertMatchesFilterLabels(&model.Alert{Labels: als}, fms))
		}
	}
	var parts []string
	for _, o := range obs {
		parts = append(parts, vh.Pair(vh.Str(o.name), vh.Bool(o.got)))
	}
	c.Show = fmt.Sprintf("%d sets vs %v", len(c.MSS), ls)
	term := vh.App("CSil", tableFor(all, ls), vhm.MatcherSet(mset), vhm.Labels(ls), vh.List(parts))
	run.Add(term, c, true)
}

// postSilenceRaw posts the case's single matcher list as a raw JSON silence to a real API in front of a real store.
// The case's Omit bits (derived from the matcher bytes, so replayable) decide which positive matchers omit isEqual.
func postSilenceRaw(run *vh.Run, c *Case, ls model.LabelSet) []siteObs {
	st := newStore(nil)
	gf := func(context.Context, func(*dispatch.Route) bool, func(*alert.Alert, time.Time) bool) (dispatch.AlertGroups, map[model.Fingerprint][]string, error) {
		return nil, nil, nil
	}
	api, err := v2.NewAPI(&fakeAlerts{}, gf, func(string, string) ([]string, bool) { return nil, false }, st, nil, promslog.NewNopLogger(), prometheus.NewRegistry())
	if err != nil {
		panic(err)
	}
	api.Update(&config.Config{Route: &config.Route{Receiver: "r"}, Receivers: []config.Receiver{{Name: "r"}}}, func(context.Context, model.LabelSet) {})
	var items []string
	for i, m := range c.MSS[0] {
		name, _ := json.Marshal(string(m.N))
		val, _ := json.Marshal(string(m.V))
		item := fmt.Sprintf(`{"name": %s, "value": %s, "isRegex": %v`, name, val, m.T >= 2)
		positive := m.T == 0 || m.T == 2
		omit := positive && (len(m.V)+len(m.N)+i)%2 == 0
		switch {
		case omit:
			run.Count("api_post_silence", "isEqual absent (means true)")
		case positive:
			item += `, "isEqual": true`
			run.Count("api_post_silence", "isEqual present: true")
		default:
			item += `, "isEqual": false`
			run.Count("api_post_silence", "isEqual present: false")
		}
		items = append(items, item+"}")
	}
	now := time.Now().UTC()
	body := fmt.Sprintf(`{"comment": "c16", "createdBy": "verif", "startsAt": %q, "endsAt": %q, "matchers": [%s]}`,
		now.Add(-time.Minute).Format(time.RFC3339), now.Add(time.Hour).Format(time.RFC3339), strings.Join(items, ", "))
	req := httptest.NewRequest(http.MethodPost, "/api/v2/silences", strings.NewReader(body))
	req.Header.Set("Content-Type", "application/json")
	rec := httptest.NewRecorder()
	api.Handler.ServeHTTP(rec, req)
	if rec.Code != 200 {
		run.Count("api_post_silence", fmt.Sprintf("rejected with status %d", rec.Code))
		return nil
	}
	var out []siteObs
	res, _, err := st.Query(context.Background(), silence.QState(silence.SilenceStateActive), silence.QMatches(ls))
	if err != nil {
		panic(err)
	}
	out = append(out, siteObs{"POST /api/v2/silences (raw JSON), then Query(QMatches)", len(res) == 1})
	// the stored operators, read back through the store and through GET /api/v2/silences
	all, _, err := st.Query(context.Background())
	if err != nil || len(all) != 1 || len(all[0].MatcherSets) != 1 || len(all[0].MatcherSets[0].Matchers) != len(c.MSS[0]) {
		run.Violate("api-post-silence-stored-shape", fmt.Sprintf("posted %s, stored %v", body, all), c)
		return out
	}
	for i, pm := range all[0].MatcherSets[0].Matchers {
		if pm.Type != pbTypes[c.MSS[0][i].T] || pm.Name != string(c.MSS[0][i].N) || pm.Pattern != string(c.MSS[0][i].V) {
			run.Violate("api-post-silence-stored-matcher-differs", fmt.Sprintf("posted %s: matcher %d stored as %v, the body means %s", body, i, pm, showM(c.MSS[0][i])), c)
			break
		}
	}
	rec = httptest.NewRecorder()
	api.Handler.ServeHTTP(rec, httptest.NewRequest(http.MethodGet, "/api/v2/silences", nil))
	var got []struct {
		Matchers []struct {
			Name    string `json:"name"`
			Value   string `json:"value"`
			IsRegex bool   `json:"isRegex"`
			IsEqual *bool  `json:"isEqual"`
		} `json:"matchers"`
	}
	if rec.Code != 200 || json.Unmarshal(rec.Body.Bytes(), &got) != nil || len(got) != 1 || len(got[0].Matchers) != len(c.MSS[0]) {
		run.Violate("api-get-silences-shape", fmt.Sprintf("GET /api/v2/silences: status %d body %s", rec.Code, rec.Body.String()), c)
		return out
	}
	for i, gm := range got[0].Matchers {
		m := c.MSS[0][i]
		eq := gm.IsEqual == nil || *gm.IsEqual
		if gm.Name != string(m.N) || gm.Value != string(m.V) || gm.IsRegex != (m.T >= 2) || eq != (m.T == 0 || m.T == 2) {
			run.Violate("api-get-silences-matcher-differs", fmt.Sprintf("posted %s: GET shows matcher %d as %+v, the body means %s", body, i, gm, showM(m)), c)
			break
		}
	}
	return out
}
