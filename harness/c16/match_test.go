//go:build verif

package c16

import (
	"encoding/json"
	"fmt"
	"regexp"
	"sort"

	"github.com/prometheus/common/model"

	v2 "github.com/prometheus/alertmanager/api/v2"
	"github.com/prometheus/alertmanager/config"
	amcommoncfg "github.com/prometheus/alertmanager/config/common"
	"github.com/prometheus/alertmanager/dispatch"
	"github.com/prometheus/alertmanager/inhibit"
	"github.com/prometheus/alertmanager/pkg/labels"
	"github.com/prometheus/alertmanager/silence"
	pb "github.com/prometheus/alertmanager/silence/silencepb"

	"verifharness/vh"
	"verifharness/vhm"
)

// ---------- part (c): match semantics ----------

var (
	semNames    = []string{"a", "b", "job", "sev"}
	semValues   = []string{"", "a", "ab", "abc", "b", "A", "aa", "a\nb", "é", "x.y", "xzy", "ba"}
	semPatterns = []string{"a", "a.*", "a|b", ".*", ".+", "", "[ab]+", "a$", "^a", "(?i)a", "a.b", "é", ".", "x.y", "b|", "a{2}", "(?s)a.b", "a|"}
)

func mkLabels(kvs []KV) model.LabelSet {
	ls := model.LabelSet{}
	for _, kv := range kvs {
		ls[model.LabelName(kv.K)] = model.LabelValue(kv.V)
	}
	return ls
}

func genLS(r *vh.Rand) []KV {
	var kvs []KV
	for _, n := range semNames {
		if r.Chance(3, 5) {
			kvs = append(kvs, KV{[]byte(n), []byte(vh.Pick(r, semValues))})
		}
	}
	return kvs
}

func genSemMatcher(r *vh.Rand, ls []KV) M {
	m := M{T: r.Intn(4), N: []byte(vh.Pick(r, semNames))}
	if m.T >= 2 {
		m.V = []byte(vh.Pick(r, semPatterns))
	} else if len(ls) > 0 && r.Chance(1, 2) {
		m.V = vh.Pick(r, ls).V // often equal to some label's value
	} else {
		m.V = []byte(vh.Pick(r, semValues))
	}
	return m
}

func genMatchCase(r *vh.Rand) Case {
	c := Case{Kind: "match", LS: genLS(r)}
	n := vh.Pick(r, []int{0, 1, 1, 2, 3})
	for i := 0; i < n; i++ {
		var ms []M
		k := vh.Pick(r, []int{0, 1, 2, 2, 3})
		for j := 0; j < k; j++ {
			ms = append(ms, genSemMatcher(r, c.LS))
		}
		c.MSS = append(c.MSS, ms)
	}
	return c
}

func genSiteCase(r *vh.Rand) Case {
	ls := genLS(r)
	m := genSemMatcher(r, ls)
	return Case{Kind: "site", LS: ls, M: &m}
}

// expected verdict of one matcher, computed by the harness alone (anchoring done here)
func expectHolds(m M, v string) bool {
	switch m.T {
	case 0:
		return v == string(m.V)
	case 1:
		return v != string(m.V)
	}
	re := regexp.MustCompile("^(?:" + string(m.V) + ")$")
	if m.T == 2 {
		return re.MatchString(v)
	}
	return !re.MatchString(v)
}

func tableFor(ms []M, ls model.LabelSet) string {
	var pats, vals []string
	seenP, seenV := map[string]bool{}, map[string]bool{"": true}
	vals = append(vals, "")
	for _, m := range ms {
		if m.T >= 2 && !seenP[string(m.V)] {
			seenP[string(m.V)] = true
			pats = append(pats, string(m.V))
		}
	}
	for _, v := range ls {
		if !seenV[string(v)] {
			seenV[string(v)] = true
			vals = append(vals, string(v))
		}
	}
	sort.Strings(pats)
	sort.Strings(vals)
	return vhm.ReTable(pats, vals)
}

func realMatcher(m M) (*labels.Matcher, error) {
	return labels.NewMatcher(labels.MatchType(m.T), string(m.N), string(m.V))
}

func runMatch(run *vh.Run, c *Case) {
	ls := mkLabels(c.LS)
	var all []M
	var mset labels.MatcherSet
	var obsM, obsMS []string
	nontrivial := false
	allOK, anyOK := true, false
	for _, msj := range c.MSS {
		ms := labels.Matchers{}
		var row []string
		conj := true
		for _, mj := range msj {
			m, err := realMatcher(mj)
			if err != nil {
				panic(fmt.Sprintf("generator produced a pattern that does not compile: %q", mj.V))
			}
			ms = append(ms, m)
			all = append(all, mj)
			v := string(ls[model.LabelName(mj.N)])
			got := m.Matches(v)
			row = append(row, vh.Bool(got))
			if got != expectHolds(mj, v) {
				key := "matcher-verdict-wrong"
				if mj.T >= 2 {
					key = "regex-verdict-not-anchored-full-match"
				}
				run.Violate(key, fmt.Sprintf("Matcher{%s}.Matches(%q) = %v", showM(mj), v, got), c)
			}
			conj = conj && expectHolds(mj, v)
			if mj.T >= 2 {
				nontrivial = true
			}
			run.Count("match_op", []string{"=", "!=", "=~", "!~"}[mj.T])
			if _, ok := ls[model.LabelName(mj.N)]; !ok {
				run.Count("match_label", "missing")
			} else {
				run.Count("match_label", "present")
			}
		}
		got := ms.Matches(ls)
		if got != conj {
			run.Violate("matchers-not-conjunction", fmt.Sprintf("Matchers.Matches = %v, conjunction of matchers = %v", got, conj), c)
		}
		allOK = allOK && conj
		anyOK = anyOK || conj
		obsM = append(obsM, vh.List(row))
		obsMS = append(obsMS, vh.Bool(got))
		msCopy := ms
		mset = append(mset, &msCopy)
		run.Count("match_list_len", fmt.Sprint(len(msj)))
		run.Count("match_list_verdict", vh.Bool(got))
	}
	gotSet := mset.Matches(ls)
	if gotSet != anyOK {
		run.Violate("matcherset-not-disjunction", fmt.Sprintf("MatcherSet.Matches = %v, disjunction = %v", gotSet, anyOK), c)
	}
	run.Count("match_set_verdict", vh.Bool(gotSet))
	term := vh.App("CMatch", tableFor(all, ls), vhm.MatcherSet(mset), vhm.Labels(ls), vh.List(obsM), vh.List(obsMS), vh.Bool(gotSet))
	c.Show = fmt.Sprintf("%d lists vs %v", len(c.MSS), ls)
	run.Add(term, c, nontrivial)
}

// ---------- "same meaning everywhere": every construction path on the same (type, name, value) ----------

type siteObs struct {
	name string
	got  bool
}

func sites(m M, ls model.LabelSet) (out []siteObs, skipped []string) {
	add := func(n string, b bool) { out = append(out, siteObs{n, b}) }
	name, val := string(m.N), string(m.V)
	lm, err := realMatcher(m)
	if err != nil {
		panic(err)
	}
	add("new-matcher", lm.Matches(string(ls[model.LabelName(name)])))
	add("matchers", labels.Matchers{lm}.Matches(ls))
	ms1 := labels.Matchers{lm}
	add("matcherset", labels.MatcherSet{&ms1}.Matches(ls))

	// routes
	add("route-matchers", dispatch.NewRoute(&config.Route{Matchers: amcommoncfg.Matchers{lm}}, nil).Match(ls) != nil)
	if m.T == 0 {
		add("route-match", dispatch.NewRoute(&config.Route{Match: map[string]string{name: val}}, nil).Match(ls) != nil)
	}
	var cre amcommoncfg.Regexp
	if m.T == 2 {
		js, _ := json.Marshal(val)
		if err := cre.UnmarshalJSON(js); err != nil {
			panic(err)
		}
		add("route-match_re", dispatch.NewRoute(&config.Route{MatchRE: amcommoncfg.MatchRegexps{name: cre}}, nil).Match(ls) != nil)
	}
	// route from its configuration text form: matchers: ["<String()>"] (compat parser in its default mode)
	var cm amcommoncfg.Matchers
	js, _ := json.Marshal([]string{lm.String()})
	if err := cm.UnmarshalJSON(js); err == nil && len(cm) == 1 {
		add("route-config-text", dispatch.NewRoute(&config.Route{Matchers: cm}, nil).Match(ls) != nil)
	} else {
		skipped = append(skipped, "route-config-text")
	}

	// silences: the matcher compile path
	sil := &pb.Silence{Id: "x", MatcherSets: []*pb.MatcherSet{{Matchers: []*pb.Matcher{{
		Type: []pb.Matcher_Type{pb.Matcher_EQUAL, pb.Matcher_NOT_EQUAL, pb.Matcher_REGEXP, pb.Matcher_NOT_REGEXP}[m.T], Name: name, Pattern: val}}}}}
	if sms, err := silence.VerifCompileMatchers(sil); err == nil {
		add("silence-compile", sms.Matches(ls))
	} else {
		panic(err)
	}

	// inhibit rules
	ir := inhibit.NewInhibitRule(amcommoncfg.InhibitRule{SourceMatchers: amcommoncfg.Matchers{lm}, TargetMatchers: amcommoncfg.Matchers{lm}})
	add("inhibit-source", ir.SourceMatchers.Matches(ls))
	add("inhibit-target", ir.TargetMatchers.Matches(ls))
	if m.T == 0 {
		ir := inhibit.NewInhibitRule(amcommoncfg.InhibitRule{SourceMatch: map[string]string{name: val}, TargetMatch: map[string]string{name: val}})
		add("inhibit-source_match", ir.SourceMatchers.Matches(ls))
		add("inhibit-target_match", ir.TargetMatchers.Matches(ls))
	}
	if m.T == 2 {
		ir := inhibit.NewInhibitRule(amcommoncfg.InhibitRule{SourceMatchRE: amcommoncfg.MatchRegexps{name: cre}, TargetMatchRE: amcommoncfg.MatchRegexps{name: cre}})
		add("inhibit-source_match_re", ir.SourceMatchers.Matches(ls))
		add("inhibit-target_match_re", ir.TargetMatchers.Matches(ls))
	}

	// API filters: filter=<String()> -> parseFilter -> alertMatchesFilterLabels. Alerts never carry empty label
	// values (the API removes them on ingestion), so the label set is passed without them.
	if fms, err := v2.VerifParseFilter([]string{lm.String()}); err == nil {
		als := model.LabelSet{}
		for k, v := range ls {
			if v != "" {
				als[k] = v
			}
		}
		add("api-filter", v2.VerifAlertMatchesFilterLabels(&model.Alert{Labels: als}, fms))
	} else {
		skipped = append(skipped, "api-filter")
	}

	// v1 JSON form of a matcher
	var jm labels.Matcher
	if b, err := json.Marshal(lm); err == nil && json.Unmarshal(b, &jm) == nil {
		add("json-v1", jm.Matches(string(ls[model.LabelName(name)])))
	} else {
		skipped = append(skipped, "json-v1")
	}
	return out, skipped
}

func runSite(run *vh.Run, c *Case) {
	ls := mkLabels(c.LS)
	m := *c.M
	lm, _ := realMatcher(m)
	obs, skipped := sites(m, ls)
	want := expectHolds(m, string(ls[model.LabelName(m.N)]))
	var parts []string
	for _, o := range obs {
		parts = append(parts, vh.Pair(vh.Str(o.name), vh.Bool(o.got)))
		run.Count("site", o.name)
		if o.got != want {
			run.Violate("site-meaning-differs:"+o.name, fmt.Sprintf("%s on %v: %s says %v, the matcher's meaning is %v", showM(m), ls, o.name, o.got, want), c)
		}
	}
	for _, s := range skipped {
		run.Count("site_skipped", s)
	}
	c.Show = fmt.Sprintf("%s vs %v", showM(m), ls)
	term := vh.App("CSite", tableFor([]M{m}, ls), vhm.Matcher(lm), vhm.Labels(ls), vh.List(parts))
	run.Add(term, c, m.T >= 2)
}
