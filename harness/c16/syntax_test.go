//go:build verif

package c16

import (
	"errors"
	"fmt"
	"regexp"
	"regexp/syntax"
	"sort"
	"strconv"
	"strings"
	"time"
	"unicode"
	"unicode/utf8"

	"github.com/prometheus/common/model"
	"github.com/prometheus/common/promslog"

	"github.com/prometheus/alertmanager/featurecontrol"
	"github.com/prometheus/alertmanager/matcher/compat"
	"github.com/prometheus/alertmanager/matcher/parse"
	"github.com/prometheus/alertmanager/pkg/labels"

	"verifharness/vh"
)

// ---------- running one parser entry point under a watchdog ----------

type pres struct {
	class string // ok | e | re | parser-panic | panic | timeout
	ms    []*labels.Matcher
	reMsg string // code of the regexp syntax error (class re): syntax.Error.Code, not the text, which embeds the anchored expression
	text  string // error text, used only to bucket the branch histogram (never compared)
}

func guard(f func() ([]*labels.Matcher, error)) pres {
	ch := make(chan pres, 1)
	go func() {
		defer func() {
			if r := recover(); r != nil {
				ch <- pres{class: "panic"}
			}
		}()
		ms, err := f()
		if err != nil {
			var se *syntax.Error
			switch {
			case errors.As(err, &se):
				ch <- pres{class: "re", reMsg: string(se.Code), text: err.Error()}
			case strings.Contains(err.Error(), "parser panic"):
				ch <- pres{class: "parser-panic"}
			default:
				ch <- pres{class: "e", text: err.Error()}
			}
			return
		}
		ch <- pres{class: "ok", ms: ms}
	}()
	select {
	case p := <-ch:
		return p
	case <-time.After(10 * time.Second):
		return pres{class: "timeout"}
	}
}

func one(m *labels.Matcher, err error) ([]*labels.Matcher, error) {
	if err != nil {
		return nil, err
	}
	return []*labels.Matcher{m}, nil
}

var modeFlags = map[string]string{"c": featurecontrol.FeatureClassicMode, "u": featurecontrol.FeatureUTF8StrictMode, "f": ""}

func setMode(m string) {
	fl, err := featurecontrol.NewFlags(promslog.NewNopLogger(), modeFlags[m])
	if err != nil {
		panic(err)
	}
	compat.InitFromFlags(promslog.NewNopLogger(), fl)
}

var allKeys = []string{"c1", "cN", "u1", "uN", "kc1", "kcN", "ku1", "kuN", "kf1", "kfN"}

// parseAll runs every parser entry point on the input.
func parseAll(in string) map[string]pres {
	out := map[string]pres{}
	out["c1"] = guard(func() ([]*labels.Matcher, error) { return one(labels.ParseMatcher(in)) })
	out["cN"] = guard(func() ([]*labels.Matcher, error) { return labels.ParseMatchers(in) })
	out["u1"] = guard(func() ([]*labels.Matcher, error) { return one(parse.Matcher(in)) })
	out["uN"] = guard(func() ([]*labels.Matcher, error) { return parse.Matchers(in) })
	for _, m := range []string{"c", "u", "f"} {
		setMode(m)
		out["k"+m+"1"] = guard(func() ([]*labels.Matcher, error) { return one(compat.Matcher(in, "verif")) })
		out["k"+m+"N"] = guard(func() ([]*labels.Matcher, error) { return compat.Matchers(in, "verif") })
	}
	setMode("f")
	return out
}

// matchers with inline string literals (the shared interning table is repeated in every shard, so one-off
// strings are cheaper inline)
var coqTypes = []string{"MEq", "MNeq", "MRe", "MNre"}

func coqMs(ms []*labels.Matcher) string {
	return vh.ListOf(ms, func(m *labels.Matcher) string {
		return vh.App("mkM", coqTypes[m.Type], vh.StrLit(m.Name), vh.StrLit(m.Value))
	})
}

func coqRes(p pres) string {
	switch p.class {
	case "ok":
		return vh.App("Ok", coqMs(p.ms))
	case "panic":
		return "Panic"
	}
	return vh.App("Err", vh.Str(p.class))
}

// errBranch names the parser branch an error came from (histogram only: shows which model branches the generators
// reach; error texts are never compared with the model).
var errBranches = []string{"expected close brace", "expected opening brace", "expected label name", "expected label value",
	"expected an operator", "expected a comma or close brace", "expected a matcher or close brace after comma", "expected a comma",
	"expected end of input", "failed to create matcher", "invalid input", "missing end", "no matchers", "expected 1 matcher",
	"unexpected open or close brace", "bad matcher format", "not valid UTF-8", "unescaped double quote", "error parsing regexp"}

func errBranch(text string) string {
	for _, b := range errBranches {
		if strings.Contains(text, b) {
			return b
		}
	}
	return "other"
}

// ---------- library tables ----------

func sanitize(s string) string {
	var sb strings.Builder
	for _, r := range s {
		sb.WriteRune(r)
	}
	return sb.String()
}

func coqTables(texts []string, badre []string) string {
	sp, pr := map[rune]bool{}, map[rune]bool{}
	add := func(r rune) {
		if unicode.IsSpace(r) {
			sp[r] = true
		}
		if strconv.IsPrint(r) {
			pr[r] = true
		}
	}
	add(utf8.RuneError)
	// the runes the contracts of the round-trip theorems speak about are always looked up in the real tables
	for _, r := range []rune{'\t', '\n', '\f', '\r', ' ', '"'} {
		add(r)
	}
	for _, t := range texts {
		for _, r := range t {
			add(r)
		}
	}
	list := func(m map[rune]bool) string {
		var rs []int
		for r := range m {
			rs = append(rs, int(r))
		}
		sort.Ints(rs)
		return vh.ListOf(rs, func(r int) string { return vh.Z(int64(r)) })
	}
	sort.Strings(badre)
	return vh.App("mkT", list(sp), list(pr), vh.ListOf(badre, vh.StrLit))
}

// badRegexCandidates finds every value a parser could have derived from the input (a substring of the input or of
// its rune-sanitised form, taken as is, Go-unquoted, or classic-unescaped by the real ParseMatcher) whose compile
// fails with one of the observed regexp error codes. A miss here shows up as a model mismatch (a false alarm),
// never as a hidden disagreement.
func badRegexCandidates(in string, msgs map[string]bool) []string {
	if len(msgs) == 0 {
		return nil
	}
	bad := map[string]bool{}
	try := func(c string) {
		if _, seen := bad[c]; seen {
			return
		}
		// every candidate that does not compile is listed, whatever the error says: the message embeds the expression as
		// the implementation anchors it and even the error CODE depends on the anchoring (an unclosed class swallows the
		// closing anchor), so an equivalent anchoring (\A(?:v)\z for ^(?:v)$) must not empty this table (false alarm
		// found by benign round 4). A value that the model does not derive from the input is never looked up.
		if _, err := regexp.Compile("^(?:" + c + ")$"); err != nil {
			bad[c] = true
		}
	}
	for _, s := range []string{in, sanitize(in)} {
		for i := 0; i <= len(s); i++ {
			for j := i; j <= len(s); j++ {
				sub := s[i:j]
				try(sub)
				if len(sub) >= 2 && sub[0] == '"' {
					if u, err := strconv.Unquote(sub); err == nil {
						try(u)
					}
				}
				if strings.ContainsAny(sub, "\\\"") {
					if m, err := labels.ParseMatcher("a=" + sub); err == nil {
						try(m.Value)
					}
				}
			}
		}
	}
	return vh.SortedKeys(bad)
}

// ---------- parse cases ----------

func sameMs(a, b []*labels.Matcher) bool {
	if len(a) != len(b) {
		return false
	}
	for i := range a {
		if a[i].Type != b[i].Type || a[i].Name != b[i].Name || a[i].Value != b[i].Value {
			return false
		}
	}
	return true
}

func runParse(run *vh.Run, c *Case) {
	in := string(c.Input)
	res := parseAll(in)
	msgs := map[string]bool{}
	for _, k := range allKeys {
		if res[k].class == "re" {
			msgs[res[k].reMsg] = true
		}
	}
	bad := badRegexCandidates(in, msgs)
	var obs []string
	classes := ""
	for _, k := range allKeys {
		p := res[k]
		obs = append(obs, vh.Pair(vh.Str(k), coqRes(p)))
		run.Count("parse_outcome_"+k, p.class)
		if p.class == "e" || p.class == "re" {
			run.Count("error_branch_"+k[len(k)-2:], errBranch(p.text))
		}
		classes += p.class[:1]
		// direct oracle: no parser panics or loops, on any input
		switch p.class {
		case "panic", "parser-panic":
			run.Violate("parser-panics:"+k, fmt.Sprintf("%s panics on %q", k, in), c)
		case "timeout":
			run.Violate("parser-loops:"+k, fmt.Sprintf("%s did not return on %q", k, in), c)
		}
	}
	// direct oracle: fallback mode = classic result when both accept (they may differ), the UTF-8 result when only
	// it accepts, classic's when only classic accepts, an error when both reject
	judge := func(n, cl, fb pres, what string) {
		ok := func(p pres) bool { return p.class == "ok" }
		switch {
		case ok(cl):
			if !ok(fb) || !sameMs(fb.ms, cl.ms) {
				run.Violate("fallback-not-classic-result", fmt.Sprintf("%s on %q: classic accepts but fallback returns something else", what, in), c)
			}
			if ok(n) && !sameMs(n.ms, cl.ms) {
				run.Count("parser_agreement", "both-accept-differ")
			} else if ok(n) {
				run.Count("parser_agreement", "both-accept-equal")
			} else {
				run.Count("parser_agreement", "classic-only")
			}
		case ok(n):
			if !ok(fb) || !sameMs(fb.ms, n.ms) {
				run.Violate("fallback-not-utf8-result", fmt.Sprintf("%s on %q: only the UTF-8 parser accepts but fallback returns something else", what, in), c)
			}
			run.Count("parser_agreement", "utf8-only")
		default:
			if ok(fb) {
				run.Violate("fallback-accepts-what-both-reject", fmt.Sprintf("%s on %q", what, in), c)
			}
			run.Count("parser_agreement", "both-reject")
		}
	}
	judge(res["uN"], res["cN"], res["kfN"], "compat.Matchers")
	if !(strings.HasPrefix(in, "{") || strings.HasSuffix(in, "}")) {
		judge(res["u1"], res["c1"], res["kf1"], "compat.Matcher")
	}
	c.Show = fmt.Sprintf("%q", in)
	if c.Src == "" {
		c.Src = "replay/corpus"
	}
	run.Count("parse_source", c.Src)
	for _, b := range stressBuckets(in) {
		run.Count("classic_split_stress", b+" / classic list parser: "+res["cN"].class)
	}
	term := vh.App("CParse", coqTables([]string{in}, bad), vh.StrLit(in), vh.List(obs))
	nontrivial := strings.ContainsAny(in, "\\\"~") || !isASCII(in) || strings.Contains(classes, "e") || strings.Contains(classes, "r")
	run.Add(term, c, nontrivial)
}

func isASCII(s string) bool {
	for i := 0; i < len(s); i++ {
		if s[i] >= 0x80 {
			return false
		}
	}
	return true
}

// ---------- print cases ----------

var classicNameRE = regexp.MustCompile(`^[a-zA-Z_:][a-zA-Z0-9_:]*$`)

func inDomain(m M) bool {
	if len(m.N) == 0 || !utf8.Valid(m.N) || !utf8.Valid(m.V) {
		return false
	}
	if m.T >= 2 {
		if _, err := regexp.Compile("^(?:" + string(m.V) + ")$"); err != nil {
			return false
		}
	}
	return true
}

func runPrint(run *vh.Run, c *Case) {
	var ms labels.Matchers
	var texts []string
	var bad []string
	allIn, allClassic := true, true
	for _, mj := range c.MS {
		// a struct literal: String() needs no compiled regexp, so any value can be printed
		ms = append(ms, &labels.Matcher{Type: labels.MatchType(mj.T), Name: string(mj.N), Value: string(mj.V)})
		texts = append(texts, string(mj.N), string(mj.V))
		if mj.T >= 2 {
			if _, err := regexp.Compile("^(?:" + string(mj.V) + ")$"); err != nil {
				bad = append(bad, string(mj.V))
			}
		}
		allIn = allIn && inDomain(mj)
		allClassic = allClassic && classicNameRE.Match(mj.N)
	}
	var each []string
	for _, m := range ms {
		each = append(each, m.String())
	}
	all := ms.String()
	texts = append(texts, all)
	c.Show = fmt.Sprintf("%q", all)

	// direct oracle: print -> parse gives the identical matcher(s) in UTF-8 and fallback mode, and in classic mode
	// when the name is a classic label name
	check := func(key string, got pres, want []*labels.Matcher, text string) {
		if got.class != "ok" || !sameMs(got.ms, want) {
			run.Violate("roundtrip-fails:"+key, fmt.Sprintf("%s(%q): outcome %s, parsed %v, printed from %v", key, text, got.class, got.ms, want), c)
		}
	}
	for i, mj := range c.MS {
		run.Count("print_op", []string{"=", "!=", "=~", "!~"}[mj.T])
		quoted := strings.ContainsFunc(string(mj.N), func(r rune) bool { return unicode.IsSpace(r) || strings.ContainsRune("{}!=~,\\\"'`", r) })
		run.Count("print_form", map[bool]string{true: "go-quoted (reserved rune in name)", false: "openmetrics"}[quoted])
		if !inDomain(mj) {
			run.Count("print_domain", "outside (empty/invalid name, invalid value or bad regexp)")
			continue
		}
		run.Count("print_domain", "inside")
		res := parseAll(each[i])
		want := []*labels.Matcher{ms[i]}
		for _, k := range []string{"u1", "uN", "ku1", "kuN", "kf1", "kfN"} {
			check(k, res[k], want, each[i])
		}
		if classicNameRE.Match(mj.N) {
			run.Count("print_name", "classic")
			for _, k := range []string{"c1", "cN", "kc1", "kcN"} {
				check(k, res[k], want, each[i])
			}
		} else {
			run.Count("print_name", "utf8-only")
		}
	}
	if allIn {
		res := parseAll(all)
		for _, k := range []string{"uN", "kuN", "kfN"} {
			check(k, res[k], ms, all)
		}
		if allClassic {
			for _, k := range []string{"cN", "kcN"} {
				check(k, res[k], ms, all)
			}
		}
		run.Count("print_list_len", fmt.Sprint(len(ms)))
	}
	term := vh.App("CPrint", coqTables(texts, bad), coqMs(ms), vh.ListOf(each, vh.StrLit), vh.StrLit(all))
	run.Add(term, c, true)
}

// ---------- generators ----------

var (
	valueAtoms = []string{`"`, `\`, "\n", "{", "}", ",", "=", "!", "~", "'", "`", " ", "\t", "\x00", "é", "日", "\u2028",
		"a", "b", "n", "x", "u", "0", "41", "\r", "\x7f", "\u00ad", "\U0001F600", "\U000E0001", "\u0085", "\ufffd", "\a", "\v",
		".", "*", "+", "|", "(", ")", "[", "]", "^", "$", "\u00a0", "\ud7ff", "\U0010FFFF", "ÿ", "\u07ff", "\u0800"}
	// values in which a backslash is followed by n, a quote, or another backslash (Windows paths, DOMAIN\user, ...)
	backslashValues = []string{`C:\node`, `C:\node_exporter`, `a\\nb`, `DOMAIN\nagios`, `x\"`, `x\\"`, `\n`, `\\n`, `\\\n`, `a\`, `a\\`, `\"\n`, `C:\new\"q\"\`, "a\\\nb"}
	invalidAtoms    = []string{"\xff", "\xc3", "\xe6\x97", "\xed\xa0\x80", "\xf4\x90\x80\x80", "\xc0\xaf", "\x80"}
	classicNames    = []string{"foo", "a_b:c", "_x", "A1", ":", "job"}
	utf8Names       = []string{"é", "日本", "foo.bar", "a-b", "0a", "a/b", "\U0001F600", "ÿ", "\ufffd", "a\x00b", "\u00ad", "\x7f"}
	resNames        = []string{"a b", "a=b", `a"b`, `a\b`, "a\nb", "a{b}", "a,b", "a~", "a'b", "a`b", "a\u2028b", "\t", "!", "a\u0085", "a\u00a0b", `"`, `\`, "é \U000E0001", "a\rb\x00"}
	badNames        = []string{"", "\xff", "a\xc3", "a \xff"}
)

func genValue(r *vh.Rand, regexSafe bool) string {
	if r.Chance(1, 6) {
		v := vh.Pick(r, backslashValues)
		if regexSafe {
			if _, err := regexp.Compile("^(?:" + v + ")$"); err != nil {
				return regexp.QuoteMeta(v)
			}
		}
		return v
	}
	n := vh.Pick(r, []int{0, 1, 1, 2, 3, 4, 6})
	var sb strings.Builder
	for i := 0; i < n; i++ {
		if r.Chance(1, 25) {
			sb.WriteString(vh.Pick(r, invalidAtoms))
			continue
		}
		sb.WriteString(vh.Pick(r, valueAtoms))
	}
	v := sb.String()
	if regexSafe && r.Chance(2, 3) {
		if _, err := regexp.Compile("^(?:" + v + ")$"); err != nil {
			return regexp.QuoteMeta(v)
		}
	}
	return v
}

func genName(r *vh.Rand) string {
	switch k := r.Intn(20); {
	case k < 6:
		return vh.Pick(r, classicNames)
	case k < 11:
		return vh.Pick(r, utf8Names)
	case k < 18:
		return vh.Pick(r, resNames)
	case k < 19:
		return vh.Pick(r, badNames)
	}
	return genValue(r, false)
}

func genPrintCase(r *vh.Rand) Case {
	c := Case{Kind: "print"}
	n := vh.Pick(r, []int{0, 1, 1, 1, 2, 3})
	for i := 0; i < n; i++ {
		t := r.Intn(4)
		c.MS = append(c.MS, M{T: t, N: []byte(genName(r)), V: []byte(genValue(r, t >= 2))})
	}
	return c
}

// raw inputs, grammar-directed
var (
	rawNames  = []string{"foo", "a_b:c", "é", "日", "foo.bar", `"foo"`, `"a b"`, `"a\"b"`, `"é"`, `"\u00e9"`, `"a\nb"`, "0", "a-b", `"`, `"a`, "", `"\xff"`, "a\xff", `"\q"`, "{", "f o"}
	rawOps    = []string{"=", "=", "!=", "=~", "!~", "==", "!", "=!", "~", "=~~", "!==", "", " = ", "= ~"}
	rawValues = []string{"bar", `"bar"`, `"b\"ar"`, `"b\\ar"`, `"b\nar"`, "\"b\nar\"", `"\x41"`, `"\u00e9"`, `"\U0001f642"`, `"\377"`, `"\400"`, `"\'"`, `"\q"`,
		`"\xf0\x9f"`, `"\ud800"`, `"\U00110000"`, `"`, `"bar`, `bar"`, `b"ar`, `b\ar`, `b\nar`, `b\"ar`, `b\`, `\`, "", "[a-z]+", `"[a-z]+"`, `\d+`, `"\\d+"`, `"\d+"`, "(", `"("`, "*", "a|b",
		"🙂", "🙂bar", "b ar", `"b ar"`, `"b,ar"`, "b,ar", `"b}ar"`, "b}ar", "b{", "'bar'", "`bar`", "\xff", "\"\xff\"", "b\u2028", "\u2028b", "\u00a0bar\u00a0", "\u0085", "bar\t", "=bar", "~bar", "!bar", `""`, `"\`, `"\\`, `"\\"`, `"a"b"`, `"\a\b\f\r\t\v"`, `"\x4"`, `"\u12"`, `"\08"`}
	rawBlanks = []string{"", "", "", " ", "\t", "\n", "  ", "\u2028", "\u00a0", "\r", "\f", "\v", "\u0085"}
	seeds     = []string{
		"", "{}", "{foo=bar}", "{foo=bar,}", "{foo!=bar}", "{foo=~[a-z]+}", "{foo!~[a-z]+}", "{foo=🙂}", "{foo=🙂bar}", "foo=bar", "foo=bar,",
		"{\"foo\"=\"bar\"}", "{\"foo\"=~\"\\\\d+\"}", "{\"foo\"=\"\\xf0\\x9f\\x99\\x82\"}", "{\"foo\"=\"\\U0001f642\"}", "{\"foo\"=\"bar\\n\"}",
		"{\"foo\"=\"\\\"bar\\\"\"}", "{\"foo\"=\"bar\\\\\"}", "\"foo\"=\"bar\",", "{foo=bar,bar!=baz}", "foo=\"bar\",bar!=\"baz\"", ",", "{,}", "{", "}",
		"foo=bar}", "{foo=bar", "{foo=:\"bar\"}", "{foo=\"bar\\w\"}", "{\"foo\"=~\"\\d+\"}", "{foo=bar\\n}", "{\"foo\"=\"\\xf0\\x9f\"}",
		"{foo=bar,bar=~[a-zA-Z]+,baz!=qux,qux!~[0-9]+", "foo=bar,bar=baz", "foo=\"\\xf0\\x9f\"",
		`{foo = "bar", dings != "bums", }`, "foo=bar,dings!=bums", "foo=bar, dings!=bums", `{quote="She said: \"Hi, ladies! That's gender-neutral…\""}`, `statuscode=~"5.."`,
		`{foo="bar"}`, `{foo=~"bar.*"}`, `{foo!="bar"}`, `{foo!~"bar.*"}`, `{foo="bar", baz!="quux"}`, `{foo="bar",baz!~".*quux", derp="wat"}`, `{foo="bar", baz!="quux", derp="wat"}`,
		`{foo="bar", baz!~"wat"}`, `{foo="bar",}`, `job="value`, `job=value"`, `trickier==\\=\=\"`, `contains_quote != "\"" , contains_comma !~ "foo,bar" , `,
		`job="value", `, `{foo=bar}}`, `{foo=bar}},`, `foo=bar}`, `foo\n=bar`, `"foo"="bar`, `foo="bar\"`, `foo=~"\xf0\x9f\x99\x82"`, "foo=\"bar\\\n\"",
		`{"foo bar"="baz"}`, `{"a\\b"="c"}`, `foo="a\tb"`, `{a="b",c="d",}`, `{a="b",,c="d"}`, ` { a = b } `, "a=b\n", "\na=b",
	}
	mutAtoms = []string{`"`, `\`, ",", "{", "}", "=", "!", "~", " ", "\n", "\t", "é", "\xff", "\u2028", "a", "n", `\"`, `\\`, `\n`, "'", "`", "(", "\x00", "=~", "!=", `\x`, `\u`, "0"}
)

func genRawGrammar(r *vh.Rand) string {
	var sb strings.Builder
	b := func() { sb.WriteString(vh.Pick(r, rawBlanks)) }
	b()
	if r.Chance(2, 5) {
		sb.WriteString("{")
		b()
	}
	n := vh.Pick(r, []int{0, 1, 1, 1, 2, 2, 3})
	for i := 0; i < n; i++ {
		if i > 0 {
			b()
			if !r.Chance(1, 15) {
				sb.WriteString(",")
			}
			b()
		}
		sb.WriteString(vh.Pick(r, rawNames))
		if r.Chance(1, 4) {
			b()
		}
		sb.WriteString(vh.Pick(r, rawOps))
		if r.Chance(1, 4) {
			b()
		}
		if r.Chance(1, 8) {
			sb.WriteString(genValue(r, false))
		} else {
			sb.WriteString(vh.Pick(r, rawValues))
		}
	}
	b()
	if r.Chance(1, 5) {
		sb.WriteString(",")
		b()
	}
	if r.Chance(2, 5) {
		sb.WriteString("}")
		b()
	}
	if r.Chance(1, 15) {
		sb.WriteString(vh.Pick(r, rawValues))
	}
	return sb.String()
}

func mutate(r *vh.Rand, s string) string {
	k := vh.Pick(r, []int{1, 1, 2, 3})
	for i := 0; i < k; i++ {
		pos := r.Intn(len(s) + 1)
		switch r.Intn(6) {
		case 0: // insert an atom
			s = s[:pos] + vh.Pick(r, mutAtoms) + s[pos:]
		case 1: // delete a byte
			if pos < len(s) {
				s = s[:pos] + s[pos+1:]
			}
		case 2: // truncate
			s = s[:pos]
		case 3: // duplicate a slice
			if pos < len(s) {
				end := pos + 1 + r.Intn(len(s)-pos)
				s = s[:end] + s[pos:end] + s[end:]
			}
		case 4: // replace a byte
			if pos < len(s) {
				s = s[:pos] + vh.Pick(r, mutAtoms) + s[pos+1:]
			}
		default: // splice with another seed
			o := vh.Pick(r, seeds)
			s = s[:pos] + o[r.Intn(len(o)+1):]
		}
	}
	if len(s) > 80 {
		s = s[:80]
	}
	return s
}

// ---- lists that stress the classic quote-aware comma split: non-last values that end in one or two backslashes,
// or contain a quote / escaped quote / escaped backslash right before the separating comma ----

var (
	stressBases = []string{"", "x", "C:\\dir", "a b", "é", "a,b", "q\"r", "\\", "n"}
	stressTails = []string{"\\", "\\\\", "\"", "\\\"", "\"\\", ",", "\",", "\\,", "\\\\\\", "\n\\", "", "\\\"\\"}
	// quoted raw values (already in text form): escaped backslash before the closing quote, escaped quote before a
	// comma, both, and some broken ones
	stressRawValues = []string{`"x\\"`, `"\\"`, `"C:\\dir\\"`, `"x\\\\"`, `"x\""`, `"x\\\""`, `"a,b\\"`, `"\",\""`, `"x\",y"`, `"x\\",y"`,
		`"\\\\\\"`, `"x\"`, `x\\`, `x\`, `"x"`, `"\n\\"`, `"é\\"`, `"\\,"`, `""`, `"\"\\"`}
)

func genStressValue(r *vh.Rand) string { return vh.Pick(r, stressBases) + vh.Pick(r, stressTails) }

func genListStressCase(r *vh.Rand) Case {
	c := Case{Kind: "print"}
	n := r.Range(2, 4)
	for i := 0; i < n; i++ {
		t := vh.Pick(r, []int{0, 0, 0, 1, 1, 2, 3})
		name := vh.Pick(r, classicNames)
		if r.Chance(1, 6) {
			name = genName(r)
		}
		v := genStressValue(r)
		if i == n-1 && r.Chance(1, 2) {
			v = genValue(r, false)
		}
		if t >= 2 {
			if _, err := regexp.Compile("^(?:" + v + ")$"); err != nil {
				v = regexp.QuoteMeta(v)
			}
		}
		c.MS = append(c.MS, M{T: t, N: []byte(name), V: []byte(v)})
	}
	return c
}

func genRawListStress(r *vh.Rand) string {
	var sb strings.Builder
	if r.Chance(1, 2) {
		sb.WriteString("{")
	}
	n := r.Range(2, 4)
	for i := 0; i < n; i++ {
		if i > 0 {
			sb.WriteString(vh.Pick(r, []string{",", ",", ", ", " ,", ",\t"}))
		}
		sb.WriteString(vh.Pick(r, classicNames))
		sb.WriteString(vh.Pick(r, []string{"=", "=", "!=", "=~", "!~", " = "}))
		if i < n-1 || r.Chance(1, 2) {
			sb.WriteString(vh.Pick(r, stressRawValues))
		} else {
			sb.WriteString(vh.Pick(r, rawValues))
		}
	}
	if r.Chance(1, 8) {
		sb.WriteString(",")
	}
	if r.Chance(1, 2) {
		sb.WriteString("}")
	}
	return sb.String()
}

// stressBuckets names the shapes of a list text that exercise the escape tracking of the classic comma split.
func stressBuckets(in string) []string {
	var out []string
	if strings.Contains(in, `\\",`) {
		out = append(out, "escaped backslash, closing quote, comma")
	}
	if strings.Contains(in, `\\\\",`) {
		out = append(out, "two escaped backslashes, closing quote, comma")
	}
	if strings.Contains(in, `\",`) && !strings.Contains(in, `\\",`) {
		out = append(out, "escaped quote right before a comma")
	}
	if strings.Contains(in, `\\\",`) {
		out = append(out, "escaped backslash + escaped quote before a comma")
	}
	return out
}

func genSyntax(env vh.Env, r *vh.Rand) []Case {
	var cases []Case
	for i, n := 0, env.N(150, 20); i < n; i++ {
		c := genListStressCase(r.Fork())
		cases = append(cases, c)
		var ms labels.Matchers
		for _, mj := range c.MS {
			ms = append(ms, &labels.Matcher{Type: labels.MatchType(mj.T), Name: string(mj.N), Value: string(mj.V)})
		}
		cases = append(cases, Case{Kind: "parse", Input: []byte(ms.String()), Src: "printed list, backslash/quote before the comma"})
	}
	for i, n := 0, env.N(150, 20); i < n; i++ {
		cases = append(cases, Case{Kind: "parse", Input: []byte(genRawListStress(r.Fork())), Src: "raw list, backslash/quote before the comma"})
	}
	for i, n := 0, env.N(450, 18); i < n; i++ {
		c := genPrintCase(r.Fork())
		cases = append(cases, c)
		// every printed text is also a parse case (all entry points compared with the model)
		var ms labels.Matchers
		for _, mj := range c.MS {
			m := &labels.Matcher{Type: labels.MatchType(mj.T), Name: string(mj.N), Value: string(mj.V)}
			ms = append(ms, m)
			if i%2 == 0 {
				cases = append(cases, Case{Kind: "parse", Input: []byte(m.String()), Src: "printed matcher"})
			}
		}
		cases = append(cases, Case{Kind: "parse", Input: []byte(ms.String()), Src: "printed matcher list"})
	}
	for _, s := range seeds {
		cases = append(cases, Case{Kind: "parse", Input: []byte(s), Src: "seed (repo unit/fuzz/compliance tests)"})
	}
	for i, n := 0, env.N(450, 18); i < n; i++ {
		cases = append(cases, Case{Kind: "parse", Input: []byte(genRawGrammar(r.Fork())), Src: "grammar-directed"})
	}
	for i, n := 0, env.N(350, 17); i < n; i++ {
		rr := r.Fork()
		cases = append(cases, Case{Kind: "parse", Input: []byte(mutate(rr, vh.Pick(rr, seeds))), Src: "mutated seed"})
	}
	return cases
}

var _ = model.LabelSet{}
