//go:build verif

package c16

import (
	"context"
	"encoding/json"
	"fmt"
	"regexp"
	"sort"
	"strings"
	"testing"
	"time"

	"github.com/prometheus/common/model"
	"github.com/prometheus/common/promslog"

	"github.com/prometheus/alertmanager/config"
	"github.com/prometheus/alertmanager/dispatch"
	"github.com/prometheus/alertmanager/eventrecorder"
	"github.com/prometheus/alertmanager/inhibit"
	"github.com/prometheus/alertmanager/pkg/labels"
	"github.com/prometheus/alertmanager/provider"
	"github.com/prometheus/alertmanager/types"

	"verifharness/vh"
	"verifharness/vhm"
)

// ---------- matchers as a configuration file expresses them: inhibition rules and routes from YAML ----------

// one side (or one route): 1-3 matchers, each written in one of the accepted forms. The deprecated maps hold one
// entry per label name, "=" only in *_match and "=~" only in *_match_re.
func genCfgSide(r *vh.Rand, ls []KV, min int) []M {
	n := r.Range(min, 3)
	usedEq, usedRe := map[string]bool{}, map[string]bool{}
	var out []M
	for i := 0; i < n; i++ {
		m := genSemMatcher(r, ls)
		if r.Chance(1, 3) {
			m, _ = genShapePair(r)
		}
		if r.Chance(1, 2) { // mostly the operators the deprecated keys can express
			m.T = vh.Pick(r, []int{0, 2, 2})
			if m.T == 2 {
				m.V = []byte(vh.Pick(r, semPatterns))
			} else if len(ls) > 0 && r.Chance(1, 2) {
				m.V = vh.Pick(r, ls).V
			} else {
				m.V = []byte(vh.Pick(r, semValues))
			}
		}
		m.F = "matchers"
		name := string(m.N)
		switch {
		case m.T == 0 && !usedEq[name] && r.Chance(3, 5):
			m.F, usedEq[name] = "match", true
		case m.T == 2 && !usedRe[name] && r.Chance(4, 5):
			m.F, usedRe[name] = "match_re", true
		}
		out = append(out, m)
	}
	// matchers lists with several matchers on the SAME label and the same value text under different operators,
	// exact duplicates, and the same matcher written with different quoting
	if r.Chance(2, 5) {
		base := out[r.Intn(len(out))]
		base.F = "matchers"
		k := r.Range(1, 2)
		for i := 0; i < k; i++ {
			tw := base
			switch r.Intn(4) {
			case 0, 1: // another operator on the same name and value text
				tw.T = (base.T + 1 + r.Intn(3)) % 4
				if tw.T >= 2 {
					if _, err := regexp.Compile("^(?:" + string(tw.V) + ")$"); err != nil {
						tw.T -= 2
					}
				}
			case 2: // exact duplicate
			default: // the same matcher, bare instead of quoted when the value allows it
				tw.F = "matchers_bare"
			}
			out = append(out, tw)
		}
		if base.F == "matchers" && r.Chance(1, 2) {
			out = append(out, base)
		}
		vh.Shuffle(r, out)
	}
	return out
}

var bareOK = regexp.MustCompile(`^[a-zA-Z0-9_.:+*|()\[\]^$-]+$`)

// satisfy rewrites the label set so that (most of) the side's positive matchers hold for it, so that the inhibitor
// really has a firing source and matching targets to decide about
func satisfy(r *vh.Rand, ms []M, ls []KV) []KV {
	m := map[string]string{}
	for _, kv := range ls {
		m[string(kv.K)] = string(kv.V)
	}
	for _, x := range ms {
		if r.Chance(1, 8) {
			continue
		}
		switch x.T {
		case 0:
			m[string(x.N)] = string(x.V)
		case 2:
			re, err := regexp.Compile("^(?:" + string(x.V) + ")$")
			if err != nil {
				continue
			}
			var ok []string
			for _, v := range append(append([]string{}, semValues...), "prod", "db", "x-1", "ab", "prodx") {
				if re.MatchString(v) {
					ok = append(ok, v)
				}
			}
			if len(ok) > 0 {
				m[string(x.N)] = vh.Pick(r, ok)
			}
		}
	}
	var out []KV
	for _, k := range vh.SortedKeys(m) {
		out = append(out, KV{[]byte(k), []byte(m[k])})
	}
	return out
}

// a route that mixes the deprecated match / match_re keys with 3-7 matchers: lines, the deprecated names sorting
// before (and after) the new-style ones - the shape a configuration migrated half-way has
func genCfgRouteMixed(r *vh.Rand, ls []KV) []M {
	var out []M
	k := r.Range(3, 7)
	newNames := []string{"b", "job", "sev", "job", "sev"}
	for i := 0; i < k; i++ {
		m := genSemMatcher(r, ls)
		m.N = []byte(vh.Pick(r, newNames))
		m.F = "matchers"
		if m.T == 0 && r.Chance(1, 2) {
			m.T = vh.Pick(r, []int{1, 3, 2})
			if m.T >= 2 {
				m.V = []byte(vh.Pick(r, semPatterns))
			}
		}
		out = append(out, m)
	}
	depNames := []string{"a", "a", "b", "zz"}
	used := map[string]bool{}
	for i, d := 0, r.Range(1, 2); i < d; i++ {
		n := vh.Pick(r, depNames)
		if r.Chance(1, 2) {
			if !used["eq"+n] {
				used["eq"+n] = true
				out = append(out, M{T: 0, N: []byte(n), V: []byte(vh.Pick(r, semValues)), F: "match"})
			}
		} else if !used["re"+n] {
			used["re"+n] = true
			out = append(out, M{T: 2, N: []byte(n), V: []byte(vh.Pick(r, semPatterns)), F: "match_re"})
		}
	}
	return out
}

func genCfgCase(r *vh.Rand) Case {
	c := Case{Kind: "cfg", LS: genLS(r)}
	k := r.Range(2, 4)
	for i := 0; i < k; i++ {
		c.LSS = append(c.LSS, genLS(r))
	}
	c.RSrc = genCfgSide(r, c.LS, 1)
	c.RTgt = genCfgSide(r, c.LSS[0], 1)
	c.Rt = genCfgSide(r, c.LSS[r.Intn(len(c.LSS))], 1)
	if r.Chance(1, 2) {
		c.Rt = genCfgRouteMixed(r, c.LSS[r.Intn(len(c.LSS))])
	}
	if !r.Chance(1, 5) {
		c.LS = satisfy(r, c.RSrc, c.LS)
	}
	for i := range c.LSS {
		switch r.Intn(4) {
		case 0, 1:
			c.LSS[i] = satisfy(r, c.RTgt, c.LSS[i])
		case 2:
			c.LSS[i] = satisfy(r, c.RSrc, c.LSS[i]) // looks like a source alert
		}
		if r.Chance(1, 3) {
			c.LSS[i] = satisfy(r, c.Rt, c.LSS[i])
		}
	}
	if r.Chance(1, 3) { // sometimes the source alert is also asked as a target
		c.LSS = append(c.LSS, c.LS)
	}
	return c
}

func yamlStr(s string) string {
	b, _ := json.Marshal(s)
	return string(b)
}

// the YAML fields of one side: prefix "source_", "target_" or "" (route)
func cfgSideYAML(indent, prefix string, ms []M) string {
	var eq, re, lst []string
	for _, m := range ms {
		switch m.F {
		case "match":
			eq = append(eq, yamlStr(string(m.N))+": "+yamlStr(string(m.V)))
		case "match_re":
			re = append(re, yamlStr(string(m.N))+": "+yamlStr(string(m.V)))
		case "matchers_bare":
			lm := &labels.Matcher{Type: labels.MatchType(m.T), Name: string(m.N), Value: string(m.V)}
			if bareOK.Match(m.V) && bareOK.Match(m.N) {
				lst = append(lst, yamlStr(string(m.N)+" "+lm.Type.String()+" "+string(m.V)))
			} else {
				lst = append(lst, yamlStr(lm.String()))
			}
		default:
			lm := &labels.Matcher{Type: labels.MatchType(m.T), Name: string(m.N), Value: string(m.V)}
			lst = append(lst, yamlStr(lm.String()))
		}
	}
	var sb strings.Builder
	if len(eq) > 0 {
		fmt.Fprintf(&sb, "%s%smatch: {%s}\n", indent, prefix, strings.Join(eq, ", "))
	}
	if len(re) > 0 {
		fmt.Fprintf(&sb, "%s%smatch_re: {%s}\n", indent, prefix, strings.Join(re, ", "))
	}
	if len(lst) > 0 {
		fmt.Fprintf(&sb, "%s%smatchers: [%s]\n", indent, prefix, strings.Join(lst, ", "))
	}
	return sb.String()
}

func cfgYAML(c *Case) string {
	var sb strings.Builder
	sb.WriteString("route:\n  receiver: root\n  routes:\n  - receiver: child\n")
	sb.WriteString(cfgSideYAML("    ", "", c.Rt))
	sb.WriteString("receivers:\n- name: root\n- name: child\n")
	sb.WriteString("inhibit_rules:\n- equal: []\n")
	sb.WriteString(cfgSideYAML("  ", "source_", c.RSrc))
	sb.WriteString(cfgSideYAML("  ", "target_", c.RTgt))
	return sb.String()
}

// a provider that hands the inhibitor its initial alerts and then stays silent
type slurpAlerts struct{ initial []*types.Alert }

func (s *slurpAlerts) iter() provider.AlertIterator {
	return provider.NewAlertIterator(make(chan *provider.Alert), make(chan struct{}), nil)
}
func (s *slurpAlerts) Subscribe(string) provider.AlertIterator { return s.iter() }
func (s *slurpAlerts) SlurpAndSubscribe(string) ([]*types.Alert, provider.AlertIterator) {
	return s.initial, s.iter()
}
func (s *slurpAlerts) GetPending() provider.AlertIterator          { return s.iter() }
func (s *slurpAlerts) Get(model.Fingerprint) (*types.Alert, error) { return nil, provider.ErrNotFound }
func (s *slurpAlerts) Put(context.Context, ...*types.Alert) error  { return nil }

func sideHolds(ms []M, ls model.LabelSet) bool {
	for _, m := range ms {
		if !expectHolds(m, string(ls[model.LabelName(m.N)])) {
			return false
		}
	}
	return true
}

func realMs(ms []M) labels.Matchers {
	var out labels.Matchers
	for _, mj := range ms {
		m, err := realMatcher(mj)
		if err != nil {
			panic(err)
		}
		out = append(out, m)
	}
	return out
}

func runCfg(t *testing.T, run *vh.Run, c *Case) {
	text := cfgYAML(c)
	cfg, err := config.Load(text)
	if err != nil {
		t.Fatalf("config.Load rejected a generated configuration: %v\n%s", err, text)
	}
	if len(cfg.InhibitRules) != 1 || len(cfg.Route.Routes) != 1 {
		t.Fatalf("unexpected configuration shape\n%s", text)
	}
	for _, side := range [][]M{c.RSrc, c.RTgt, c.Rt} {
		for _, m := range side {
			run.Count("config_matcher_form", m.F+" "+[]string{"=", "!=", "=~", "!~"}[m.T])
		}
	}
	forms := func(ms []M) string {
		set := map[string]bool{}
		for _, m := range ms {
			set[m.F] = true
		}
		return strings.Join(vh.SortedKeys(set), "+")
	}
	run.Count("config_rule_forms", "source: "+forms(c.RSrc)+" / target: "+forms(c.RTgt))
	run.Count("config_route_forms", forms(c.Rt))

	sls := mkLabels(c.LS)
	var lss []model.LabelSet
	for _, kvs := range c.LSS {
		lss = append(lss, mkLabels(kvs))
	}
	var obs []string
	record := func(key, what string, got, want []bool) {
		obs = append(obs, vh.Pair(vh.Str(key), vh.ListOf(got, vh.Bool)))
		for i := range got {
			if got[i] != want[i] {
				run.Violate("config-matcher-meaning-differs:"+what, fmt.Sprintf("%s: item %d: got %v, the configured matchers' meaning is %v\n%s\nsource alert %v, targets %v", what, i, got[i], want[i], text, sls, lss), c)
				break
			}
		}
	}
	// the matchers lists as loaded: the same multiset of (type, name, value) as written
	loadedOK := func(what string, written []M, loaded labels.Matchers) {
		var w, l []string
		twins := false
		seen := map[string]int{}
		for _, m := range written {
			if m.F == "matchers" || m.F == "matchers_bare" {
				w = append(w, fmt.Sprintf("%d %q %q", m.T, m.N, m.V))
				k := fmt.Sprintf("%q %q", m.N, m.V)
				seen[k]++
				if seen[k] > 1 {
					twins = true
				}
			}
		}
		for _, m := range loaded {
			l = append(l, fmt.Sprintf("%d %q %q", m.Type, m.Name, m.Value))
		}
		sort.Strings(w)
		sort.Strings(l)
		if twins {
			run.Count("config_matchers_list", what+": several matchers on the same label and value text")
		} else {
			run.Count("config_matchers_list", what+": distinct label/value pairs")
		}
		if strings.Join(w, "|") != strings.Join(l, "|") {
			run.Violate("config-matchers-loaded-differ:"+what, fmt.Sprintf("%s: written %v, loaded %v\n%s", what, w, l, text), c)
		}
	}
	loadedOK("source_matchers", c.RSrc, labels.Matchers(cfg.InhibitRules[0].SourceMatchers))
	loadedOK("target_matchers", c.RTgt, labels.Matchers(cfg.InhibitRules[0].TargetMatchers))
	loadedOK("route matchers", c.Rt, labels.Matchers(cfg.Route.Routes[0].Matchers))
	// both sides of the rule as inhibit.NewInhibitRule builds them
	rule := inhibit.NewInhibitRule(cfg.InhibitRules[0])
	record("S.src", "inhibit rule source side on the source alert", []bool{rule.SourceMatchers.Matches(sls)}, []bool{sideHolds(c.RSrc, sls)})
	record("T.src", "inhibit rule target side on the source alert", []bool{rule.TargetMatchers.Matches(sls)}, []bool{sideHolds(c.RTgt, sls)})
	var gS, wS, gT, wT, gM, wM, gR, wR, gR2, gR3 []bool
	// the real inhibitor with the source alert firing
	now := time.Now()
	src := &types.Alert{Alert: model.Alert{Labels: sls, StartsAt: now.Add(-time.Minute), EndsAt: now.Add(time.Hour)}, UpdatedAt: now}
	ih := inhibit.NewInhibitor(&slurpAlerts{initial: []*types.Alert{src}}, cfg.InhibitRules, promslog.NewNopLogger(), eventrecorder.NopRecorder())
	go ih.Run()
	ih.WaitForLoading()
	// the running server builds the route tree more than once from the same loaded configuration (dispatcher, API):
	// every build must carry the written matchers, and building must not change the loaded configuration
	multiset := func(ms labels.Matchers) string {
		var l []string
		for _, m := range ms {
			l = append(l, fmt.Sprintf("%d %q %q", m.Type, m.Name, m.Value))
		}
		sort.Strings(l)
		return strings.Join(l, " | ")
	}
	var wantRoute []string
	nLines, nDep := 0, 0
	for _, m := range c.Rt {
		v := string(m.V)
		if m.F == "match_re" {
			v = "^(?:" + v + ")$" // the deprecated map hands NewMatcher the already anchored expression
			nDep++
		} else if m.F == "match" {
			nDep++
		} else {
			nLines++
		}
		wantRoute = append(wantRoute, fmt.Sprintf("%d %q %q", m.T, m.N, v))
	}
	sort.Strings(wantRoute)
	run.Count("config_route_shape", fmt.Sprintf("%d matchers lines + %d deprecated entries", nLines, nDep))
	loadedBefore := multiset(labels.Matchers(cfg.Route.Routes[0].Matchers))
	root := dispatch.NewRoute(cfg.Route, nil)
	builds := []*dispatch.Route{root, dispatch.NewRoute(cfg.Route, nil), dispatch.NewRoute(cfg.Route, nil)}
	for i, b := range builds {
		if got := multiset(b.Routes[0].Matchers); got != strings.Join(wantRoute, " | ") {
			run.Violate(fmt.Sprintf("route-build-%d-matchers-differ", i+1), fmt.Sprintf("build %d of dispatch.NewRoute from the same loaded configuration: child route has %s, written %s\n%s", i+1, got, strings.Join(wantRoute, " | "), text), c)
		}
	}
	if after := multiset(labels.Matchers(cfg.Route.Routes[0].Matchers)); after != loadedBefore {
		run.Violate("route-build-changes-loaded-config", fmt.Sprintf("building the route tree changed the loaded matchers of the child route: before %s, after %s\n%s", loadedBefore, after, text), c)
	}
	sSrc, tSrc := sideHolds(c.RSrc, sls), sideHolds(c.RTgt, sls)
	for _, ls := range lss {
		s, tg := sideHolds(c.RSrc, ls), sideHolds(c.RTgt, ls)
		gS, wS = append(gS, rule.SourceMatchers.Matches(ls)), append(wS, s)
		gT, wT = append(gT, rule.TargetMatchers.Matches(ls)), append(wT, tg)
		gM, wM = append(gM, ih.Mutes(context.Background(), ls)), append(wM, tg && sSrc && !(s && tSrc))
		routes := root.Match(ls)
		gR, wR = append(gR, len(routes) == 1 && routes[0].RouteOpts.Receiver == "child"), append(wR, sideHolds(c.Rt, ls))
		r2, r3 := builds[1].Match(ls), builds[2].Match(ls)
		gR2 = append(gR2, len(r2) == 1 && r2[0].RouteOpts.Receiver == "child")
		gR3 = append(gR3, len(r3) == 1 && r3[0].RouteOpts.Receiver == "child")
		switch {
		case tg && sSrc && !(s && tSrc):
			run.Count("config_inhibitor", "muted: target side holds, the source fires")
		case tg && sSrc:
			run.Count("config_inhibitor", "not muted: two-sided match")
		case tg:
			run.Count("config_inhibitor", "not muted: target side holds, the source alert does not match the source side")
		default:
			run.Count("config_inhibitor", "not muted: target side does not hold")
		}
		if gR[len(gR)-1] {
			run.Count("config_route", "child route matches")
		} else {
			run.Count("config_route", "falls back to the root route")
		}
	}
	ih.Stop()
	record("S.tgt", "inhibit rule source side on the targets", gS, wS)
	record("T.tgt", "inhibit rule target side on the targets", gT, wT)
	record("mutes", "Inhibitor.Mutes of the targets", gM, wM)
	record("route", "child route written with match/match_re/matchers", gR, wR)
	record("route2", "child route, second build from the same configuration", gR2, wR)
	record("route3", "child route, third build from the same configuration", gR3, wR)

	all := append(append(append([]M{}, c.RSrc...), c.RTgt...), c.Rt...)
	allLS := model.LabelSet{}
	i := 0
	for _, ls := range append([]model.LabelSet{sls}, lss...) {
		for _, v := range ls {
			allLS[model.LabelName(fmt.Sprintf("v%d", i))] = v
			i++
		}
	}
	var lssCoq []string
	for _, ls := range lss {
		lssCoq = append(lssCoq, vhm.Labels(ls))
	}
	c.Show = strings.ReplaceAll(text, "\n", " | ")
	term := vh.App("CCfg", tableFor(all, allLS), vhm.Matchers(realMs(c.RSrc)), vhm.Matchers(realMs(c.RTgt)), vhm.Matchers(realMs(c.Rt)),
		vhm.Labels(sls), vh.List(lssCoq), vh.List(obs))
	run.Add(term, c, strings.Contains(forms(c.RSrc)+forms(c.RTgt), "match_re"))
}
