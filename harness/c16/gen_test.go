//go:build verif

package c16

import "verifharness/vh"

func genAll(env vh.Env, r *vh.Rand) []Case {
	var cases []Case
	for i, n := 0, env.N(400, 15); i < n; i++ {
		cases = append(cases, genMatchCase(r.Fork()))
	}
	for i, n := 0, env.N(300, 13); i < n; i++ {
		cases = append(cases, genSiteCase(r.Fork()))
	}
	for i, n := 0, env.N(300, 16); i < n; i++ {
		cases = append(cases, genSilCase(r.Fork()))
	}
	for i, n := 0, env.N(200, 15); i < n; i++ {
		cases = append(cases, genSilNCase(r.Fork()))
	}
	for i, n := 0, env.N(200, 15); i < n; i++ {
		cases = append(cases, genAPICase(r.Fork()))
	}
	for i, n := 0, env.N(200, 15); i < n; i++ {
		cases = append(cases, genCfgCase(r.Fork()))
	}
	for i, n := 0, env.N(3, 4); i < n; i++ {
		cases = append(cases, genAmtoolCase(r.Fork()))
	}
	cases = append(cases, genSyntax(env, r)...)
	return cases
}
