//go:build verif

// Package c03: correspondence + direct oracle for C03 (inhibition follows the documented existential rule,
// independent of arrival order). A real inhibit.Inhibitor is fed through a real provider/mem.Alerts subscription
// inside a synctest bubble; its own 15-minute GC tickers are driven by virtual time.
package c03

import (
	"context"
	"fmt"
	"io"
	"log/slog"
	"regexp"
	"sort"
	"strings"
	"sync"
	"testing"
	"testing/synctest"
	"time"

	"github.com/prometheus/client_golang/prometheus"
	"github.com/prometheus/common/model"

	apiv2 "github.com/prometheus/alertmanager/api/v2"
	amcommoncfg "github.com/prometheus/alertmanager/config/common"
	"github.com/prometheus/alertmanager/eventrecorder"
	"github.com/prometheus/alertmanager/featurecontrol"
	"github.com/prometheus/alertmanager/inhibit"
	"github.com/prometheus/alertmanager/marker"
	"github.com/prometheus/alertmanager/notify"
	"github.com/prometheus/alertmanager/pkg/labels"
	"github.com/prometheus/alertmanager/provider"
	"github.com/prometheus/alertmanager/provider/mem"
	"github.com/prometheus/alertmanager/types"

	"verifharness/appsys"
	"verifharness/sysrun"
	"verifharness/vh"
	"verifharness/vhm"
)

// ---- JSON/replayable form of a case ----

type MatcherJ struct {
	T string `json:"t"` // = != =~ !~
	N string `json:"n"`
	V string `json:"v"`
}

type RuleJ struct {
	Src   []MatcherJ `json:"src"`
	Tgt   []MatcherJ `json:"tgt"`
	Equal []string   `json:"equal"`
}

type Op struct {
	Kind    string `json:"kind"`              // put | tick | reload
	Dt      int64  `json:"dt"`                // virtual ns slept before the op
	L       int    `json:"l,omitempty"`       // put: index of the label set
	Start   int64  `json:"start,omitempty"`   // put: StartsAt = now - start
	End     int64  `json:"end,omitempty"`     // put: EndsAt = now + end (negative or 0: already resolved)
	NoEnd   bool   `json:"noend,omitempty"`   // put: EndsAt is the zero time
	Timeout bool   `json:"timeout,omitempty"` // put: Alert.Timeout flag (only matters to the provider's merge)
	Pend    []Op   `json:"pend,omitempty"`    // reload: puts published after the new inhibitor subscribed and before it processed the snapshot
}

type Case struct {
	Rules      []RuleJ             `json:"rules"`
	RuleStyle  int                 `json:"rule_style,omitempty"` // 0 = Go values, 1 = YAML legacy syntax where possible, 2 = YAML matchers syntax (yamlcfg_test.go)
	Lsets      []map[string]string `json:"lsets"`
	ProviderGC int64               `json:"provider_gc"`
	Pre        int                 `json:"pre"`                  // the first Pre ops run before the inhibitor is started (it slurps the result)
	StartPend  []Op                `json:"start_pend,omitempty"` // like Op.Pend, for the initial start
	// Race != nil: not a history but a run of the concurrent engine (race_test.go) with these parameters
	Race *RaceParams `json:"race,omitempty"`
	Ops  []Op        `json:"ops"`
	// GCRace != nil: a run of the refire-during-GC engine (gcrace_test.go) with these parameters
	GCRace *GCRaceParams `json:"gcrace,omitempty"`
	// Hang != nil: a run of the liveness engine (hang_test.go) with these parameters
	Hang *HangParams `json:"hang,omitempty"`
	// Scale != nil: a generated large-class history (scale_test.go) with these parameters
	Scale *ScaleParams `json:"scale,omitempty"`
	// Pipe != nil: a whole-instance scenario for the product model Inhibitor x Group (pipe_test.go)
	Pipe *sysrun.Scenario `json:"pipe,omitempty"`
}

// loadProvider wraps the real provider so that "updates arrive while a new inhibitor is loading" is deterministic:
// SlurpAndSubscribe / Subscribe call the real method and then, before returning to the inhibitor, run onSubscribe
// (which Puts on the real provider: these updates are queued on the fresh subscription behind nothing, while the
// snapshot the inhibitor is about to process still holds the older versions).
type loadProvider struct {
	*mem.Alerts
	onSubscribe func(snapshot []*types.Alert)

	// tap on the subscription handed out last (the running inhibitor's): what was delivered on it
	tapMu   sync.Mutex
	tapN    int
	tapLast *types.Alert
}

// tapIterator forwards an iterator's alerts and records them (so "every live subscriber receives every Put" can be
// judged for the inhibitor's own subscription)
type tapIterator struct {
	inner provider.AlertIterator
	ch    chan *provider.Alert
	quit  chan struct{}
	once  sync.Once
}

func (t *tapIterator) Next() <-chan *provider.Alert { return t.ch }
func (t *tapIterator) Err() error                   { return t.inner.Err() }
func (t *tapIterator) Close() {
	t.once.Do(func() {
		close(t.quit)
		t.inner.Close()
	})
}

func (p *loadProvider) tap(inner provider.AlertIterator) provider.AlertIterator {
	t := &tapIterator{inner: inner, ch: make(chan *provider.Alert, 4096), quit: make(chan struct{})}
	p.tapMu.Lock()
	p.tapN, p.tapLast = 0, nil
	p.tapMu.Unlock()
	note := func(a *provider.Alert) {
		p.tapMu.Lock()
		p.tapN++
		p.tapLast = a.Data
		p.tapMu.Unlock()
	}
	// what is queued already (published while the subscriber was loading) is handed over synchronously, so that the
	// subscriber finds it on its channel exactly as without the tap
backlog:
	for {
		select {
		case a, ok := <-inner.Next():
			if !ok {
				break backlog
			}
			note(a)
			t.ch <- a
		default:
			break backlog
		}
	}
	go func() {
		for {
			select {
			case a, ok := <-inner.Next():
				if !ok {
					return
				}
				note(a)
				select {
				case t.ch <- a:
				case <-t.quit:
					return
				}
			case <-t.quit:
				return
			}
		}
	}()
	return t
}

func (p *loadProvider) tapped() (int, *types.Alert) {
	p.tapMu.Lock()
	defer p.tapMu.Unlock()
	return p.tapN, p.tapLast
}

func (p *loadProvider) SlurpAndSubscribe(name string) ([]*types.Alert, provider.AlertIterator) {
	snapshot, it := p.Alerts.SlurpAndSubscribe(name)
	if f := p.onSubscribe; f != nil {
		p.onSubscribe = nil
		f(snapshot)
	}
	return snapshot, p.tap(it)
}

func (p *loadProvider) Subscribe(name string) provider.AlertIterator {
	var snapshot []*types.Alert
	pit := p.Alerts.GetPending()
	for a := range pit.Next() {
		snapshot = append(snapshot, a.Data)
	}
	pit.Close()
	it := p.Alerts.Subscribe(name)
	if f := p.onSubscribe; f != nil {
		p.onSubscribe = nil
		f(snapshot)
	}
	return p.tap(it)
}

// plainSub stands for the dispatcher: the second subscriber of every generation (the app starts the inhibitor and
// then the dispatcher on every (re)load; both SlurpAndSubscribe)
type plainSub struct {
	mu   sync.Mutex
	n    int
	last *types.Alert
	quit chan struct{}
}

func startPlainSub(prov *mem.Alerts) *plainSub {
	ps := &plainSub{quit: make(chan struct{})}
	_, it := prov.SlurpAndSubscribe("dispatcher")
	go func() {
		defer it.Close()
		for {
			select {
			case a, ok := <-it.Next():
				if !ok {
					return
				}
				ps.mu.Lock()
				ps.n++
				ps.last = a.Data
				ps.mu.Unlock()
			case <-ps.quit:
				return
			}
		}
	}()
	return ps
}

func (ps *plainSub) got() (int, *types.Alert) {
	ps.mu.Lock()
	defer ps.mu.Unlock()
	return ps.n, ps.last
}

var mtypes = map[string]labels.MatchType{"=": labels.MatchEqual, "!=": labels.MatchNotEqual, "=~": labels.MatchRegexp, "!~": labels.MatchNotRegexp}

func mkMatchers(ms []MatcherJ) labels.Matchers {
	out := labels.Matchers{}
	for _, m := range ms {
		x, err := labels.NewMatcher(mtypes[m.T], m.N, m.V)
		if err != nil {
			panic(err)
		}
		out = append(out, x)
	}
	return out
}

func lset(m map[string]string) model.LabelSet {
	ls := model.LabelSet{}
	for k, v := range m {
		ls[model.LabelName(k)] = model.LabelValue(v)
	}
	return ls
}

func sortedUnique(xs []string) []string {
	m := map[string]bool{}
	var out []string
	for _, x := range xs {
		if !m[x] {
			m[x] = true
			out = append(out, x)
		}
	}
	sort.Strings(out)
	return out
}

// ---- generator ----

var matcherPool = []MatcherJ{
	{"=", "sev", "crit"}, {"=", "sev", "crit"}, {"=", "sev", "warn"}, {"=~", "sev", "crit|warn"}, {"!=", "sev", "warn"},
	{"=~", "sev", ".+"}, {"=", "cluster", "a"}, {"=~", "cluster", "a|b"}, {"!=", "cluster", ""}, {"=", "inst", "1"},
	{"!~", "inst", "2|3"}, {"=~", "inst", ".*"}, {"=", "zone", ""}, {"!=", "cluster", "b"},
}

// regexp shapes that tempt a fast path (".+", ".*", "lit.*", ".*lit") and values with line breaks, on which an
// anchored RE2 "." (no (?s)) and HasPrefix/HasSuffix/non-empty tests disagree
var nlMatcherPool = []MatcherJ{
	{"=~", "inst", ".+"}, {"=~", "inst", ".*"}, {"=~", "inst", "node.*"}, {"=~", "inst", ".*12"}, {"!~", "inst", ".+"}, {"!~", "inst", "node.*"},
	{"=~", "cluster", ".*-db"}, {"=~", "cluster", "orders.*"}, {"=~", "cluster", ".+"}, {"!~", "cluster", ".*-db"}, {"!~", "cluster", ".*"},
	{"=~", "sev", "cr.*"}, {"=~", "sev", ".*rn"}, {"=~", "sev", ".+"}, {"=", "sev", "crit"}, {"=", "sev", "warn"},
}

var (
	nlInsts    = []string{"node-7\nrack 12", "node-7\nrack 12", "node-7", "\n", "node-1\n", "\nnode-12", "node\r\n12", ""}
	nlClusters = []string{"orders\n-db", "orders-db", "orders\n-db", "a\n", "a", "\r\n", ""}
	nlSevs     = []string{"crit", "warn", "crit", "warn", "crit\n", "\nwarn", ""}
)

var equalPool = [][]string{{}, {"cluster"}, {"cluster"}, {"cluster"}, {"inst"}, {"cluster", "inst"}, {"zone"}, {"cluster", "zone"}, {"sev"}, {"inst", "inst"}}

var (
	dts      = []int64{0, 0, int64(time.Second), int64(time.Minute), int64(4 * time.Minute), int64(6 * time.Minute), int64(10 * time.Minute), int64(16 * time.Minute), int64(31 * time.Minute)}
	ends     = []int64{int64(5 * time.Minute), int64(5 * time.Minute), int64(12 * time.Minute), int64(20 * time.Minute), int64(time.Hour), int64(time.Hour), int64(2 * time.Hour), -int64(time.Second), 0, -int64(10 * time.Minute), 1}
	startsB  = []int64{0, int64(time.Minute), int64(time.Hour)}
	provGCs  = []int64{int64(7 * time.Minute), int64(30 * time.Minute), int64(30 * time.Minute), int64(3 * time.Hour)}
	sevs     = []string{"crit", "crit", "warn", "warn", ""}
	clusters = []string{"a", "a", "b", ""}
	insts    = []string{"1", "2", ""}
)

func genMatchers(r *vh.Rand) []MatcherJ {
	n := vh.Pick(r, []int{1, 1, 1, 1, 2, 2, 0})
	var out []MatcherJ
	for i := 0; i < n; i++ {
		out = append(out, vh.Pick(r, matcherPool))
	}
	return out
}

func genLset(r *vh.Rand) map[string]string {
	for {
		m := map[string]string{}
		if v := vh.Pick(r, sevs); v != "" {
			m["sev"] = v
		}
		if v := vh.Pick(r, clusters); v != "" {
			m["cluster"] = v
		}
		if v := vh.Pick(r, insts); v != "" {
			m["inst"] = v
		}
		if len(m) > 0 {
			return m
		}
	}
}

// ---- adversarial equal-label values: rules with >= 2 equal labels whose values collide under concatenation ----
// (cluster="a", ns="b") / (cluster="ab", ns missing) / (cluster missing, ns="ab") differ label by label but any
// index key built from the values without a separator confuses them.

var (
	advAlphabet  = []string{"", "", "a", "b", "ab", "ba", "aa", "aab", "abb"}
	advNames     = []string{"cluster", "ns", "zone"}
	advEqualPool = [][]string{{"cluster", "ns"}, {"cluster", "ns"}, {"ns", "zone"}, {"cluster", "zone"}, {"cluster", "ns", "zone"}, {"zone", "cluster", "ns"}}
	advSrcPool   = [][]MatcherJ{{{"=", "sev", "crit"}}, {{"=", "sev", "crit"}}, {{"=~", "sev", "crit|warn"}}, {{"!=", "sev", "warn"}}, {}}
	advTgtPool   = [][]MatcherJ{{{"=", "sev", "warn"}}, {{"=", "sev", "warn"}}, {{"=~", "sev", "crit|warn"}}, {{"!=", "sev", "crit"}}, {}}
)

func concatValues(m map[string]string, names []string) string {
	w := ""
	for _, n := range names {
		w += m[n]
	}
	return w
}

// resplit cuts w into n consecutive (possibly empty) parts at random positions
func resplit(r *vh.Rand, w string, n int) []string {
	cuts := make([]int, n-1)
	for i := range cuts {
		cuts[i] = r.Intn(len(w) + 1)
	}
	sort.Ints(cuts)
	parts := make([]string, 0, n)
	prev := 0
	for _, c := range cuts {
		parts = append(parts, w[prev:c])
		prev = c
	}
	return append(parts, w[prev:])
}

func genAdvLset(r *vh.Rand, rules []RuleJ, have []map[string]string) map[string]string {
	for {
		m := map[string]string{}
		if v := vh.Pick(r, sevs); v != "" {
			m["sev"] = v
		}
		for _, n := range advNames {
			if v := vh.Pick(r, advAlphabet); v != "" {
				m[n] = v
			}
		}
		if len(have) > 0 && r.Chance(3, 5) {
			// same concatenation as an existing label set under some rule's equal list, split differently
			base := vh.Pick(r, have)
			eq := sortedUnique(vh.Pick(r, rules).Equal)
			for i, v := range resplit(r, concatValues(base, eq), len(eq)) {
				delete(m, eq[i])
				if v != "" {
					m[eq[i]] = v
				}
			}
			if r.Chance(1, 2) { // often the opposite side of the rule
				switch base["sev"] {
				case "crit":
					m["sev"] = "warn"
				case "warn":
					m["sev"] = "crit"
				}
			}
		}
		if len(m) > 0 {
			return m
		}
	}
}

func genNlLset(r *vh.Rand) map[string]string {
	for {
		m := map[string]string{}
		if v := vh.Pick(r, nlSevs); v != "" {
			m["sev"] = v
		}
		if v := vh.Pick(r, nlClusters); v != "" {
			m["cluster"] = v
		}
		if v := vh.Pick(r, nlInsts); v != "" {
			m["inst"] = v
		}
		if len(m) > 0 {
			return m
		}
	}
}

func genCase(r *vh.Rand, maxOps int) Case {
	c := Case{ProviderGC: vh.Pick(r, provGCs)}
	nr := vh.Pick(r, []int{1, 1, 1, 2, 2, 3})
	adversarial := r.Chance(1, 3)
	lineBreaks := !adversarial && r.Chance(1, 4) // regexp fast-path shapes x values with line breaks
	for i := 0; i < nr; i++ {
		if lineBreaks {
			pick := func() []MatcherJ {
				out := []MatcherJ{vh.Pick(r, nlMatcherPool)}
				if r.Chance(1, 3) {
					out = append(out, vh.Pick(r, nlMatcherPool))
				}
				return out
			}
			c.Rules = append(c.Rules, RuleJ{Src: pick(), Tgt: pick(), Equal: append([]string{}, vh.Pick(r, equalPool)...)})
			continue
		}
		if adversarial {
			c.Rules = append(c.Rules, RuleJ{Src: append([]MatcherJ{}, vh.Pick(r, advSrcPool)...), Tgt: append([]MatcherJ{}, vh.Pick(r, advTgtPool)...), Equal: append([]string{}, vh.Pick(r, advEqualPool)...)})
			continue
		}
		c.Rules = append(c.Rules, RuleJ{Src: genMatchers(r), Tgt: genMatchers(r), Equal: append([]string{}, vh.Pick(r, equalPool)...)})
	}
	c.RuleStyle = vh.Pick(r, []int{styleStructs, styleLegacy, styleLegacy, styleLegacy, styleNew, styleNew})
	if len(c.Rules) > 1 && r.Chance(1, 3) { // several rules over the same equal list
		for i := range c.Rules {
			c.Rules[i].Equal = append([]string{}, c.Rules[0].Equal...)
		}
	}
	nl := r.Range(3, 6)
	seen := map[string]bool{}
	for tries := 0; len(c.Lsets) < nl; tries++ {
		var m map[string]string
		if adversarial && tries < 200 {
			m = genAdvLset(r, c.Rules, c.Lsets)
		} else if lineBreaks && tries < 200 {
			m = genNlLset(r)
		} else {
			m = genLset(r)
		}
		k := fmt.Sprint(m)
		if seen[k] {
			continue
		}
		seen[k] = true
		c.Lsets = append(c.Lsets, m)
	}
	n := r.Range(3, maxOps)
	// lifecycle flavour: several generations of subscribers with provider GC ticks (which drop the closed
	// subscribers of earlier generations) in between
	lifecycleCase := r.Chance(1, 4)
	if lifecycleCase {
		c.ProviderGC = vh.Pick(r, []int64{int64(2 * time.Minute), int64(7 * time.Minute)})
		n = r.Range(6, maxOps+4)
	}
	if r.Chance(1, 3) {
		c.Pre = r.Range(1, 4)
	}
	var putL []int // label sets put so far
	genPut := func(op *Op, preferKnown bool) {
		op.Kind = "put"
		op.L = r.Intn(nl)
		if preferKnown && len(putL) > 0 && r.Chance(3, 4) {
			op.L = vh.Pick(r, putL)
		}
		op.Start = vh.Pick(r, startsB)
		op.End = vh.Pick(r, ends)
		op.NoEnd = r.Chance(1, 20)
		op.Timeout = r.Chance(1, 4)
	}
	// updates that arrive while a new inhibitor loads: resolves / refreshes / re-fires of what the provider
	// holds, and brand-new alerts
	genPend := func() []Op {
		var out []Op
		for k := vh.Pick(r, []int{0, 1, 1, 2, 2, 3}); k > 0; k-- {
			var op Op
			genPut(&op, true)
			out = append(out, op)
		}
		for _, op := range out {
			putL = append(putL, op.L)
		}
		return out
	}
	if c.Pre == 0 {
		c.StartPend = genPend()
	}
	for i := 0; i < n; i++ {
		op := Op{Dt: vh.Pick(r, dts)}
		if i == c.Pre && c.Pre > 0 {
			c.StartPend = genPend()
		}
		k := r.Intn(20)
		if lifecycleCase && k >= 11 && k < 17 && i >= c.Pre {
			k = vh.Pick(r, []int{14, 17, 17}) // more reloads
		}
		switch {
		case k < 14 || i < c.Pre:
			genPut(&op, false)
			putL = append(putL, op.L)
		case k < 17:
			op.Kind = "tick"
		default:
			op.Kind = "reload"
			op.Pend = genPend()
		}
		c.Ops = append(c.Ops, op)
	}
	return c
}

// ---- execution against the real inhibitor ----

const gcInterval = int64(15 * time.Minute) // inhibit.go: rule.scache.Run(runCtx, 15*time.Minute)

var nopLogger = slog.New(slog.NewTextHandler(io.Discard, nil))

func znano(t time.Time) int64 {
	if t.IsZero() {
		return 0
	}
	return t.UnixNano()
}

// coqPut renders "the inhibitor was sent this update of label set number l" (xop of Run/C03Run.v)
func coqPut(l int, a *types.Alert) string {
	return vh.App("XPut", vh.Z(int64(l)), vh.Z(znano(a.StartsAt)), vh.Z(znano(a.EndsAt)), vh.Z(znano(a.UpdatedAt)))
}

// oMatchers: the direct oracle's own matcher evaluation, independent of pkg/labels: Go's regexp, anchored here
// (alertmanager matchers are anchored RE2 without (?s): "." does not match a line break)
type oMatcher struct {
	t, n, v string
	re      *regexp.Regexp
}
type oMatchers []oMatcher

func mkOracleMatchers(ms []MatcherJ) oMatchers {
	out := oMatchers{}
	for _, m := range ms {
		om := oMatcher{t: m.T, n: m.N, v: m.V}
		if m.T == "=~" || m.T == "!~" {
			om.re = regexp.MustCompile("^(?:" + m.V + ")$")
		}
		out = append(out, om)
	}
	return out
}

func (m oMatcher) matchesValue(v string) bool {
	switch m.t {
	case "=":
		return v == m.v
	case "!=":
		return v != m.v
	case "=~":
		return m.re.MatchString(v)
	default:
		return !m.re.MatchString(v)
	}
}

func (ms oMatchers) Matches(ls model.LabelSet) bool {
	for _, m := range ms {
		if !m.matchesValue(string(ls[model.LabelName(m.n)])) {
			return false
		}
	}
	return true
}

type ruleM struct {
	src, tgt oMatchers
	equal    []string
}

func (r ruleM) eqOn(a, b model.LabelSet) bool {
	for _, n := range r.equal {
		if a[model.LabelName(n)] != b[model.LabelName(n)] {
			return false
		}
	}
	return true
}

func (r ruleM) concat(a model.LabelSet) string {
	w := ""
	for _, n := range r.equal {
		w += string(a[model.LabelName(n)])
	}
	return w
}

type result struct {
	term string
	viol []vh.Violation
	tags map[string]int
}

func runCase(t *testing.T, c *Case) result {
	res := result{tags: map[string]int{}}
	violate := func(key, what string) {
		res.viol = append(res.viol, vh.Violation{Key: key, What: what, Case: c})
	}
	var hist []string
	synctest.Test(t, func(t *testing.T) {
		ctx, cancel := context.WithCancel(context.Background())
		defer cancel()
		prov, err := mem.NewAlerts(ctx, time.Duration(c.ProviderGC), 0, nil, nopLogger, eventrecorder.NopRecorder(), prometheus.NewRegistry(), nil)
		if err != nil {
			t.Fatal(err)
		}
		defer prov.Close()
		lprov := &loadProvider{Alerts: prov}

		// rules: the real configuration type for the inhibitor, and the same matchers for the direct oracle
		var cfg []amcommoncfg.InhibitRule
		var rules []ruleM
		for _, rj := range c.Rules {
			src, tgt := mkMatchers(rj.Src), mkMatchers(rj.Tgt)
			cfg = append(cfg, amcommoncfg.InhibitRule{SourceMatchers: amcommoncfg.Matchers(src), TargetMatchers: amcommoncfg.Matchers(tgt), Equal: rj.Equal})
			rules = append(rules, ruleM{src: mkOracleMatchers(rj.Src), tgt: mkOracleMatchers(rj.Tgt), equal: sortedUnique(rj.Equal)})
			// the code's matchers against the anchored regexp, on every value of the case
			for _, side := range [][]MatcherJ{rj.Src, rj.Tgt} {
				real, own := mkMatchers(side), mkOracleMatchers(side)
				for k := range side {
					for _, m := range c.Lsets {
						v := m[side[k].N]
						if real[k].Matches(v) != own[k].matchesValue(v) {
							violate("matcher-differs-from-anchored-regexp", fmt.Sprintf("rule matcher %s%s%q: labels.Matcher.Matches(%q)=%v but the anchored regular expression / comparison says %v", side[k].N, side[k].T, side[k].V, v, real[k].Matches(v), own[k].matchesValue(v)))
						}
						if strings.ContainsAny(v, "\r\n") && (side[k].T == "=~" || side[k].T == "!~") {
							res.tags["regexp-matcher-on-value-with-line-break"]++
						}
					}
				}
			}
		}
		// the rules reach the inhibitor through a configuration file loaded by config.Load
		if c.RuleStyle != styleStructs {
			loaded, legacyRules, wrong, err := loadRules(c.Rules, c.RuleStyle)
			switch {
			case err != nil:
				res.tags["rules-as-go-values(config-rejected-the-yaml)"]++
			default:
				cfg = loaded
				res.tags[fmt.Sprintf("rules-through-config.Load(style=%d)", c.RuleStyle)]++
				if legacyRules >= 2 {
					res.tags["config-with-2+-legacy-syntax-rules"]++
				}
				if wrong != "" {
					violate("configured-inhibit-rule-not-in-force", wrong)
				}
			}
		} else {
			res.tags["rules-as-go-values"]++
		}
		lsets := make([]model.LabelSet, len(c.Lsets))
		fpIdx := map[model.Fingerprint]int{}
		fpStr := map[string]int{}
		for i, m := range c.Lsets {
			lsets[i] = lset(m)
			fpIdx[lsets[i].Fingerprint()] = i
			fpStr[lsets[i].Fingerprint().String()] = i
		}
		metrics := notify.NewMetrics(prometheus.NewRegistry(), featurecontrol.NoopFlags{})

		var ih *inhibit.Inhibitor
		var disp *plainSub // the dispatcher stand-in of the running generation
		provT0 := time.Now().UnixNano()
		generation, lifecycle := 0, false
		fanoutBroken := false // the running inhibitor's subscription missed a Put in this generation
		var ticksAtLastStart int64
		var gcNext int64
		lastUpd := map[int]*types.Alert{} // label set index -> latest stored update (what the inhibitor was sent)
		loadPend := map[int]bool{}        // label set index -> its latest update was published while the running inhibitor was loading
		gcSince := map[int]bool{}         // label set index -> an inhibitor GC ran at or after the instant its latest update became resolved
		nowNs := func() int64 { return time.Now().UnixNano() }

		provAlerts := func() []*types.Alert {
			it := prov.GetPending()
			defer it.Close()
			var out []*types.Alert
			for a := range it.Next() {
				out = append(out, a.Data)
			}
			sort.Slice(out, func(i, j int) bool { return fpIdx[out[i].Fingerprint()] < fpIdx[out[j].Fingerprint()] })
			return out
		}

		// observe: Mutes + marker for every label set, the exported cache/index content, MuteStage, direct oracle
		observe := func(opDesc string) string {
			now := time.Now()
			var firing []*types.Alert
			for _, a := range provAlerts() {
				if !a.ResolvedAt(now) {
					firing = append(firing, a)
				}
			}
			got := make([]bool, len(lsets))
			var mterms []string
			for j, ls := range lsets {
				mk := marker.NewAlertMarker()
				muted := ih.Mutes(marker.WithContext(ctx, mk), ls)
				got[j] = muted
				// what GET /api/v2/alerts reports: predictAlertStatus' marker status through AlertToOpenAPIAlert
				ga := apiv2.AlertToOpenAPIAlert(&types.Alert{Alert: model.Alert{Labels: ls, StartsAt: now}, UpdatedAt: now}, mk.Status(ls.Fingerprint()), nil, nil)
				inhBy, state := ga.Status.InhibitedBy, *ga.Status.State
				by := "(-1)"
				byIdx := -1
				switch {
				case muted && len(inhBy) == 1:
					if k, ok := fpStr[inhBy[0]]; ok {
						byIdx = k
						by = vh.Z(int64(k))
					} else {
						by = "999"
						violate("inhibitedBy-unknown-fingerprint", fmt.Sprintf("%s: inhibitedBy %q is not the fingerprint of any alert ever sent", opDesc, inhBy[0]))
					}
				case !muted && len(inhBy) == 0:
				default:
					violate("marker-inconsistent-with-verdict", fmt.Sprintf("%s: Mutes(%v)=%v but API status inhibitedBy=%v", opDesc, ls, muted, inhBy))
				}
				if muted != (state == "suppressed") || (!muted && state != "active") {
					violate("marker-inconsistent-with-verdict", fmt.Sprintf("%s: Mutes(%v)=%v but API status state=%s", opDesc, ls, muted, state))
				}
				if muted && by == "(-1)" {
					by = "998"
				}
				mterms = append(mterms, by)

				// ---- direct oracle: the documented existential rule over the provider's firing alerts ----
				want := false
				witness := map[int]bool{}
				for ri, r := range rules {
					if !r.tgt.Matches(ls) {
						continue
					}
					res.tags["target-side-matches"]++
					nSame, nExcluded, nWit := 0, 0, 0
					if len(r.equal) >= 2 {
						res.tags["target-of-rule-with-2+-equal-labels"]++
					}
					for _, s := range firing {
						if r.src.Matches(s.Labels) && !r.eqOn(s.Labels, ls) && len(r.equal) >= 2 && r.concat(s.Labels) == r.concat(ls) {
							// a firing source that differs label by label but whose equal-label values concatenate
							// to the same string: must NOT inhibit
							res.tags[fmt.Sprintf("concat-equal-but-labelwise-different-source/target-pair(%d equal labels)", len(r.equal))]++
							if !(r.src.Matches(ls) && r.tgt.Matches(s.Labels)) {
								res.tags["concat-equal-but-labelwise-different-pair-would-inhibit-if-confused"]++
							}
						}
						if !r.src.Matches(s.Labels) || !r.eqOn(s.Labels, ls) {
							continue
						}
						nSame++
						if r.src.Matches(ls) && r.tgt.Matches(s.Labels) {
							nExcluded++
							continue
						}
						nWit++
						if !want && ri > 0 {
							res.tags["inhibited-by-a-later-rule-only"]++
						}
						want = true
						witness[fpIdx[s.Fingerprint()]] = true
						for _, n := range r.equal {
							if ls[model.LabelName(n)] == "" {
								res.tags["equal-label-missing-on-both-sides"]++
								break
							}
						}
					}
					if nSame > 1 {
						res.tags["several-firing-sources-share-equal-values"]++
					}
					if nExcluded > 0 {
						res.tags["two-sided-source-excluded"]++
						if nWit > 0 {
							res.tags["shape-c:two-sided-and-one-sided-source-share-equal-values"]++
						}
					}
					if nWit > 0 {
						for k, a := range lastUpd {
							if r.src.Matches(a.Labels) && r.eqOn(a.Labels, ls) && a.ResolvedAt(now) {
								if gcSince[k] {
									res.tags["shape-b:equal-source-collected-while-other-fires"]++
								} else {
									res.tags["shape-a:equal-source-resolved-in-cache-while-other-fires"]++
								}
							}
						}
					}
				}
				switch {
				case want && !muted:
					key := "missed-inhibition"
					// classify by the shape of the history (the three shapes of DESIGN F2)
					for _, r := range rules {
						if !r.tgt.Matches(ls) {
							continue
						}
						hasWitness, twoSidedFiring, resolvedCached, resolvedCollected := false, false, false, false
						for _, s := range firing {
							if r.src.Matches(s.Labels) && r.eqOn(s.Labels, ls) {
								if r.src.Matches(ls) && r.tgt.Matches(s.Labels) {
									twoSidedFiring = true
								} else {
									hasWitness = true
								}
							}
						}
						if !hasWitness {
							continue
						}
						for k, a := range lastUpd {
							if r.src.Matches(a.Labels) && r.eqOn(a.Labels, ls) && a.ResolvedAt(now) {
								if gcSince[k] {
									resolvedCollected = true
								} else {
									resolvedCached = true
								}
							}
						}
						lostDuringLoad := false
						for _, s := range firing {
							if loadPend[fpIdx[s.Fingerprint()]] && r.src.Matches(s.Labels) && r.eqOn(s.Labels, ls) && !(r.src.Matches(ls) && r.tgt.Matches(s.Labels)) {
								lostDuringLoad = true
							}
						}
						switch {
						case fanoutBroken:
							key = "live-subscriber-missed-put"
						case lostDuringLoad:
							key = "update-during-load-lost"
						case twoSidedFiring:
							key = "two-sided-indexed-hides-one-sided-source"
						case resolvedCached:
							key = "indexed-source-resolved-while-equal-source-fires"
						case resolvedCollected:
							key = "gc-deletes-index-of-other-source"
						}
						break
					}
					violate(key, fmt.Sprintf("%s at %s: %v is a target and a firing source with equal labels exists (e.g. label set #%d) but Mutes says false", opDesc, now.UTC().Format(time.RFC3339), ls, firstKey(witness)))
				case !want && muted:
					key := "inhibited-without-firing-source"
					confused := fanoutBroken
					if fanoutBroken {
						key = "live-subscriber-missed-put"
					}
					if byIdx >= 0 && !fanoutBroken {
						// the reported inhibitor fires and is a source, but does not share the equal-label values
						for _, s := range firing {
							if fpIdx[s.Fingerprint()] != byIdx {
								continue
							}
							for _, r := range rules {
								if r.tgt.Matches(ls) && r.src.Matches(s.Labels) && !r.eqOn(s.Labels, ls) {
									confused = true
									key = "inhibited-by-source-with-different-equal-values"
									if r.concat(s.Labels) == r.concat(ls) {
										key = "equal-values-confused-by-concatenation"
									}
								}
							}
						}
					}
					for k, a := range lastUpd {
						if confused {
							break
						}
						if loadPend[k] && a.ResolvedAt(now) {
							for _, r := range rules {
								if r.tgt.Matches(ls) && r.src.Matches(a.Labels) && r.eqOn(a.Labels, ls) {
									key = "update-during-load-lost"
								}
							}
						}
					}
					violate(key, fmt.Sprintf("%s at %s: Mutes(%v) is true but no firing alert inhibits it under any rule", opDesc, now.UTC().Format(time.RFC3339), ls))
				case want && muted && byIdx >= 0 && !witness[byIdx]:
					violate("inhibitedBy-not-a-witness", fmt.Sprintf("%s: Mutes(%v) reports inhibitedBy label set #%d which is not a firing source with equal labels", opDesc, ls, byIdx))
				}
				if want {
					res.tags["verdict-muted"]++
				} else {
					res.tags["verdict-not-muted"]++
				}
			}
			// MuteStage with the real inhibitor drops exactly the muted alerts
			var in []*types.Alert
			for _, ls := range lsets {
				in = append(in, &types.Alert{Alert: model.Alert{Labels: ls, StartsAt: now}, UpdatedAt: now})
			}
			_, out, err := notify.NewMuteStage(ih, metrics).Exec(ctx, nopLogger, in...)
			var wantOut []*types.Alert
			for j := range lsets {
				if !got[j] {
					wantOut = append(wantOut, in[j])
				}
			}
			if err != nil || len(out) != len(wantOut) {
				violate("mute-stage-mismatch", fmt.Sprintf("%s: MuteStage passed %d alerts, Mutes says %d are not muted (err=%v)", opDesc, len(out), len(wantOut), err))
			} else {
				for j := range out {
					if out[j] != wantOut[j] {
						violate("mute-stage-mismatch", opDesc+": MuteStage output is not the list of alerts that are not muted, in order")
						break
					}
				}
			}
			// cache / index content
			var sterms []string
			for _, rs := range ih.VerifState() {
				sort.Slice(rs.Cached, func(i, j int) bool { return fpIdx[rs.Cached[i]] < fpIdx[rs.Cached[j]] })
				cached := vh.ListOf(rs.Cached, func(f model.Fingerprint) string { return vh.Z(int64(fpIdx[f])) })
				var classes []string
				for _, cl := range rs.Index {
					sort.Slice(cl, func(i, j int) bool { return fpIdx[cl[i]] < fpIdx[cl[j]] })
					classes = append(classes, vh.ListOf(cl, func(f model.Fingerprint) string { return vh.Z(int64(fpIdx[f])) }))
					if len(cl) > 1 {
						res.tags["index-class-with-several-sources"]++
					}
				}
				sort.Strings(classes)
				sterms = append(sterms, vh.Pair(cached, vh.List(classes)))
			}
			return vh.Some(vh.App("mkObs", vh.List(mterms), vh.List(sterms)))
		}

		record := func(now int64, xop, obs string) {
			hist = append(hist, fmt.Sprintf("(%s, %s, %s)", vh.Z(now), xop, obs))
		}

		// mkAlert builds the alert of a put op at the current virtual instant
		mkAlert := func(op *Op) *types.Alert {
			now := time.Now()
			a := &types.Alert{Alert: model.Alert{Labels: lsets[op.L].Clone(), StartsAt: now.Add(-time.Duration(op.Start))}, UpdatedAt: now, Timeout: op.Timeout}
			if !op.NoEnd {
				a.EndsAt = now.Add(time.Duration(op.End))
				if a.EndsAt.Before(a.StartsAt) {
					a.StartsAt = a.EndsAt
				}
			}
			return a
		}
		coqEntry := func(a *types.Alert) string {
			return "(" + strings.Join([]string{vh.Z(int64(fpIdx[a.Fingerprint()])), vh.Z(znano(a.StartsAt)), vh.Z(znano(a.EndsAt)), vh.Z(znano(a.UpdatedAt))}, ", ") + ")"
		}
		isSource := func(ls model.LabelSet) bool {
			for _, r := range rules {
				if r.src.Matches(ls) {
					return true
				}
			}
			return false
		}
		resolvedAtRestart := map[int]bool{} // sources the running inhibitor first saw as resolved (in its snapshot)
		var firstGCAfterRestart int64

		// start a NEW inhibitor; pend is published on the provider after the inhibitor subscribed (snapshot taken)
		// and before it has processed anything
		start := func(why string, pend []Op) {
			var snapTerms, pendTerms []string
			lprov.onSubscribe = func(snapshot []*types.Alert) {
				now := time.Now()
				inSnap := map[int]*types.Alert{}
				resolvedAtRestart = map[int]bool{}
				loadPend = map[int]bool{}
				for _, a := range snapshot {
					k := fpIdx[a.Fingerprint()]
					inSnap[k] = a
					snapTerms = append(snapTerms, coqEntry(a))
					res.tags["snapshot-alert"]++
					if a.ResolvedAt(now) {
						res.tags["snapshot-holds-resolved-alert"]++
						if isSource(a.Labels) {
							resolvedAtRestart[k] = true
						}
					}
				}
				for i := range pend {
					a := mkAlert(&pend[i])
					if err := prov.Put(ctx, a); err != nil {
						t.Fatalf("Put during load: %v", err)
					}
					stored, err := prov.Get(a.Fingerprint())
					if err != nil {
						t.Fatalf("Get after Put during load: %v", err)
					}
					k := pend[i].L
					kind := "new-alert"
					if old, ok := inSnap[k]; ok {
						switch or, nr := old.ResolvedAt(now), stored.ResolvedAt(now); {
						case !or && nr:
							kind = "resolve-of-snapshot-alert"
						case or && !nr:
							kind = "refire-of-resolved-snapshot-alert"
						case or && nr:
							kind = "resolved-again"
						case stored.EndsAt.After(old.EndsAt) || (stored.EndsAt.IsZero() && !old.EndsAt.IsZero()):
							kind = "refresh-with-later-end"
						case stored.EndsAt.Before(old.EndsAt) || old.EndsAt.IsZero():
							kind = "refresh-with-earlier-end"
						default:
							kind = "refresh-same-end"
						}
					}
					if isSource(stored.Labels) {
						kind += "(source)"
					}
					res.tags["during-load:"+kind]++
					inSnap[k] = stored
					lastUpd[k] = stored
					gcSince[k] = false
					loadPend[k] = true
					pendTerms = append(pendTerms, coqEntry(stored))
				}
			}
			ih = inhibit.NewInhibitor(lprov, cfg, nopLogger, eventrecorder.NopRecorder())
			go ih.Run()
			synctest.Wait()
			ih.WaitForLoading()
			if lprov.onSubscribe != nil {
				t.Fatalf("the inhibitor did not subscribe to the provider")
			}
			disp = startPlainSub(prov) // second subscriber of the generation, after the inhibitor, like the app
			synctest.Wait()
			now := nowNs()
			generation++
			fanoutBroken = false
			provTicks := (now - provT0) / c.ProviderGC
			lifecycle = generation >= 3 && provTicks > ticksAtLastStart // start, reload, provider GC, reload
			if lifecycle {
				res.tags["lifecycle:reload-after-provider-gc-after-earlier-reload"]++
			}
			ticksAtLastStart = provTicks
			gcNext = now + gcInterval
			firstGCAfterRestart = gcNext
			res.tags["restart"]++
			if len(pend) > 0 {
				res.tags["restart-with-updates-during-load"]++
			}
			record(now, vh.App("XRestart", vh.List(snapTerms), vh.List(pendTerms)), observe(why))
		}
		stop := func() {
			ih.Stop()
			close(disp.quit)
			synctest.Wait()
		}

		// advance virtual time by dt, stopping at every instant one of the inhibitor's GC tickers fires
		advance := func(dt int64) {
			target := nowNs() + dt
			for ih != nil && gcNext <= target {
				time.Sleep(time.Duration(gcNext - nowNs()))
				synctest.Wait()
				now := time.Now()
				for k, a := range lastUpd {
					if a.ResolvedAt(now) {
						gcSince[k] = true
					}
				}
				res.tags["gc"]++
				record(gcNext, "XGC", observe("inhibitor GC tick"))
				gcNext += gcInterval
			}
			if d := target - nowNs(); d > 0 {
				time.Sleep(time.Duration(d))
			}
			synctest.Wait()
		}

		if c.Pre == 0 {
			start("start", c.StartPend)
		}
		for i := range c.Ops {
			op := &c.Ops[i]
			if ih == nil && i == c.Pre {
				start("start after pre-existing alerts", c.StartPend)
			}
			advance(op.Dt)
			now := time.Now()
			desc := fmt.Sprintf("op %d (%s)", i, op.Kind)
			switch op.Kind {
			case "put":
				a := mkAlert(op)
				var tapN0, dispN0 int
				if ih != nil {
					tapN0, _ = lprov.tapped()
					dispN0, _ = disp.got()
				}
				if err := prov.Put(ctx, a); err != nil {
					t.Fatalf("Put: %v", err)
				}
				synctest.Wait()
				stored, err := prov.Get(a.Fingerprint())
				if err != nil {
					t.Fatalf("Get after Put: %v", err)
				}
				if ih != nil {
					// every live subscriber receives every Put: exactly the stored version, exactly once
					res.tags["deliveries-checked"]++
					if lifecycle {
						res.tags["lifecycle:put-after-reload-gc-reload"]++
					}
					if n, last := lprov.tapped(); n != tapN0+1 || last != stored {
						fanoutBroken = true
						violate("live-subscriber-missed-put", fmt.Sprintf("%s at %s (generation %d): the running inhibitor's subscription received %d alerts for this Put (want 1, the stored version)", desc, now.UTC().Format(time.RFC3339), generation, n-tapN0))
					}
					if n, last := disp.got(); n != dispN0+1 || last != stored {
						violate("live-subscriber-missed-put", fmt.Sprintf("%s at %s (generation %d): the second subscriber (dispatcher stand-in) received %d alerts for this Put (want 1, the stored version)", desc, now.UTC().Format(time.RFC3339), generation, n-dispN0))
					}
				}
				lastUpd[op.L] = stored
				gcSince[op.L] = false
				delete(loadPend, op.L)
				if stored.ResolvedAt(now) {
					res.tags["put-resolved"]++
				} else {
					res.tags["put-firing"]++
					if ih != nil && resolvedAtRestart[op.L] && now.UnixNano() < firstGCAfterRestart {
						res.tags["source-resolved-at-restart-refires-before-first-gc"]++
					}
				}
				delete(resolvedAtRestart, op.L)
				if !stored.EndsAt.Equal(a.EndsAt) || !stored.StartsAt.Equal(a.StartsAt) {
					res.tags["put-merged-by-provider"]++
				}
				obs := "None" // before the first start there is no inhibitor to observe
				if ih != nil {
					obs = observe(desc)
				} else {
					res.tags["put-before-first-start"]++
				}
				record(now.UnixNano(), coqPut(op.L, stored), obs)
			case "tick":
				res.tags["tick"]++
				if ih != nil {
					record(now.UnixNano(), "XTick", observe(desc))
				}
			case "reload":
				if ih != nil {
					res.tags["reload"]++
					stop()
					start(desc, op.Pend)
				}
			}
		}
		if ih == nil {
			start("start after all ops", c.StartPend)
		}
		stop()
		prov.Close()
		cancel()
		synctest.Wait()
	})

	// Coq term
	var rterms []string
	var patterns []string
	values := map[string]bool{"": true}
	for _, rj := range c.Rules {
		rterms = append(rterms, vh.App("mkRule", vhm.Matchers(mkMatchers(rj.Src)), vhm.Matchers(mkMatchers(rj.Tgt)), vh.ListOf(sortedUnique(rj.Equal), vh.Str)))
		for _, m := range append(append([]MatcherJ{}, rj.Src...), rj.Tgt...) {
			if m.T == "=~" || m.T == "!~" {
				patterns = append(patterns, m.V)
			}
		}
	}
	for _, m := range c.Lsets {
		for _, v := range m {
			values[v] = true
		}
	}
	vals := make([]string, 0, len(values))
	for v := range values {
		vals = append(vals, v)
	}
	sort.Strings(vals)
	res.term = fmt.Sprintf("mkCase %s\n  %s\n  %s [\n  %s]", vhm.ReTable(patterns, vals), vh.List(rterms),
		vh.ListOf(c.Lsets, func(m map[string]string) string { return vhm.Labels(lset(m)) }), strings.Join(hist, ";\n  "))
	return res
}

func firstKey(m map[int]bool) int {
	best := -1
	for k := range m {
		if best < 0 || k < best {
			best = k
		}
	}
	return best
}

func TestCheck(t *testing.T) {
	env := vh.GetEnv()
	run := vh.NewRun(env, "AM.Run.C03Run")
	// app engine: the REAL application wiring (package app) in real time, in its own process; reports through run.
	// true = the replay file held an app-engine case and has been handled.
	if appsys.Part(t, env, run, "C03") {
		return
	}
	var cases []Case
	if env.Replay != "" {
		var c Case
		if err := vh.LoadReplayCase(env.Replay, &c); err != nil {
			t.Fatal(err)
		}
		if c.Pipe != nil {
			// handled by the pipeline part below
		} else if c.GCRace != nil {
			judgeGCRace(t, run, *c.GCRace)
		} else if c.Hang != nil {
			judgeHang(t, run, *c.Hang)
		} else if c.Race != nil {
			judgeRace(t, run, *c.Race)
		} else {
			cases = append(cases, c)
		}
	} else {
		cases = append(cases, vh.LoadCorpus[Case](env, "C03")...)
		r := vh.NewRand(env.Seed).Fork() // Fork: vh streams of consecutive seeds are the same sequence shifted by one step
		n := env.N(1200, 5)
		maxOps := 12
		if env.Tier == "thorough" {
			maxOps = 24
		}
		for i := 0; i < n; i++ {
			cases = append(cases, genCase(r.Fork(), maxOps))
		}
		cases = append(cases, scalePlan(env, r.Fork())...)
	}
	for i := range cases {
		c := &cases[i]
		var res result
		if c.Scale != nil {
			res = runScale(t, c)
		} else {
			res = runCase(t, c)
		}
		nontrivial := res.tags["verdict-muted"] > 0 && res.tags["verdict-not-muted"] > 0
		if c.Scale == nil || c.Scale.Model {
			run.Add(res.term, c, nontrivial) // (the huge scale cases are judged by the direct oracle only)
		}
		for _, v := range res.viol {
			run.Violate(v.Key, v.What, v.Case)
		}
		for _, k := range vh.SortedKeys(res.tags) {
			run.Count("cases_with", k)
		}
		run.Count("rules", fmt.Sprint(len(c.Rules)))
		run.Count("history_len", fmt.Sprintf("%02d-%02d", len(c.Ops)/5*5, len(c.Ops)/5*5+4))
	}
	if env.Replay == "" {
		// concurrent engine: real Puts of conflicting versions racing on all cores against a running inhibitor
		judgeRace(t, run, racePlan(env))
		// liveness engine (worker process + watchdog): Mutes keeps answering while the source caches are collected
		judgeHang(t, run, hangPlan(env))
		// sources firing again at the very instant the rule caches are collected
		judgeGCRace(t, run, gcRacePlan(env))
	}
	if err := run.Finish("random rule sets (1-3 rules over sev/cluster/inst/zone, equal lists incl. labels missing on one side; one third of the cases: 2-3 equal labels with values that collide under concatenation) and histories of Put (fresh, refreshed with varied end times, resolved, no end), time passing (time-outs), inhibitor GC ticks, provider GC, restarts of the subscriber generation (inhibitor + a dispatcher-like second subscriber) with updates arriving during the load, subscriber lifecycles over several generations with provider GC in between, over 3-6 label sets sharing equal-values; after every op Mutes+marker for every label set, cache/index content, MuteStage; plus a judged concurrent engine outside synctest (2-4 goroutines Put conflicting versions of the same source alerts at once in large batches against a running inhibitor and plain subscribers, one slow; afterwards every subscriber's last delivered version is the stored one and the running inhibitor agrees with a fresh one loaded from the provider and with the rule over the provider's unresolved alerts) and a liveness engine in a worker process under a watchdog (goroutines hammering Mutes in real time while virtual time drives the rule caches' 15-minute GC with resolved sources to collect); non-trivial = some label set muted and some not muted during the history; distinct by full history text"); err != nil {
		t.Fatal(err)
	}
	pipePart(t, env)
}
