//go:build verif

package c03

import (
	"os"
	"strconv"
	"testing"

	"verifharness/vh"
)

func vhEnvQuick() vh.Env { return vh.Env{Seed: 1, Tier: "quick"} }

// TestRaceRate measures how often ONE PAIR of rounds (fast + slow subscriber) of the concurrent engine exposes a defect (run it against a mutated
// tree: VERIF_RACE_MEASURE=<trials>). Not part of the check.
func TestRaceRate(t *testing.T) {
	n, _ := strconv.Atoi(os.Getenv("VERIF_RACE_MEASURE"))
	if n == 0 {
		t.Skip("set VERIF_RACE_MEASURE=<trials>")
	}
	q := racePlan(vhEnvQuick())
	hitsInh, hitsSub, ms := 0, 0, int64(0)
	for k := 0; k < n; k++ {
		p := q
		p.Seed, p.Rounds, p.BudgetMs = uint64(k+1), 2, 0 // one fast and one slow-subscriber round
		if v, _ := strconv.Atoi(os.Getenv("VERIF_RACE_SLOW_EVERY")); v > 0 {
			p.SlowEvery = v
		}
		if v, _ := strconv.Atoi(os.Getenv("VERIF_RACE_SLOW_MICROS")); v > 0 {
			p.SlowMicros = v
		}
		if v, _ := strconv.Atoi(os.Getenv("VERIF_RACE_SUBS")); v > 0 {
			p.Subs = v
		}
		if v, _ := strconv.Atoi(os.Getenv("VERIF_RACE_ALERTS")); v > 0 {
			p.Alerts = v
		}
		r := raceRun(t, p)
		ms += r.Millis
		if r.StaleInhibitor > 0 {
			hitsInh++
		}
		if r.StaleSubscriber > 0 {
			hitsSub++
		}
	}
	t.Logf("hit rate per pair of rounds: inhibitor %d / %d, subscriber %d / %d, %d ms per pair", hitsInh, n, hitsSub, n, ms/int64(n))
}
