//go:build verif

package c03

// The inhibition rules of a case reach the Inhibitor the way an operator's do: written as YAML (in the deprecated but
// supported source_match / source_match_re / target_match / target_match_re syntax where the matchers allow it, or as
// source_matchers / target_matchers strings) and loaded with config.Load. Every written rule must be in force: the
// loaded configuration holds exactly the written rules, in order (key configured-inhibit-rule-not-in-force), and the
// Inhibitor built from the LOADED rules is what the histories run against (the model and the oracle use the WRITTEN
// rules).

import (
	"fmt"
	"sort"
	"strings"

	"gopkg.in/yaml.v2"

	"github.com/prometheus/alertmanager/config"
	amcommoncfg "github.com/prometheus/alertmanager/config/common"
	"github.com/prometheus/alertmanager/inhibit"
	"github.com/prometheus/alertmanager/pkg/labels"
)

const (
	styleStructs = 0 // rules handed to NewInhibitor as Go values
	styleLegacy  = 1 // YAML, source_match / source_match_re / target_match / target_match_re where possible
	styleNew     = 2 // YAML, source_matchers / target_matchers
)

// legacySide: the matchers as the two legacy maps, or ok=false if they cannot be written that way
func legacySide(ms []MatcherJ) (eq, re map[string]string, ok bool) {
	eq, re = map[string]string{}, map[string]string{}
	seen := map[string]bool{}
	for _, m := range ms {
		if seen[m.N] || (m.T != "=" && m.T != "=~") {
			return nil, nil, false
		}
		seen[m.N] = true
		if m.T == "=" {
			eq[m.N] = m.V
		} else {
			re[m.N] = m.V
		}
	}
	return eq, re, true
}

func rulesYAML(rules []RuleJ, style int) (string, int) {
	legacyRules := 0
	var items []map[string]any
	for _, r := range rules {
		item := map[string]any{}
		if len(r.Equal) > 0 {
			item["equal"] = r.Equal
		}
		legacy := false
		for _, side := range []struct {
			name string
			ms   []MatcherJ
		}{{"source", r.Src}, {"target", r.Tgt}} {
			eq, re, ok := legacySide(side.ms)
			if style == styleLegacy && ok {
				legacy = true
				if len(eq) > 0 {
					item[side.name+"_match"] = eq
				}
				if len(re) > 0 {
					item[side.name+"_match_re"] = re
				}
				continue
			}
			var strs []string
			for _, m := range mkMatchers(side.ms) {
				strs = append(strs, m.String())
			}
			if len(strs) > 0 {
				item[side.name+"_matchers"] = strs
			}
		}
		if legacy {
			legacyRules++
		}
		items = append(items, item)
	}
	doc := map[string]any{
		"route":         map[string]any{"receiver": "r"},
		"receivers":     []map[string]any{{"name": "r"}},
		"inhibit_rules": items,
	}
	b, err := yaml.Marshal(doc)
	if err != nil {
		panic(err)
	}
	return string(b), legacyRules
}

// ruleSignature: source matchers / target matchers / equal of a rule as the inhibitor will use it, canonical
func ruleSignature(cr amcommoncfg.InhibitRule) string {
	r := inhibit.NewInhibitRule(cr)
	side := func(ms labels.Matchers) string {
		var out []string
		for _, m := range ms {
			v := m.Value
			if m.Type == labels.MatchRegexp || m.Type == labels.MatchNotRegexp {
				// the legacy syntax hands the anchored expression on: ^(?:x)$ means x
				for strings.HasPrefix(v, "^(?:") && strings.HasSuffix(v, ")$") {
					v = v[4 : len(v)-2]
				}
			}
			out = append(out, fmt.Sprintf("%s%s%q", m.Name, m.Type, v))
		}
		sort.Strings(out)
		return strings.Join(out, ",")
	}
	var eq []string
	for n := range r.Equal {
		eq = append(eq, string(n))
	}
	sort.Strings(eq)
	return side(r.SourceMatchers) + " | " + side(r.TargetMatchers) + " | " + strings.Join(eq, ",")
}

// loadRules returns the rules as config.Load delivers them, and what is wrong with them ("" = every written rule is
// in force). loaded == nil: the YAML route is not usable for this case (the configuration was rejected).
func loadRules(written []RuleJ, style int) (loaded []amcommoncfg.InhibitRule, legacyRules int, wrong string, err error) {
	text, legacyRules := rulesYAML(written, style)
	cfg, err := config.Load(text)
	if err != nil {
		return nil, legacyRules, "", err
	}
	loaded = cfg.InhibitRules
	var want, got []string
	for _, rj := range written {
		want = append(want, ruleSignature(amcommoncfg.InhibitRule{SourceMatchers: amcommoncfg.Matchers(mkMatchers(rj.Src)), TargetMatchers: amcommoncfg.Matchers(mkMatchers(rj.Tgt)), Equal: rj.Equal}))
	}
	for _, cr := range loaded {
		got = append(got, ruleSignature(cr))
	}
	if strings.Join(want, "\n") != strings.Join(got, "\n") {
		wrong = fmt.Sprintf("the configuration file holds %d inhibit rules:\n%s\nbut the loaded configuration holds %d:\n%s\nconfiguration:\n%s", len(want), strings.Join(want, "\n"), len(got), strings.Join(got, "\n"), text)
	}
	return loaded, legacyRules, wrong, nil
}
