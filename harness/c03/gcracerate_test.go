//go:build verif

package c03

import (
	"os"
	"strconv"
	"testing"

	"verifharness/vh"
)

// TestGCRaceRate measures the refire-during-GC engine per tick (VERIF_GCRACE_MEASURE=<ticks>). Not part of the check.
func TestGCRaceRate(t *testing.T) {
	n, _ := strconv.Atoi(os.Getenv("VERIF_GCRACE_MEASURE"))
	if n == 0 {
		t.Skip("set VERIF_GCRACE_MEASURE=<ticks>")
	}
	p := gcRacePlan(vh.Env{Seed: 1, Tier: "quick"})
	hitsC, hitsU, ms := 0, 0, int64(0)
	for k := 0; k < n; k++ {
		q := p
		q.Seed, q.Ticks = uint64(k+1), 1
		r := gcRaceRun(t, q)
		ms += r.Millis
		if r.Collected > 0 {
			hitsC++
		}
		if r.Unindexed > 0 {
			hitsU++
		}
	}
	t.Logf("per tick: firing source collected %d / %d, refired source unindexed %d / %d, %d ms per tick", hitsC, n, hitsU, n, ms/int64(n))
}
