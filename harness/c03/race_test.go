//go:build verif

package c03

// Judged concurrent engine for C03 (real goroutines, real time, GOMAXPROCS as is; outside synctest; the pattern of
// harness/nfrace and harness/c09/race_test.go). It ties "the verdict depends only on the set of currently firing
// alerts" to the code where the sequential histories of TestCheck cannot: conflicting updates of the SAME source
// alert published to the provider AT ONCE.
//
// Per round: a fresh real provider/mem.Alerts, a running real inhibit.Inhibitor subscribed to it (a few of them, each with its own
// subscription; one rule: sev=crit inhibits sev=warn on equal cluster), and a few plain subscribers (in every other
// round one of them is slow, so that subscriber channels fill up and Puts wait inside delivery). Then 2-4 goroutines Put, all at once and in several large batches each, conflicting versions of
// the same source alerts (firing with different end times vs resolved; same StartsAt, so which version the provider
// ends up holding depends only on the order in which the Puts got the provider). When every Put has returned, a
// sentinel alert is Put; a subscription is FIFO, so once a subscriber has seen the sentinel it has seen everything
// published before. Then, whatever order the Puts took:
//   - every plain subscriber's LAST delivered version of each alert is the very version the provider stores
//     (delivery order consistent with store order);
//   - the running inhibitor's verdict for every target equals the verdict of a FRESH inhibitor loaded from the
//     provider's current alerts, and equals the documented rule evaluated over the provider's unresolved alerts
//     (c03_verdict_depends_only_on_firing / c03_mutes_iff_spec: the inhibitor's history is the delivery order, the
//     provider's content is the latest STORED update; they must name the same latest update per fingerprint).
// A violation's replay case is the engine's parameters (replaying reruns the engine; it is not a schedule).

import (
	"context"
	"fmt"
	"sync"
	"testing"
	"time"

	"github.com/prometheus/client_golang/prometheus"
	"github.com/prometheus/common/model"

	amcommoncfg "github.com/prometheus/alertmanager/config/common"
	"github.com/prometheus/alertmanager/eventrecorder"
	"github.com/prometheus/alertmanager/inhibit"
	"github.com/prometheus/alertmanager/pkg/labels"
	"github.com/prometheus/alertmanager/provider/mem"
	"github.com/prometheus/alertmanager/types"

	"verifharness/vh"
)

type RaceParams struct {
	Seed       uint64 `json:"seed"`
	Rounds     int    `json:"rounds"`
	Alerts     int    `json:"alerts"`      // source alerts per round (= alerts per Put batch)
	Lanes      int    `json:"lanes"`       // goroutines calling Put at once, 2..4
	Batches    int    `json:"batches"`     // Put calls per goroutine
	Subs       int    `json:"subs"`        // plain subscribers (the first one is slow)
	Inhibitors int    `json:"inhibitors"`  // running inhibitors subscribed to the provider (each has its own subscription)
	SlowEvery  int    `json:"slow_every"`  // the slow subscriber pauses after every SlowEvery messages ...
	SlowMicros int    `json:"slow_micros"` // ... for this long (its channel fills up and Puts have to wait for it)
	BudgetMs   int    `json:"budget_ms"`   // stop early when this much wall time is used; 0 = no cap
	Note       string `json:"note,omitempty"`
}

type RaceResult struct {
	Rounds, Puts, Versions, Deliveries int
	FinalFiring, FinalResolved         int
	StaleInhibitor, StaleSubscriber    int
	First, FirstSub                    string
	Millis                             int64
}

const raceNote = "concurrent engine: replay = rerun this engine with the same parameters (real goroutines, real time); a clean tree gives 0 findings"

func raceLabels(kind string, round, i int) model.LabelSet {
	return model.LabelSet{"sev": model.LabelValue(kind), "cluster": model.LabelValue(fmt.Sprintf("r%d-c%04d", round, i))}
}

// the versions a lane publishes: firing with different ends / resolved with different ends, same StartsAt
func raceVersion(ls model.LabelSet, base time.Time, lane, batch int, firing bool) *types.Alert {
	end := base.Add(-time.Duration(1+lane+4*batch) * time.Second)
	if firing {
		end = base.Add(time.Hour + time.Duration(lane+4*batch)*time.Minute)
	}
	return &types.Alert{Alert: model.Alert{Labels: ls, StartsAt: base.Add(-time.Hour), EndsAt: end,
		Annotations: model.LabelSet{"v": model.LabelValue(fmt.Sprintf("lane%d/batch%d/firing=%v", lane, batch, firing))}},
		UpdatedAt: base}
}

func raceRun(t *testing.T, p RaceParams) RaceResult {
	t0 := time.Now()
	res := RaceResult{}
	g := vh.NewRand(p.Seed).Fork()
	lanes := min(max(p.Lanes, 2), 4)
	src, _ := labels.NewMatcher(labels.MatchEqual, "sev", "crit")
	tgt, _ := labels.NewMatcher(labels.MatchEqual, "sev", "warn")
	cfg := []amcommoncfg.InhibitRule{{SourceMatchers: amcommoncfg.Matchers{src}, TargetMatchers: amcommoncfg.Matchers{tgt}, Equal: []string{"cluster"}}}
	fail := func(counter *int, format string, args ...any) {
		*counter++
		first := &res.First
		if counter == &res.StaleSubscriber {
			first = &res.FirstSub
		}
		if *first == "" {
			*first = fmt.Sprintf(format, args...)
		}
	}
	for round := 0; round < p.Rounds; round++ {
		if p.BudgetMs > 0 && time.Since(t0) > time.Duration(p.BudgetMs)*time.Millisecond {
			break
		}
		rs := g.Fork()
		ctx, cancel := context.WithCancel(context.Background())
		prov, err := mem.NewAlerts(ctx, time.Hour, 0, nil, nopLogger, eventrecorder.NopRecorder(), prometheus.NewRegistry(), nil)
		if err != nil {
			t.Fatal(err)
		}
		ihs := make([]*inhibit.Inhibitor, max(p.Inhibitors, 1))
		for k := range ihs {
			ihs[k] = inhibit.NewInhibitor(prov, cfg, nopLogger, eventrecorder.NopRecorder())
			go ihs[k].Run()
			ihs[k].WaitForLoading()
		}
		slowRound := round%2 == 1 // every other round one subscriber is slow: channels fill up, Puts wait inside delivery

		base := time.Now()
		sources := make([]model.LabelSet, p.Alerts)
		for i := range sources {
			sources[i] = raceLabels("crit", round, i)
		}
		sentinel := raceLabels("crit", round, -1)
		sentinelFP := sentinel.Fingerprint()

		// plain subscribers: remember the last version delivered per fingerprint, until the sentinel arrives
		type subState struct {
			last map[model.Fingerprint]*types.Alert
			n    int
			done chan struct{}
		}
		subs := make([]*subState, p.Subs)
		var subWG sync.WaitGroup
		quit := make(chan struct{})
		for k := range subs {
			st := &subState{last: map[model.Fingerprint]*types.Alert{}, done: make(chan struct{})}
			subs[k] = st
			it := prov.Subscribe(fmt.Sprintf("plain-%d", k))
			slow := k == 0 && slowRound
			subWG.Add(1)
			go func() {
				defer subWG.Done()
				defer it.Close()
				for {
					select {
					case a := <-it.Next():
						if a == nil {
							return
						}
						fp := a.Data.Fingerprint()
						if fp == sentinelFP {
							close(st.done)
							<-quit
							return
						}
						st.last[fp] = a.Data
						st.n++
						if slow && p.SlowEvery > 0 && st.n%p.SlowEvery == 0 {
							time.Sleep(time.Duration(p.SlowMicros) * time.Microsecond)
						}
					case <-quit:
						return
					}
				}
			}()
		}

		// the lanes' batches: every batch holds one version of every source alert, in its own order
		type batch []*types.Alert
		plan := make([][]batch, lanes)
		for l := range plan {
			for b := 0; b < p.Batches; b++ {
				var bt batch
				for i := range sources {
					bt = append(bt, raceVersion(sources[i], base, l, b, rs.Chance(1, 2)))
				}
				vh.Shuffle(rs, bt)
				plan[l] = append(plan[l], bt)
				res.Versions += len(bt)
			}
		}
		start := make(chan struct{})
		var wg sync.WaitGroup
		errs := make(chan error, lanes)
		for l := 0; l < lanes; l++ {
			wg.Add(1)
			go func(l int) {
				defer wg.Done()
				<-start
				for _, bt := range plan[l] {
					if err := prov.Put(ctx, bt...); err != nil {
						errs <- err
						return
					}
				}
			}(l)
			res.Puts += len(plan[l])
		}
		close(start)
		wg.Wait()
		close(errs)
		for err := range errs {
			t.Fatalf("concurrent engine: Put: %v", err)
		}
		// everything is published; the sentinel marks the end of every subscription's backlog
		if err := prov.Put(ctx, raceVersion(sentinel, base, 0, 0, true)); err != nil {
			t.Fatal(err)
		}
		sentinelTarget := raceLabels("warn", round, -1)
		deadline := time.Now().Add(20 * time.Second)
		for _, ih := range ihs {
			for !ih.Mutes(ctx, sentinelTarget) {
				if time.Now().After(deadline) {
					t.Fatalf("concurrent engine: round %d: an inhibitor did not process the sentinel alert within 20 s", round)
				}
				time.Sleep(200 * time.Microsecond)
			}
		}
		for k, st := range subs {
			select {
			case <-st.done:
			case <-time.After(20 * time.Second):
				t.Fatalf("concurrent engine: round %d: subscriber %d did not receive the sentinel alert within 20 s", round, k)
			}
		}
		res.Rounds++

		// ---- judge (quiescent: nothing runs concurrently any more) ----
		now := time.Now()
		stored := make([]*types.Alert, len(sources))
		for i, ls := range sources {
			a, err := prov.Get(ls.Fingerprint())
			if err != nil {
				t.Fatalf("concurrent engine: provider lost %v: %v", ls, err)
			}
			stored[i] = a
			if a.ResolvedAt(now) {
				res.FinalResolved++
			} else {
				res.FinalFiring++
			}
			for k, st := range subs {
				res.Deliveries++
				if last := st.last[ls.Fingerprint()]; last != a {
					lv := "nothing"
					if last != nil {
						lv = string(last.Annotations["v"])
					}
					fail(&res.StaleSubscriber, "round %d: %d goroutines Put conflicting versions of %v at once; the provider stores %s but the last version delivered to subscriber %d is %s - delivery order differs from store order",
						round, lanes, ls, a.Annotations["v"], k, lv)
				}
			}
		}
		fresh := inhibit.NewInhibitor(prov, cfg, nopLogger, eventrecorder.NopRecorder())
		go fresh.Run()
		fresh.WaitForLoading()
		for i := range sources {
			target := raceLabels("warn", round, i)
			want := !stored[i].ResolvedAt(now) // the documented rule: the only source with this cluster value fires
			gotFresh := fresh.Mutes(ctx, target)
			got := gotFresh
			for _, ih := range ihs {
				if g := ih.Mutes(ctx, target); g != want {
					got = g
				}
			}
			if gotFresh != want {
				fail(&res.StaleInhibitor, "round %d: a fresh inhibitor loaded from the provider says Mutes(%v)=%v but the provider holds the source %s (resolved=%v)",
					round, target, gotFresh, stored[i].Annotations["v"], !want)
			}
			if got != want {
				fail(&res.StaleInhibitor, "round %d: %d goroutines Put conflicting versions of %v at once; the provider now holds %s (resolved=%v) but the running inhibitor says Mutes(%v)=%v while a fresh inhibitor loaded from the same provider says %v - the verdict depends on the delivery order, not on the set of firing alerts",
					round, lanes, sources[i], stored[i].Annotations["v"], !want, target, got, gotFresh)
			}
		}
		fresh.Stop()
		for _, ih := range ihs {
			ih.Stop()
		}
		close(quit)
		subWG.Wait()
		prov.Close()
		cancel()
		if res.StaleInhibitor > 0 {
			break // (a subscriber-only finding keeps the engine running: the property's own clause is the inhibitor's verdict)
		}
	}
	res.Millis = time.Since(t0).Milliseconds()
	return res
}

func racePlan(env vh.Env) RaceParams {
	p := RaceParams{Seed: env.Seed ^ 0x63303372616365, Rounds: 40, Alerts: 150, Lanes: 4, Batches: 3, Subs: 3, Inhibitors: 3, SlowEvery: 8, SlowMicros: 100, BudgetMs: 10000, Note: raceNote}
	if env.Tier == "thorough" {
		p.Rounds, p.BudgetMs = 600, 90000
	}
	return p
}

func judgeRace(t *testing.T, run *vh.Run, p RaceParams) {
	r := raceRun(t, p)
	run.CountN("concurrent_put_engine", "rounds", r.Rounds)
	run.CountN("concurrent_put_engine", "put-calls", r.Puts)
	run.CountN("concurrent_put_engine", "conflicting-versions-published", r.Versions)
	run.CountN("concurrent_put_engine", "subscriber-last-deliveries-checked", r.Deliveries)
	run.CountN("concurrent_put_engine", "sources-finally-firing", r.FinalFiring)
	run.CountN("concurrent_put_engine", "sources-finally-resolved", r.FinalResolved)
	run.CountN("concurrent_put_engine", "millis", int(r.Millis))
	c := Case{Race: &p}
	if r.StaleSubscriber > 0 {
		run.Violate("subscriber-delivery-order-differs-from-store-order", r.FirstSub, c)
	}
	if r.StaleInhibitor > 0 {
		run.Violate("inhibitor-state-older-than-provider-after-concurrent-puts", r.First, c)
	}
}
