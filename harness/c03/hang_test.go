//go:build verif

package c03

// Liveness engine for C03: Mutes keeps answering while the rules' source caches are garbage collected.
//
// The verdict theorems say what Mutes answers; they are worth nothing if Mutes never returns. The source cache GC
// (store.Alerts.GC + InhibitRule.gcCallback -> index.Delete) and Mutes (index.Range -> scache.Get) take the store
// lock and the index lock; they must never wait for each other in a cycle. The GC is only reachable through the
// rule cache's hard-coded 15-minute ticker, so the engine runs the real Inhibitor inside a synctest bubble (virtual
// time drives the ticker; each tick finds resolved sources to collect) while goroutines OUTSIDE the bubble - real
// parallelism, they never block the virtual clock - hammer Inhibitor.Mutes for targets of the rule (a class with
// hundreds of sources, so that a call spends long inside Range). A lock cycle blocks the GC goroutine on a mutex,
// which is not a durable block: the virtual clock stops and the bubble never finishes. Therefore the engine runs in a
// WORKER PROCESS (this test binary re-executed with VERIF_C03_HANG_WORKER set) under a watchdog: the worker exits
// by itself after WatchdogMs without completion, and the parent kills it after a grace period; either is reported
// as inhibitor-hangs-gc-vs-mutes with the parameters as the replay. A hang can therefore never stall the check.

import (
	"context"
	"encoding/json"
	"fmt"
	"os"
	"os/exec"
	"strings"
	"sync/atomic"
	"testing"
	"testing/synctest"
	"time"

	"github.com/prometheus/client_golang/prometheus"
	"github.com/prometheus/common/model"

	amcommoncfg "github.com/prometheus/alertmanager/config/common"
	"github.com/prometheus/alertmanager/eventrecorder"
	"github.com/prometheus/alertmanager/inhibit"
	"github.com/prometheus/alertmanager/pkg/labels"
	"github.com/prometheus/alertmanager/provider/mem"
	"github.com/prometheus/alertmanager/types"

	"verifharness/vh"
)

type HangParams struct {
	Seed       uint64 `json:"seed"`
	Sources    int    `json:"sources"`     // firing sources of the one class (a Mutes call ranges over all of them)
	Resolving  int    `json:"resolving"`   // resolved sources of the class published before every GC tick
	Hammer     int    `json:"hammer"`      // goroutines calling Mutes in a loop, outside the bubble
	Ticks      int    `json:"ticks"`       // GC ticks (15 virtual minutes each)
	WatchdogMs int    `json:"watchdog_ms"` // the worker gives up after this much real time
	Note       string `json:"note,omitempty"`
}

const (
	hangNote   = "liveness engine: replay = rerun this engine with the same parameters (worker process, real goroutines hammering Mutes while virtual time drives the source cache GC); a clean tree completes within a second"
	hangEnv    = "VERIF_C03_HANG_WORKER"
	hangOKLine = "VERIF-C03-HANG-OK "
	hangGrace  = 10 * time.Second
)

type hangStats struct {
	Ticks     int   `json:"ticks"`
	MutesDone int64 `json:"mutes_calls"`
	Collected int   `json:"sources_collected"`
	Millis    int64 `json:"millis"`
}

func hangPlan(env vh.Env) HangParams {
	p := HangParams{Seed: env.Seed, Sources: 300, Resolving: 40, Hammer: 6, Ticks: 20, WatchdogMs: 5000, Note: hangNote}
	if env.Tier == "thorough" {
		p.Ticks, p.Sources = 200, 1000
		p.WatchdogMs = 20000
	}
	return p
}

// TestHangWorker is the worker process' entry (skipped unless VERIF_C03_HANG_WORKER holds the parameters).
func TestHangWorker(t *testing.T) {
	raw := os.Getenv(hangEnv)
	if raw == "" {
		t.Skip("worker of the C03 liveness engine")
	}
	var p HangParams
	if err := json.Unmarshal([]byte(raw), &p); err != nil {
		t.Fatal(err)
	}
	t0 := time.Now()
	var phase atomic.Value
	phase.Store("start")
	time.AfterFunc(time.Duration(p.WatchdogMs)*time.Millisecond, func() {
		fmt.Printf("VERIF-C03-HANG-TIMEOUT after %d ms in phase %q\n", p.WatchdogMs, phase.Load())
		os.Exit(3)
	})
	src, _ := labels.NewMatcher(labels.MatchEqual, "sev", "crit")
	tgt, _ := labels.NewMatcher(labels.MatchEqual, "sev", "warn")
	cfg := []amcommoncfg.InhibitRule{{SourceMatchers: amcommoncfg.Matchers{src}, TargetMatchers: amcommoncfg.Matchers{tgt}, Equal: []string{"cluster"}}}
	target := model.LabelSet{"sev": "warn", "cluster": "a"}

	var ihp atomic.Pointer[inhibit.Inhibitor]
	var stop atomic.Bool
	var calls atomic.Int64
	hammerDone := make(chan struct{}, p.Hammer)
	for k := 0; k < p.Hammer; k++ {
		go func() { // outside the bubble: real time, real parallelism
			defer func() { hammerDone <- struct{}{} }()
			ctx := context.Background()
			for !stop.Load() {
				if ih := ihp.Load(); ih != nil {
					ih.Mutes(ctx, target)
					calls.Add(1)
				} else {
					time.Sleep(50 * time.Microsecond)
				}
			}
		}()
	}
	stats := hangStats{}
	synctest.Test(t, func(t *testing.T) {
		ctx, cancel := context.WithCancel(context.Background())
		defer cancel()
		prov, err := mem.NewAlerts(ctx, 24*time.Hour, 0, nil, nopLogger, eventrecorder.NopRecorder(), prometheus.NewRegistry(), nil)
		if err != nil {
			t.Fatal(err)
		}
		ih := inhibit.NewInhibitor(prov, cfg, nopLogger, eventrecorder.NopRecorder())
		go ih.Run()
		synctest.Wait()
		ih.WaitForLoading()
		source := func(i int, end time.Duration) *types.Alert {
			now := time.Now()
			return &types.Alert{Alert: model.Alert{Labels: model.LabelSet{"sev": "crit", "cluster": "a", "inst": model.LabelValue(fmt.Sprintf("i%05d", i))},
				StartsAt: now.Add(-time.Minute), EndsAt: now.Add(end)}, UpdatedAt: now}
		}
		var batch []*types.Alert
		for i := 0; i < p.Sources; i++ {
			batch = append(batch, source(i, 1000*time.Hour))
		}
		if err := prov.Put(ctx, batch...); err != nil {
			t.Fatal(err)
		}
		synctest.Wait()
		ihp.Store(ih)
		for tick := 0; tick < p.Ticks; tick++ {
			phase.Store(fmt.Sprintf("GC tick %d of %d (virtual time; %d Mutes calls so far)", tick+1, p.Ticks, calls.Load()))
			// resolved sources for this tick's GC to collect
			batch = batch[:0]
			for i := 0; i < p.Resolving; i++ {
				batch = append(batch, source(p.Sources+i, -time.Second))
			}
			if err := prov.Put(ctx, batch...); err != nil {
				t.Fatal(err)
			}
			synctest.Wait()
			before := len(ih.VerifState()[0].Cached)
			time.Sleep(15 * time.Minute) // the rule cache's GC ticker fires while Mutes is being hammered
			synctest.Wait()
			stats.Collected += before - len(ih.VerifState()[0].Cached)
			stats.Ticks++
		}
		phase.Store("shutdown")
		ihp.Store(nil)
		stop.Store(true)
		ih.Stop()
		prov.Close()
		cancel()
		synctest.Wait()
	})
	stop.Store(true)
	for k := 0; k < p.Hammer; k++ {
		<-hammerDone
	}
	stats.MutesDone, stats.Millis = calls.Load(), time.Since(t0).Milliseconds()
	b, _ := json.Marshal(stats)
	fmt.Println(hangOKLine + string(b))
}

// judgeHang runs the engine in a worker process under the watchdog and reports a hang as a violation.
func judgeHang(t *testing.T, run *vh.Run, p HangParams) {
	raw, _ := json.Marshal(p)
	limit := time.Duration(p.WatchdogMs)*time.Millisecond + hangGrace
	ctx, cancel := context.WithTimeout(context.Background(), limit)
	defer cancel()
	cmd := exec.CommandContext(ctx, os.Args[0], "-test.run=^TestHangWorker$", "-test.count=1", "-test.v")
	cmd.Env = append(os.Environ(), hangEnv+"="+string(raw))
	cmd.WaitDelay = 2 * time.Second
	t0 := time.Now()
	out, err := cmd.CombinedOutput()
	run.CountN("gc_vs_mutes_liveness_engine", "worker-millis", int(time.Since(t0).Milliseconds()))
	text := string(out)
	c := Case{Hang: &p}
	if i := strings.Index(text, hangOKLine); i >= 0 && err == nil {
		var st hangStats
		line := text[i+len(hangOKLine):]
		if j := strings.IndexByte(line, '\n'); j >= 0 {
			line = line[:j]
		}
		_ = json.Unmarshal([]byte(line), &st)
		run.CountN("gc_vs_mutes_liveness_engine", "gc-ticks", st.Ticks)
		run.CountN("gc_vs_mutes_liveness_engine", "resolved-sources-collected", st.Collected)
		run.CountN("gc_vs_mutes_liveness_engine", "concurrent-mutes-calls", int(st.MutesDone))
		if st.Collected == 0 || st.MutesDone == 0 {
			run.Violate("liveness-engine-did-not-exercise-gc-and-mutes", fmt.Sprintf("the worker finished but collected %d sources and made %d Mutes calls", st.Collected, st.MutesDone), c)
		}
		return
	}
	what := "the worker process did not finish"
	switch {
	case strings.Contains(text, "VERIF-C03-HANG-TIMEOUT"):
		i := strings.Index(text, "VERIF-C03-HANG-TIMEOUT")
		what = strings.TrimSpace(strings.SplitN(text[i:], "\n", 2)[0])
	case ctx.Err() != nil:
		what = fmt.Sprintf("the worker process had to be killed after %s", limit)
	case strings.Contains(text, "deadlock: all goroutines in bubble are blocked"):
		what = "synctest: deadlock: all goroutines in bubble are blocked"
	default:
		tail := text
		if len(tail) > 600 {
			tail = tail[len(tail)-600:]
		}
		t.Fatalf("C03 liveness worker failed without hanging (err=%v): %s", err, tail)
	}
	run.Violate("inhibitor-hangs-gc-vs-mutes", fmt.Sprintf("%d goroutines call Inhibitor.Mutes for a target whose class holds %d firing sources while the rule's source cache GC (15-minute ticker) collects %d resolved sources per tick: the inhibitor stopped answering (%s) - Mutes and the GC wait for each other (store lock / index lock), every notification pipeline and GET /api/v2/alerts would block",
		p.Hammer, p.Sources, p.Resolving, what), c)
}
