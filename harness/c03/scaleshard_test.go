//go:build verif

package c03

import (
	"os"
	"strconv"
	"testing"

	"verifharness/vh"
)

// TestScaleShard writes ONE scale case of size VERIF_C03_SCALE_N as a Coq shard into VERIF_OUT (to time the model's
// evaluation of large classes by hand). Not part of the check.
func TestScaleShard(t *testing.T) {
	n, _ := strconv.Atoi(os.Getenv("VERIF_C03_SCALE_N"))
	if n == 0 {
		t.Skip("set VERIF_C03_SCALE_N=<sources>")
	}
	env := vh.GetEnv()
	run := vh.NewRun(env, "AM.Run.C03Run")
	c := Case{Scale: &ScaleParams{N: n, Survivor: "last", Wave2: 2, Equal: []string{"cluster"}, Model: true}}
	res := runScale(t, &c)
	run.Add(res.term, &c, true)
	for _, v := range res.viol {
		run.Violate(v.Key, v.What, v.Case)
	}
	if err := run.Finish("one scale case"); err != nil {
		t.Fatal(err)
	}
}
