//go:build verif

package c03

// Judged engine for C03: sources that fire again WHILE the rule's source cache is being garbage collected.
//
// The source cache GC (store.Alerts.GC + InhibitRule.gcCallback) runs on its own goroutine every 15 minutes,
// concurrently with the inhibitor's subscription loop. The engine runs a real provider and a real Inhibitor in a
// synctest bubble (virtual time drives the hard-coded ticker; goroutines of a bubble run in real parallel). Before
// every tick, K sources (each the only source of its own equal-labels class) are resolved; the test goroutine wakes
// up at exactly the tick's instant - together with the GC goroutine - and publishes updates that make all K fire
// again, so that the inhibitor processes them while the GC is listing / deleting / running its callback. When
// everything has settled (synctest.Wait), the provider holds all K sources firing, so every one of the K targets must
// be inhibited (c03_mutes_iff_spec: the verdict depends only on the firing alerts, not on how an update interleaved
// with a GC). A miss is classified by where the source got lost (cache / index, read through verif_export):
//   firing-source-collected-by-gc         the firing source is no longer in the rule's source cache
//   refired-source-unindexed-after-gc     it is cached but the index no longer lists it
// A violation's replay case is the engine's parameters (replaying reruns the engine; it is not a schedule).

import (
	"context"
	"fmt"
	"testing"
	"testing/synctest"
	"time"

	"github.com/prometheus/client_golang/prometheus"
	"github.com/prometheus/common/model"

	amcommoncfg "github.com/prometheus/alertmanager/config/common"
	"github.com/prometheus/alertmanager/eventrecorder"
	"github.com/prometheus/alertmanager/inhibit"
	"github.com/prometheus/alertmanager/pkg/labels"
	"github.com/prometheus/alertmanager/provider/mem"
	"github.com/prometheus/alertmanager/types"

	"verifharness/vh"
)

type GCRaceParams struct {
	Seed    uint64 `json:"seed"`
	Sources int    `json:"sources"` // sources resolved before and re-fired at every GC tick
	Ticks   int    `json:"ticks"`
	Batch   int    `json:"batch"` // alerts per Put call of the re-firing updates
	Note    string `json:"note,omitempty"`
}

type GCRaceResult struct {
	Ticks, Refired, Collected, Unindexed int
	First, FirstUnindexed                string
	Millis                               int64
}

const gcRaceNote = "concurrent engine: replay = rerun this engine with the same parameters (virtual time for the GC ticker, real parallelism between GC and subscription loop)"

func gcRaceRun(t *testing.T, p GCRaceParams) GCRaceResult {
	t0 := time.Now()
	res := GCRaceResult{}
	src, _ := labels.NewMatcher(labels.MatchEqual, "sev", "crit")
	tgt, _ := labels.NewMatcher(labels.MatchEqual, "sev", "warn")
	cfg := []amcommoncfg.InhibitRule{{SourceMatchers: amcommoncfg.Matchers{src}, TargetMatchers: amcommoncfg.Matchers{tgt}, Equal: []string{"cluster"}}}
	g := vh.NewRand(p.Seed).Fork()
	synctest.Test(t, func(t *testing.T) {
		ctx, cancel := context.WithCancel(context.Background())
		defer cancel()
		prov, err := mem.NewAlerts(ctx, 1000*time.Hour, 0, nil, nopLogger, eventrecorder.NopRecorder(), prometheus.NewRegistry(), nil)
		if err != nil {
			t.Fatal(err)
		}
		ih := inhibit.NewInhibitor(prov, cfg, nopLogger, eventrecorder.NopRecorder())
		go ih.Run()
		synctest.Wait()
		ih.WaitForLoading()
		start := time.Now()
		lbl := func(kind string, i int) model.LabelSet {
			return model.LabelSet{"sev": model.LabelValue(kind), "cluster": model.LabelValue(fmt.Sprintf("c%05d", i))}
		}
		version := func(i int, end time.Duration) *types.Alert {
			now := time.Now()
			return &types.Alert{Alert: model.Alert{Labels: lbl("crit", i), StartsAt: start.Add(-time.Minute), EndsAt: now.Add(end)}, UpdatedAt: now}
		}
		putAll := func(end time.Duration, order []int) {
			for len(order) > 0 {
				n := min(p.Batch, len(order))
				batch := make([]*types.Alert, 0, n)
				for _, i := range order[:n] {
					batch = append(batch, version(i, end))
				}
				if err := prov.Put(ctx, batch...); err != nil {
					t.Fatal(err)
				}
				order = order[n:]
			}
		}
		order := make([]int, p.Sources)
		for i := range order {
			order[i] = i
		}
		for tick := 1; tick <= p.Ticks; tick++ {
			// all sources resolved, well before the tick
			vh.Shuffle(g, order)
			putAll(-time.Second, order)
			synctest.Wait()
			// wake up at the very instant the rule cache's GC ticker fires, and make every source fire again
			time.Sleep(time.Until(start.Add(time.Duration(tick) * 15 * time.Minute)))
			vh.Shuffle(g, order)
			putAll(time.Hour, order)
			synctest.Wait()
			res.Ticks++
			res.Refired += p.Sources
			// judge: the provider holds every source firing, so every target is inhibited
			var cached, indexed map[model.Fingerprint]bool
			for i := 0; i < p.Sources; i++ {
				if ih.Mutes(ctx, lbl("warn", i)) {
					continue
				}
				if a, err := prov.Get(lbl("crit", i).Fingerprint()); err != nil || a.Resolved() {
					t.Fatalf("gc race engine: the provider does not hold source %d firing (err=%v)", i, err)
				}
				if cached == nil {
					cached, indexed = map[model.Fingerprint]bool{}, map[model.Fingerprint]bool{}
					st := ih.VerifState()[0]
					for _, f := range st.Cached {
						cached[f] = true
					}
					for _, cl := range st.Index {
						for _, f := range cl {
							indexed[f] = true
						}
					}
				}
				fp := lbl("crit", i).Fingerprint()
				what := fmt.Sprintf("GC tick %d: %d sources resolved, then fired again at the instant of the rule cache's GC; the provider holds %v firing but Mutes(%v) says false: ",
					tick, p.Sources, lbl("crit", i), lbl("warn", i))
				if !cached[fp] {
					res.Collected++
					if res.First == "" {
						res.First = what + "the firing source is no longer in the rule's source cache - the GC removed an alert that was not resolved any more"
					}
				} else {
					res.Unindexed++
					if res.FirstUnindexed == "" {
						res.FirstUnindexed = what + fmt.Sprintf("the source is in the rule's source cache but the index does not list it (indexed=%v) - the GC callback dropped the index entry of an alert that was stored again", indexed[fp])
					}
				}
			}
			if res.Collected > 0 {
				break
			}
		}
		ih.Stop()
		prov.Close()
		cancel()
		synctest.Wait()
	})
	res.Millis = time.Since(t0).Milliseconds()
	return res
}

func gcRacePlan(env vh.Env) GCRaceParams {
	p := GCRaceParams{Seed: env.Seed ^ 0x6763, Sources: 2000, Ticks: 12, Batch: 50, Note: gcRaceNote}
	if env.Tier == "thorough" {
		p.Ticks = 150
	}
	return p
}

func judgeGCRace(t *testing.T, run *vh.Run, p GCRaceParams) {
	r := gcRaceRun(t, p)
	run.CountN("refire_during_gc_engine", "gc-ticks", r.Ticks)
	run.CountN("refire_during_gc_engine", "sources-refired-at-a-gc-instant", r.Refired)
	run.CountN("refire_during_gc_engine", "firing-sources-collected", r.Collected)
	run.CountN("refire_during_gc_engine", "refired-sources-unindexed", r.Unindexed)
	run.CountN("refire_during_gc_engine", "millis", int(r.Millis))
	c := Case{GCRace: &p}
	if r.Collected > 0 {
		run.Violate("firing-source-collected-by-gc", r.First, c)
	}
	if r.Unindexed > 0 {
		run.Violate("refired-source-unindexed-after-gc", r.FirstUnindexed, c)
	}
}
