//go:build verif

package c03

import (
	"fmt"
	"sort"
	"testing"

	"verifharness/sysrun"
	"verifharness/vh"
)

// pipePart ties the product INHIBITOR x GROUP (Model/MutePipe.v instantiated with Model/Inhibit.v; end-to-end theorems
// of Properties/C03.v) to the code: whole-instance scenarios with inhibition rules run on the real provider, inhibitor,
// dispatcher and notification pipeline under virtual time (package sysrun); every group's run becomes one case in which
// every published alert is an operation of the model's inhibitor and a flush carries NO inhibition verdict — the model
// decides from its own rule caches which alerts reach the integrations and must reproduce every notification's content.
func pipePart(t *testing.T, env vh.Env) {
	run := vh.NewRun(env, "AM.Run.InhPipeRun")
	run.Prefix = "p"
	var scs []sysrun.Scenario
	if env.Replay != "" {
		var c Case
		if err := vh.LoadReplayCase(env.Replay, &c); err != nil {
			t.Fatal(err)
		}
		if c.Pipe == nil {
			return
		}
		scs = append(scs, *c.Pipe)
	} else {
		r := vh.NewRand(env.Seed + 77003)
		n := env.N(120, 6)
		for i := 0; i < n; i++ {
			scs = append(scs, sysrun.Gen(r.Fork(), sysrun.GenOpts{MaxOps: 12, Faults: i%5 == 0, Silences: i%4 == 1, MultiInt: i%2 == 0, Routes: i%5 == 2, Flap: i%6 == 3, Inhibit: true}))
		}
	}
	for i := range scs {
		sc := &scs[i]
		sc.Fix()
		res := sysrun.Run(t, sc)
		if res == nil {
			run.Count("scenarios", "skipped: synctest bubble froze")
			continue
		}
		if env.Replay != "" {
			t.Log("\n" + res.Dump())
		}
		keys := make([]string, 0, len(res.Groups))
		for k := range res.Groups {
			keys = append(keys, k)
		}
		sort.Strings(keys)
		for _, k := range keys {
			term, stats, ok := res.InhPipeCase(k)
			if !ok {
				run.Count("groups", "skipped: a publication and a flush at the same instant (order not observable)")
				continue
			}
			run.Count("groups", "compared")
			nontrivial := stats["tick-with-inhibited-alert"] >= 1 && stats["attempt-ok"] >= 1
			run.Add(term, Case{Pipe: sc}, nontrivial)
			for name := range stats {
				run.Count("pipeline_cases_with", name)
			}
		}
		// direct oracle, independent of the model: no notification lists an alert that the real inhibitor muted at the
		// flush that produced the batch
		lastFlush := map[string]int{}
		for j, r := range res.Recs {
			switch r.Kind {
			case "flush":
				lastFlush[r.GKey] = j
			case "notify":
				fj, ok := lastFlush[r.GKey]
				if !ok {
					continue
				}
				f := res.Recs[fj]
				for _, a := range r.Alerts {
					for k, fa := range f.Alerts {
						if k < len(f.Inhibited) && f.Inhibited[k] && fa.Labels.Equal(a.Labels) {
							run.Violate("inhibited-alert-notified", fmt.Sprintf("group %s: the notification at %d lists %v, which the inhibitor muted at the flush at %d", r.GKey, r.T-res.T0, a.Labels, f.T-res.T0), Case{Pipe: sc})
						}
					}
				}
			}
		}
	}
	if err := run.Finish("whole-instance scenarios with 1-2 inhibition rules over the scenario's label sets (one side / both sides matching, equal labels present or missing) on the real provider + inhibitor + dispatcher + pipeline under synctest virtual time (receiver faults, several integrations, child routes, silences, flapping alerts); one case per aggregation group for the product model Inhibitor x Group: every published alert is an operation of the model's inhibitor, flushes carry only the verdict of the other mute stages; non-trivial = a flush with an inhibited alert and a delivered notification"); err != nil {
		t.Fatal(err)
	}
}
