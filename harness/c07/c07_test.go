//go:build verif

// Package c07: correspondence + direct oracle for C07 (routing: depth-first, first match unless continue, option
// inheritance) against the real config.Load, dispatch.NewRoute, Route.Match and the three consumers of routing
// (dispatcher groups / notifications, GET /api/v2/alerts, amtool config routes test).
package c07

import (
	"context"
	"encoding/json"
	"fmt"
	"log/slog"
	"net/http/httptest"
	"regexp"
	"sort"
	"strings"
	"sync"
	"testing"
	"testing/synctest"
	"time"

	"github.com/prometheus/client_golang/prometheus"
	"github.com/prometheus/common/model"
	"github.com/prometheus/common/promslog"

	"github.com/prometheus/alertmanager/alert"
	apiv2 "github.com/prometheus/alertmanager/api/v2"
	"github.com/prometheus/alertmanager/api/v2/models"
	"github.com/prometheus/alertmanager/cli"
	"github.com/prometheus/alertmanager/config"
	"github.com/prometheus/alertmanager/dispatch"
	"github.com/prometheus/alertmanager/eventrecorder"
	"github.com/prometheus/alertmanager/featurecontrol"
	"github.com/prometheus/alertmanager/marker"
	"github.com/prometheus/alertmanager/matcher/compat"
	"github.com/prometheus/alertmanager/notify"
	"github.com/prometheus/alertmanager/provider"
	"github.com/prometheus/alertmanager/provider/mem"
	"github.com/prometheus/alertmanager/types"

	"verifharness/appsys"
	"verifharness/vh"
	"verifharness/vhm"
)

// ---------- replayable form of a case ----------

type KV struct {
	K string `json:"k"`
	V string `json:"v"`
}

type MSpec struct {
	T string `json:"t"` // = != =~ !~
	N string `json:"n"`
	V string `json:"v"`
}

// RSpec is one route as written in the configuration file.
type RSpec struct {
	Receiver string    `json:"receiver,omitempty"`
	GroupBy  *[]string `json:"group_by,omitempty"` // nil = key absent
	Match    []KV      `json:"match,omitempty"`    // legacy, unique keys, sorted
	MatchRE  []KV      `json:"match_re,omitempty"`
	Matchers []MSpec   `json:"matchers,omitempty"`
	Mute     []string  `json:"mute,omitempty"`
	Active   []string  `json:"active,omitempty"`
	Continue bool      `json:"continue,omitempty"`
	GW       *int64    `json:"gw,omitempty"` // seconds
	GI       *int64    `json:"gi,omitempty"`
	RI       *int64    `json:"ri,omitempty"`
	Labels   []KV      `json:"labels,omitempty"`
	Routes   []*RSpec  `json:"routes,omitempty"`
}

type Case struct {
	Receivers []string            `json:"receivers"`
	TIs       []string            `json:"time_intervals"`
	Root      *RSpec              `json:"root"`
	LabelSets []map[string]string `json:"label_sets"`
	Note      string              `json:"note,omitempty"`
}

// ---------- configuration text ----------

type yRoute struct {
	Receiver string            `json:"receiver,omitempty"`
	GroupBy  *[]string         `json:"group_by,omitempty"`
	Match    map[string]string `json:"match,omitempty"`
	MatchRE  map[string]string `json:"match_re,omitempty"`
	Matchers []string          `json:"matchers,omitempty"`
	Mute     []string          `json:"mute_time_intervals,omitempty"`
	Active   []string          `json:"active_time_intervals,omitempty"`
	Continue bool              `json:"continue,omitempty"`
	GW       string            `json:"group_wait,omitempty"`
	GI       string            `json:"group_interval,omitempty"`
	RI       string            `json:"repeat_interval,omitempty"`
	Labels   map[string]string `json:"labels,omitempty"`
	Routes   []*yRoute         `json:"routes,omitempty"`
}

func kvMap(kvs []KV) map[string]string {
	if len(kvs) == 0 {
		return nil
	}
	m := map[string]string{}
	for _, kv := range kvs {
		m[kv.K] = kv.V
	}
	return m
}

func dur(s *int64) string {
	if s == nil {
		return ""
	}
	return fmt.Sprintf("%ds", *s)
}

func (r *RSpec) y() *yRoute {
	o := &yRoute{Receiver: r.Receiver, GroupBy: r.GroupBy, Match: kvMap(r.Match), MatchRE: kvMap(r.MatchRE),
		Mute: r.Mute, Active: r.Active, Continue: r.Continue, GW: dur(r.GW), GI: dur(r.GI), RI: dur(r.RI), Labels: kvMap(r.Labels)}
	for _, m := range r.Matchers {
		// the value is written the way the documentation (and labels.Matcher.String) writes it: OpenMetrics escaping,
		// every other rune as it is -- a NO-BREAK SPACE or a ZERO WIDTH JOINER is typed/pasted raw, not as \u00a0
		if classicName.MatchString(m.N) {
			o.Matchers = append(o.Matchers, m.N+m.T+omQuote(m.V))
		} else {
			o.Matchers = append(o.Matchers, fmt.Sprintf("%q%s%s", m.N, m.T, omQuote(m.V)))
		}
	}
	for _, c := range r.Routes {
		o.Routes = append(o.Routes, c.y())
	}
	return o
}

var omEscaper = strings.NewReplacer(`\`, `\\`, "\n", `\n`, `"`, `\"`)

func omQuote(v string) string { return `"` + omEscaper.Replace(v) + `"` }

// configText renders the case as configuration text (flow-style YAML; every JSON document is one).
func configText(c *Case) string {
	type rcv struct {
		Name string `json:"name"`
	}
	type ti struct {
		Name string           `json:"name"`
		TI   []map[string]any `json:"time_intervals"`
	}
	doc := struct {
		Route     *yRoute `json:"route"`
		Receivers []rcv   `json:"receivers"`
		TIs       []ti    `json:"time_intervals,omitempty"`
	}{Route: c.Root.y()}
	for _, r := range c.Receivers {
		doc.Receivers = append(doc.Receivers, rcv{r})
	}
	for _, t := range c.TIs {
		doc.TIs = append(doc.TIs, ti{t, []map[string]any{{"weekdays": []string{"monday"}}}})
	}
	b, err := json.MarshalIndent(doc, "", " ")
	if err != nil {
		panic(err)
	}
	return string(b)
}

var errCodes = []struct{ sub, code string }{
	{"root route must specify a default receiver", "root-no-receiver"},
	{"root route must not have any matchers", "root-has-matchers"},
	{"root route must not have any mute time intervals", "root-has-mute-intervals"},
	{"root route must not have any active time intervals", "root-has-active-intervals"},
	{"undefined receiver", "undefined-receiver"},
	{"undefined time interval", "undefined-time-interval"},
	{"cannot have wildcard group_by", "group-by-wildcard-mixed"},
	{"duplicated label", "group-by-duplicate"},
	{"group_interval cannot be zero", "group-interval-zero"},
	{"repeat_interval cannot be zero", "repeat-interval-zero"},
	{"cannot have continue in root route", "root-continue"},
}

func errCode(err error) string {
	for _, e := range errCodes {
		if strings.Contains(err.Error(), e.sub) {
			return e.code
		}
	}
	return "other: " + err.Error()
}

// ---------- generator ----------

var (
	lnames = []string{"a", "b", "c"}
	// names that are label names only in UTF-8 mode (the binary's and amtool's default): usable in `matchers:` (quoted)
	// and in alerts, not in the deprecated match / match_re maps
	unames   = []string{"k8s.ns", "région"}
	lvalues  = []string{"x", "y", "xy", "", "xz", "zy", "x$", "yx", "C:\\node", "x\\ny"}
	eqValues = []string{"x", "x", "y", "y", "xy", "", "C:\\node", "x\\ny"} // incl. a backslash followed by n
	rePats   = []string{"x", "y", "x|y", "x.*", ".*", ".+", "[xy]", "y?", "", "x+y", "(x|y)+",
		// anchors written by the user (around a top-level alternation, on one side only, escaped): a regexp matcher is
		// matched against the WHOLE value whatever its text looks like
		"^x|y$", "^x\\$", "^x|y", "x|y$", "^(x|y)$", "^x$|^y$", "^x.*|y$"}
	oddValues = []string{"core\u00a0platform", "\U0001F468\u200d\U0001F469", "x\ty", "x\u200by", "\u00a0", "x\u00a0\"q\""}
	receivers = []string{"r0", "r1", "r2", "r3", "r4"}
	tiNames   = []string{"ti1", "ti2"}
	gbLabels  = []string{"a", "b", "c", "alertname"}
	rlNames   = []string{"team", "tier"}
	rlValues  = []string{"t1", "t2", "{{ .GroupLabels.a }}"}
	secs      = []int64{1, 10, 45, 120, 3600}
)

type genOpts struct {
	maxDepth, maxFan, maxNodes int
}

func p64(v int64) *int64 { return &v }

func genRoute(r *vh.Rand, g genOpts, depth int, budget *int, root bool) *RSpec {
	n := &RSpec{}
	*budget--
	if root {
		n.Receiver = vh.Pick(r, receivers)
	} else {
		if r.Chance(1, 2) {
			n.Receiver = vh.Pick(r, receivers)
		}
		n.Continue = r.Chance(2, 5)
		// matchers: 0 (catch-all child), 1 or 2; all four kinds plus the two legacy forms
		for k := vh.Pick(r, []int{0, 1, 1, 1, 1, 2, 2}); k > 0; k-- {
			name := vh.Pick(r, lnames)
			kind := r.Intn(8)
			if kind >= 2 && r.Chance(1, 5) {
				name = vh.Pick(r, unames)
			}
			switch kind {
			case 0:
				if !hasKey(n.Match, name) {
					n.Match = append(n.Match, KV{name, vh.Pick(r, eqValues)})
				}
			case 1:
				if !hasKey(n.MatchRE, name) {
					n.MatchRE = append(n.MatchRE, KV{name, vh.Pick(r, rePats)})
				}
			case 2, 3:
				n.Matchers = append(n.Matchers, MSpec{"=", name, vh.Pick(r, eqValues)})
			case 4:
				n.Matchers = append(n.Matchers, MSpec{"!=", name, vh.Pick(r, eqValues)})
			case 5, 6:
				n.Matchers = append(n.Matchers, MSpec{"=~", name, vh.Pick(r, rePats)})
			default:
				n.Matchers = append(n.Matchers, MSpec{"!~", name, vh.Pick(r, rePats)})
			}
		}
		sort.Slice(n.Match, func(i, j int) bool { return n.Match[i].K < n.Match[j].K })
		sort.Slice(n.MatchRE, func(i, j int) bool { return n.MatchRE[i].K < n.MatchRE[j].K })
		if r.Chance(1, 7) {
			n.Mute = []string{vh.Pick(r, tiNames)}
		}
		if r.Chance(1, 7) {
			n.Active = []string{vh.Pick(r, tiNames)}
			if r.Chance(1, 3) {
				n.Active = append(n.Active, vh.Pick(r, tiNames))
			}
		}
	}
	switch r.Intn(8) {
	case 0:
		n.GroupBy = &[]string{}
	case 1:
		n.GroupBy = &[]string{"..."}
	case 2, 3:
		l := []string{}
		for _, x := range gbLabels {
			if r.Chance(2, 5) {
				l = append(l, x)
			}
		}
		if len(l) == 0 {
			l = append(l, "a")
		}
		vh.Shuffle(r, l)
		n.GroupBy = &l
	}
	if r.Chance(1, 4) {
		n.GW = p64(vh.Pick(r, append([]int64{0}, secs...)))
	}
	if r.Chance(1, 4) {
		n.GI = p64(vh.Pick(r, secs))
	}
	if r.Chance(1, 4) {
		n.RI = p64(vh.Pick(r, secs))
	}
	if r.Chance(1, 4) {
		for k := r.Range(1, 2); k > 0; k-- {
			name := vh.Pick(r, rlNames)
			if !hasKey(n.Labels, name) {
				n.Labels = append(n.Labels, KV{name, vh.Pick(r, rlValues)})
			}
		}
		sort.Slice(n.Labels, func(i, j int) bool { return n.Labels[i].K < n.Labels[j].K })
	}
	if depth < g.maxDepth {
		fan := vh.Pick(r, []int{0, 0, 1, 2, 2, 3, 3, 4})
		if root && fan == 0 {
			fan = r.Range(1, 3)
		}
		if fan > g.maxFan {
			fan = g.maxFan
		}
		for i := 0; i < fan && *budget > 0; i++ {
			n.Routes = append(n.Routes, genRoute(r, g, depth+1, budget, false))
		}
	}
	return n
}

func hasKey(kvs []KV, k string) bool {
	for _, kv := range kvs {
		if kv.K == k {
			return true
		}
	}
	return false
}

func allNodes(n *RSpec) []*RSpec {
	out := []*RSpec{n}
	for _, c := range n.Routes {
		out = append(out, allNodes(c)...)
	}
	return out
}

// breakConfig injects 1..2 defects that config.Load must reject.
func breakConfig(r *vh.Rand, c *Case) {
	nodes := allNodes(c.Root)
	for k := vh.Pick(r, []int{1, 1, 1, 2}); k > 0; k-- {
		n := vh.Pick(r, nodes)
		switch r.Intn(10) {
		case 9:
			c.Root.Continue = true
		case 0:
			c.Root.Receiver = ""
		case 1:
			c.Root.Matchers = append(c.Root.Matchers, MSpec{"=", "a", "x"})
		case 2:
			c.Root.Mute = []string{"ti1"}
		case 3:
			c.Root.Active = []string{"ti1"}
		case 4:
			n.Receiver = "nosuch"
		case 5:
			if n != c.Root {
				n.Mute = append(n.Mute, "nosuch-ti")
			} else {
				n.GroupBy = &[]string{"a", "...", "b"}
			}
		case 6:
			n.GroupBy = &[]string{vh.Pick(r, []string{"a", "..."}), "...", "b"}
		case 7:
			n.GroupBy = &[]string{"a", "b", "a"}
		default:
			if r.Bool() {
				n.GI = p64(0)
			} else {
				n.RI = p64(0)
			}
		}
	}
	c.Note = "invalid"
}

func lsKey(ls map[string]string) string {
	ks := vh.SortedKeys(ls)
	var sb strings.Builder
	for _, k := range ks {
		fmt.Fprintf(&sb, "%s=%q,", k, ls[k])
	}
	return sb.String()
}

func genLabelSets(r *vh.Rand, n int) []map[string]string {
	seen := map[string]bool{}
	out := []map[string]string{{}}
	seen[lsKey(out[0])] = true
	for tries := 0; len(out) < n && tries < 10*n; tries++ {
		ls := map[string]string{}
		for _, ln := range lnames {
			switch k := r.Intn(10); {
			case k < 3: // absent
			case k < 9:
				ls[ln] = vh.Pick(r, []string{"x", "y", "x", "y", "xy", "C:\\node", "x\\ny"})
			default:
				ls[ln] = "" // present but empty
			}
		}
		if r.Chance(1, 6) {
			ls["alertname"] = "An"
		}
		if r.Chance(1, 4) {
			ls[vh.Pick(r, unames)] = vh.Pick(r, []string{"x", "y", "xy"})
		}
		if !seen[lsKey(ls)] {
			seen[lsKey(ls)] = true
			out = append(out, ls)
		}
	}
	return out
}

func genCase(r *vh.Rand, g genOpts, nls int) Case {
	budget := g.maxNodes
	c := Case{Receivers: receivers, TIs: tiNames}
	c.Root = genRoute(r, g, 0, &budget, true)
	c.LabelSets = genLabelSets(r, nls)
	if nodes := allNodes(c.Root); len(nodes) > 1 && r.Chance(1, 3) {
		// a value with a rune that is not "printable" for strconv (pasted NO-BREAK SPACE, emoji joined by ZERO WIDTH
		// JOINER, ZERO WIDTH SPACE, tab) on an equality / inequality matcher, and alerts carrying exactly that value
		n := nodes[1+r.Intn(len(nodes)-1)]
		name, v := vh.Pick(r, lnames), vh.Pick(r, oddValues)
		n.Matchers = append(n.Matchers, MSpec{vh.Pick(r, []string{"=", "=", "=", "!="}), name, v})
		for k := 0; k < 3 && k < len(c.LabelSets)-1; k++ {
			ls := c.LabelSets[len(c.LabelSets)-1-k]
			ls[name] = v
			if k == 2 {
				ls[name] = strings.ReplaceAll(strings.ReplaceAll(v, "\u00a0", " "), "\u200d", "") // the look-alike
			}
		}
		dedup := map[string]bool{}
		out := c.LabelSets[:0]
		for _, ls := range c.LabelSets {
			if !dedup[lsKey(ls)] {
				dedup[lsKey(ls)] = true
				out = append(out, ls)
			}
		}
		c.LabelSets = out
	}
	if r.Chance(1, 9) {
		breakConfig(r, &c)
	}
	return c
}

// ---------- exhaustive small scope (thorough tier): all trees with <= maxN nodes, each non-root node with one
// of the 4 equality matchers over 2 labels x 2 values (or none) and either continue flag; all label sets ----------

type shape struct{ kids []*shape }

// all ordered trees with exactly n nodes
func shapes(n int) []*shape {
	if n == 1 {
		return []*shape{{}}
	}
	var out []*shape
	for _, f := range forests(n - 1) {
		out = append(out, &shape{kids: f})
	}
	return out
}

// all ordered forests with exactly n nodes
func forests(n int) [][]*shape {
	if n == 0 {
		return [][]*shape{nil}
	}
	var out [][]*shape
	for k := 1; k <= n; k++ {
		for _, first := range shapes(k) {
			for _, rest := range forests(n - k) {
				out = append(out, append([]*shape{first}, rest...))
			}
		}
	}
	return out
}

var exhMatchers = []MSpec{{"=", "a", "x"}, {"=", "a", "y"}, {"=", "b", "x"}, {"=", "b", "y"}}

// decorate yields every assignment of (one of 4 equality matchers, continue flag) to the non-root nodes of s.
func decorate(s *shape, root bool, emit func(*RSpec)) {
	var kids func(i int, acc []*RSpec, done func([]*RSpec))
	kids = func(i int, acc []*RSpec, done func([]*RSpec)) {
		if i == len(s.kids) {
			done(acc)
			return
		}
		decorate(s.kids[i], false, func(k *RSpec) { kids(i+1, append(acc[:i:i], k), done) })
	}
	kids(0, nil, func(ks []*RSpec) {
		cp := append([]*RSpec(nil), ks...)
		if root {
			emit(&RSpec{Receiver: "r0", Routes: cp})
			return
		}
		for mi, m := range exhMatchers {
			for _, cont := range []bool{false, true} {
				emit(&RSpec{Receiver: receivers[1+mi%4], Matchers: []MSpec{m}, Continue: cont, Routes: cp})
			}
		}
	})
}

func exhaustiveLabelSets() []map[string]string {
	var out []map[string]string
	for _, a := range []string{"", "x", "y"} {
		for _, b := range []string{"", "x", "y"} {
			ls := map[string]string{}
			if a != "" {
				ls["a"] = a
			}
			if b != "" {
				ls["b"] = b
			}
			out = append(out, ls)
		}
	}
	return out
}

// exhaustiveCases: every tree with at most maxN nodes, every decoration, all 9 label sets over {a,b} x {x,y}.
func exhaustiveCases(maxN int, emit func(Case)) {
	lss := exhaustiveLabelSets()
	for n := 1; n <= maxN; n++ {
		for _, s := range shapes(n) {
			decorate(s, true, func(r *RSpec) {
				emit(Case{Receivers: receivers, TIs: tiNames, Root: r, LabelSets: lss, Note: fmt.Sprintf("exhaustive-%d", n)})
			})
		}
	}
}

// ---------- running the implementation ----------

type rnode struct {
	path []int
	r    *dispatch.Route
}

func walk(r *dispatch.Route, path []int, f func(rnode)) {
	f(rnode{append([]int(nil), path...), r})
	for i, c := range r.Routes {
		walk(c, append(path, i), f)
	}
}

func pathKey(p []int) string { return fmt.Sprint(p) }

func sortedStrs[T ~string](m map[T]struct{}) []string {
	out := make([]string, 0, len(m))
	for k := range m {
		out = append(out, string(k))
	}
	sort.Strings(out)
	return out
}

func coqPath(p []int) string { return vh.ListOf(p, vh.Nat) }

func coqStrs(xs []string) string { return vh.ListOf(xs, vh.Str) }

func coqKVs(kvs []KV) string {
	return vh.ListOf(kvs, func(kv KV) string { return vh.Pair(vh.Str(kv.K), vh.Str(kv.V)) })
}

func coqOptSecs(s *int64) string {
	if s == nil {
		return "None"
	}
	return vh.Some(vh.Z(*s * int64(time.Second)))
}

var mkind = map[string]string{"=": "MEq", "!=": "MNeq", "=~": "MRe", "!~": "MNre"}

func coqRSpec(n *RSpec) string {
	gb := "None"
	if n.GroupBy != nil {
		gb = vh.Some(coqStrs(*n.GroupBy))
	}
	ms := vh.ListOf(n.Matchers, func(m MSpec) string { return vh.App("mkM", mkind[m.T], vh.Str(m.N), vh.Str(m.V)) })
	cfg := vh.App("mkRC", vh.Str(n.Receiver), gb, coqKVs(n.Match), coqKVs(n.MatchRE), ms, coqStrs(n.Mute), coqStrs(n.Active),
		vh.Bool(n.Continue), coqOptSecs(n.GW), coqOptSecs(n.GI), coqOptSecs(n.RI), coqKVs(n.Labels))
	return vh.App("RNode", cfg, vh.ListOf(n.Routes, coqRSpec))
}

func coqOpts(o *dispatch.RouteOpts) string {
	return vh.App("mkRO", vh.Str(o.Receiver), coqStrs(sortedStrs(o.GroupBy)), vh.Bool(o.GroupByAll),
		vh.Z(int64(o.GroupWait)), vh.Z(int64(o.GroupInterval)), vh.Z(int64(o.RepeatInterval)),
		coqStrs(o.MuteTimeIntervals), coqStrs(o.ActiveTimeIntervals), vhm.Labels(o.Labels))
}

// patterns and values the regexp oracle table must cover
func reDomain(c *Case) (pats, vals []string) {
	ps, vs := map[string]bool{}, map[string]bool{"": true}
	for _, n := range allNodes(c.Root) {
		for _, kv := range n.MatchRE {
			ps["^(?:"+kv.V+")$"] = true // the Value the legacy matcher ends up with (config Regexp.String())
		}
		for _, m := range n.Matchers {
			if m.T == "=~" || m.T == "!~" {
				ps[m.V] = true
			}
		}
	}
	for _, ls := range c.LabelSets {
		for _, v := range ls {
			vs[v] = true
		}
	}
	return vh.SortedKeys(ps), vh.SortedKeys(vs)
}

func toLabelSet(ls map[string]string) model.LabelSet {
	out := model.LabelSet{}
	for k, v := range ls {
		out[model.LabelName(k)] = model.LabelValue(v)
	}
	return out
}

// fake provider for the API: GetPending yields the alerts of the current case
type fakeAlerts struct {
	provider.Alerts
	cur []*types.Alert
}

func (f *fakeAlerts) GetPending() provider.AlertIterator {
	ch := make(chan *provider.Alert, len(f.cur))
	for _, a := range f.cur {
		ch <- &provider.Alert{Data: a}
	}
	close(ch)
	return provider.NewAlertIterator(ch, make(chan struct{}), nil)
}

var (
	apiOnce sync.Once
	theAPI  *apiv2.API
	apiSrc  = &fakeAlerts{}
)

func getAPI(t *testing.T) *apiv2.API {
	apiOnce.Do(func() {
		a, err := apiv2.NewAPI(apiSrc, nil, nil, nil, nil, promslog.NewNopLogger(), prometheus.NewRegistry())
		if err != nil {
			t.Fatalf("NewAPI: %v", err)
		}
		theAPI = a
	})
	return theAPI
}

func mkAlert(ls map[string]string, now time.Time) *types.Alert {
	return &alert.Alert{Alert: model.Alert{Labels: toLabelSet(ls), StartsAt: now, EndsAt: now.Add(24 * time.Hour)}, UpdatedAt: now}
}

func modelLsKey(ls model.LabelSet) string {
	m := map[string]string{}
	for k, v := range ls {
		m[string(k)] = string(v)
	}
	return lsKey(m)
}

// apiReceivers asks GET /api/v2/alerts (the real handler chain) which receivers each alert of the case has.
func apiReceivers(t *testing.T, cfg *config.Config, c *Case) (map[string][]string, error) {
	api := getAPI(t)
	api.Update(cfg, func(context.Context, model.LabelSet) {})
	now := time.Now()
	apiSrc.cur = nil
	for _, ls := range c.LabelSets {
		apiSrc.cur = append(apiSrc.cur, mkAlert(ls, now))
	}
	rec := httptest.NewRecorder()
	api.Handler.ServeHTTP(rec, httptest.NewRequest("GET", "/api/v2/alerts", nil))
	if rec.Code != 200 {
		return nil, fmt.Errorf("GET /alerts: status %d: %s", rec.Code, rec.Body.String())
	}
	var got models.GettableAlerts
	if err := json.Unmarshal(rec.Body.Bytes(), &got); err != nil {
		return nil, err
	}
	out := map[string][]string{}
	for _, a := range got {
		names := []string{}
		for _, r := range a.Receivers {
			names = append(names, *r.Name)
		}
		out[lsKey(a.Labels)] = names
	}
	return out, nil
}

// servedConfig: config.original of GET /api/v2/status, through the real handler chain (api.Update was just called)
func servedConfig() (string, error) {
	rec := httptest.NewRecorder()
	theAPI.Handler.ServeHTTP(rec, httptest.NewRequest("GET", "/api/v2/status", nil))
	if rec.Code != 200 {
		return "", fmt.Errorf("GET /status: status %d: %s", rec.Code, rec.Body.String())
	}
	var st models.AlertmanagerStatus
	if err := json.Unmarshal(rec.Body.Bytes(), &st); err != nil {
		return "", err
	}
	if st.Config == nil || st.Config.Original == nil {
		return "", fmt.Errorf("GET /status: no config.original")
	}
	return *st.Config.Original, nil
}

type notification struct {
	receiver, routeID string
	repeat            time.Duration
	mute, active      []string
	alerts            []string // lsKey of each alert
}

type recStage struct {
	mtx sync.Mutex
	ns  []notification
}

func (s *recStage) Exec(ctx context.Context, _ *slog.Logger, as ...*alert.Alert) (context.Context, []*alert.Alert, error) {
	n := notification{}
	n.receiver, _ = notify.ReceiverName(ctx)
	n.routeID, _ = notify.RouteID(ctx)
	n.repeat, _ = notify.RepeatInterval(ctx)
	n.mute, _ = notify.MuteTimeIntervalNames(ctx)
	n.active, _ = notify.ActiveTimeIntervalNames(ctx)
	for _, a := range as {
		n.alerts = append(n.alerts, modelLsKey(a.Labels))
	}
	s.mtx.Lock()
	s.ns = append(s.ns, n)
	s.mtx.Unlock()
	return ctx, as, nil
}

type dispObs struct {
	groupRoutes  map[string][]string // alert -> sorted route IDs of the aggregation groups holding it
	groupRecv    map[string][]string // alert -> sorted receivers reported by Groups
	notified     map[string][]string // alert -> sorted "routeID|receiver" it was notified through
	stageOpts    []notification
	secondWindow bool
}

// runDispatcher feeds the case's alerts to a real Dispatcher (virtual time) and reports where they ended up.
func runDispatcher(t *testing.T, route *dispatch.Route, c *Case, maxWait, maxInterval time.Duration, expected map[string][]string) dispObs {
	o := dispObs{groupRoutes: map[string][]string{}, groupRecv: map[string][]string{}, notified: map[string][]string{}}
	synctest.Test(t, func(t *testing.T) {
		logger := promslog.NewNopLogger()
		ctx, cancel := context.WithCancel(context.Background())
		defer cancel()
		reg := prometheus.NewRegistry()
		alerts, err := mem.NewAlerts(ctx, time.Hour, 0, nil, logger, eventrecorder.NopRecorder(), reg, nil)
		if err != nil {
			t.Fatal(err)
		}
		st := &recStage{}
		d := dispatch.NewDispatcher(alerts, route, st, marker.NewGroupMarker(), func(d time.Duration) time.Duration { return d },
			time.Hour, nil, logger, eventrecorder.NopRecorder(), dispatch.NewDispatcherMetrics(false, reg, nil), nil)
		go d.Run(time.Now())
		now := time.Now()
		fps := map[model.Fingerprint]string{}
		var as []*types.Alert
		for _, ls := range c.LabelSets {
			a := mkAlert(ls, now)
			fps[a.Fingerprint()] = lsKey(ls)
			as = append(as, a)
		}
		if err := alerts.Put(ctx, as...); err != nil {
			t.Fatal(err)
		}
		synctest.Wait()
		groups, recvs, err := d.Groups(ctx, func(*dispatch.Route) bool { return true }, func(*alert.Alert, time.Time) bool { return true })
		if err != nil {
			t.Fatal(err)
		}
		for _, g := range groups {
			for _, a := range g.Alerts {
				k := modelLsKey(a.Labels)
				o.groupRoutes[k] = append(o.groupRoutes[k], g.RouteID)
			}
		}
		for fp, rs := range recvs {
			o.groupRecv[fps[fp]] = append([]string(nil), rs...)
		}
		time.Sleep(maxWait + time.Second)
		synctest.Wait()
		// An alert that joined an already flushed group (group_wait 0 fires while the other alerts are still being
		// ingested) is notified at the group's next group_interval: widen the window once if something is missing.
		// (When a notification happens is C01's business; here only through which routes.)
		missing := func() bool {
			st.mtx.Lock()
			defer st.mtx.Unlock()
			got := map[string]bool{}
			for _, n := range st.ns {
				for _, a := range n.alerts {
					got[a+"\x00"+n.routeID+"|"+n.receiver] = true
				}
			}
			for a, rs := range expected {
				for _, r := range rs {
					if !got[a+"\x00"+r] {
						return true
					}
				}
			}
			return false
		}
		if missing() {
			o.secondWindow = true
			time.Sleep(maxInterval + time.Second)
			synctest.Wait()
		}
		d.Stop()
		alerts.Close()
		cancel()
		synctest.Wait()
		st.mtx.Lock()
		seen := map[string]bool{}
		for _, n := range st.ns {
			for _, a := range n.alerts {
				// a group may flush again within the observation window: "notified through" is a set
				if k := a + "\x00" + n.routeID + "|" + n.receiver; !seen[k] {
					seen[k] = true
					o.notified[a] = append(o.notified[a], n.routeID+"|"+n.receiver)
				}
			}
		}
		o.stageOpts = st.ns
		st.mtx.Unlock()
	})
	for _, m := range []map[string][]string{o.groupRoutes, o.groupRecv, o.notified} {
		for k := range m {
			sort.Strings(m[k])
		}
	}
	return o
}

// ---------- direct oracle: the declarative rule, on the configuration as written ----------

var classicName = regexp.MustCompile(`^[a-zA-Z_][a-zA-Z0-9_]*$`)

var reCache = map[string]*regexp.Regexp{}

func fullMatch(pat, v string) bool {
	re, ok := reCache[pat]
	if !ok {
		re = regexp.MustCompile("^(?:" + pat + ")$")
		reCache[pat] = re
	}
	return re.MatchString(v)
}

func specHolds(n *RSpec, ls map[string]string) bool {
	for _, kv := range n.Match {
		if ls[kv.K] != kv.V {
			return false
		}
	}
	for _, kv := range n.MatchRE {
		if !fullMatch(kv.V, ls[kv.K]) {
			return false
		}
	}
	for _, m := range n.Matchers {
		v := ls[m.N]
		var ok bool
		switch m.T {
		case "=":
			ok = v == m.V
		case "!=":
			ok = v != m.V
		case "=~":
			ok = fullMatch(m.V, v)
		default:
			ok = !fullMatch(m.V, v)
		}
		if !ok {
			return false
		}
	}
	return true
}

// chosen: the position is reached (every node on the way holds; every earlier sibling passed on the way either
// does not hold or has continue) and no child of it holds.
func specChosen(root *RSpec, p []int, ls map[string]string) bool {
	n := root
	if !specHolds(n, ls) {
		return false
	}
	for _, i := range p {
		for j := 0; j < i; j++ {
			if specHolds(n.Routes[j], ls) && !n.Routes[j].Continue {
				return false
			}
		}
		n = n.Routes[i]
		if !specHolds(n, ls) {
			return false
		}
	}
	for _, ch := range n.Routes {
		if specHolds(ch, ls) {
			return false
		}
	}
	return true
}

func specPaths(n *RSpec, path []int, out *[][]int) {
	*out = append(*out, append([]int(nil), path...))
	for i, c := range n.Routes {
		specPaths(c, append(path, i), out)
	}
}

func specAt(root *RSpec, p []int) []*RSpec { // chain root..node
	chain := []*RSpec{root}
	n := root
	for _, i := range p {
		n = n.Routes[i]
		chain = append(chain, n)
	}
	return chain
}

type wantOpts struct {
	receiver     string
	groupAll     bool
	groupBy      []string
	gw, gi, ri   time.Duration
	mute, active []string
	labels       map[string]string
}

// nearest ancestor-or-self that sets the option, else the default
func specOpts(chain []*RSpec) wantOpts {
	w := wantOpts{gw: 30 * time.Second, gi: 5 * time.Minute, ri: 4 * time.Hour, labels: map[string]string{}}
	for i := len(chain) - 1; i >= 0; i-- {
		if chain[i].Receiver != "" {
			w.receiver = chain[i].Receiver
			break
		}
	}
	for i := len(chain) - 1; i >= 0; i-- {
		if gb := chain[i].GroupBy; gb != nil {
			if len(*gb) == 1 && (*gb)[0] == "..." {
				w.groupAll = true
			} else {
				w.groupBy = append([]string(nil), (*gb)...)
				sort.Strings(w.groupBy)
			}
			break
		}
	}
	pick := func(f func(*RSpec) *int64, d time.Duration) time.Duration {
		for i := len(chain) - 1; i >= 0; i-- {
			if v := f(chain[i]); v != nil {
				return time.Duration(*v) * time.Second
			}
		}
		return d
	}
	w.gw = pick(func(n *RSpec) *int64 { return n.GW }, w.gw)
	w.gi = pick(func(n *RSpec) *int64 { return n.GI }, w.gi)
	w.ri = pick(func(n *RSpec) *int64 { return n.RI }, w.ri)
	self := chain[len(chain)-1]
	w.mute, w.active = self.Mute, self.Active
	for _, n := range chain {
		for _, kv := range n.Labels {
			w.labels[kv.K] = kv.V
		}
	}
	return w
}

func eqStrs(a, b []string) bool {
	if len(a) != len(b) {
		return false
	}
	for i := range a {
		if a[i] != b[i] {
			return false
		}
	}
	return true
}

func sortedCopy(a []string) []string {
	b := append([]string(nil), a...)
	sort.Strings(b)
	return b
}

var treeRecvRE = regexp.MustCompile(`receiver: (\S+)`)

// runCase loads the case through the real code, renders the Coq case term and runs the direct oracle.
func runCase(t *testing.T, run *vh.Run, c *Case, withDispatcher bool) {
	viol := func(key, what string) { run.Violate(key, what, c) }
	text := configText(c)
	pats, vals := reDomain(c)
	head := fmt.Sprintf("mkCase %s %s %s\n  %s\n  ", vhm.ReTable(pats, vals), coqStrs(c.Receivers), coqStrs(c.TIs), coqRSpec(c.Root))
	cfg, err := config.Load(text)
	if err != nil {
		code := errCode(err)
		run.Count("load", "rejected:"+code)
		run.Add(head+vh.App("LErr", vh.Str(code)), c, false)
		if c.Note != "invalid" {
			viol("valid-config-rejected", "config.Load rejected a well-formed routing tree: "+err.Error())
		}
		return
	}
	run.Count("load", "ok")
	if c.Note == "invalid" {
		viol("invalid-config-accepted", "config.Load accepted a routing tree that breaks a stated rule")
	}
	root := dispatch.NewRoute(cfg.Route, nil)
	var nodes []rnode
	walk(root, nil, func(n rnode) { nodes = append(nodes, n) })
	pathOf := map[*dispatch.Route][]int{}
	ids, idxs := map[string]bool{}, map[int]bool{}
	var nodeTerms []string
	maxWait, maxInterval := time.Duration(0), time.Duration(0)
	for _, n := range nodes {
		pathOf[n.r] = n.path
		nodeTerms = append(nodeTerms, vh.App("mkON", coqPath(n.path), coqOpts(&n.r.RouteOpts), vhm.Matchers(n.r.Matchers),
			vh.Bool(n.r.Continue), vh.Nat(n.r.Idx)))
		if ids[n.r.ID()] {
			viol("route-id-not-unique", "two routes of one tree have the same ID "+n.r.ID())
		}
		ids[n.r.ID()] = true
		if idxs[n.r.Idx] || n.r.Idx < 0 || n.r.Idx >= len(nodes) {
			viol("route-idx-not-unique", fmt.Sprintf("route Idx %d repeated or out of range", n.r.Idx))
		}
		idxs[n.r.Idx] = true
		if n.r.RouteOpts.GroupWait > maxWait {
			maxWait = n.r.RouteOpts.GroupWait
		}
		if n.r.RouteOpts.GroupInterval > maxInterval {
			maxInterval = n.r.RouteOpts.GroupInterval
		}
		// ---- oracle: option inheritance against the configuration as written ----
		w := specOpts(specAt(c.Root, n.path))
		o := &n.r.RouteOpts
		bad := func(field string) {
			viol("inherited-option-wrong:"+field, fmt.Sprintf("route %v: %s is not the nearest ancestor-or-self setting (or default)", n.path, field))
		}
		if o.Receiver != w.receiver {
			bad("receiver")
		}
		if o.GroupByAll != w.groupAll || (!w.groupAll && !eqStrs(sortedStrs(o.GroupBy), sortedCopy(w.groupBy))) {
			bad("group_by")
		}
		if o.GroupWait != w.gw {
			bad("group_wait")
		}
		if o.GroupInterval != w.gi {
			bad("group_interval")
		}
		if o.RepeatInterval != w.ri {
			bad("repeat_interval")
		}
		if !eqStrs(o.MuteTimeIntervals, w.mute) || !eqStrs(o.ActiveTimeIntervals, w.active) {
			bad("time_intervals")
		}
		lm := map[string]string{}
		for k, v := range o.Labels {
			lm[string(k)] = string(v)
		}
		if lsKey(lm) != lsKey(w.labels) {
			bad("labels")
		}
		self := specAt(c.Root, n.path)
		sp := self[len(self)-1]
		switch {
		case sp.GroupBy == nil:
			run.Count("option_branch", "group_by inherited")
		case len(*sp.GroupBy) == 0:
			run.Count("option_branch", "group_by: [] override")
		case (*sp.GroupBy)[0] == "...":
			run.Count("option_branch", "group_by: ['...']")
		default:
			run.Count("option_branch", "group_by explicit list")
		}
		if sp.Receiver == "" {
			run.Count("option_branch", "receiver inherited")
		}
		if sp.GW != nil || sp.GI != nil || sp.RI != nil {
			run.Count("option_branch", "timer overridden")
		}
		if len(sp.Labels) > 0 {
			run.Count("option_branch", "route labels merged")
		}
		if len(sp.Match)+len(sp.MatchRE) > 0 {
			run.Count("option_branch", "legacy match/match_re")
		}
		if len(sp.Mute)+len(sp.Active) > 0 {
			run.Count("option_branch", "mute/active intervals")
		}
		if len(n.path) > 0 {
			run.Count("node_kind", fmt.Sprintf("matchers=%d continue=%t leaf=%t", len(n.r.Matchers), n.r.Continue, len(n.r.Routes) == 0))
		}
	}
	run.Count("tree_nodes", fmt.Sprintf("%02d-%02d", len(nodes)/5*5, len(nodes)/5*5+4))

	var allPaths [][]int
	specPaths(c.Root, nil, &allPaths)

	apiRecv, apiErr := apiReceivers(t, cfg, c)
	if apiErr != nil {
		viol("api-get-alerts-failed", apiErr.Error())
	}
	// what `amtool config routes test|show --alertmanager.url=...` works on: the configuration text served by
	// GET /api/v2/status (config.original), loaded again
	var servedRoot *dispatch.Route
	if apiErr == nil {
		served, err := servedConfig()
		if err != nil {
			viol("api-status-failed", err.Error())
		} else if cfg2, err := config.Load(served); err != nil {
			key := "served-config-does-not-load"
			for _, n := range allNodes(c.Root) {
				for _, kv := range n.MatchRE {
					if kv.V == "" {
						// config Regexp.MarshalYAML wrote an empty match_re pattern as null (fixed: acaf6de); own key so that a return is named
						key = "served-config-does-not-load:empty-match_re"
					}
				}
			}
			viol(key, "the configuration GET /api/v2/status serves is rejected by config.Load (amtool --alertmanager.url cannot use it): "+err.Error())
		} else {
			servedRoot = dispatch.NewRoute(cfg2.Route, nil)
			run.Count("status_round_trip", "served configuration loaded")
		}
	}
	var disp dispObs
	if withDispatcher {
		expected := map[string][]string{}
		for _, ls := range c.LabelSets {
			for _, m := range root.Match(toLabelSet(ls)) {
				expected[lsKey(ls)] = append(expected[lsKey(ls)], m.ID()+"|"+m.RouteOpts.Receiver)
			}
		}
		disp = runDispatcher(t, root, c, maxWait, maxInterval, expected)
		if disp.secondWindow {
			run.Count("dispatcher", "second observation window (alert joined an already flushed group)")
		} else {
			run.Count("dispatcher", "all notifications within group_wait")
		}
	}

	var qTerms []string
	nontrivial := false
	for _, ls := range c.LabelSets {
		lset := toLabelSet(ls)
		matched := root.Match(lset)
		var paths [][]int
		var recv, rids, ridRecv []string
		for _, m := range matched {
			p, ok := pathOf[m]
			if !ok {
				viol("match-returns-foreign-route", "Route.Match returned a route that is not in the tree")
				continue
			}
			paths = append(paths, p)
			recv = append(recv, m.RouteOpts.Receiver)
			rids = append(rids, m.ID())
			ridRecv = append(ridRecv, m.ID()+"|"+m.RouteOpts.Receiver)
		}
		qTerms = append(qTerms, vh.App("mkQ", vhm.Labels(lset), vh.ListOf(paths, coqPath), coqStrs(recv)))

		// ---- oracle: the declarative rule ----
		var want [][]int
		for _, p := range allPaths {
			if specChosen(c.Root, p, ls) {
				want = append(want, p)
			}
		}
		if fmt.Sprint(want) != fmt.Sprint(paths) {
			viol("match-differs-from-declarative-rule", fmt.Sprintf("labels {%s}: Route.Match chose %v, the rule chooses %v", lsKey(ls), paths, want))
		}
		if len(matched) == 0 {
			viol("alert-without-receiver", fmt.Sprintf("labels {%s}: no route matched", lsKey(ls)))
		}
		for _, r := range recv {
			if r == "" {
				viol("alert-without-receiver", fmt.Sprintf("labels {%s}: a matched route has no receiver", lsKey(ls)))
			}
		}
		// ---- oracle: the consumers agree ----
		k := lsKey(ls)
		if apiErr == nil && !eqStrs(apiRecv[k], recv) {
			viol("consumers-disagree:api", fmt.Sprintf("labels {%s}: GET /alerts shows receivers %v, Route.Match gives %v", k, apiRecv[k], recv))
		}
		cliRecv, _ := cli.VerifResolveAlertReceivers(root, models.LabelSet(ls))
		if !eqStrs(cliRecv, recv) {
			viol("consumers-disagree:amtool", fmt.Sprintf("labels {%s}: amtool routes test prints %v, Route.Match gives %v", k, cliRecv, recv))
		}
		if servedRoot != nil {
			urlRecv, _ := cli.VerifResolveAlertReceivers(servedRoot, models.LabelSet(ls))
			if !eqStrs(urlRecv, recv) {
				viol("consumers-disagree:amtool-url-mode", fmt.Sprintf("labels {%s}: amtool routes test on the configuration served by GET /api/v2/status resolves %v, the dispatcher's tree (Route.Match) gives %v", k, urlRecv, recv))
			}
		}
		var treeRecv []string
		for _, m := range treeRecvRE.FindAllStringSubmatch(cli.VerifMatchingTree(root, models.LabelSet(ls)), -1) {
			treeRecv = append(treeRecv, m[1])
		}
		if !eqStrs(treeRecv, recv) {
			viol("consumers-disagree:amtool-tree", fmt.Sprintf("labels {%s}: amtool routes test --tree marks %v, Route.Match gives %v", k, treeRecv, recv))
		}
		if withDispatcher {
			if !eqStrs(disp.groupRoutes[k], sortedCopy(rids)) {
				viol("consumers-disagree:dispatcher-groups", fmt.Sprintf("labels {%s}: aggregation groups on routes %v, Route.Match gives %v", k, disp.groupRoutes[k], rids))
			}
			if !eqStrs(disp.groupRecv[k], sortedCopy(recv)) {
				viol("consumers-disagree:dispatcher-receivers", fmt.Sprintf("labels {%s}: Dispatcher.Groups reports receivers %v, Route.Match gives %v", k, disp.groupRecv[k], recv))
			}
			if !eqStrs(disp.notified[k], sortedCopy(ridRecv)) {
				viol("consumers-disagree:notifications", fmt.Sprintf("labels {%s}: notified through %v, Route.Match gives %v", k, disp.notified[k], ridRecv))
			}
		}
		// distribution
		switch {
		case len(paths) > 1:
			run.Count("match_result", "several routes (continue)")
			nontrivial = true
		case len(paths) == 1 && len(paths[0]) == 0:
			run.Count("match_result", "root only")
		case len(paths) == 1:
			run.Count("match_result", fmt.Sprintf("one route at depth %d", len(paths[0])))
			nontrivial = true
		}
		for _, p := range paths {
			ch := specAt(c.Root, p)
			last := ch[len(ch)-1]
			if len(last.Routes) > 0 && len(p) > 0 {
				run.Count("branch", "inner node chosen because no child matched")
			}
			if last.Continue && len(p) > 0 {
				run.Count("branch", "chosen node has continue")
			}
		}
	}
	if withDispatcher {
		byID := map[string]*dispatch.Route{}
		for _, n := range nodes {
			byID[n.r.ID()] = n.r
		}
		for _, n := range disp.stageOpts {
			r := byID[n.routeID]
			if r == nil || r.RouteOpts.Receiver != n.receiver || r.RouteOpts.RepeatInterval != n.repeat ||
				!eqStrs(r.RouteOpts.MuteTimeIntervals, n.mute) || !eqStrs(r.RouteOpts.ActiveTimeIntervals, n.active) {
				viol("notification-context-differs-from-route", "a notification's receiver/repeat_interval/time intervals are not those of its route "+n.routeID)
			}
		}
	}
	run.Add(head+vh.App("LOk", "[\n   "+strings.Join(nodeTerms, ";\n   ")+"]", "[\n   "+strings.Join(qTerms, ";\n   ")+"]"), c, nontrivial)
}

func TestCheck(t *testing.T) {
	env := vh.GetEnv()
	run := vh.NewRun(env, "AM.Run.C07Run")
	{
		// the parser / label-name mode the real binary and amtool select by default (UTF-8 with classic fallback)
		ff, err := featurecontrol.NewFlags(promslog.NewNopLogger(), "")
		if err != nil {
			t.Fatal(err)
		}
		compat.InitFromFlags(promslog.NewNopLogger(), ff)
	}
	// app engine: the REAL application wiring (package app) in real time, in its own process; reports through run.
	// true = the replay file held an app-engine case and has been handled.
	if appsys.Part(t, env, run, "C07") {
		return
	}
	var cases []Case
	if env.Replay != "" {
		var fc flapCase
		if err := vh.LoadReplayCase(env.Replay, &fc); err == nil && fc.Engine == "flap" {
			runFlapCase(t, run, &fc)
			if err := run.Finish("replay of one flapping-alerts case"); err != nil {
				t.Fatal(err)
			}
			return
		}
		var c Case
		if err := vh.LoadReplayCase(env.Replay, &c); err != nil {
			t.Fatal(err)
		}
		cases = append(cases, c)
	} else {
		cases = append(cases, vh.LoadCorpus[Case](env, "C07")...)
		cases = append(cases, handCases()...)
		r := vh.NewRand(env.Seed)
		n := env.N(400, 10)
		for i := 0; i < n; i++ {
			g := genOpts{maxDepth: vh.Pick(r, []int{1, 2, 3, 3, 4}), maxFan: 4, maxNodes: vh.Pick(r, []int{6, 12, 20, 30})}
			cases = append(cases, genCase(r.Fork(), g, 14))
		}
	}
	for i := range cases {
		runCase(t, run, &cases[i], true)
	}
	if env.Replay == "" && (env.Tier == "thorough" || env.Mode == "search") {
		// exhaustive small scope: all trees with <= 5 nodes (<= 4 in search mode) over 2 labels x 2 values, all continue flags
		maxN := 5
		if env.Tier != "thorough" {
			maxN = 4
		}
		exhaustiveCases(maxN, func(c Case) {
			runCase(t, run, &c, false)
			run.Count("exhaustive", c.Note)
		})
	}
	if env.Replay == "" {
		flapPart(t, run, env) // flap_test.go: flapping alerts under a group limit that exactly fits
	}
	amtoolVerifyPart(t, run, env) // amtool_verify_test.go: the real `routes test --verify.receivers` command line
	if err := run.Finish("corpus + 5 hand-written trees + random routing trees (depth <= 4, fan-out <= 4, ~11% invalid) as configuration text through config.Load + dispatch.NewRoute; per tree 14 label sets over 3 labels x {x,y,xy,empty,absent}; consumers (API, amtool, amtool --tree, amtool on the configuration served by GET /api/v2/status, Dispatcher groups and notifications) compared per label set; every third tree has a matcher value with a non-printable rune; 6 flapping-alert histories under a group limit that exactly fits (flap_test.go); thorough tier adds all trees <= 5 nodes over 2 labels x 2 values with all continue flags x 9 label sets; non-trivial = some label set is routed below the root; distinct by full case text"); err != nil {
		t.Fatal(err)
	}
}
