//go:build verif

// Flapping part of C07: "every alert is always routed to at least one receiver; ... the dispatcher's actual groups agree".
// A real Dispatcher (virtual time) with a group limit that exactly fits the alerts: some alerts flap (fire, are notified,
// resolve, the resolution is notified -- the aggregation group is destroyed -- and fire again before the dispatcher's
// next maintenance pass), then the remaining alerts fire. Afterwards every firing alert must sit in an aggregation group
// on every route Route.Match selects for it, and the dispatcher's own account of its groups (the gauge
// alertmanager_dispatcher_aggregation_groups, which is what the limit is checked against) must be the number that exist.
package c07

import (
	"context"
	"fmt"
	"sort"
	"strings"
	"testing"
	"testing/synctest"
	"time"

	"github.com/prometheus/client_golang/prometheus"
	"github.com/prometheus/common/model"
	"github.com/prometheus/common/promslog"

	"github.com/prometheus/alertmanager/alert"
	"github.com/prometheus/alertmanager/config"
	"github.com/prometheus/alertmanager/dispatch"
	"github.com/prometheus/alertmanager/eventrecorder"
	"github.com/prometheus/alertmanager/marker"
	"github.com/prometheus/alertmanager/provider/mem"

	"verifharness/vh"
)

type flapCase struct {
	Engine   string            `json:"engine"` // "flap"
	Config   string            `json:"config"`
	Common   map[string]string `json:"common_labels"`
	Flappers []string          `json:"flapping_alertnames"`
	Flaps    int               `json:"flaps"`
	Others   []string          `json:"other_alertnames"`
	Limited  bool              `json:"group_limit_configured"` // limit = exactly the number of groups the alerts need
	Limit    int               `json:"group_limit,omitempty"`
}

type groupLimit int

func (l groupLimit) MaxNumberOfAggregationGroups() int { return int(l) }

const flapTreeFlat = "route:\n  receiver: r0\n  group_by: [alertname]\n  group_wait: 1s\n  group_interval: 2s\n  repeat_interval: 1h\nreceivers: [{name: r0}, {name: r1}, {name: r2}]\n"
const flapTreeContinue = "route:\n  receiver: r0\n  group_by: [alertname]\n  group_wait: 1s\n  group_interval: 2s\n  repeat_interval: 1h\n  routes:\n  - receiver: r1\n    matchers: ['team=\"a\"']\n    continue: true\n  - receiver: r2\n    matchers: ['severity=\"page\"']\nreceivers: [{name: r0}, {name: r1}, {name: r2}]\n"

func genFlapCases(r *vh.Rand) []flapCase {
	var out []flapCase
	for i := 0; i < 6; i++ {
		c := flapCase{Engine: "flap", Config: flapTreeFlat, Common: map[string]string{}, Flaps: r.Range(2, 4), Limited: i%3 != 2}
		if i%2 == 1 {
			c.Config = flapTreeContinue
			c.Common = map[string]string{"team": "a", "severity": "page"} // two routes (r1 with continue, r2) per alert
		}
		names := []string{"Flapping", "DiskFull", "HighLatency", "Down", "CertExpiry"}
		vh.Shuffle(r, names)
		nf := r.Range(1, 2)
		c.Flappers = append(c.Flappers, names[:nf]...)
		c.Others = append(c.Others, names[nf:nf+r.Range(1, 3)]...)
		out = append(out, c)
	}
	return out
}

func gaugeValue(reg *prometheus.Registry, name string) (float64, bool) {
	mfs, err := reg.Gather()
	if err != nil {
		return 0, false
	}
	for _, mf := range mfs {
		if mf.GetName() == name && len(mf.GetMetric()) == 1 && mf.GetMetric()[0].GetGauge() != nil {
			return mf.GetMetric()[0].GetGauge().GetValue(), true
		}
	}
	return 0, false
}

func runFlapCase(t *testing.T, run *vh.Run, c *flapCase) {
	cfg, err := config.Load(c.Config)
	if err != nil {
		t.Fatalf("flap tree: %v", err)
	}
	root := dispatch.NewRoute(cfg.Route, nil)
	labelsOf := func(name string) model.LabelSet {
		ls := model.LabelSet{"alertname": model.LabelValue(name)}
		for k, v := range c.Common {
			ls[model.LabelName(k)] = model.LabelValue(v)
		}
		return ls
	}
	all := append(append([]string{}, c.Flappers...), c.Others...)
	need := 0
	for _, n := range all {
		need += len(root.Match(labelsOf(n)))
	}
	var limits dispatch.Limits
	if c.Limited {
		c.Limit = need
		limits = groupLimit(need)
	}
	variant := "no limit configured"
	if c.Limited {
		variant = "limit = groups needed"
	}
	run.Count("flap", fmt.Sprintf("%s; %d flapping x %d flaps; %d groups", variant, len(c.Flappers), c.Flaps, need))
	synctest.Test(t, func(t *testing.T) {
		logger := promslog.NewNopLogger()
		ctx, cancel := context.WithCancel(context.Background())
		defer cancel()
		reg := prometheus.NewRegistry()
		alerts, err := mem.NewAlerts(ctx, time.Hour, 0, nil, logger, eventrecorder.NopRecorder(), reg, nil)
		if err != nil {
			t.Fatal(err)
		}
		st := &recStage{}
		d := dispatch.NewDispatcher(alerts, root, st, marker.NewGroupMarker(), func(d time.Duration) time.Duration { return d },
			30*time.Second, limits, logger, eventrecorder.NopRecorder(), dispatch.NewDispatcherMetrics(false, reg, nil), nil)
		go d.Run(time.Now())
		started := map[string]time.Time{}
		put := func(name string, resolved bool) {
			now := time.Now()
			a := &alert.Alert{Alert: model.Alert{Labels: labelsOf(name), StartsAt: now, EndsAt: now.Add(time.Hour)}, UpdatedAt: now}
			if resolved {
				a.StartsAt, a.EndsAt = started[name], now
			} else {
				started[name] = now
			}
			if err := alerts.Put(ctx, a); err != nil {
				t.Fatal(err)
			}
			synctest.Wait()
		}
		for i := 0; i < c.Flaps; i++ {
			for _, f := range c.Flappers {
				put(f, false)
			}
			time.Sleep(1500 * time.Millisecond) // group_wait 1s: the firing notification is out
			for _, f := range c.Flappers {
				put(f, true)
			}
			time.Sleep(2 * time.Second) // next flush (group_wait + group_interval): the resolution is notified, the group is empty
			synctest.Wait()
		}
		for _, n := range all {
			put(n, false)
		}
		time.Sleep(1500 * time.Millisecond)
		synctest.Wait()
		judge := func(when string) {
			groups, _, err := d.Groups(ctx, func(*dispatch.Route) bool { return true }, func(*alert.Alert, time.Time) bool { return true })
			if err != nil {
				t.Fatal(err)
			}
			held := map[string]bool{}
			for _, g := range groups {
				for _, a := range g.Alerts {
					held[string(a.Labels["alertname"])+"\x00"+g.RouteID] = true
				}
			}
			for _, n := range all {
				for _, r := range root.Match(labelsOf(n)) {
					if !held[n+"\x00"+r.ID()] {
						run.Violate("routed-alert-has-no-aggregation-group", fmt.Sprintf("%s: alert %s is routed to receiver %q (route %s) by the tree, the API and amtool, but the dispatcher holds no aggregation group for it (%d groups exist, limit %d) and never notifies it",
							when, n, r.RouteOpts.Receiver, r.ID(), len(groups), c.Limit), c)
					}
				}
			}
			if v, ok := gaugeValue(reg, "alertmanager_dispatcher_aggregation_groups"); !ok {
				run.Violate("aggregation-groups-gauge-missing", "alertmanager_dispatcher_aggregation_groups not exported", c)
			} else if int(v) != len(groups) {
				run.Violate("aggregation-groups-account-differs-from-groups", fmt.Sprintf("%s: the dispatcher accounts for %d aggregation groups (gauge alertmanager_dispatcher_aggregation_groups, the number its group limit is checked against), %d exist", when, int(v), len(groups)), c)
			}
		}
		judge("after the flaps, before the next maintenance pass")
		time.Sleep(31 * time.Second)
		synctest.Wait()
		judge("after a maintenance pass")
		// the alerts that fired last were notified through their receivers
		st.mtx.Lock()
		got := map[string]bool{}
		for _, n := range st.ns {
			for _, a := range n.alerts {
				got[a+"\x00"+n.receiver] = true
			}
		}
		st.mtx.Unlock()
		for _, n := range c.Others {
			for _, r := range root.Match(labelsOf(n)) {
				if !got[modelLsKey(labelsOf(n))+"\x00"+r.RouteOpts.Receiver] {
					run.Violate("routed-alert-never-notified", fmt.Sprintf("alert %s is routed to receiver %q but no notification reached it within group_wait + 30 s", n, r.RouteOpts.Receiver), c)
				}
			}
		}
		d.Stop()
		alerts.Close()
		cancel()
		synctest.Wait()
	})
}

func flapPart(t *testing.T, run *vh.Run, env vh.Env) {
	r := vh.NewRand(env.Seed ^ 0xf1a9)
	cases := genFlapCases(r)
	for i := range cases {
		runFlapCase(t, run, &cases[i])
	}
}

var _ = sort.Strings
var _ = strings.Join
