//go:build verif

// amtool part of C07: `amtool config routes test --verify.receivers=<list>` is what people put into CI to pin down where
// an alert goes. The real command line (cli.Execute in a re-executed test binary) is run on generated routing trees:
// with the list Route.Match gives -> exit 0; with a longer list, a shorter one (a proper prefix), another order, other
// names -> exit status 1 and the WARNING line.
package c07

import (
	"fmt"
	"os"
	"path/filepath"
	"sort"
	"strings"
	"testing"

	"github.com/prometheus/alertmanager/config"
	"github.com/prometheus/alertmanager/dispatch"

	"verifharness/amtoolrun"
	"verifharness/vh"
)

func TestAmtoolHelper(t *testing.T) { amtoolrun.Helper(t) }

type amtoolVerifyCase struct {
	Engine  string   `json:"engine"` // "amtool-verify"
	Config  string   `json:"config"`
	Labels  []string `json:"labels"`
	Routed  []string `json:"routed_to"`
	Verify  string   `json:"verify_receivers"`
	Variant string   `json:"variant"`
	Exit    int      `json:"exit_status"`
	Output  string   `json:"output"`
}

func amtoolVerifyPart(t *testing.T, run *vh.Run, env vh.Env) {
	if env.Replay != "" {
		return
	}
	dir, err := os.MkdirTemp("", "c07amtool")
	if err != nil {
		t.Fatal(err)
	}
	defer os.RemoveAll(dir)
	r := vh.NewRand(env.Seed ^ 0xa17001)
	type probe struct {
		text   string
		labels []string
		recv   []string
		names  []string
	}
	var probes []probe
	hand := Case{Receivers: []string{"default", "team-db", "team-oncall", "audit"}, Note: "hand"}
	handText := "route:\n  receiver: default\n  routes:\n  - receiver: audit\n    continue: true\n  - receiver: team-db\n    matchers: ['service=\"database\"']\n    continue: true\n  - receiver: team-oncall\n    matchers: ['severity=\"critical\"']\nreceivers: [{name: default}, {name: team-db}, {name: team-oncall}, {name: audit}]\n"
	_ = hand
	for _, ls := range [][]string{{"service=database", "severity=critical"}, {"service=database"}, {"severity=critical"}, {"service=web"}} {
		probes = append(probes, probe{text: handText, labels: ls, names: []string{"default", "team-db", "team-oncall", "audit"}})
	}
	for tries := 0; tries < 60 && len(probes) < 14; tries++ {
		c := genCase(r.Fork(), genOpts{maxDepth: 3, maxFan: 4, maxNodes: 12}, 14)
		text := configText(&c)
		if _, err := config.Load(text); err != nil {
			continue
		}
		// prefer label sets routed to several receivers; at most two probes per tree
		sort.SliceStable(c.LabelSets, func(i, j int) bool { return len(c.LabelSets[i]) > len(c.LabelSets[j]) })
		n := 0
		for _, ls := range c.LabelSets {
			var args []string
			ok := len(ls) > 0
			for k, v := range ls {
				if v == "" || strings.ContainsAny(k+v, " ,\"=\\{}") || !plainASCII(k+v) {
					ok = false
				}
				args = append(args, k+"="+v)
			}
			if !ok || n >= 2 {
				continue
			}
			sort.Strings(args)
			probes = append(probes, probe{text: text, labels: args, names: c.Receivers})
			n++
		}
	}
	ran := 0
	for pi := range probes {
		p := &probes[pi]
		cfg, err := config.Load(p.text)
		if err != nil {
			continue
		}
		file := filepath.Join(dir, fmt.Sprintf("am%d.yml", pi))
		if err := os.WriteFile(file, []byte(p.text), 0o600); err != nil {
			t.Fatal(err)
		}
		base := []string{"config", "routes", "test", "--config.file=" + file}
		// what amtool itself resolves (agreement with Route.Match is the main engine's subject)
		out0, code0, err := amtoolrun.Run(dir, append(append([]string{}, base...), p.labels...)...)
		if err != nil {
			t.Fatalf("amtool: %v\n%s", err, out0)
		}
		_ = dispatch.NewRoute(cfg.Route, nil)
		lines := strings.Split(strings.TrimSpace(out0), "\n")
		if code0 != 0 || len(lines) == 0 || lines[len(lines)-1] == "" {
			run.Count("amtool_verify", "labels-not-usable-on-the-command-line")
			continue
		}
		p.recv = strings.Split(lines[len(lines)-1], ",")
		run.Count("amtool_verify_routed_receivers", fmt.Sprint(len(p.recv)))
		other := "no-such-receiver"
		for _, n := range p.names {
			if n != "" && !contains(p.recv, n) {
				other = n
			}
		}
		type variant struct {
			name string
			list []string
			want int
		}
		vs := []variant{
			{"equal", p.recv, 0},
			{"longer", append(append([]string{}, p.recv...), other), 1},
			{"longer-repeats-last", append(append([]string{}, p.recv...), p.recv[len(p.recv)-1]), 1},
			{"other-name-first", append([]string{other}, p.recv[1:]...), 1},
			{"other-name-last", append(append([]string{}, p.recv[:len(p.recv)-1]...), other), 1},
		}
		if len(p.recv) >= 2 {
			vs = append(vs, variant{"shorter-prefix", p.recv[:len(p.recv)-1], 1}, variant{"shorter-suffix", p.recv[1:], 1})
			rev := append([]string{}, p.recv...)
			for i, j := 0, len(rev)-1; i < j; i, j = i+1, j-1 {
				rev[i], rev[j] = rev[j], rev[i]
			}
			if strings.Join(rev, ",") != strings.Join(p.recv, ",") {
				vs = append(vs, variant{"reversed", rev, 1})
			}
		}
		for _, v := range vs {
			list := strings.Join(v.list, ",")
			out, code, err := amtoolrun.Run(dir, append(append(append([]string{}, base...), "--verify.receivers="+list), p.labels...)...)
			if err != nil {
				t.Fatalf("amtool: %v\n%s", err, out)
			}
			ran++
			run.Count("amtool_verify", fmt.Sprintf("%s:exit%d", v.name, code))
			warned := strings.Contains(out, "WARNING: Expected receivers did not match")
			cs := amtoolVerifyCase{Engine: "amtool-verify", Config: p.text, Labels: p.labels, Routed: p.recv, Verify: list, Variant: v.name, Exit: code, Output: out}
			switch {
			case v.want == 0 && (code != 0 || warned):
				run.Violate("amtool-verify-receivers-rejects-the-routed-list", fmt.Sprintf("amtool config routes test --verify.receivers=%s: the labels {%s} are routed to exactly %v, exit status %d", list, strings.Join(p.labels, ","), p.recv, code), cs)
			case v.want == 1 && code == 0:
				run.Violate("amtool-verify-receivers-accepts-a-different-list", fmt.Sprintf("amtool config routes test --verify.receivers=%s (%s) exits 0 although the labels {%s} are routed to %v", list, v.name, strings.Join(p.labels, ","), p.recv), cs)
			case v.want == 1 && (code != 1 || !warned):
				run.Violate("amtool-verify-receivers-wrong-failure", fmt.Sprintf("--verify.receivers=%s (%s): exit status %d, WARNING printed: %v (want exit status 1 with the WARNING)", list, v.name, code, warned), cs)
			}
		}
	}
	if ran < 20 {
		t.Errorf("amtool verify part ran only %d command lines", ran)
	}
}

func contains(xs []string, x string) bool {
	for _, y := range xs {
		if y == x {
			return true
		}
	}
	return false
}

func plainASCII(s string) bool {
	for i := 0; i < len(s); i++ {
		if s[i] < 0x21 || s[i] > 0x7e {
			return false
		}
	}
	return true
}
