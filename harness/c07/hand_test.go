//go:build verif

package c07

// Hand-written cases for the situations the property text names explicitly.

func strs(xs ...string) *[]string {
	if xs == nil {
		xs = []string{}
	}
	return &xs
}

func handCases() []Case {
	all := []map[string]string{{}, {"a": "x"}, {"a": "y"}, {"a": "x", "b": "x"}, {"a": "x", "b": "y"}, {"b": "y"}, {"a": "xy"}, {"a": "", "b": "x"}, {"a": "x", "b": "x", "c": "x"}}
	mk := func(root *RSpec) Case {
		return Case{Receivers: receivers, TIs: tiNames, Root: root, LabelSets: all}
	}
	return []Case{
		// continue on a non-last child whose subtree matches nothing: the child itself is chosen and the walk goes on
		mk(&RSpec{Receiver: "r0", Routes: []*RSpec{
			{Receiver: "r1", Continue: true, Matchers: []MSpec{{"=", "a", "x"}}, Routes: []*RSpec{
				{Receiver: "r2", Matchers: []MSpec{{"=", "b", "nomatch"}}}}},
			{Receiver: "r3", Matchers: []MSpec{{"=~", "a", "x|y"}}},
			{Receiver: "r4"}}}),
		// continue child that does not match at all; first non-continue match stops
		mk(&RSpec{Receiver: "r0", Routes: []*RSpec{
			{Receiver: "r1", Continue: true, Matchers: []MSpec{{"=", "a", "zzz"}}},
			{Receiver: "r2", Matchers: []MSpec{{"=", "a", "x"}}},
			{Receiver: "r3", Matchers: []MSpec{{"=", "a", "x"}}}}}),
		// negative matchers on absent labels, regex matching the empty string
		mk(&RSpec{Receiver: "r0", Routes: []*RSpec{
			{Receiver: "r1", Continue: true, Matchers: []MSpec{{"!=", "c", "x"}}},
			{Receiver: "r2", Continue: true, Matchers: []MSpec{{"!~", "c", ".+"}}},
			{Receiver: "r3", Continue: true, Matchers: []MSpec{{"=~", "c", "y?"}}},
			{Receiver: "r4", Continue: true, Matchers: []MSpec{{"=", "c", ""}}},
			{Continue: true, MatchRE: []KV{{"a", "x"}}, Match: []KV{{"b", "x"}}}}}),
		// group_by: explicit, [] override, '...' and inheritance below each; timers overridden at depth
		mk(&RSpec{Receiver: "r0", GroupBy: strs("a", "b"), GW: p64(0), Routes: []*RSpec{
			{Matchers: []MSpec{{"=", "a", "x"}}, GroupBy: strs(), Routes: []*RSpec{
				{Matchers: []MSpec{{"=", "b", "x"}}, RI: p64(45)},
				{Matchers: []MSpec{{"=", "b", "y"}}, GroupBy: strs("...")}}},
			{Matchers: []MSpec{{"=", "a", "y"}}, GroupBy: strs("..."), GI: p64(10), Routes: []*RSpec{
				{Matchers: []MSpec{{"=", "b", "y"}}, Labels: []KV{{"team", "t1"}}},
				{GroupBy: strs("c"), Labels: []KV{{"team", "t2"}, {"tier", "t1"}}, Routes: []*RSpec{{Labels: []KV{{"team", "t1"}}}}}}}}}),
		// deep chain where every level continues
		mk(&RSpec{Receiver: "r0", Routes: []*RSpec{
			{Continue: true, Routes: []*RSpec{{Continue: true, Receiver: "r1", Routes: []*RSpec{{Continue: true, Matchers: []MSpec{{"=", "a", "x"}}}, {Receiver: "r2"}}}}},
			{Receiver: "r3", Match: []KV{{"a", "x"}}}}}),
		// values with runes strconv does not call printable (pasted NO-BREAK SPACE, emoji joined by ZERO WIDTH JOINER): the
		// configuration served by GET /api/v2/status must route them like the dispatcher's tree (amtool --alertmanager.url)
		{Receivers: receivers, TIs: tiNames, Root: &RSpec{Receiver: "r0", Routes: []*RSpec{
			{Receiver: "r1", Matchers: []MSpec{{"=", "a", "core\u00a0platform"}}},
			{Receiver: "r2", Matchers: []MSpec{{"=", "b", "\U0001F468\u200d\U0001F469"}}},
			{Receiver: "r3", Matchers: []MSpec{{"!=", "c", "x\ty"}, {"=", "a", "x"}}}}},
			LabelSets: []map[string]string{{}, {"a": "core\u00a0platform"}, {"a": "core platform"}, {"b": "\U0001F468\u200d\U0001F469"}, {"b": "\U0001F468\U0001F469"}, {"a": "x", "c": "x\ty"}, {"a": "x", "c": "x y"}, {"a": "x"}}},
	}
}
