// Package vh is the shared plumbing of the correspondence harness: deterministic PRNG, Coq literal emission,
// case-file shards, and the impl.json report consumed by lib/vcheck.py.
package vh

import (
	"encoding/json"
	"fmt"
	"os"
	"path/filepath"
	"regexp"
	"runtime"
	"sort"
	"strconv"
	"strings"
	"sync"
)

// The harness processes run thousands of synctest bubbles with many goroutines; under heavy machine load Go 1.25's heap
// profiler was seen once to abort a process ("fatal error: bad use of bucket.mp", during GC mark termination, in harness
// set-up code). Nothing here uses heap profiles: switch the sampling off so that code path is never entered.
func init() { runtime.MemProfileRate = 0 }

// ---------- PRNG (splitmix64): every random choice of a run derives from VERIF_SEED ----------

type Rand struct{ s uint64 }

// NewRand derives the start state from the seed through the output function, not linearly: with a linear start
// state (seed*gamma + c) consecutive seeds walked the SAME splitmix orbit one step apart, so seeds 1, 2, 3 produced
// nearly the same cases shifted by one.
func NewRand(seed uint64) *Rand {
	z := seed*0xD6E8FEB86659FD93 + 0x1234567
	z = (z ^ (z >> 30)) * 0xBF58476D1CE4E5B9
	z = (z ^ (z >> 27)) * 0x94D049BB133111EB
	return &Rand{s: z ^ (z >> 31)}
}

func (r *Rand) U64() uint64 {
	r.s += 0x9E3779B97F4A7C15
	z := r.s
	z = (z ^ (z >> 30)) * 0xBF58476D1CE4E5B9
	z = (z ^ (z >> 27)) * 0x94D049BB133111EB
	return z ^ (z >> 31)
}
func (r *Rand) Intn(n int) int {
	if n <= 0 {
		return 0
	}
	return int(r.U64() % uint64(n))
}
func (r *Rand) Bool() bool           { return r.U64()&1 == 1 }
func (r *Rand) Chance(p, q int) bool { return r.Intn(q) < p }
func (r *Rand) Range(lo, hi int) int { return lo + r.Intn(hi-lo+1) } // inclusive
func (r *Rand) Fork() *Rand          { return NewRand(r.U64()) }
func Pick[T any](r *Rand, xs []T) T  { return xs[r.Intn(len(xs))] }
func Shuffle[T any](r *Rand, xs []T) {
	for i := len(xs) - 1; i > 0; i-- {
		j := r.Intn(i + 1)
		xs[i], xs[j] = xs[j], xs[i]
	}
}

// ---------- environment ----------

type Env struct {
	Out    string // output directory for this run
	Seed   uint64
	Tier   string // quick | thorough
	Mode   string // check | search
	Replay string // path of a replay file, or ""
	Dir    string // /verif
}

func GetEnv() Env {
	seed, _ := strconv.ParseUint(os.Getenv("VERIF_SEED"), 10, 64)
	if seed == 0 {
		seed = 1
	}
	e := Env{Out: os.Getenv("VERIF_OUT"), Seed: seed, Tier: os.Getenv("VERIF_TIER"), Mode: os.Getenv("VERIF_MODE"),
		Replay: os.Getenv("VERIF_REPLAY"), Dir: os.Getenv("VERIF_DIR")}
	if e.Tier != "thorough" {
		e.Tier = "quick"
	}
	if e.Mode == "" {
		e.Mode = "check"
	}
	if e.Out == "" {
		e.Out = os.TempDir()
	}
	if e.Dir == "" {
		e.Dir = "/verif"
	}
	return e
}

// N scales a case count by tier (thorough = x factor) and mode (search = x4).
func (e Env) N(quick int, thoroughFactor int) int {
	n := quick
	if e.Tier == "thorough" {
		n *= thoroughFactor
	}
	if e.Mode == "search" {
		n *= 4
	}
	return n
}

// ---------- Coq literals ----------

// Z renders an int64 as a Coq term of type Z. Large values use primitive-integer literals (zi/zn in
// Base/Prelude.v) because Coq parses big decimal Z literals very slowly.
func Z(v int64) string {
	switch {
	case v >= 0 && v < 1000:
		return fmt.Sprintf("%d", v)
	case v >= 0:
		return fmt.Sprintf("(zi %d)", v)
	case v > -1000:
		return fmt.Sprintf("(%d)", v)
	case v == -9223372036854775808:
		return "(- (zi2 2147483648 0))"
	default:
		return fmt.Sprintf("(zn %d)", -v)
	}
}
func U64(v uint64) string {
	if v < 1<<62 {
		return Z(int64(v))
	}
	return fmt.Sprintf("(zi2 %d %d)", v>>32, v&0xffffffff)
}
func Nat(v int) string { return fmt.Sprintf("%d%%nat", v) }
func Bool(b bool) string {
	if b {
		return "true"
	}
	return "false"
}

// Str renders a Go string as a Coq term of type string, byte-exact. Inside a Run the literal is interned:
// the case files define each distinct string once (Coq parses string literals slowly) and refer to it by name.
func Str(s string) string {
	internMu.Lock()
	defer internMu.Unlock()
	if interned != nil {
		if id, ok := interned[s]; ok {
			return id
		}
		id := fmt.Sprintf("s'%d", len(internOrder))
		interned[s] = id
		internOrder = append(internOrder, s)
		return id
	}
	return StrLit(s)
}

var (
	internMu    sync.Mutex // some engines render terms from several goroutines (c18 silconc)
	interned    map[string]string
	internOrder []string
	internRef   = regexp.MustCompile(`s'(\d+)\b`)
)

// StrLit renders the literal itself (no interning).
func StrLit(s string) string {
	plain := true
	for i := 0; i < len(s); i++ {
		if s[i] < 0x20 || s[i] >= 0x7f {
			plain = false
			break
		}
	}
	if plain {
		return `"` + strings.ReplaceAll(s, `"`, `""`) + `"`
	}
	var sb strings.Builder
	sb.WriteString("(bs [")
	for i := 0; i < len(s); i++ {
		if i > 0 {
			sb.WriteByte(';')
		}
		sb.WriteString(strconv.Itoa(int(s[i])))
	}
	sb.WriteString("]%N)")
	return sb.String()
}

func List(items []string) string { return "[" + strings.Join(items, "; ") + "]" }

func ListOf[T any](xs []T, f func(T) string) string {
	parts := make([]string, len(xs))
	for i, x := range xs {
		parts[i] = f(x)
	}
	return List(parts)
}
func Pair(a, b string) string { return "(" + a + ", " + b + ")" }
func Some(a string) string    { return "(Some " + a + ")" }
func Opt(ok bool, a string) string {
	if ok {
		return Some(a)
	}
	return "None"
}
func App(f string, args ...string) string {
	if len(args) == 0 {
		return f
	}
	return "(" + f + " " + strings.Join(args, " ") + ")"
}

// SortedKeys of a string-keyed map.
func SortedKeys[V any](m map[string]V) []string {
	ks := make([]string, 0, len(m))
	for k := range m {
		ks = append(ks, k)
	}
	sort.Strings(ks)
	return ks
}

// ---------- report ----------

type Violation struct {
	Key  string `json:"key"`  // stable classifier key (matched against known_findings.txt)
	What string `json:"what"` // human description of what fails
	Case any    `json:"case"` // the (shrunk) failing input / history, replayable
}

type Report struct {
	Evaluations        int            `json:"evaluations"`
	DistinctNontrivial int            `json:"distinct_nontrivial"`
	Rule               string         `json:"rule"`
	Samples            []any          `json:"samples"`
	Distribution       map[string]any `json:"distribution"`
	OracleViolations   []Violation    `json:"oracle_violations"`
	CasesFile          string         `json:"cases_file"`
	ShardSize          int            `json:"shard_size"`
}

// Run collects the cases of one check run.
type Run struct {
	Env       Env
	RunModule string   // e.g. "AM.Run.C10Run"
	coq       []string // Coq term per case (type: case of RunModule)
	js        []any    // JSON form per case (for replay files / samples)
	seen      map[string]bool
	nontriv   int
	Rep       Report
	Imports   []string
	Prefix    string // shard files are cases_<Prefix><k>.v; use distinct prefixes when one check has several Run modules
}

func NewRun(env Env, runModule string) *Run {
	if interned == nil {
		interned = map[string]string{}
	}
	return &Run{Env: env, RunModule: runModule, seen: map[string]bool{}, Rep: Report{Distribution: map[string]any{}}}
}

// Add records one case. nontrivial: by the property's stated rule. Duplicate cases (same Coq term) are
// still evaluated but counted once in distinct_nontrivial.
func (r *Run) Add(coqTerm string, js any, nontrivial bool) {
	r.coq = append(r.coq, coqTerm)
	r.js = append(r.js, js)
	if !r.seen[coqTerm] {
		r.seen[coqTerm] = true
		if nontrivial {
			r.nontriv++
		}
	}
}

func (r *Run) Len() int { return len(r.coq) }

func (r *Run) Violate(key, what string, c any) {
	// keep at most 3 per key
	n := 0
	for _, v := range r.Rep.OracleViolations {
		if v.Key == key {
			n++
		}
	}
	if n < 3 {
		r.Rep.OracleViolations = append(r.Rep.OracleViolations, Violation{Key: key, What: what, Case: c})
	}
}

// Count increments a named histogram bucket in the distribution section of the evidence.
func (r *Run) Count(hist, bucket string) {
	h, ok := r.Rep.Distribution[hist].(map[string]int)
	if !ok {
		h = map[string]int{}
		r.Rep.Distribution[hist] = h
	}
	h[bucket]++
}

// CountN adds n to a histogram bucket.
func (r *Run) CountN(hist, bucket string, n int) {
	h, ok := r.Rep.Distribution[hist].(map[string]int)
	if !ok {
		h = map[string]int{}
		r.Rep.Distribution[hist] = h
	}
	h[bucket] += n
}

const shardSize = 64

// Finish writes cases_<k>.v shards, cases.json and impl.json into Env.Out.
func (r *Run) Finish(rule string) error {
	if err := os.MkdirAll(r.Env.Out, 0o755); err != nil {
		return err
	}
	for k := 0; k*shardSize < len(r.coq); k++ {
		hi := (k + 1) * shardSize
		if hi > len(r.coq) {
			hi = len(r.coq)
		}
		var sb strings.Builder
		sb.WriteString("(* written by the harness: the cases the implementation just ran, with its observed outputs *)\n")
		sb.WriteString("From Coq Require Import Uint63.\nFrom AM Require Import Base.Prelude.\nFrom AM Require Import " + strings.TrimPrefix(r.RunModule, "AM.") + ".\n")
		for _, im := range r.Imports {
			sb.WriteString(im + "\n")
		}
		// only the interned strings this shard mentions (the intern table is shared by all runs of the process)
		used := map[int]bool{}
		for i := k * shardSize; i < hi; i++ {
			for _, m := range internRef.FindAllStringSubmatch(r.coq[i], -1) {
				n, _ := strconv.Atoi(m[1])
				used[n] = true
			}
		}
		for i, lit := range internOrder {
			if used[i] {
				fmt.Fprintf(&sb, "Definition s'%d : string := %s.\n", i, StrLit(lit))
			}
		}
		sb.WriteString("Definition cases : list case := [\n")
		for i := k * shardSize; i < hi; i++ {
			if i > k*shardSize {
				sb.WriteString(";\n")
			}
			sb.WriteString(r.coq[i])
		}
		sb.WriteString("\n].\n(* FOOTER *)\n")
		sb.WriteString("Definition M := Eval vm_compute in mismatch_ids check_case cases.\nPrint M.\n")
		sb.WriteString("Definition V := Eval vm_compute in mismatch_ids prop_case cases.\nPrint V.\n")
		if err := os.WriteFile(filepath.Join(r.Env.Out, fmt.Sprintf("cases_%s%d.v", r.Prefix, k)), []byte(sb.String()), 0o644); err != nil {
			return err
		}
	}
	cj, err := json.Marshal(r.js)
	if err != nil {
		return err
	}
	if err := os.WriteFile(filepath.Join(r.Env.Out, "cases"+r.Prefix+".json"), cj, 0o644); err != nil {
		return err
	}
	r.Rep.Evaluations = len(r.coq)
	r.Rep.DistinctNontrivial = r.nontriv
	r.Rep.Rule = rule
	r.Rep.CasesFile = "cases" + r.Prefix + ".json"
	r.Rep.ShardSize = shardSize
	if r.Prefix != "" {
		// a later part of the same check: merge with what earlier parts reported
		if old, err := os.ReadFile(filepath.Join(r.Env.Out, "impl.json")); err == nil {
			var prev Report
			if json.Unmarshal(old, &prev) == nil {
				r.Rep.Evaluations += prev.Evaluations
				r.Rep.DistinctNontrivial += prev.DistinctNontrivial
				r.Rep.Rule = prev.Rule + " || " + r.Rep.Rule
				r.Rep.OracleViolations = append(prev.OracleViolations, r.Rep.OracleViolations...)
				if len(r.Rep.Samples) == 0 && len(r.js) > 0 {
					r.Rep.Samples = append(r.Rep.Samples, r.js[0])
				}
				r.Rep.Samples = append(prev.Samples, r.Rep.Samples...)
				for k, v := range prev.Distribution {
					if _, ok := r.Rep.Distribution[k]; !ok {
						r.Rep.Distribution[k] = v
					}
				}
				r.Rep.CasesFile = prev.CasesFile
			}
		}
	}
	if len(r.Rep.Samples) == 0 {
		for i := 0; i < len(r.js) && i < 3; i++ {
			r.Rep.Samples = append(r.Rep.Samples, r.js[i])
		}
	}
	if r.Rep.OracleViolations == nil {
		r.Rep.OracleViolations = []Violation{}
	}
	b, err := json.MarshalIndent(r.Rep, "", " ")
	if err != nil {
		return err
	}
	return os.WriteFile(filepath.Join(r.Env.Out, "impl.json"), b, 0o644)
}

// LoadReplayCase reads the "case" (or "first_mismatching_case") field of a replay file into v.
func LoadReplayCase(path string, v any) error {
	b, err := os.ReadFile(path)
	if err != nil {
		return err
	}
	var raw map[string]json.RawMessage
	if err := json.Unmarshal(b, &raw); err != nil {
		return err
	}
	for _, k := range []string{"case", "first_mismatching_case"} {
		if c, ok := raw[k]; ok && string(c) != "null" {
			return json.Unmarshal(c, v)
		}
	}
	return fmt.Errorf("no case in replay file %s", path)
}

// LoadCorpus reads every corpus/<id>/*.json file (a replay file or a bare case) into a slice of cases.
// Corpus cases are minimised failing histories found earlier; harnesses run them first on every run.
func LoadCorpus[T any](env Env, id string) []T {
	var out []T
	files, _ := filepath.Glob(filepath.Join(env.Dir, "corpus", id, "*.json"))
	sort.Strings(files)
	for _, f := range files {
		var c T
		if err := LoadReplayCase(f, &c); err != nil {
			b, err2 := os.ReadFile(f)
			if err2 != nil || json.Unmarshal(b, &c) != nil {
				continue
			}
		}
		out = append(out, c)
	}
	return out
}
