//go:build verif

package c06

import (
	"fmt"
	"sort"
	"strings"

	"github.com/prometheus/alertmanager/config"
	"github.com/prometheus/alertmanager/dispatch"

	"verifharness/vh"
)

// keyCase: a configuration whose routes use every way of writing matchers (deprecated `match:` / `match_re:` maps
// with several entries, `matchers:` lists in arbitrary written order). The route key — hence every group key,
// notification-log key and marker key — must be a pure function of the configuration text: loading the same text
// again (restart, reload, another cluster member) must give the same keys.
type keyCase struct {
	YAML  string `json:"yaml"`
	Loads int    `json:"loads"`
}

func genKeyCase(r *vh.Rand) keyCase {
	names := []string{"job", "sev", "team", "env", "dc", "zone"}
	vals := []string{"a", "b", "c", "prod", "x y"}
	var b strings.Builder
	b.WriteString("route:\n  receiver: default\n  routes:\n")
	n := r.Range(1, 3)
	for i := 0; i < n; i++ {
		fmt.Fprintf(&b, "  - receiver: default\n")
		used := map[string]bool{}
		pick := func(k int) []string {
			var out []string
			for len(out) < k {
				nm := vh.Pick(r, names)
				if !used[nm] {
					used[nm] = true
					out = append(out, nm)
				}
			}
			return out
		}
		if r.Chance(3, 4) {
			b.WriteString("    match:\n")
			for _, nm := range pick(r.Range(2, 3)) {
				fmt.Fprintf(&b, "      %s: %q\n", nm, vh.Pick(r, vals))
			}
		}
		if r.Chance(1, 2) {
			b.WriteString("    match_re:\n")
			for _, nm := range pick(r.Range(1, 2)) {
				fmt.Fprintf(&b, "      %s: %q\n", nm, vh.Pick(r, []string{"a|b", "pr.*", ".+"}))
			}
		}
		if r.Chance(1, 2) && len(used) < len(names) {
			b.WriteString("    matchers:\n")
			for _, nm := range pick(1) {
				fmt.Fprintf(&b, "    - %s%s%q\n", nm, vh.Pick(r, []string{"=", "!=", "=~", "!~"}), vh.Pick(r, vals))
			}
		}
		if len(used) == 0 {
			fmt.Fprintf(&b, "    match:\n      job: \"a\"\n      sev: \"b\"\n")
		}
	}
	b.WriteString("receivers:\n- name: default\n")
	return keyCase{YAML: b.String(), Loads: 12}
}

// routeKeys loads the text and returns the key of every route in walk order.
func routeKeys(yaml string) ([]string, error) {
	conf, err := config.Load(yaml)
	if err != nil {
		return nil, err
	}
	var keys []string
	dispatch.NewRoute(conf.Route, nil).Walk(func(rt *dispatch.Route) { keys = append(keys, rt.Key()) })
	return keys, nil
}

func runKeyCase(c keyCase) (ok bool, what string, nroutes int) {
	first, err := routeKeys(c.YAML)
	if err != nil {
		return true, "", 0 // generator produced something the loader refuses: not judged
	}
	for i := 1; i < c.Loads; i++ {
		again, err := routeKeys(c.YAML)
		if err != nil {
			return false, fmt.Sprintf("load %d of the same text failed: %v", i+1, err), len(first)
		}
		if strings.Join(again, "\n") != strings.Join(first, "\n") {
			return false, fmt.Sprintf("load %d of the same configuration text computed different route keys (so the same alerts get different group keys / notification-log keys after a restart or on another cluster member): first %q, now %q", i+1, first, again), len(first)
		}
	}
	// the key lists its matchers in a canonical order: independent of the order they are written in
	_ = sort.Strings
	return true, "", len(first)
}
