//go:build verif

package c06

import (
	"fmt"
	"sort"
	"strings"

	"github.com/prometheus/alertmanager/config"
	"github.com/prometheus/alertmanager/dispatch"

	"verifharness/vh"
	"verifharness/vhm"
)

// keyCase: a configuration whose routes use every way of writing matchers (deprecated `match:` / `match_re:` maps
// with several entries, `matchers:` lists in arbitrary written order). The route key — hence every group key,
// notification-log key and marker key — must be a pure function of the configuration text: loading the same text
// again (restart, reload, another cluster member) must give the same keys.
type keyCase struct {
	YAML  string `json:"yaml"`
	Loads int    `json:"loads"`
	// Routes: the matchers of every route as WRITTEN (structured form of the same text), in walk order with the
	// position of the parent; present for the cases of genKeyCaseRef. From it the harness computes the reference route
	// keys on its own (refRouteKeys), without calling anything of the code under test.
	Routes []keyRoute `json:"routes,omitempty"`
}

type keyMatcher struct {
	Name string `json:"n"`
	Op   string `json:"op"` // = != =~ !~
	Val  string `json:"v"`
}

type keyRoute struct {
	Parent   int          `json:"parent"` // index into Routes; -1 = child of the root
	Match    []keyMatcher `json:"match,omitempty"`    // deprecated match: map (all "=")
	MatchRE  []keyMatcher `json:"match_re,omitempty"` // deprecated match_re: map (all "=~", value as written)
	Matchers []keyMatcher `json:"matchers,omitempty"` // matchers: list, in written order
}

// ---- the reference: the route key as the property states it, "a pure function of the matchers along the route's
// path": per route the matchers in the canonical order (label name, then value, then kind = != =~ !~), printed as
// name<op>"value", in braces, the routes of the path joined by "/". Written here from the documentation of the key's
// format; nothing of pkg/labels or dispatch is called. ----

var opRank = map[string]int{"=": 0, "!=": 1, "=~": 2, "!~": 3}

func refMatchersOf(rt keyRoute) []keyMatcher {
	var ms []keyMatcher
	for _, m := range rt.Match {
		ms = append(ms, keyMatcher{m.Name, "=", m.Val})
	}
	for _, m := range rt.MatchRE {
		// a match_re value is a compiled config.Regexp; the matcher's value is its anchored text
		ms = append(ms, keyMatcher{m.Name, "=~", "^(?:" + m.Val + ")$"})
	}
	ms = append(ms, rt.Matchers...)
	sort.SliceStable(ms, func(i, j int) bool {
		a, b := ms[i], ms[j]
		if a.Name != b.Name {
			return a.Name < b.Name
		}
		if a.Val != b.Val {
			return a.Val < b.Val
		}
		return opRank[a.Op] < opRank[b.Op]
	})
	return ms
}

func refRouteKeys(routes []keyRoute) []string {
	keys := []string{"{}"} // the root has no matchers
	own := make([]string, len(routes))
	for i, rt := range routes {
		parts := []string{}
		for _, m := range refMatchersOf(rt) {
			parts = append(parts, m.Name+m.Op+`"`+m.Val+`"`)
		}
		pre := "{}"
		if rt.Parent >= 0 {
			pre = own[rt.Parent]
		}
		own[i] = pre + "/{" + strings.Join(parts, ",") + "}"
	}
	// walk order = pre-order; the generator emits routes in that order already
	return append(keys, own...)
}

// genKeyCaseRef: routes (one or two levels) whose matchers deliberately put SEVERAL matchers on the same label, of
// different kinds and with values whose alphabetical order is the opposite of the order of their kinds, written in a
// random order; plus deprecated match / match_re maps. Values avoid quote, backslash and newline (no escaping in keys).
func genKeyCaseRef(r *vh.Rand) keyCase {
	names := []string{"job", "sev", "team", "env"}
	ops := []string{"=", "!=", "=~", "!~"}
	vals := []string{"a", "b", "c", "critical|page", "page-test", "a|b", "b|c", "pr.*", "x y", "zz", "0"}
	var routes []keyRoute
	mk := func(parent int) keyRoute {
		rt := keyRoute{Parent: parent}
		used := map[string]bool{}
		if r.Chance(1, 3) {
			nm := vh.Pick(r, names)
			used[nm] = true
			rt.Match = append(rt.Match, keyMatcher{nm, "=", vh.Pick(r, vals[:3])})
		}
		if r.Chance(1, 3) {
			nm := vh.Pick(r, names)
			if !used[nm] {
				rt.MatchRE = append(rt.MatchRE, keyMatcher{nm, "=~", vh.Pick(r, []string{"a|b", "pr.*", "b|c"})})
			}
		}
		// 2-4 matchers on one label: every pair of kinds, value order against kind order in about half of the pairs
		nm := vh.Pick(r, names)
		k := r.Range(2, 4)
		seen := map[string]bool{}
		for len(rt.Matchers) < k {
			m := keyMatcher{nm, vh.Pick(r, ops), vh.Pick(r, vals)}
			if id := m.Op + m.Val; !seen[id] {
				seen[id] = true
				rt.Matchers = append(rt.Matchers, m)
			}
		}
		if r.Chance(1, 2) {
			rt.Matchers = append(rt.Matchers, keyMatcher{vh.Pick(r, names), vh.Pick(r, ops), vh.Pick(r, vals)})
		}
		vh.Shuffle(r, rt.Matchers)
		return rt
	}
	n := r.Range(1, 3)
	for i := 0; i < n; i++ {
		routes = append(routes, mk(-1))
		top := len(routes) - 1
		if r.Chance(1, 3) {
			routes = append(routes, mk(top))
		}
	}
	// the text
	var b strings.Builder
	b.WriteString("route:\n  receiver: default\n  routes:\n")
	var emit func(i int, indent string)
	emit = func(i int, indent string) {
		rt := routes[i]
		fmt.Fprintf(&b, "%s- receiver: default\n", indent)
		in := indent + "  "
		if len(rt.Match) > 0 {
			fmt.Fprintf(&b, "%smatch:\n", in)
			for _, m := range rt.Match {
				fmt.Fprintf(&b, "%s  %s: %q\n", in, m.Name, m.Val)
			}
		}
		if len(rt.MatchRE) > 0 {
			fmt.Fprintf(&b, "%smatch_re:\n", in)
			for _, m := range rt.MatchRE {
				fmt.Fprintf(&b, "%s  %s: %q\n", in, m.Name, m.Val)
			}
		}
		fmt.Fprintf(&b, "%smatchers:\n", in)
		for _, m := range rt.Matchers {
			fmt.Fprintf(&b, "%s- '%s%s\"%s\"'\n", in, m.Name, m.Op, m.Val)
		}
		first := true
		for j := range routes {
			if routes[j].Parent == i {
				if first {
					fmt.Fprintf(&b, "%sroutes:\n", in)
					first = false
				}
				emit(j, in)
			}
		}
	}
	for i := range routes {
		if routes[i].Parent < 0 {
			emit(i, "  ")
		}
	}
	b.WriteString("receivers:\n- name: default\n")
	return keyCase{YAML: b.String(), Loads: 3, Routes: routes}
}

func genKeyCase(r *vh.Rand) keyCase {
	names := []string{"job", "sev", "team", "env", "dc", "zone"}
	vals := []string{"a", "b", "c", "prod", "x y"}
	var b strings.Builder
	b.WriteString("route:\n  receiver: default\n  routes:\n")
	n := r.Range(1, 3)
	for i := 0; i < n; i++ {
		fmt.Fprintf(&b, "  - receiver: default\n")
		used := map[string]bool{}
		pick := func(k int) []string {
			var out []string
			for len(out) < k {
				nm := vh.Pick(r, names)
				if !used[nm] {
					used[nm] = true
					out = append(out, nm)
				}
			}
			return out
		}
		if r.Chance(3, 4) {
			b.WriteString("    match:\n")
			for _, nm := range pick(r.Range(2, 3)) {
				fmt.Fprintf(&b, "      %s: %q\n", nm, vh.Pick(r, vals))
			}
		}
		if r.Chance(1, 2) {
			b.WriteString("    match_re:\n")
			for _, nm := range pick(r.Range(1, 2)) {
				fmt.Fprintf(&b, "      %s: %q\n", nm, vh.Pick(r, []string{"a|b", "pr.*", ".+"}))
			}
		}
		if r.Chance(1, 2) && len(used) < len(names) {
			b.WriteString("    matchers:\n")
			for _, nm := range pick(1) {
				fmt.Fprintf(&b, "    - %s%s%q\n", nm, vh.Pick(r, []string{"=", "!=", "=~", "!~"}), vh.Pick(r, vals))
			}
		}
		if len(used) == 0 {
			fmt.Fprintf(&b, "    match:\n      job: \"a\"\n      sev: \"b\"\n")
		}
	}
	b.WriteString("receivers:\n- name: default\n")
	return keyCase{YAML: b.String(), Loads: 12}
}

// routeKeys loads the text and returns the key of every route in walk order.
func routeKeys(yaml string) ([]string, error) {
	conf, err := config.Load(yaml)
	if err != nil {
		return nil, err
	}
	var keys []string
	dispatch.NewRoute(conf.Route, nil).Walk(func(rt *dispatch.Route) { keys = append(keys, rt.Key()) })
	return keys, nil
}

func runKeyCase(c keyCase) (ok bool, what string, nroutes int) {
	first, err := routeKeys(c.YAML)
	if err != nil {
		return true, "", 0 // generator produced something the loader refuses: not judged
	}
	for i := 1; i < c.Loads; i++ {
		again, err := routeKeys(c.YAML)
		if err != nil {
			return false, fmt.Sprintf("load %d of the same text failed: %v", i+1, err), len(first)
		}
		if strings.Join(again, "\n") != strings.Join(first, "\n") {
			return false, fmt.Sprintf("load %d of the same configuration text computed different route keys (so the same alerts get different group keys / notification-log keys after a restart or on another cluster member): first %q, now %q", i+1, first, again), len(first)
		}
	}
	// the keys are the ones the property defines, computed by the harness from the matchers as written
	if c.Routes != nil {
		want := refRouteKeys(c.Routes)
		if strings.Join(first, "\n") != strings.Join(want, "\n") {
			return false, fmt.Sprintf("the route keys (prefix of every group key, notification-log key and marker key under the route) are not the canonical function of the matchers along the path: got %q, reference (matchers ordered by label name, value, kind) %q", first, want), len(first)
		}
	}
	return true, "", len(first)
}

// coqKeyCases renders, per route of a reference case, the matchers as written and the matcher list of the route
// dispatch.NewRoute built, as terms of Run/C06KRun.v.
func coqKeyCases(c keyCase) []string {
	if c.Routes == nil {
		return nil
	}
	conf, err := config.Load(c.YAML)
	if err != nil {
		return nil
	}
	var real []*dispatch.Route
	dispatch.NewRoute(conf.Route, nil).Walk(func(rt *dispatch.Route) { real = append(real, rt) })
	if len(real) != len(c.Routes)+1 {
		return nil
	}
	kind := map[string]string{"=": "MEq", "!=": "MNeq", "=~": "MRe", "!~": "MNre"}
	kvs := func(ms []keyMatcher) string {
		return vh.ListOf(ms, func(m keyMatcher) string { return vh.Pair(vh.Str(m.Name), vh.Str(m.Val)) })
	}
	var out []string
	for i, rt := range c.Routes {
		written := vh.ListOf(rt.Matchers, func(m keyMatcher) string { return vh.App("mkM", kind[m.Op], vh.Str(m.Name), vh.Str(m.Val)) })
		out = append(out, fmt.Sprintf("mkKC %s %s %s %s", kvs(rt.Match), kvs(rt.MatchRE), written, vhm.Matchers(real[i+1].Matchers)))
	}
	return out
}
