//go:build verif

package c06

// API-stamp part of C06. The flush decides "was this alert modified while I was notifying?" purely by UpdatedAt
// equality (aggrGroup.flush -> store.DeleteIfNotModified), so the partition clause of C06 (every unresolved alert
// the provider holds is in the group(s) routing assigns to it) rests on the POST /api/v2/alerts handler giving two
// different updates of one alert different, strictly increasing stamps (DESIGN I20).
// Each case runs the REAL handler (through the public http.Handler of api/v2, JSON transport), the real mem provider
// and the real dispatcher under synctest virtual time with SUB-MILLISECOND spacing:
//   fire -> ... -> resolve posted a (1 ns .. 999 us) before the group's timer tick -> the flush lists the resolved
//   version and is IN FLIGHT (parked in the harness's notify.Stage) -> re-fire posted b (1 ns .. 999 us) after the tick
//   -> the flush ends, DeleteIfNotModified runs.
// Judged: (a) the provider's stored UpdatedAt strictly increases from POST to POST of one alert
// (api-update-stamps-not-increasing); (b) after the drain every unresolved alert the provider holds is in exactly the
// groups its routes assign (alert-missing-from-group / alert-in-unexpected-group).

import (
	"bytes"
	"context"
	"encoding/json"
	"fmt"
	"log/slog"
	"net/http/httptest"
	"sync"
	"testing"
	"testing/synctest"
	"time"

	"github.com/prometheus/client_golang/prometheus"
	"github.com/prometheus/common/model"
	"github.com/prometheus/common/promslog"

	"github.com/prometheus/alertmanager/alert"
	apiv2 "github.com/prometheus/alertmanager/api/v2"
	"github.com/prometheus/alertmanager/config"
	"github.com/prometheus/alertmanager/dispatch"
	"github.com/prometheus/alertmanager/notify"
	"github.com/prometheus/alertmanager/silence"

	"verifharness/dconc"
	"verifharness/vh"
)

type apiStampCase struct {
	Config   int   `json:"config"`    // index into dconc.DConfigs
	OffNs    int64 `json:"off_ns"`    // the first POST (fire) happens this long after the bubble's start: fixes the phase of the group's timer
	BeforeA  int64 `json:"a_ns"`      // the resolve is posted this long BEFORE the tick that flushes it
	AfterB   int64 `json:"b_ns"`      // the re-fire is posted this long AFTER that tick, while the flush is in flight
	Sibling  bool  `json:"sibling"`   // a second firing alert keeps the group alive
	InFlight bool  `json:"in_flight"` // false: control, the flush finishes before the re-fire
	Ticks    int   `json:"ticks"`     // flushes that happen (and complete) before the resolve
}

type parkStage struct {
	mu     sync.Mutex
	parked []chan struct{}
	hold   bool
}

func (p *parkStage) Exec(ctx context.Context, _ *slog.Logger, as ...*alert.Alert) (context.Context, []*alert.Alert, error) {
	p.mu.Lock()
	if !p.hold {
		p.mu.Unlock()
		return ctx, as, nil
	}
	ch := make(chan struct{})
	p.parked = append(p.parked, ch)
	p.mu.Unlock()
	<-ch
	return ctx, as, nil
}

func (p *parkStage) setHold(h bool) {
	p.mu.Lock()
	p.hold = h
	ps := p.parked
	if !h {
		p.parked = nil
	}
	p.mu.Unlock()
	if !h {
		for _, ch := range ps {
			close(ch)
		}
	}
}

func (p *parkStage) inFlight() int {
	p.mu.Lock()
	defer p.mu.Unlock()
	return len(p.parked)
}

var _ notify.Stage = (*parkStage)(nil)

func runAPIStampCase(t *testing.T, c *apiStampCase) (viol []vh.Violation, tags map[string]int) {
	tags = map[string]int{}
	violate := func(key, what string) {
		viol = append(viol, vh.Violation{Key: key, What: what, Case: replayCase{Kind: "apistamp", AS: c}})
	}
	synctest.Test(t, func(t *testing.T) {
		stage := &parkStage{}
		rig := dconc.NewRig(t, dconc.DConfigs[c.Config], nil, stage, time.Hour, 0)
		defer func() {
			stage.setHold(false)
			rig.Close()
		}()
		synctest.Wait()
		logger := promslog.NewNopLogger()
		sils, err := silence.New(silence.Options{Metrics: prometheus.NewRegistry()})
		if err != nil {
			t.Fatal(err)
		}
		api, err := apiv2.NewAPI(rig.Alerts,
			func(context.Context, func(*dispatch.Route) bool, func(*alert.Alert, time.Time) bool) (dispatch.AlertGroups, map[model.Fingerprint][]string, error) {
				return nil, nil, nil
			},
			func(string, string) ([]string, bool) { return nil, false }, sils, nil, logger, prometheus.NewRegistry())
		if err != nil {
			t.Fatal(err)
		}
		cfg, err := config.Load(dconc.DConfigs[c.Config])
		if err != nil {
			t.Fatal(err)
		}
		cfg.Global.ResolveTimeout = model.Duration(time.Hour)
		api.Update(cfg, func(context.Context, model.LabelSet) {})

		lsA, lsB := dconc.DLabelSets[0], dconc.DLabelSets[1]
		last := map[model.Fingerprint]time.Time{}
		post := func(ls model.LabelSet, what string, ends time.Time) {
			item := map[string]any{"labels": ls, "annotations": map[string]string{"v": what}}
			if !ends.IsZero() {
				item["endsAt"] = ends.UTC().Format(time.RFC3339Nano)
			}
			body, _ := json.Marshal([]any{item})
			req := httptest.NewRequest("POST", "/api/v2/alerts", bytes.NewReader(body))
			req.Header.Set("Content-Type", "application/json")
			w := httptest.NewRecorder()
			api.Handler.ServeHTTP(w, req)
			if w.Code != 200 {
				t.Fatalf("POST /api/v2/alerts (%s): status %d %s", what, w.Code, w.Body.String())
			}
			got, err := rig.Alerts.Get(ls.Fingerprint())
			if err != nil {
				t.Fatalf("provider does not hold the posted alert: %v", err)
			}
			// (a) successive POSTs of one alert, separated by >= 1 ns of clock time, get strictly increasing stamps
			if prev, ok := last[ls.Fingerprint()]; ok && !got.UpdatedAt.After(prev) {
				violate("api-update-stamps-not-increasing", fmt.Sprintf("POST %q of %v at %s was stamped UpdatedAt %s, the previous POST of the same alert %s: two different updates are indistinguishable for DeleteIfNotModified",
					what, ls, time.Now().UTC().Format(time.RFC3339Nano), got.UpdatedAt.UTC().Format(time.RFC3339Nano), prev.UTC().Format(time.RFC3339Nano)))
			}
			last[ls.Fingerprint()] = got.UpdatedAt
			synctest.Wait()
			tags["post-"+what]++
		}

		time.Sleep(time.Duration(c.OffNs))
		t0 := time.Now() // the group is created now: its timer fires at t0 + k * 10 s
		post(lsA, "fire", time.Time{})
		if c.Sibling {
			time.Sleep(time.Nanosecond)
			post(lsB, "fire", time.Time{})
		}
		const tick = 10 * time.Second
		for i := 0; i < c.Ticks; i++ { // complete flushes before the resolve
			time.Sleep(time.Until(t0.Add(time.Duration(i+1) * tick)))
			synctest.Wait()
		}
		next := t0.Add(time.Duration(c.Ticks+1) * tick)
		time.Sleep(time.Until(next.Add(-time.Duration(c.BeforeA))))
		post(lsA, "resolve", time.Now())
		stage.setHold(c.InFlight)
		time.Sleep(time.Until(next)) // the tick: the flush lists the resolved version
		synctest.Wait()
		if c.InFlight && stage.inFlight() == 0 {
			violate("harness-flush-not-in-flight", "the group's flush did not reach the pipeline at its tick")
		}
		if stage.inFlight() > 0 {
			tags["refire-while-flush-in-flight"]++
		}
		time.Sleep(time.Duration(c.AfterB))
		post(lsA, "refire", time.Time{})
		stage.setHold(false) // the flush ends: DeleteIfNotModified(resolved, destroyIfEmpty)
		synctest.Wait()

		// (b) the partition: every unresolved alert the provider holds is in exactly the groups routing assigns
		now := time.Now()
		groups := rig.Groups()
		for _, ls := range []model.LabelSet{lsA, lsB} {
			a, err := rig.Alerts.Get(ls.Fingerprint())
			if err != nil || a.ResolvedAt(now) {
				continue
			}
			want := map[string]bool{}
			for _, rt := range rig.Route.Match(ls) {
				want[dconc.GroupKeyOf(ls, rt)] = true
			}
			for _, g := range groups {
				in := false
				for _, x := range g.Alerts {
					if x.Fingerprint() == ls.Fingerprint() {
						in = true
						if !x.UpdatedAt.Equal(a.UpdatedAt) {
							violate("alert-missing-from-group", fmt.Sprintf("group %s holds another version of %v than the provider serves", g.Key, ls))
						}
					}
				}
				if in && !want[g.Key] {
					violate("alert-in-unexpected-group", fmt.Sprintf("alert %v is in group %s, which routing does not assign", ls, g.Key))
				}
				if in {
					delete(want, g.Key)
				}
			}
			for k := range want {
				violate("alert-missing-from-group", fmt.Sprintf("the provider holds the firing alert %v (UpdatedAt %s) but the group %s does not contain it after the resolve/re-fire %d ns / %d ns around a flush",
					ls, a.UpdatedAt.UTC().Format(time.RFC3339Nano), k, c.BeforeA, c.AfterB))
			}
			tags["partition-checked"]++
		}
	})
	return viol, tags
}

func genAPIStampCase(r *vh.Rand) apiStampCase {
	sub := []int64{1, 2, 999, 1000, 1001, 250_000, 499_999, 500_000, 998_999}
	c := apiStampCase{Config: r.Intn(len(dconc.DConfigs)), OffNs: int64(r.Range(1, 998)) * 1000, Sibling: r.Chance(1, 3), InFlight: !r.Chance(1, 6), Ticks: r.Intn(2)}
	// keep resolve, tick and re-fire inside one millisecond in most cases (the window a millisecond-grained stamp cannot
	// resolve), and let some straddle a millisecond boundary
	room := 1_000_000 - c.OffNs - 1 // ns left in the tick's millisecond after the tick
	c.BeforeA = vh.Pick(r, sub)
	if c.BeforeA > c.OffNs && !r.Chance(1, 5) {
		c.BeforeA = 1 + int64(r.Intn(int(c.OffNs)))
	}
	c.AfterB = vh.Pick(r, sub)
	if c.AfterB > room && !r.Chance(1, 5) {
		c.AfterB = 1 + int64(r.Intn(int(room)))
	}
	return c
}

// apiStampPart runs the cases and reports through run.
func apiStampPart(t *testing.T, env vh.Env, run *vh.Run, replay *apiStampCase) {
	var cases []apiStampCase
	if replay != nil {
		cases = append(cases, *replay)
	} else if env.Replay == "" {
		r := vh.NewRand(env.Seed + 6113)
		for i := 0; i < env.N(60, 8); i++ {
			cases = append(cases, genAPIStampCase(r.Fork()))
		}
	}
	for i := range cases {
		viol, tags := runAPIStampCase(t, &cases[i])
		for _, v := range viol {
			run.Violate(v.Key, v.What, v.Case)
		}
		for _, k := range vh.SortedKeys(tags) {
			run.CountN("api_stamp", k, tags[k])
		}
		run.CountN("api_stamp", "cases", 1)
	}
}
