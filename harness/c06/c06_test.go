//go:build verif

// Package c06: grouping partitions alerts by route and group_by values, completely and stably.
// Three parts: (a) whole-instance scenarios with routing trees and group_by variants -> per-group event lists for
// the timed group model (each flush is the whole group, group lifecycle); (b) Dispatcher.Groups dumps -> grouping
// cases (getGroupLabels) + direct partition oracle; (c) hook-driven schedules of the concurrent group-map machine
// (package dconc) -> Run/DConcRun.v.
package c06

import (
	"fmt"
	"sort"
	"strings"
	"testing"

	"github.com/prometheus/common/model"

	"verifharness/appsys"
	"verifharness/dconc"
	"verifharness/sysrun"
	"verifharness/vh"
)

type replayCase struct {
	Kind string                 `json:"kind"`
	Sc   *sysrun.Scenario       `json:"scenario,omitempty"`
	DC   *dconc.DCase           `json:"dcase,omitempty"`
	KC   *keyCase               `json:"keycase,omitempty"`
	SR   *dconc.StoreRaceParams `json:"storerace,omitempty"`
	AS   *apiStampCase          `json:"apistamp,omitempty"`
	AG   *apiGroupsCase         `json:"apigroups,omitempty"`
}

func coqLabels(ls model.LabelSet) string {
	names := make([]string, 0, len(ls))
	for n := range ls {
		names = append(names, string(n))
	}
	sort.Strings(names)
	parts := make([]string, len(names))
	for i, n := range names {
		parts[i] = vh.Pair(vh.Str(n), vh.Str(string(ls[model.LabelName(n)])))
	}
	return vh.List(parts)
}

func TestCheck(t *testing.T) {
	env := vh.GetEnv()
	runA := vh.NewRun(env, "AM.Run.C06Run")
	// app engine: the REAL application wiring (package app) in real time, in its own process; reports through runA.
	// true = the replay file held an app-engine case and has been handled.
	if appsys.Part(t, env, runA, "C06") {
		return
	}
	var scs []sysrun.Scenario
	var dcs []dconc.DCase
	var kcs []keyCase
	if env.Replay != "" {
		var rc replayCase
		if err := vh.LoadReplayCase(env.Replay, &rc); err != nil {
			t.Fatal(err)
		}
		if rc.Sc != nil {
			scs = append(scs, *rc.Sc)
		}
		if rc.DC != nil {
			dcs = append(dcs, *rc.DC)
		}
		if rc.KC != nil {
			kcs = append(kcs, *rc.KC)
		}
	} else {
		rk := vh.NewRand(env.Seed + 29)
		for i := 0; i < env.N(60, 5); i++ {
			kcs = append(kcs, genKeyCase(rk.Fork()))
		}
		rk2 := vh.NewRand(env.Seed + 4129)
		for i := 0; i < env.N(120, 5); i++ {
			kcs = append(kcs, genKeyCaseRef(rk2.Fork()))
		}
		r := vh.NewRand(env.Seed)
		n := env.N(160, 8)
		for i := 0; i < n; i++ {
			sc := sysrun.Gen(r.Fork(), sysrun.GenOpts{MaxOps: 10, Routes: true, MultiInt: i%3 == 0, Faults: i%4 == 0, Flap: i%5 == 1})
			if i%8 == 6 {
				// grouping labels that differ but concatenate to the same text
				sysrun.Collide(r.Fork(), &sc)
			}
			scs = append(scs, sc)
		}
	}
	// ---- (d) group keys are a pure function of the configuration text ----
	runK := vh.NewRun(env, "AM.Run.C06KRun")
	runK.Prefix = "k"
	for i := range kcs {
		for _, term := range coqKeyCases(kcs[i]) {
			runK.Add(term, replayCase{Kind: "keycase", KC: &kcs[i]}, strings.Count(term, "mkM") >= 6)
		}
		ok, what, nr := runKeyCase(kcs[i])
		runA.CountN("key_purity", "configurations loaded 12 times", 1)
		runA.CountN("key_purity", "routes compared", nr)
		if kcs[i].Routes != nil {
			runA.CountN("key_purity", "configurations compared with the reference key (several matchers per label)", 1)
		}
		if !ok {
			key := "route-key-differs-between-loads"
			if kcs[i].Routes != nil && strings.Contains(what, "not the canonical function") {
				key = "route-key-not-the-canonical-function-of-the-matchers"
			}
			runA.Violate(key, what, replayCase{Kind: "keycase", KC: &kcs[i]})
		}
	}
	// ---- (a) + (b) ----
	var gcases []string
	var gjs []any
	seenG := map[string]bool{}
	// (e) the product provider x group (Model/Ingest.v): the same runs with the alerts as SUBMITTED; the model's provider
	// computes what is stored and handed to the group
	runN := vh.NewRun(env, "AM.Run.IngestRun")
	runN.Prefix = "n"
	for i := range scs {
		sc := &scs[i]
		sc.Fix()
		res := sysrun.Run(t, sc)
		if res == nil {
			runA.Count("scenarios", "skipped: synctest bubble froze")
			continue
		}
		if env.Replay != "" {
			t.Log("\n" + res.Dump())
		}
		keys := make([]string, 0, len(res.Groups))
		for k := range res.Groups {
			keys = append(keys, k)
		}
		sort.Strings(keys)
		for _, k := range keys {
			term, stats := res.Case(k)
			runA.Add(term, replayCase{Kind: "scenario", Sc: sc}, stats["tick"] >= 1 && stats["insert"] >= 2)
			for name := range stats {
				runA.Count("group_cases_with", name)
			}
			if it, ist, ok := res.IngestCase(k); ok {
				runN.Add(it, replayCase{Kind: "scenario", Sc: sc}, ist["submission-merged-with-stored"] >= 1 || (ist["submission"] >= 3 && ist["tick"] >= 1))
				runN.Count("ingest_groups", "compared")
				for name := range ist {
					if name == "submission-merged-with-stored" || name == "provider-gc" || name == "submission" {
						runN.Count("ingest_cases_with", name)
					}
				}
			} else {
				runN.Count("ingest_groups", "skipped: provider GC and a submission at the same instant")
			}
		}
		runA.Count("groups_per_scenario", fmt.Sprintf("%d", len(keys)))
		for _, v := range sysrun.MonitorC06(res) {
			runA.Violate(v.Key, v.What, replayCase{Kind: "scenario", Sc: sc})
		}
		for _, d := range res.Dumps {
			for _, g := range d.Groups {
				for _, a := range g.Alerts {
					term := fmt.Sprintf("mkGC %s %s %s %s", vh.ListOf(g.GroupBy, vh.Str), vh.Bool(g.All), coqLabels(a), coqLabels(g.Labels))
					if !seenG[term] {
						seenG[term] = true
						gcases = append(gcases, term)
						gjs = append(gjs, map[string]any{"group_by": g.GroupBy, "all": g.All, "alert": a, "group_labels": g.Labels})
					}
				}
			}
		}
	}
	if err := runA.Finish("whole-instance scenarios with routing trees and group_by variants (explicit, [], '...', inherited) under synctest; one case per aggregation group = its event list (each flush must be the model's whole group); non-trivial = a flush and >= 2 inserts"); err != nil {
		t.Fatal(err)
	}
	runB := vh.NewRun(env, "AM.Run.C06GRun")
	runB.Prefix = "g"
	for i := range gcases {
		runB.Add(gcases[i], gjs[i], true)
	}
	runB.Count("grouping_cases", "distinct (group_by, alert, group labels) triples")
	if err := runB.Finish("distinct (route group_by, alert labels, group labels) triples read from Dispatcher.Groups after every operation"); err != nil {
		t.Fatal(err)
	}
	if runK.Len() > 0 {
		if err := runK.Finish("routes of generated configurations with several matchers of different kinds on one label (plus deprecated match / match_re maps): matchers as written vs the matcher list of the built route (the order Route.Key prints); non-trivial = at least 3 matchers"); err != nil {
			t.Fatal(err)
		}
	}
	if err := runN.Finish("the same whole-instance scenarios as (a), one case per aggregation group for the product provider x group (Model/Ingest.v): every alert as SUBMITTED to the provider (all label sets), provider GCs that deleted something, and the group's events; the model's provider computes what is stored / handed on (overlap merge), so each flush instant and content must follow from the submissions; non-trivial = a submission that was merged with the stored alert, or >= 3 submissions and a flush"); err != nil {
		t.Fatal(err)
	}
	// ---- (c) concurrent group map ----
	runC := vh.NewRun(env, "AM.Run.DConcRun")
	runC.Prefix = "d"
	dconc.T = t
	if env.Replay != "" {
		for i := range dcs {
			coq, viol, _ := dconc.ReplayT(t, &dcs[i])
			runC.Add(coq, replayCase{Kind: "dconc", DC: &dcs[i]}, true)
			for _, v := range viol {
				runC.Violate(v.Key, v.What, v.Case)
			}
		}
	} else {
		coq, js, viol, stats := dconc.Run(env, vh.NewRand(env.Seed+17), env.N(250, 10))
		for i := range coq {
			var dc *dconc.DCase
			if c, ok := js[i].(dconc.DCase); ok {
				dc = &c
			} else if c, ok := js[i].(*dconc.DCase); ok {
				dc = c
			}
			runC.Add(coq[i], replayCase{Kind: "dconc", DC: dc}, true)
		}
		for _, v := range viol {
			var dc *dconc.DCase
			if c, ok := v.Case.(dconc.DCase); ok {
				dc = &c
			} else if c, ok := v.Case.(*dconc.DCase); ok {
				dc = c
			}
			runC.Violate(v.Key, v.What, replayCase{Kind: "dconc", DC: dc})
		}
		runC.Rep.Distribution["dconc"] = stats
	}
	// judged engine with real parallelism: insert vs. the successful flush's delete-and-destroy on one group's store
	// (the atomic actions of Model/DispatchConc.v); an accepted insert must never end up in a destroyed group
	srp := dconc.StoreRaceParams{Seed: env.Seed, Rounds: env.N(150, 6), Resolved: 4000, Inserters: 8, CapMillis: 4000}
	if env.Replay != "" {
		srp.Rounds = 0
		var rc replayCase
		if err := vh.LoadReplayCase(env.Replay, &rc); err == nil && rc.SR != nil {
			srp = *rc.SR
		}
	}
	if srp.Rounds > 0 {
		sst, sv := dconc.StoreRace(srp)
		runC.CountN("store_race", "rounds", sst.Rounds)
		runC.CountN("store_race", "inserts linearised before the flush", sst.InsertBefore)
		runC.CountN("store_race", "inserts refused (group destroyed)", sst.InsertRefused)
		for _, v := range sv {
			runC.Violate(v.Key, v.What, v.Case)
		}
	}

	// API-stamp part (apistamp_test.go): sub-millisecond resolve / re-fire through the real POST handler across a flush
	var asReplay *apiStampCase
	if env.Replay != "" {
		var rc replayCase
		if err := vh.LoadReplayCase(env.Replay, &rc); err == nil {
			asReplay = rc.AS
		}
	}
	apiStampPart(t, env, runC, asReplay)

	// API-groups part (apigroups_test.go): GET /alerts/groups, with and without the receiver parameter, against the
	// reference partition
	var agReplay *apiGroupsCase
	if env.Replay != "" {
		var rc replayCase
		if err := vh.LoadReplayCase(env.Replay, &rc); err == nil {
			agReplay = rc.AG
		}
	}
	apiGroupsPart(t, env, runC, agReplay)

	if len(dcs) > 0 || env.Replay == "" || srp.Rounds > 0 || asReplay != nil || agReplay != nil {
		if err := runC.Finish("hook-driven schedules (2 workers x 2-3 alerts x maintenance sweep x flush) of the group-map machine on the real dispatcher"); err != nil {
			t.Fatal(err)
		}
	}
}
