//go:build verif

package c06

// API-groups part of C06: "GET /alerts/groups shows exactly this partition of the current alerts".
// Each case builds a whole instance (package sim: real provider, dispatcher, silences, inhibitor) under synctest,
// serves the REAL api/v2 handler (JSON transport, through its public http.Handler) with the dispatcher's own
// Groups function behind it, posts alerts, and asks for /api/v2/alerts/groups without and with the `receiver`
// parameter (exact names, alternations, prefix / suffix patterns, groups). The configured receiver names are chosen
// so that some names are a prefix or a suffix of others (db / db-oncall / legacy-db).
// Reference (independent of the code under test): the routing rule and group_by of the generated configuration are
// evaluated by the harness itself on its own structured description; a receiver pattern selects a receiver iff the
// pattern matches the WHOLE name (the harness anchors the pattern as ^(?:p)$ itself).
// Judged: the response holds exactly the groups (receiver, group labels, alerts) of the reference whose receiver is
// selected: group-missing-from-api-groups / unexpected-group-in-api-groups / api-group-content-differs.

import (
	"context"
	"encoding/json"
	"fmt"
	"net/http/httptest"
	"net/url"
	"regexp"
	"sort"
	"strings"
	"testing"
	"testing/synctest"
	"time"

	"github.com/prometheus/client_golang/prometheus"
	"github.com/prometheus/common/model"
	"github.com/prometheus/common/promslog"

	"github.com/prometheus/alertmanager/alert"
	apiv2 "github.com/prometheus/alertmanager/api/v2"

	"verifharness/sim"
	"verifharness/vh"
)

type agRoute struct {
	Team     string   `json:"team"` // matchers: team="<Team>"
	Receiver string   `json:"receiver"`
	GroupBy  []string `json:"group_by"` // nil = inherit the root's [alertname]
	Continue bool     `json:"continue,omitempty"`
}

type apiGroupsCase struct {
	Receivers []string            `json:"receivers"` // besides "default"
	Routes    []agRoute           `json:"routes"`
	Alerts    []map[string]string `json:"alerts"`
	Queries   []string            `json:"queries"` // values of the receiver parameter
}

func (c *apiGroupsCase) yaml() string {
	var b strings.Builder
	b.WriteString("route:\n  receiver: default\n  group_by: ['alertname']\n  group_wait: 30s\n  group_interval: 5m\n  repeat_interval: 4h\n  routes:\n")
	for _, rt := range c.Routes {
		fmt.Fprintf(&b, "  - receiver: %s\n    matchers:\n    - team=%q\n", rt.Receiver, rt.Team)
		if rt.Continue {
			b.WriteString("    continue: true\n")
		}
		if rt.GroupBy != nil {
			q := make([]string, len(rt.GroupBy))
			for i, g := range rt.GroupBy {
				q[i] = "'" + g + "'"
			}
			fmt.Fprintf(&b, "    group_by: [%s]\n", strings.Join(q, ", "))
		}
	}
	b.WriteString("receivers:\n- name: default\n")
	for _, n := range c.Receivers {
		fmt.Fprintf(&b, "- name: %s\n", n)
	}
	return b.String()
}

type refGroup struct {
	receiver string
	labels   string
	alerts   []string
}

func (g refGroup) id() string { return g.receiver + " " + g.labels }

func lsText(m map[string]string) string {
	ks := vh.SortedKeys(m)
	parts := make([]string, len(ks))
	for i, k := range ks {
		parts[i] = fmt.Sprintf("%s=%q", k, m[k])
	}
	return "{" + strings.Join(parts, ", ") + "}"
}

// the reference partition: routing (children in order, first match wins unless continue, else the root) and group_by
func (c *apiGroupsCase) reference() map[string]*refGroup {
	out := map[string]*refGroup{}
	add := func(idx int, recv string, gb []string, a map[string]string) {
		gl := map[string]string{}
		all := len(gb) == 1 && gb[0] == "..."
		for k, v := range a {
			if all {
				gl[k] = v
				continue
			}
			for _, g := range gb {
				if g == k {
					gl[k] = v
				}
			}
		}
		g := refGroup{receiver: recv, labels: lsText(gl)}
		key := fmt.Sprintf("%d %s", idx, g.id()) // one group per (route, labels)
		if out[key] == nil {
			out[key] = &g
		}
		out[key].alerts = append(out[key].alerts, lsText(a))
	}
	for _, a := range c.Alerts {
		matched := false
		for i, rt := range c.Routes {
			if a["team"] != rt.Team {
				continue
			}
			gb := rt.GroupBy
			if gb == nil {
				gb = []string{"alertname"}
			}
			add(i, rt.Receiver, gb, a)
			matched = true
			if !rt.Continue {
				break
			}
		}
		if !matched {
			add(-1, "default", []string{"alertname"}, a)
		}
	}
	for _, g := range out {
		sort.Strings(g.alerts)
	}
	return out
}

func genAPIGroupsCase(r *vh.Rand) apiGroupsCase {
	bases := []string{"db", "ops", "web"}
	var c apiGroupsCase
	pool := map[string]bool{}
	b1 := vh.Pick(r, bases)
	b2 := vh.Pick(r, bases)
	for _, n := range []string{b1, b2, b1 + "-oncall", "legacy-" + b2} {
		pool[n] = true
	}
	for _, n := range []string{vh.Pick(r, bases) + "2", "legacy-" + b1 + "-oncall", vh.Pick(r, bases)} {
		if r.Chance(1, 2) {
			pool[n] = true
		}
	}
	c.Receivers = vh.SortedKeys(pool)
	for _, n := range c.Receivers {
		c.Routes = append(c.Routes, agRoute{Team: n, Receiver: n, GroupBy: vh.Pick(r, [][]string{nil, nil, {}, {"job"}, {"..."}}), Continue: r.Chance(1, 6)})
	}
	vh.Shuffle(r, c.Routes)
	if r.Chance(1, 3) { // a second route of some receiver, for another team value
		c.Routes = append(c.Routes, agRoute{Team: "shared", Receiver: vh.Pick(r, c.Receivers), GroupBy: []string{"job"}})
	}
	teams := append([]string{"none", "shared"}, c.Receivers...)
	n := r.Range(4, 9)
	for i := 0; i < n; i++ {
		a := map[string]string{"alertname": vh.Pick(r, []string{"A", "B"}), "job": vh.Pick(r, []string{"x", "y"}), "inst": fmt.Sprintf("i%d", i)}
		if i < len(c.Receivers) {
			a["team"] = c.Receivers[i] // every receiver has a group
		} else if t := vh.Pick(r, teams); t != "none" {
			a["team"] = t
		}
		c.Alerts = append(c.Alerts, a)
	}
	names := append([]string{"default"}, c.Receivers...)
	two := func() (string, string) { return vh.Pick(r, names), vh.Pick(r, names) }
	for _, n := range names {
		c.Queries = append(c.Queries, n)
	}
	for i := 0; i < 6; i++ {
		x, y := two()
		c.Queries = append(c.Queries, x+"|"+y)
	}
	x, y := two()
	c.Queries = append(c.Queries, b1+"|"+b2, b2+"|"+b1, "("+x+"|"+y+")", x+"|"+y+"|"+vh.Pick(r, names), b1+".*", ".*"+b2, b1+"|nosuch", "nosuch|"+b2, ".+", "d.|o..|w..", "legacy-("+b1+"|"+b2+")")
	return c
}

func runAPIGroupsCase(t *testing.T, c *apiGroupsCase) (viol []vh.Violation, tags map[string]int) {
	tags = map[string]int{}
	violate := func(key, what string) {
		viol = append(viol, vh.Violation{Key: key, What: what, Case: replayCase{Kind: "apigroups", AG: c}})
	}
	ok := sim.Bubble(t, 20*time.Second, func(t *testing.T) {
		ints := map[string][]sim.IntSpec{"default": {{Name: "int0"}}}
		for _, n := range c.Receivers {
			ints[n] = []sim.IntSpec{{Name: "int0"}}
		}
		s := sim.New(t, sim.Options{ConfigYAML: c.yaml(), Ints: ints, Retention: 2 * time.Hour})
		defer s.Stop()
		synctest.Wait()
		api, err := apiv2.NewAPI(s.Alerts, s.Disp.Groups, s.Marker.Muted, s.Silences, nil, promslog.NewNopLogger(), prometheus.NewRegistry())
		if err != nil {
			t.Fatal(err)
		}
		api.Update(s.Conf, func(ctx context.Context, ls model.LabelSet) {
			s.Inhibitor.Mutes(ctx, ls)
			s.Silencer.Mutes(ctx, ls)
		})
		now := time.Now()
		for _, m := range c.Alerts {
			ls := model.LabelSet{}
			for k, v := range m {
				ls[model.LabelName(k)] = model.LabelValue(v)
			}
			s.PutAlert(&alert.Alert{Alert: model.Alert{Labels: ls, StartsAt: now, EndsAt: now.Add(time.Hour)}, UpdatedAt: now})
		}
		synctest.Wait()
		time.Sleep(time.Second)
		synctest.Wait()
		ref := c.reference()
		get := func(q *string) (map[string]*refGroup, int) {
			u := "/api/v2/alerts/groups"
			if q != nil {
				u += "?receiver=" + url.QueryEscape(*q)
			}
			w := httptest.NewRecorder()
			api.Handler.ServeHTTP(w, httptest.NewRequest("GET", u, nil))
			if w.Code != 200 {
				return nil, w.Code
			}
			var body []struct {
				Labels   map[string]string `json:"labels"`
				Receiver struct {
					Name string `json:"name"`
				} `json:"receiver"`
				Alerts []struct {
					Labels map[string]string `json:"labels"`
				} `json:"alerts"`
			}
			if err := json.Unmarshal(w.Body.Bytes(), &body); err != nil {
				t.Fatalf("GET %s: %v", u, err)
			}
			got := map[string]*refGroup{}
			for i, g := range body {
				rg := &refGroup{receiver: g.Receiver.Name, labels: lsText(g.Labels)}
				for _, a := range g.Alerts {
					rg.alerts = append(rg.alerts, lsText(a.Labels))
				}
				sort.Strings(rg.alerts)
				got[fmt.Sprintf("%d", i)] = rg
			}
			return got, 200
		}
		// compare as multisets of (receiver, labels, alerts)
		compare := func(what string, want, got map[string]*refGroup) {
			count := func(m map[string]*refGroup) map[string]int {
				out := map[string]int{}
				for _, g := range m {
					out[g.id()+" :: "+strings.Join(g.alerts, " ")]++
				}
				return out
			}
			ids := func(m map[string]*refGroup) map[string]int {
				out := map[string]int{}
				for _, g := range m {
					out[g.id()]++
				}
				return out
			}
			wi, gi := ids(want), ids(got)
			for id, n := range wi {
				if gi[id] < n {
					violate("group-missing-from-api-groups", fmt.Sprintf("GET /alerts/groups %s: the group %s (x%d) of the partition is not in the response", what, id, n))
				}
			}
			for id, n := range gi {
				if wi[id] < n {
					violate("unexpected-group-in-api-groups", fmt.Sprintf("GET /alerts/groups %s: the response contains the group %s (x%d), which is not in the partition selected by the request", what, id, n))
				}
			}
			wc, gc := count(want), count(got)
			for k, n := range wc {
				if gc[k] != n && gi[strings.SplitN(k, " :: ", 2)[0]] == wi[strings.SplitN(k, " :: ", 2)[0]] {
					violate("api-group-content-differs", fmt.Sprintf("GET /alerts/groups %s: group with alerts %s expected, response differs", what, k))
				}
			}
		}
		got, code := get(nil)
		if code != 200 {
			violate("api-groups-request-failed", fmt.Sprintf("GET /alerts/groups: status %d", code))
			return
		}
		compare("(no parameters)", ref, got)
		tags["groups in the partition"] += len(ref)
		for i := range c.Queries {
			q := c.Queries[i]
			re, err := regexp.Compile("^(?:" + q + ")$") // the harness's own anchoring: the pattern must match the whole name
			if err != nil {
				continue
			}
			want := map[string]*refGroup{}
			for k, g := range ref {
				if re.MatchString(g.receiver) {
					want[k] = g
				}
			}
			got, code := get(&q)
			if code != 200 {
				violate("api-groups-request-failed", fmt.Sprintf("GET /alerts/groups?receiver=%s: status %d", q, code))
				continue
			}
			compare("?receiver="+q, want, got)
			tags["receiver queries"]++
			if strings.Contains(q, "|") {
				tags["receiver queries with an alternation"]++
			}
			if len(want) > 0 && len(want) < len(ref) {
				tags["receiver queries selecting a proper non-empty part"]++
			}
			// would a wrongly anchored alternation have selected more? (how often the case can tell)
			if loose, err := regexp.Compile("^" + q + "$"); err == nil {
				for _, g := range ref {
					if loose.MatchString(g.receiver) != re.MatchString(g.receiver) {
						tags["receiver queries where outer-only anchoring would differ"]++
						break
					}
				}
			}
		}
	})
	if !ok {
		tags["skipped: synctest bubble froze"]++
	}
	return viol, tags
}

func apiGroupsPart(t *testing.T, env vh.Env, run *vh.Run, replay *apiGroupsCase) {
	var cases []apiGroupsCase
	if replay != nil {
		cases = append(cases, *replay)
	} else if env.Replay == "" {
		r := vh.NewRand(env.Seed + 7717)
		for i := 0; i < env.N(40, 6); i++ {
			cases = append(cases, genAPIGroupsCase(r.Fork()))
		}
	}
	for i := range cases {
		viol, tags := runAPIGroupsCase(t, &cases[i])
		for _, v := range viol {
			run.Violate(v.Key, v.What, v.Case)
		}
		for _, k := range vh.SortedKeys(tags) {
			run.CountN("api_groups", k, tags[k])
		}
		run.CountN("api_groups", "cases", 1)
	}
}
