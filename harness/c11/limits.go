//go:build verif

package c11

import (
	"bytes"
	"context"
	"fmt"
	"path/filepath"
	"sort"
	"strings"
	"testing"
	"time"

	"github.com/prometheus/client_golang/prometheus"
	"google.golang.org/protobuf/proto"
	"google.golang.org/protobuf/types/known/timestamppb"

	"github.com/prometheus/alertmanager/silence"
	spb "github.com/prometheus/alertmanager/silence/silencepb"

	"verifharness/vh"
)

// Limits engine (silences): the store runs with Limits{MaxSilenceSizeBytes: L} as app.go configures it from
// --silences.max-silence-size-bytes. Silences whose checked size lies between L/2 and L (bulk in the matchers, which
// the snapshot writer duplicates into the legacy field; or in the comment) are created through Set - the largest
// one is grown until Set just accepts it -, some are then edited or expired, and silences LARGER than L arrive through
// Merge (gossip is not subject to the limit). Then the real Maintenance shutdown path and a restart with the SAME
// limits. Oracle: the restart succeeds ("never refuses to start because of a file it wrote itself") and every silence
// is back with identical content.

func limitSilence(txt string, size int, inMatchers bool) *spb.Silence {
	now := time.Now()
	sil := &spb.Silence{MatcherSets: []*spb.MatcherSet{{Matchers: []*spb.Matcher{{Name: "job", Pattern: txt}}}},
		StartsAt: timestamppb.New(now), EndsAt: timestamppb.New(now.Add(time.Hour)), CreatedBy: "me", Comment: "c"}
	grow := func(n int) {
		if inMatchers {
			ms := sil.MatcherSets[0]
			ms.Matchers = ms.Matchers[:1]
			for j := 0; n > 0; j++ {
				k := min(n, 40)
				ms.Matchers = append(ms.Matchers, &spb.Matcher{Type: spb.Matcher_REGEXP, Name: fmt.Sprintf("label_%03d", j), Pattern: strings.Repeat("v", max(k-16, 1))})
				n -= k
			}
		} else {
			sil.Comment = strings.Repeat("c", max(n, 1))
		}
	}
	// the size Set checks is that of the MeshSilence with id, updated_at and expires_at: about 70 bytes more
	pad := size - 130
	for i := 0; i < 8; i++ {
		grow(max(pad, 1))
		d := size - (proto.Size(sil) + 70)
		if d == 0 {
			break
		}
		pad += d
	}
	return sil
}

func limitsCase(t *testing.T, run *vh.Run, c *Case) {
	L := c.Limit
	dir := t.TempDir()
	snapf := filepath.Join(dir, "silences")
	ctx := context.Background()
	opts := func() silence.Options {
		return silence.Options{SnapshotFile: snapf, Retention: time.Hour, Metrics: prometheus.NewRegistry(),
			Limits: silence.Limits{MaxSilenceSizeBytes: func() int { return L }}}
	}
	fail := func(key, what string) {
		run.Violate(key, fmt.Sprintf("silences with --silences.max-silence-size-bytes=%d (%s): %s", L, c.Variant, what), c)
	}
	s, err := silence.New(opts())
	if err != nil {
		t.Fatal(err)
	}
	inMatchers := !strings.Contains(c.Variant, "comment")
	var ids []string
	for i, pm := range c.Frac {
		size := L * pm / 1000
		sil := limitSilence(fmt.Sprintf("t%d", i), size, inMatchers)
		err := s.Set(ctx, sil)
		for tries := 0; err != nil && tries < 200; tries++ { // shrink until Set just accepts it
			size--
			sil = limitSilence(fmt.Sprintf("t%d", i), size, inMatchers)
			err = s.Set(ctx, sil)
		}
		if err != nil {
			t.Fatalf("Set never accepted a silence of about %d bytes under limit %d: %v", size, L, err)
		}
		ids = append(ids, sil.Id)
		run.Count("limits_checked_size_percent_of_limit", fmt.Sprintf("%d0..", (proto.Size(sil)+20)*10/L))
	}
	switch {
	case strings.Contains(c.Variant, "expire"):
		for _, id := range ids {
			if err := s.Expire(ctx, id); err != nil {
				t.Fatal(err)
			}
		}
	case strings.Contains(c.Variant, "edit"):
		for _, id := range ids {
			cur, err := s.QueryOne(ctx, silence.QIDs(id))
			if err != nil {
				t.Fatal(err)
			}
			upd := proto.Clone(cur).(*spb.Silence)
			upd.EndsAt = timestamppb.New(time.Now().Add(2 * time.Hour))
			_ = s.Set(ctx, upd) // may be refused by the limit (the id grows nothing; normally accepted)
		}
	case strings.Contains(c.Variant, "merge"):
		// a silence larger than the limit arrives from a peer whose limit is different / unset
		big := limitSilence("peer", 2*L, inMatchers)
		big.Id = "11111111-2222-4333-8444-555555555555"
		big.UpdatedAt = timestamppb.New(time.Now())
		var buf bytes.Buffer
		if _, err := detMarshal.MarshalTo(&buf, &spb.MeshSilence{Silence: big, ExpiresAt: timestamppb.New(time.Now().Add(3 * time.Hour))}); err != nil {
			t.Fatal(err)
		}
		if err := s.Merge(buf.Bytes()); err != nil {
			fail("valid-gossip-message-refused", "Merge refuses a well-formed message: "+err.Error())
		}
	}
	observe := func(x *silence.Silences) map[string]string {
		q, _, err := x.Query(ctx)
		if err != nil {
			t.Fatal(err)
		}
		byID := map[string]string{}
		for _, sil := range q {
			byID[sil.Id] = canonS([]Sil{silOf(mesh(sil)).Upgraded()})
		}
		return byID
	}
	before := observe(s)
	maintShutdown(func(d time.Duration, f string, c <-chan struct{}) { s.Maintenance(d, f, c, nil) }, snapf)
	s2, err := silence.New(opts())
	if err != nil {
		fail("own-snapshot-refused", fmt.Sprintf("%d silences accepted under the limit were written without error, but the restart fails: %v", len(before), err))
		return
	}
	after := observe(s2)
	var lost []string
	for id, b := range before {
		if a, ok := after[id]; !ok || a != b {
			lost = append(lost, id)
		}
	}
	sort.Strings(lost)
	if len(lost) > 0 || len(after) != len(before) {
		fail("history-state-differs-after-restart", fmt.Sprintf("%d silences before the shutdown, %d after the restart, %d lost or changed", len(before), len(after), len(lost)))
	}
}

func limitsAll(t *testing.T, run *vh.Run, r *vh.Rand, env vh.Env) {
	variants := []string{"set", "set+expire", "set+edit", "set+merge", "set(comment)", "set(comment)+expire"}
	limits := []int{512, 1024, 2048, 4096, 8192}
	if env.Tier == "thorough" {
		limits = append(limits, 600, 777, 1500, 3000, 6000, 16384)
	}
	for _, L := range limits {
		for _, v := range variants {
			c := Case{Kind: "limits", Store: storeSilence, Limit: L, Variant: v,
				Frac: []int{500 + r.Intn(100), 650 + r.Intn(150), 850 + r.Intn(100), 960 + r.Intn(30), 1010}}
			limitsCase(t, run, &c)
			run.Count("limits_cases", v)
		}
	}
}
