//go:build verif

package c11

import (
	"bytes"
	"fmt"
	"strings"
	"testing"
	"time"

	"github.com/prometheus/client_golang/prometheus"

	"github.com/prometheus/alertmanager/nflog"
	"github.com/prometheus/alertmanager/silence"
	spb "github.com/prometheus/alertmanager/silence/silencepb"

	"verifharness/vh"
)

func mesh(s *spb.Silence) *spb.MeshSilence { return &spb.MeshSilence{Silence: s} }

// Mut: one mutation of a snapshot: a strict prefix (Len) or one replaced byte (Pos, Val).
type Mut struct {
	Prefix bool `json:"prefix,omitempty"`
	Len    int  `json:"len,omitempty"`
	Pos    int  `json:"pos,omitempty"`
	Val    byte `json:"val,omitempty"`
}

func (m Mut) apply(b []byte) []byte {
	if m.Prefix {
		return append([]byte(nil), b[:m.Len]...)
	}
	out := append([]byte(nil), b...)
	out[m.Pos] = m.Val
	return out
}
func (m Mut) coq() string {
	if m.Prefix {
		return fmt.Sprintf("(MPrefix %d)", m.Len)
	}
	return fmt.Sprintf("(MFlip %d %d)", m.Pos, m.Val)
}

// ---------- Coq literals of records ----------

func coqTS(t TS) string {
	if !t.Set {
		return "None"
	}
	return vh.Some(vh.App("mkTs", vh.Z(t.S), vh.Z(int64(t.N))))
}
func coqZs(xs []uint64) string { return vh.ListOf(xs, vh.U64) }

func coqRD(d RD) string {
	var v string
	switch d.Kind {
	case "str":
		v = vh.Some(vh.App("RStr", vh.Str(d.S)))
	case "int":
		v = vh.Some(vh.App("RInt", vh.Z(d.I)))
	case "dbl":
		v = vh.Some(vh.App("RDbl", vh.U64(d.F)))
	default:
		v = "None"
	}
	return vh.Pair(vh.Str(d.K), v)
}

func coqNEntry(e NEntry) string {
	ent := "None"
	if e.HasEntry {
		rc := "None"
		if e.HasRecv {
			rc = vh.Some(vh.App("mkR", vh.Str(e.Group), vh.Str(e.Integ), vh.Z(int64(e.Idx))))
		}
		ent = vh.Some(vh.App("mkE", vh.Str(string(e.GKey)), rc, vh.Str(string(e.GHash)), vh.Bool(e.Resolved), coqTS(e.TS),
			coqZs(e.Firing), coqZs(e.ResAl), vh.ListOf(e.Data, coqRD)))
	}
	return vh.App("mkMesh", ent, coqTS(e.Exp))
}

func coqMt(m Mt) string { return vh.App("mkWM", vh.Z(int64(m.Type)), vh.Str(m.Name), vh.Str(m.Pattern)) }
func coqMts(ms []Mt) string { return vh.ListOf(ms, coqMt) }

func coqSil(s Sil) string {
	sil := "None"
	if s.HasSil {
		cms := vh.ListOf(s.Comments, func(c Cm) string { return vh.App("mkWC", vh.Str(c.Author), vh.Str(c.Comment), coqTS(c.TS)) })
		ann := vh.ListOf(s.Ann, func(kv [2]string) string { return vh.Pair(vh.Str(kv[0]), vh.Str(kv[1])) })
		sil = vh.Some(vh.App("mkWS", vh.Str(s.ID), coqMts(s.Matchers), coqTS(s.Starts), coqTS(s.Ends), coqTS(s.Updated), cms,
			vh.Str(s.CreatedBy), vh.Str(s.Comment), ann, vh.ListOf(s.MSets, coqMts), vh.ListOf(s.RMSets, coqMts)))
	}
	return vh.App("mkMS", sil, coqTS(s.Exp))
}

// ---------- (c) codec differential ----------

// codecCase: c.Bytes were produced by protobuf-go; c.RecsN / c.RecsS is what protobuf-go decodes them to.
// literalTooDeep: a record with a very long string or list would reach Coq as one literal too deep for coqc's parser
// stack (string literals and list notations are parsed recursively); such records stay Go-side oracles only.
func literalTooDeep(n []NEntry, s []Sil) bool {
	const maxStr, maxList = 6000, 1200
	for _, e := range n {
		if len(e.GKey) > maxStr || len(e.GHash) > maxStr || len(e.Group) > maxStr || len(e.Firing) > maxList || len(e.ResAl) > maxList || len(e.Data) > maxList {
			return true
		}
		for _, d := range e.Data {
			if len(d.S) > maxStr || len(d.K) > maxStr {
				return true
			}
		}
	}
	for _, x := range s {
		if len(x.Comment) > maxStr || len(x.CreatedBy) > maxStr || len(x.ID) > maxStr || len(x.Ann) > maxList || len(x.MSets) > maxList ||
			len(x.RMSets) > maxList || len(x.Matchers) > maxList || len(x.Comments) > maxList {
			return true
		}
		for _, ms := range x.MSets {
			if len(ms) > maxList {
				return true
			}
		}
		for _, kv := range x.Ann {
			if len(kv[0]) > maxStr || len(kv[1]) > maxStr {
				return true
			}
		}
	}
	return false
}

func codecCase(t *testing.T, run *vh.Run, c *Case) {
	exact := "false"
	if c.Store == storeNflog {
		got, err := decodeN(c.Bytes)
		if err != nil {
			t.Fatalf("reference decoder rejects its own bytes: %v", err)
		}
		if literalTooDeep(got, nil) {
			run.Count("codec_cases", "nflog/go-side-only(literal too large)")
			return
		}
		if canonN(got) != canonN(c.RecsN) || len(got) != len(c.RecsN) {
			run.Violate("roundtrip-not-identical", "nflog: protobuf round trip of the records is not the identity", c)
		}
		if bytes.Equal(marshalN(got), c.Bytes) {
			exact = "true"
		}
		addCase(run, fmt.Sprintf("CCodecN %s\n  %s %s", coqBytes(c.Bytes), vh.ListOf(got, coqNEntry), exact), c, len(got) > 0)
		run.Count("codec_cases", "nflog/exact="+exact)
		return
	}
	got, err := decodeS(c.Bytes)
	if err != nil {
		t.Fatalf("reference decoder rejects its own bytes: %v", err)
	}
	if literalTooDeep(nil, got) {
		run.Count("codec_cases", "silences/go-side-only(literal too large)")
		return
	}
	if canonS(got) != canonS(c.RecsS) || len(got) != len(c.RecsS) {
		run.Violate("roundtrip-not-identical", "silences: protobuf round trip of the records is not the identity", c)
	}
	if bytes.Equal(marshalS(got), c.Bytes) {
		exact = "true"
	}
	addCase(run, fmt.Sprintf("CCodecS %s\n  %s %s", coqBytes(c.Bytes), vh.ListOf(got, coqSil), exact), c, len(got) > 0)
	run.Count("codec_cases", "silences/exact="+exact)
}

// realSnapshot: the bytes the real Snapshot() writes for a store holding the records (loaded through the real
// loader from reference-marshalled bytes), and the records in the order Snapshot wrote them.
func realSnapshot(t *testing.T, run *vh.Run, store int, n []NEntry, s []Sil) []byte {
	var buf bytes.Buffer
	if store == storeNflog {
		l, err := nflog.New(nflog.Options{SnapshotReader: bytes.NewReader(marshalN(n)), Retention: time.Hour, Metrics: prometheus.NewRegistry()})
		if err != nil {
			run.Violate("own-snapshot-refused", "nflog: a snapshot of well-formed records (reference encoding) is refused: "+err.Error(), Case{Kind: "codec", Store: store, RecsN: n, Bytes: marshalN(n)})
			return nil
		}
		if _, err := l.Snapshot(&buf); err != nil {
			t.Fatal(err)
		}
	} else {
		x, err := silence.New(silence.Options{SnapshotReader: bytes.NewReader(marshalS(s)), Retention: time.Hour, Metrics: prometheus.NewRegistry()})
		if err != nil {
			run.Violate("own-snapshot-refused", "silences: a snapshot of well-formed records (reference encoding) is refused: "+err.Error(), Case{Kind: "codec", Store: store, RecsS: s, Bytes: marshalS(s)})
			return nil
		}
		if _, err := x.Snapshot(&buf); err != nil {
			t.Fatal(err)
		}
	}
	return buf.Bytes()
}

// ---------- (d) prefixes and corruptions through the real loader ----------

func loadBytes(store int, b []byte) (canon string, n []NEntry, s []Sil, err error) {
	if store == storeNflog {
		l, err := nflog.New(nflog.Options{SnapshotReader: bytes.NewReader(b), Retention: time.Hour, Metrics: prometheus.NewRegistry()})
		if err != nil {
			return "", nil, nil, err
		}
		sb, err := l.MarshalBinary()
		if err != nil {
			return "", nil, nil, fmt.Errorf("loaded state cannot be marshalled: %w", err)
		}
		n, err = decodeN(sb)
		return canonN(n), n, nil, err
	}
	x, err := silence.New(silence.Options{SnapshotReader: bytes.NewReader(b), Retention: time.Hour, Metrics: prometheus.NewRegistry()})
	if err != nil {
		return "", nil, nil, err
	}
	sb, err := x.MarshalBinary()
	if err != nil {
		return "", nil, nil, fmt.Errorf("loaded state cannot be marshalled: %w", err)
	}
	s, err = decodeS(sb)
	for i := range s {
		s[i] = s[i].Upgraded()
	}
	return canonS(s), nil, s, err
}

func mutateCase(t *testing.T, run *vh.Run, c *Case) {
	base := c.Bytes
	ends := frameEnds(base)
	// reference: the records of the unmutated file, in order (keys are unique in generated files)
	var items []string
	for _, m := range c.Muts {
		mb := m.apply(base)
		canon, n, s, err := func() (canon string, n []NEntry, s []Sil, err error) {
			defer func() {
				if p := recover(); p != nil {
					err = fmt.Errorf("PANIC: %v", p)
				}
			}()
			return loadBytes(c.Store, mb)
		}()
		var out string
		switch {
		case err != nil && strings.HasPrefix(err.Error(), "PANIC"):
			run.Violate("loader-panics", storeName(c.Store)+": the loader panics on a damaged snapshot: "+err.Error(), Case{Kind: "mutate", Store: c.Store, Bytes: base, Muts: []Mut{m}})
			out = "LdErr"
			run.Count("mutation_outcome", "panic")
		case err != nil:
			out = "LdErr"
			run.Count("mutation_outcome", kindOf(m)+"/error")
		default:
			out = ""
			if m.Prefix {
				// direct oracle (prefix_behaviour on the implementation): a strict prefix that loads must be record aligned
				aligned := m.Len == 0
				j := 0
				for i, e := range ends {
					if e == m.Len {
						aligned, j = true, i+1
					}
				}
				if !aligned {
					run.Violate("truncated-record-accepted", fmt.Sprintf("%s: a snapshot cut inside a record (%d of %d bytes) loads without error", storeName(c.Store), m.Len, len(base)),
						Case{Kind: "mutate", Store: c.Store, Bytes: base, Muts: []Mut{m}})
				} else {
					want, _, _, werr := loadBytes(c.Store, base[:m.Len])
					_ = want
					if werr == nil {
						out = fmt.Sprintf("(LdPrefix %d)", j)
					}
				}
				run.Count("mutation_outcome", "prefix/ok-aligned")
			} else {
				run.Count("mutation_outcome", "flip/ok")
			}
			if out == "" {
				if c.Store == storeNflog {
					out = vh.App("LdOk", vh.ListOf(n, coqNEntry))
				} else {
					out = vh.App("LdOk", vh.ListOf(s, coqSil))
				}
			}
			_ = canon
		}
		items = append(items, vh.Pair(m.coq(), out))
	}
	ctor := "CMutN"
	if c.Store == storeSilence {
		ctor = "CMutS"
	}
	const chunk = 60
	for lo := 0; lo < len(items); lo += chunk {
		hi := min(lo+chunk, len(items))
		cc := *c
		cc.Muts = c.Muts[lo:hi]
		addCase(run, fmt.Sprintf("%s %s\n  [%s]", ctor, coqBytes(base), strings.Join(items[lo:hi], ";\n   ")), cc, true)
	}
}

func kindOf(m Mut) string {
	if m.Prefix {
		return "prefix"
	}
	return "flip"
}

func genMuts(r *vh.Rand, b []byte, nflips int) []Mut {
	var ms []Mut
	for i := 0; i < len(b); i++ {
		ms = append(ms, Mut{Prefix: true, Len: i})
	}
	for i := 0; i < nflips && len(b) > 0; i++ {
		pos := r.Intn(len(b))
		var v byte
		switch r.Intn(6) {
		case 0:
			v = b[pos] ^ byte(1<<uint(r.Intn(8)))
		case 1:
			v = b[pos] ^ byte(1+r.Intn(7)) // wire-type bits of a tag byte
		case 2:
			v = vh.Pick(r, []byte{0, 0xff, 0x80, 0x7f})
		case 3:
			v = b[pos] + 1
		default:
			v = byte(r.Intn(256))
		}
		if v == b[pos] {
			v ^= 0x20
		}
		ms = append(ms, Mut{Pos: pos, Val: v})
	}
	return ms
}

// ---------- generation of the codec / mutation cases of a run ----------

func codecAll(t *testing.T, run *vh.Run, r *vh.Rand, env vh.Env) {
	thorough := env.Tier == "thorough"
	// generated records with all field shapes, reference-marshalled (deterministic order: byte-exact re-encoding)
	nSmall := env.N(24, 8)
	for i := 0; i < nSmall; i++ {
		k := r.Intn(4)
		var n []NEntry
		for j := 0; j < k; j++ {
			n = append(n, genNEntry(r, j, false))
		}
		if r.Chance(1, 10) {
			n = append(n, NEntry{}) // an empty record: MeshEntry without entry
		}
		c := Case{Kind: "codec", Store: storeNflog, RecsN: n, Bytes: marshalN(n)}
		codecCase(t, run, &c)
		var s []Sil
		for j := 0; j < k; j++ {
			s = append(s, genSil(r, j, vh.Pick(r, []string{"new", "legacy", "wire"}), false))
		}
		if r.Chance(1, 10) {
			s = append(s, Sil{})
		}
		c = Case{Kind: "codec", Store: storeSilence, RecsS: s, Bytes: marshalS(s)}
		codecCase(t, run, &c)
	}
	// real Snapshot() output (map iteration order, non-deterministic marshalling) of stores of several sizes
	sizes := []int{0, 1, 2, 3, 10, 40}
	if thorough {
		sizes = append(sizes, 500, 2000)
	}
	for _, k := range sizes {
		var n []NEntry
		var s []Sil
		for j := 0; j < k; j++ {
			n = append(n, genNEntry(r, j, true))
			s = append(s, genSil(r, j, vh.Pick(r, []string{"new", "legacy"}), true))
		}
		b := realSnapshot(t, run, storeNflog, n, nil)
		c := Case{Kind: "codec", Store: storeNflog, RecsN: n, Bytes: b}
		if b != nil || k == 0 {
			codecCase(t, run, &c)
		}
		b = realSnapshot(t, run, storeSilence, nil, s)
		if b == nil && k > 0 {
			continue
		}
		up := make([]Sil, len(s))
		for i := range s {
			up[i] = s[i].Upgraded()
			up[i].Matchers = up[i].MSets[0] // what Snapshot writes: first matcher set copied into the legacy field
		}
		c = Case{Kind: "codec", Store: storeSilence, RecsS: up, Bytes: b}
		codecCase(t, run, &c)
		run.Count("real_snapshot_sizes", fmt.Sprintf("%d", k))
	}
	// prefixes and corruptions of small snapshots
	nMut := env.N(3, 6)
	for i := 0; i < nMut; i++ {
		k := 1 + r.Intn(3)
		var n []NEntry
		var s []Sil
		for j := 0; j < k; j++ {
			n = append(n, genNEntry(r, j, true))
			s = append(s, genSil(r, j, vh.Pick(r, []string{"wire", "legacy"}), true))
		}
		for i := range n { // keep the mutated snapshots small
			if len(n[i].Firing) > 20 {
				n[i].Firing = n[i].Firing[:3]
			}
		}
		bn := marshalN(n)
		c := Case{Kind: "mutate", Store: storeNflog, Bytes: bn, Muts: genMuts(r, bn, 110)}
		mutateCase(t, run, &c)
		bs := marshalS(s)
		c = Case{Kind: "mutate", Store: storeSilence, Bytes: bs, Muts: genMuts(r, bs, 110)}
		mutateCase(t, run, &c)
	}
}
