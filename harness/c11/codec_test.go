//go:build verif

package c11

import (
	"testing"

	spb "github.com/prometheus/alertmanager/silence/silencepb"

	"verifharness/vh"
)

func mesh(s *spb.Silence) *spb.MeshSilence { return &spb.MeshSilence{Silence: s} }

// Mut: one mutation of a snapshot: a strict prefix (Len) or one replaced byte (Pos, Val).
type Mut struct {
	Prefix bool `json:"prefix,omitempty"`
	Len    int  `json:"len,omitempty"`
	Pos    int  `json:"pos,omitempty"`
	Val    byte `json:"val,omitempty"`
}

func codecCase(t *testing.T, run *vh.Run, c *Case)  {}
func mutateCase(t *testing.T, run *vh.Run, c *Case) {}
func codecAll(t *testing.T, run *vh.Run, r *vh.Rand, env vh.Env) {}
