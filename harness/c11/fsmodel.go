//go:build verif

package c11

// The crash semantics of Model/FsCrash.v, re-implemented for the direct oracle (the Coq run checks that every image
// described here is the image the model derives: check_case of CCrash).

type FsOp struct {
	Kind  string `json:"kind"` // create|open|write|fsync|close|rename
	A     string `json:"a"`
	B     string `json:"b,omitempty"`
	Data  []byte `json:"data,omitempty"`
	Flags string `json:"flags,omitempty"` // open flags as strace printed them (create/open)
}

type wr struct {
	off  int
	data []byte
}

type inode struct {
	durable  []byte
	volatile []wr // writes (offset, bytes) since the last fsync
	pos      int  // write position (one writer per file)
}

func overwrite(d []byte, off int, b []byte) []byte {
	if off > len(d) {
		off = len(d)
	}
	out := append([]byte(nil), d[:off]...)
	out = append(out, b...)
	if off+len(b) < len(d) {
		out = append(out, d[off+len(b):]...)
	}
	return out
}

func (f *inode) bytes(keep int) []byte { // durable overwritten by the first keep bytes of the write sequence
	d := f.durable
	for _, w := range f.volatile {
		if keep < len(w.data) {
			return overwrite(d, w.off, w.data[:keep])
		}
		d = overwrite(d, w.off, w.data)
		keep -= len(w.data)
	}
	return d
}

func (f *inode) volLen() int {
	n := 0
	for _, w := range f.volatile {
		n += len(w.data)
	}
	return n
}

func (s *fsState) curDir() map[string]int {
	d := map[string]int{}
	for k, v := range s.ddir {
		d[k] = v
	}
	for _, o := range s.log {
		if !o.rename {
			d[o.a] = o.ino
		} else if i, ok := d[o.a]; ok {
			delete(d, o.a)
			d[o.b] = i
		}
	}
	return d
}

type dirOp struct {
	rename bool
	a, b   string
	ino    int
}

type fsState struct {
	files []*inode
	ddir  map[string]int
	log   []dirOp
	open  map[string]int
}

func newFs(target string, old []byte, oldPresent bool) *fsState {
	s := &fsState{ddir: map[string]int{}, open: map[string]int{}}
	if oldPresent {
		s.files = append(s.files, &inode{durable: append([]byte(nil), old...)})
		s.ddir[target] = 0
	}
	return s
}

func (s *fsState) step(o FsOp) {
	create := func() {
		i := len(s.files)
		s.files = append(s.files, &inode{})
		s.log = append(s.log, dirOp{a: o.A, ino: i})
		s.open[o.A] = i
	}
	switch o.Kind {
	case "create":
		create()
	case "open":
		if i, ok := s.curDir()[o.A]; ok {
			s.files[i].pos = 0
			s.open[o.A] = i
		} else {
			create()
		}
	case "write":
		if i, ok := s.open[o.A]; ok {
			f := s.files[i]
			f.volatile = append(f.volatile, wr{f.pos, o.Data})
			f.pos += len(o.Data)
		}
	case "fsync":
		if i, ok := s.open[o.A]; ok {
			f := s.files[i]
			f.durable = f.bytes(f.volLen())
			f.volatile = nil
		}
	case "close":
		delete(s.open, o.A)
	case "rename":
		s.log = append(s.log, dirOp{rename: true, a: o.A, b: o.B})
	}
}

// Point: a crash right after the first K operations; DirKeep un-synced directory operations and Keep[inode]
// un-synced bytes of each inode reach the disk.
type Point struct {
	K       int         `json:"k"`
	DirKeep int         `json:"dir_keep"`
	Keep    map[int]int `json:"keep,omitempty"`
}

// image: name -> content of the recovered directory.
func crashImage(target string, old []byte, oldPresent bool, ops []FsOp, p Point) map[string][]byte {
	s := newFs(target, old, oldPresent)
	for i := 0; i < p.K && i < len(ops); i++ {
		s.step(ops[i])
	}
	d := map[string]int{}
	for k, v := range s.ddir {
		d[k] = v
	}
	for j := 0; j < p.DirKeep && j < len(s.log); j++ {
		o := s.log[j]
		if !o.rename {
			d[o.a] = o.ino
		} else if i, ok := d[o.a]; ok {
			delete(d, o.a)
			d[o.b] = i
		}
	}
	img := map[string][]byte{}
	for name, i := range d {
		img[name] = append([]byte(nil), s.files[i].bytes(p.Keep[i])...)
	}
	return img
}

// volatileAt: per inode, the number of un-synced bytes after the first k ops; and the length of the dir log.
func volatileAt(target string, old []byte, oldPresent bool, ops []FsOp, k int) (vol map[int]int, logLen int) {
	s := newFs(target, old, oldPresent)
	for i := 0; i < k && i < len(ops); i++ {
		s.step(ops[i])
	}
	vol = map[int]int{}
	for i, f := range s.files {
		if f.volLen() > 0 {
			vol[i] = f.volLen()
		}
	}
	return vol, len(s.log)
}
