//go:build verif

package c11

// The crash semantics of Model/FsCrash.v, re-implemented for the direct oracle (the Coq run checks that every image
// described here is the image the model derives: check_case of CCrash).

type FsOp struct {
	Kind string `json:"kind"` // create|write|fsync|close|rename
	A    string `json:"a"`
	B    string `json:"b,omitempty"`
	Data []byte `json:"data,omitempty"`
}

type inode struct {
	durable  []byte
	volatile []byte // concatenation of the writes since the last fsync
}

type dirOp struct {
	rename bool
	a, b   string
	ino    int
}

type fsState struct {
	files []*inode
	ddir  map[string]int
	log   []dirOp
	open  map[string]int
}

func newFs(target string, old []byte, oldPresent bool) *fsState {
	s := &fsState{ddir: map[string]int{}, open: map[string]int{}}
	if oldPresent {
		s.files = append(s.files, &inode{durable: append([]byte(nil), old...)})
		s.ddir[target] = 0
	}
	return s
}

func (s *fsState) step(o FsOp) {
	switch o.Kind {
	case "create":
		i := len(s.files)
		s.files = append(s.files, &inode{})
		s.log = append(s.log, dirOp{a: o.A, ino: i})
		s.open[o.A] = i
	case "write":
		if i, ok := s.open[o.A]; ok {
			s.files[i].volatile = append(s.files[i].volatile, o.Data...)
		}
	case "fsync":
		if i, ok := s.open[o.A]; ok {
			f := s.files[i]
			f.durable = append(f.durable, f.volatile...)
			f.volatile = nil
		}
	case "close":
		delete(s.open, o.A)
	case "rename":
		s.log = append(s.log, dirOp{rename: true, a: o.A, b: o.B})
	}
}

// Point: a crash right after the first K operations; DirKeep un-synced directory operations and Keep[inode]
// un-synced bytes of each inode reach the disk.
type Point struct {
	K       int         `json:"k"`
	DirKeep int         `json:"dir_keep"`
	Keep    map[int]int `json:"keep,omitempty"`
}

// image: name -> content of the recovered directory.
func crashImage(target string, old []byte, oldPresent bool, ops []FsOp, p Point) map[string][]byte {
	s := newFs(target, old, oldPresent)
	for i := 0; i < p.K && i < len(ops); i++ {
		s.step(ops[i])
	}
	d := map[string]int{}
	for k, v := range s.ddir {
		d[k] = v
	}
	for j := 0; j < p.DirKeep && j < len(s.log); j++ {
		o := s.log[j]
		if !o.rename {
			d[o.a] = o.ino
		} else if i, ok := d[o.a]; ok {
			delete(d, o.a)
			d[o.b] = i
		}
	}
	img := map[string][]byte{}
	for name, i := range d {
		f := s.files[i]
		keep := p.Keep[i]
		if keep > len(f.volatile) {
			keep = len(f.volatile)
		}
		img[name] = append(append([]byte(nil), f.durable...), f.volatile[:keep]...)
	}
	return img
}

// volatileAt: per inode, the number of un-synced bytes after the first k ops; and the length of the dir log.
func volatileAt(target string, old []byte, oldPresent bool, ops []FsOp, k int) (vol map[int]int, logLen int) {
	s := newFs(target, old, oldPresent)
	for i := 0; i < k && i < len(ops); i++ {
		s.step(ops[i])
	}
	vol = map[int]int{}
	for i, f := range s.files {
		if len(f.volatile) > 0 {
			vol[i] = len(f.volatile)
		}
	}
	return vol, len(s.log)
}
