//go:build verif

package c11

import (
	"bytes"
	"fmt"
	"os"
	"path/filepath"
	"testing"

	"verifharness/vh"
)

// Fault engine: the kernel reports that the new snapshot is NOT on stable storage - fsync(2) of the temporary file
// fails (EIO / ENOSPC with delayed allocation / stale NFS handle; injected with strace -e inject=fsync:error=EIO into
// the real Maintenance shutdown run) while close(2) and rename(2) would succeed. A snapshot whose fsync failed must
// not replace the last completed one.
// Oracle: the target file is byte for byte the old snapshot and loads to the old state; and every crash image of the
// RECORDED operations (the failed fsync is not an operation: nothing became durable) still loads to the old state.

func faultCase(t *testing.T, run *vh.Run, r *vh.Rand, c *Case) {
	store := c.Store
	target := storeName(store)
	dir := t.TempDir()
	var old, delta []byte
	var oldCanon string
	if store == storeNflog {
		old, delta = marshalN(c.InitN), marshalN(c.Steps[0].DeltaN)
		oldCanon = canonN(c.InitN)
	} else {
		old, delta = marshalS(c.InitS), marshalS(c.Steps[0].DeltaS)
		var up []Sil
		for _, s := range c.InitS {
			up = append(up, s.Upgraded())
		}
		oldCanon = canonS(up)
	}
	if err := os.WriteFile(filepath.Join(dir, target), old, 0o644); err != nil {
		t.Fatal(err)
	}
	straceInject = c.Variant
	res, err := driverRun(t, store, dir, t.TempDir(), delta, false)
	straceInject = ""
	if err != nil {
		if !driverFailure(run, err, *c) {
			t.Fatal(err)
		}
		return
	}
	run.Count("fault_runs", target+"/"+c.Variant)
	fail := func(key, what string) {
		run.Violate(key, fmt.Sprintf("%s, fsync of the temporary snapshot file fails (%s): %s", target, c.Variant, what), c)
	}
	switch {
	case res.ferr != nil:
		fail("snapshot-file-missing", "the previous snapshot file is gone")
	case !bytes.Equal(res.final, old):
		fail("failed-fsync-snapshot-replaces-target", fmt.Sprintf("the snapshot whose fsync failed (%d bytes, not on stable storage) was renamed over the last completed snapshot (%d bytes)", len(res.final), len(old)))
	default:
		if canon, err := loadFile(store, filepath.Join(dir, target)); err != nil || canon != oldCanon {
			fail("snapshot-not-lossless", fmt.Sprintf("the previous snapshot no longer loads to its state (err=%v)", err))
		}
	}
	// crash images of what was recorded: the target must stay the old snapshot at every crash point
	pts := enumPoints(r, target, old, true, res.ops, 150)
	crashCase(t, run, r, store, target, old, true, old, res.ops, pts, oldCanon, oldCanon)
}

func genFault(r *vh.Rand, store int) Case {
	c := genCrashChain(r, store, 3)
	c.Kind, c.Variant = "fault", "fsync:error=EIO"
	return c
}
