//go:build verif

package c11

import (
	"bufio"
	"fmt"
	"os"
	"os/exec"
	"path/filepath"
	"regexp"
	"strconv"
	"strings"
)

const straceSyscalls = "openat,creat,write,pwrite64,fsync,fdatasync,close,rename,renameat,renameat2"

// runUnderStrace runs this test binary's TestC11Driver as a subprocess under strace and returns the syscall log.
// straceEnv: working directory and $TMPDIR of the next driver process ("" = inherit). Set by the bare-name engine.
var straceCwd, straceTmpDir string

// straceInject: syscall fault injection for the next driver process (strace -e inject=...), "" = none.
var straceInject string

func runUnderStrace(specPath, logPath string) error {
	exe, err := os.Executable()
	if err != nil {
		return err
	}
	args := []string{"-f", "-xx", "-s", "16000000", "-e", "trace=" + straceSyscalls, "-o", logPath}
	if straceInject != "" {
		args = append(args, "-e", "inject="+straceInject)
	}
	args = append(args, exe, "-test.run", "^TestC11Driver$", "-test.count=1")
	cmd := exec.Command("strace", args...)
	cmd.Env = append(os.Environ(), "C11_DRIVER_SPEC="+specPath)
	if straceCwd != "" {
		cmd.Dir = straceCwd
	}
	if straceTmpDir != "" {
		cmd.Env = append(cmd.Env, "TMPDIR="+straceTmpDir)
	}
	out, err := cmd.CombinedOutput()
	if err != nil {
		return fmt.Errorf("driver under strace failed: %v\n%s", err, out)
	}
	if !strings.Contains(string(out), "ok") && !strings.Contains(string(out), "PASS") {
		return fmt.Errorf("driver did not pass: %s", out)
	}
	return nil
}

var (
	reLine    = regexp.MustCompile(`^(\d+)\s+(.*)$`)
	reResumed = regexp.MustCompile(`^<\.\.\. (\w+) resumed>(.*)$`)
	reCall    = regexp.MustCompile(`^(\w+)\((.*)\)\s+=\s+(-?\d+)`)
)

func unhex(s string) []byte {
	s = strings.TrimSpace(s)
	s = strings.TrimSuffix(s, "...")
	if len(s) >= 1 && s[0] == '"' {
		s = s[1:]
		if i := strings.LastIndexByte(s, '"'); i >= 0 {
			s = s[:i]
		}
	}
	out := make([]byte, 0, len(s)/4)
	for i := 0; i < len(s); {
		if s[i] == '\\' && i+4 <= len(s) && s[i+1] == 'x' {
			if v, err := strconv.ParseUint(s[i+2:i+4], 16, 8); err == nil {
				out = append(out, byte(v))
			}
			i += 4
		} else {
			out = append(out, s[i])
			i++
		}
	}
	return out
}

// splitArgs splits a syscall argument list at top-level commas (strings are "\x..": no commas inside).
func splitArgs(s string) []string {
	var out []string
	depth, inq, start := 0, false, 0
	for i := 0; i < len(s); i++ {
		switch c := s[i]; {
		case c == '"':
			inq = !inq
		case inq:
		case c == '(' || c == '[' || c == '{':
			depth++
		case c == ')' || c == ']' || c == '}':
			depth--
		case c == ',' && depth == 0:
			out = append(out, strings.TrimSpace(s[start:i]))
			start = i + 1
		}
	}
	out = append(out, strings.TrimSpace(s[start:]))
	return out
}

// parseStrace extracts the file-system operations on paths inside dir. With canonical=true temp names
// "<target>.<suffix>" are renamed "<target>.tmp<N>" by first appearance (realNames maps them back); with
// canonical=false the real base names are kept. A writable open is "create" when its flags guarantee a fresh empty
// file (O_TRUNC, or O_CREAT|O_EXCL) and "open" (the model's OpenExisting: content kept) otherwise; the flags are
// kept in the op. Read-only opens are not operations of the model.
func parseStrace(logPath, dir, target string, canonical bool) (ops []FsOp, realNames map[string]string, err error) {
	realNames = map[string]string{}
	f, err := os.Open(logPath)
	if err != nil {
		return nil, nil, err
	}
	defer f.Close()
	sc := bufio.NewScanner(f)
	sc.Buffer(make([]byte, 1<<20), 1<<30)
	pending := map[string]string{}
	var calls []string
	for sc.Scan() {
		m := reLine.FindStringSubmatch(sc.Text())
		if m == nil {
			continue
		}
		pid, rest := m[1], m[2]
		if strings.HasSuffix(rest, "<unfinished ...>") {
			pending[pid] = strings.TrimSuffix(rest, "<unfinished ...>")
			continue
		}
		if r := reResumed.FindStringSubmatch(rest); r != nil {
			rest = pending[pid] + r[2]
			delete(pending, pid)
		}
		calls = append(calls, rest)
	}
	if err := sc.Err(); err != nil {
		return nil, nil, err
	}
	names := map[string]string{}
	canon := func(p string) (string, bool) {
		if !filepath.IsAbs(p) && straceCwd != "" {
			p = filepath.Join(straceCwd, p) // the driver runs with this working directory
		}
		p = filepath.Clean(p)
		if straceTmpDir != "" && filepath.Dir(p) == filepath.Clean(straceTmpDir) {
			// a file in $TMPDIR instead of the target's directory: kept visible under a name no protocol step has
			b := filepath.Base(p)
			if c, ok := names["$TMPDIR/"+b]; ok {
				return c, true
			}
			c := fmt.Sprintf("$TMPDIR/%s.tmp%d", target, len(names))
			if !canonical {
				c = "$TMPDIR/" + b
			}
			names["$TMPDIR/"+b] = c
			realNames[c] = p
			return c, true
		}
		if filepath.Dir(p) != filepath.Clean(dir) {
			return "", false
		}
		b := filepath.Base(p)
		if b == target || !canonical {
			realNames[b] = b
			return b, true
		}
		if c, ok := names[b]; ok {
			return c, true
		}
		c := b
		if strings.HasPrefix(b, target+".") {
			c = fmt.Sprintf("%s.tmp%d", target, len(names))
		}
		names[b] = c
		realNames[c] = b
		return c, true
	}
	fds := map[int]string{}
	dirFds := map[int]bool{}
	for _, c := range calls {
		m := reCall.FindStringSubmatch(c)
		if m == nil {
			continue
		}
		name, args := m[1], splitArgs(m[2])
		ret, _ := strconv.Atoi(m[3])
		if ret < 0 {
			continue
		}
		fdArg := func() (int, bool) {
			fd, err := strconv.Atoi(args[0])
			return fd, err == nil
		}
		switch name {
		case "openat", "creat":
			var path, flags string
			if name == "openat" && len(args) >= 3 {
				path, flags = string(unhex(args[1])), args[2]
			} else if name == "creat" && len(args) >= 1 {
				path, flags = string(unhex(args[0])), "O_CREAT|O_WRONLY|O_TRUNC"
			}
			if filepath.Clean(path) == filepath.Clean(dir) {
				// the data directory itself: a later fsync of it is behaviour (directory durability) and is recorded
				fds[ret] = "."
				dirFds[ret] = true
				continue
			}
			delete(dirFds, ret)
			n, ok := canon(path)
			if !ok {
				delete(fds, ret)
				continue
			}
			if !(strings.Contains(flags, "O_WRONLY") || strings.Contains(flags, "O_RDWR") || strings.Contains(flags, "O_CREAT") ||
				strings.Contains(flags, "O_TRUNC") || strings.Contains(flags, "O_APPEND")) {
				delete(fds, ret)
				continue
			}
			fds[ret] = n
			kind := "open"
			if strings.Contains(flags, "O_TRUNC") || (strings.Contains(flags, "O_CREAT") && strings.Contains(flags, "O_EXCL")) {
				kind = "create"
			}
			ops = append(ops, FsOp{Kind: kind, A: n, Flags: flags})
		case "write", "pwrite64":
			fd, ok := fdArg()
			if !ok {
				continue
			}
			if n, ok := fds[fd]; ok {
				data := unhex(args[1])
				if ret < len(data) {
					data = data[:ret]
				}
				ops = append(ops, FsOp{Kind: "write", A: n, Data: data})
			}
		case "fsync", "fdatasync":
			fd, ok := fdArg()
			if !ok {
				continue
			}
			if n, ok := fds[fd]; ok {
				ops = append(ops, FsOp{Kind: "fsync", A: n})
			}
		case "close":
			fd, ok := fdArg()
			if !ok {
				continue
			}
			if n, ok := fds[fd]; ok {
				if !dirFds[fd] {
					ops = append(ops, FsOp{Kind: "close", A: n})
				}
				delete(fds, fd)
				delete(dirFds, fd)
			}
		case "rename", "renameat", "renameat2":
			var a, b string
			if name == "rename" && len(args) >= 2 {
				a, b = string(unhex(args[0])), string(unhex(args[1]))
			} else if len(args) >= 4 {
				a, b = string(unhex(args[1])), string(unhex(args[3]))
			}
			ca, oka := canon(a)
			cb, okb := canon(b)
			if oka || okb {
				if !oka {
					ca = "<outside>"
				}
				if !okb {
					cb = "<outside>"
				}
				ops = append(ops, FsOp{Kind: "rename", A: ca, B: cb})
			}
		}
	}
	return ops, realNames, nil
}

// segments: the op list cut before every writable open.
func segments(ops []FsOp) [][]FsOp {
	var out [][]FsOp
	for _, o := range ops {
		if o.Kind == "create" || o.Kind == "open" || len(out) == 0 {
			out = append(out, nil)
		}
		out[len(out)-1] = append(out[len(out)-1], o)
	}
	return out
}
