//go:build verif

package c11

import (
	"context"
	"encoding/json"
	"os"
	"path/filepath"
	"testing"
	"time"

	"github.com/prometheus/client_golang/prometheus"

	"github.com/prometheus/alertmanager/nflog"
	"github.com/prometheus/alertmanager/silence"
)

// DriverSpec tells the strace'd subprocess what to do: start the store from the snapshot file in Dir (as app.go
// does), merge the records of DeltaFile, run the REAL Maintenance and stop it (shutdown snapshot, the path
// app.go takes on SIGTERM: close(stopc); wg.Wait()), then dump the in-memory state to StateOut (outside Dir).
type DriverSpec struct {
	Store     int    `json:"store"`
	Dir       string `json:"dir"`
	Target    string `json:"target"`
	DeltaFile string `json:"delta_file"`
	StateOut  string `json:"state_out"`
	Tick      bool   `json:"tick"` // let one periodic maintenance run before the shutdown
	Bare      bool   `json:"bare"` // the snapshot path is the BARE file name (--storage.path=.): the process runs in Dir
}

func TestC11Driver(t *testing.T) {
	sp := os.Getenv("C11_DRIVER_SPEC")
	if sp == "" {
		t.Skip("driver subprocess only")
	}
	b, err := os.ReadFile(sp)
	if err != nil {
		t.Fatal(err)
	}
	var spec DriverSpec
	if err := json.Unmarshal(b, &spec); err != nil {
		t.Fatal(err)
	}
	delta, err := os.ReadFile(spec.DeltaFile)
	if err != nil {
		t.Fatal(err)
	}
	snapf := filepath.Join(spec.Dir, spec.Target)
	if spec.Bare {
		if wd, _ := os.Getwd(); filepath.Clean(wd) != filepath.Clean(spec.Dir) {
			t.Fatalf("driver: working directory %s, want %s", wd, spec.Dir)
		}
		snapf = spec.Target // filepath.Join(".", "silences") as app.go computes it for --storage.path=.
	}
	interval := time.Hour
	if spec.Tick {
		interval = 40 * time.Millisecond
	}
	waitTick := func() {
		if !spec.Tick {
			return
		}
		// the periodic run replaces (or rewrites) the file: wait until it appears / its inode or mtime changes;
		// after 2 s go on regardless (the harness then sees a single snapshot)
		before, _ := os.Stat(snapf)
		for i := 0; i < 400; i++ {
			time.Sleep(5 * time.Millisecond)
			after, err := os.Stat(snapf)
			if err == nil && (before == nil || !os.SameFile(before, after) || !after.ModTime().Equal(before.ModTime())) {
				return
			}
		}
	}
	stopc := make(chan struct{})
	done := make(chan struct{})
	var state []byte
	switch spec.Store {
	case storeNflog:
		l, err := nflog.New(nflog.Options{SnapshotFile: snapf, Retention: 120 * time.Hour, Metrics: prometheus.NewRegistry()})
		if err != nil {
			t.Fatalf("nflog.New: %v", err)
		}
		if len(delta) > 0 {
			if err := l.Merge(delta); err != nil {
				t.Fatalf("Merge: %v", err)
			}
		}
		go func() { l.Maintenance(interval, snapf, stopc, nil); close(done) }()
		waitTick()
		close(stopc)
		<-done
		if state, err = l.MarshalBinary(); err != nil {
			t.Fatal(err)
		}
	case storeSilence:
		s, err := silence.New(silence.Options{SnapshotFile: snapf, Retention: 120 * time.Hour, Metrics: prometheus.NewRegistry()})
		if err != nil {
			t.Fatalf("silence.New: %v", err)
		}
		if len(delta) > 0 {
			if err := s.Merge(delta); err != nil {
				t.Fatalf("Merge: %v", err)
			}
		}
		go func() { s.Maintenance(interval, snapf, stopc, nil); close(done) }()
		waitTick()
		close(stopc)
		<-done
		if _, _, err := s.Query(context.Background()); err != nil {
			t.Fatal(err)
		}
		if state, err = s.MarshalBinary(); err != nil {
			t.Fatal(err)
		}
	}
	if err := os.WriteFile(spec.StateOut, state, 0o644); err != nil {
		t.Fatal(err)
	}
}
