//go:build verif

package c11

import (
	"bytes"
	"context"
	"encoding/json"
	"fmt"
	"os"
	"path/filepath"
	"sort"
	"strings"
	"testing"
	"time"

	"github.com/prometheus/client_golang/prometheus"
	"google.golang.org/protobuf/encoding/protowire"
	"google.golang.org/protobuf/proto"

	"github.com/prometheus/alertmanager/nflog"
	"github.com/prometheus/alertmanager/silence"

	"verifharness/appsys"
	"verifharness/vh"
)

// ---------- replayable cases ----------

type Step struct {
	DeltaN []NEntry `json:"delta_n,omitempty"`
	DeltaS []Sil    `json:"delta_s,omitempty"`
	Tick   bool     `json:"tick,omitempty"`
}

type Case struct {
	Kind  string `json:"kind"` // run | crash | chain | hist | codec | mutate | oversize
	Hist  []HOp  `json:"hist,omitempty"`
	// limits / conc engines
	Limit   int    `json:"limit,omitempty"`
	Variant string `json:"variant,omitempty"`
	Frac    []int  `json:"frac,omitempty"`
	Procs   int    `json:"procs,omitempty"`
	Store int    `json:"store"`
	// run: a chain of restarts of one store in one data directory, each ending in a shutdown snapshot
	InitN       []NEntry `json:"init_n,omitempty"` // file found at the first start (written by an earlier version)
	InitS       []Sil    `json:"init_s,omitempty"`
	InitPresent bool     `json:"init_present,omitempty"`
	Steps       []Step   `json:"steps,omitempty"`
	// crash: one crash image of a recorded operation sequence
	Target     string  `json:"target,omitempty"`
	Old        []byte  `json:"old,omitempty"`
	OldPresent bool    `json:"old_present,omitempty"`
	New        []byte  `json:"new,omitempty"`
	Ops        []FsOp  `json:"ops,omitempty"`
	Points     []Point `json:"points,omitempty"`
	OldCanon   string  `json:"old_canon,omitempty"`
	NewCanon   string  `json:"new_canon,omitempty"`
	// codec / mutate: see codec_test.go
	Bytes  []byte   `json:"bytes,omitempty"`
	RecsN  []NEntry `json:"recs_n,omitempty"`
	RecsS  []Sil    `json:"recs_s,omitempty"`
	Muts   []Mut    `json:"muts,omitempty"`
	Legacy bool     `json:"legacy,omitempty"`
}

// ---------- real loaders ----------

// loadFile starts the real store from a snapshot file and returns its canonical content.
func loadFile(store int, path string) (string, error) {
	switch store {
	case storeNflog:
		l, err := nflog.New(nflog.Options{SnapshotFile: path, Retention: time.Hour, Metrics: prometheus.NewRegistry()})
		if err != nil {
			return "", err
		}
		b, err := l.MarshalBinary()
		if err != nil {
			return "", err
		}
		es, err := decodeN(b)
		if err != nil {
			return "", err
		}
		// Query must return exactly the stored entry for every key
		for _, e := range es {
			if !e.HasRecv || len(e.GKey) == 0 {
				continue
			}
			m := e.PB()
			got, err := l.Query(nflog.QGroupKey(string(e.GKey)), nflog.QReceiver(m.Entry.Receiver))
			if err != nil || len(got) != 1 || !proto.Equal(got[0], m.Entry) {
				return "", fmt.Errorf("Query disagrees with the loaded state for %q: %v", e.GKey, err)
			}
		}
		return canonN(es), nil
	default:
		s, err := silence.New(silence.Options{SnapshotFile: path, Retention: time.Hour, Metrics: prometheus.NewRegistry()})
		if err != nil {
			return "", err
		}
		b, err := s.MarshalBinary()
		if err != nil {
			return "", err
		}
		ss, err := decodeS(b)
		if err != nil {
			return "", err
		}
		for i := range ss {
			ss[i] = ss[i].Upgraded()
		}
		// Query (no filter) must return the same silences
		q, _, err := s.Query(context.Background())
		if err != nil {
			return "", err
		}
		var viaQuery, viaState []string
		for _, x := range q {
			y := silOf(mesh(x)).Upgraded()
			y.Exp = TS{}
			j, _ := json.Marshal(y)
			viaQuery = append(viaQuery, string(j))
		}
		for _, x := range ss {
			x.Exp = TS{}
			j, _ := json.Marshal(x)
			viaState = append(viaState, string(j))
		}
		sort.Strings(viaQuery)
		sort.Strings(viaState)
		if strings.Join(viaQuery, "\n") != strings.Join(viaState, "\n") {
			return "", fmt.Errorf("Query disagrees with the loaded state")
		}
		return canonS(ss), nil
	}
}

// ---------- Coq rendering ----------

// coqBytes renders a byte blob as a Coq term of type list N. Blobs are interned: each distinct blob is defined once
// per shard (through Run.Imports) as `ub len [words]%uint63`, 7 bytes per primitive-integer literal.
var (
	curRun   *vh.Run
	blobName map[string]string
	tmpSeen  = map[string]bool{}
)

func blobLiteral(b []byte) string {
	var sb strings.Builder
	// words in chunks of 1000 (Coq's parser overflows its stack on one list literal with tens of thousands of items)
	fmt.Fprintf(&sb, "(ub %d (concat [[", len(b))
	nw := 0
	for i := 0; i < len(b); i += 7 {
		var w uint64
		for j := 0; j < 7; j++ {
			w <<= 8
			if i+j < len(b) {
				w |= uint64(b[i+j])
			}
		}
		if nw > 0 && nw%1000 == 0 {
			sb.WriteString("];\n [")
		} else if nw > 0 {
			sb.WriteByte(';')
		}
		fmt.Fprintf(&sb, "%d", w)
		nw++
	}
	sb.WriteString("]]%uint63))")
	return sb.String()
}

// big blobs are bound by a `let` at the head of the case that uses them (so only the shard holding that case carries
// them); small ones are interned once per shard through Run.Imports.
const bigBlob = 4096

var (
	caseBlobs     map[string]string // blob -> local name, for the case being rendered
	caseBlobOrder []string
)

func coqBytes(b []byte) string {
	if len(b) == 0 {
		return "[]"
	}
	if len(b) > bigBlob {
		if n, ok := caseBlobs[string(b)]; ok {
			return n
		}
		if caseBlobs == nil {
			caseBlobs = map[string]string{}
		}
		n := fmt.Sprintf("B'%d", len(caseBlobs))
		caseBlobs[string(b)] = n
		caseBlobOrder = append(caseBlobOrder, string(b))
		return n
	}
	if n, ok := blobName[string(b)]; ok {
		return n
	}
	name := fmt.Sprintf("b'%d", len(blobName))
	curRun.Imports = append(curRun.Imports, fmt.Sprintf("Definition %s : list N := %s.", name, blobLiteral(b)))
	blobName[string(b)] = name
	return name
}

// addCase adds one Coq case, binding the big blobs its term refers to.
func addCase(run *vh.Run, term string, js any, nontrivial bool) {
	if len(caseBlobOrder) > 0 {
		var sb strings.Builder
		sb.WriteString("(")
		for _, b := range caseBlobOrder {
			fmt.Fprintf(&sb, "let %s := %s in\n ", caseBlobs[b], blobLiteral([]byte(b)))
		}
		sb.WriteString(term)
		sb.WriteString(")")
		term = sb.String()
	}
	caseBlobs, caseBlobOrder = nil, nil
	run.Add(term, js, nontrivial)
}

func coqOp(o FsOp) string {
	switch o.Kind {
	case "create":
		return vh.App("Create", vh.Str(o.A))
	case "open":
		return vh.App("OpenExisting", vh.Str(o.A))
	case "write":
		return vh.App("Write", vh.Str(o.A), coqBytes(o.Data))
	case "fsync":
		return vh.App("Fsync", vh.Str(o.A))
	case "close":
		return vh.App("Close", vh.Str(o.A))
	default:
		return vh.App("Rename", vh.Str(o.A), vh.Str(o.B))
	}
}
func coqOps(ops []FsOp) string { return vh.ListOf(ops, coqOp) }

func coqPoint(p Point, img, ld string) string {
	var keeps []string
	for _, i := range sortedInts(p.Keep) {
		keeps = append(keeps, fmt.Sprintf("(%d, %d)%%nat", i, p.Keep[i]))
	}
	return fmt.Sprintf("mkPoint %d %d %s %s %s", p.K, p.DirKeep, vh.List(keeps), img, ld)
}
func sortedInts(m map[int]int) []int {
	var ks []int
	for k := range m {
		ks = append(ks, k)
	}
	sort.Ints(ks)
	return ks
}

// ---------- crash points ----------

// frameEnds: offsets at which a length-delimited record ends.
func frameEnds(b []byte) []int {
	var out []int
	off := 0
	for off < len(b) {
		n, k := protowire.ConsumeVarint(b[off:])
		if k < 0 || off+k+int(n) > len(b) {
			break
		}
		off += k + int(n)
		out = append(out, off)
	}
	return out
}

func keepCandidates(r *vh.Rand, n int, data []byte, exhaustive bool) []int {
	if exhaustive {
		out := make([]int, n+1)
		for i := range out {
			out[i] = i
		}
		return out
	}
	set := map[int]bool{0: true, 1: true, n: true, n - 1: true}
	for _, e := range frameEnds(data) {
		for _, d := range []int{-1, 0, 1, 2} {
			if e+d >= 0 && e+d <= n && len(set) < 40 {
				set[e+d] = true
			}
		}
	}
	for i := 0; i < 12; i++ {
		set[r.Intn(n+1)] = true
	}
	var out []int
	for k := range set {
		if k >= 0 && k <= n {
			out = append(out, k)
		}
	}
	sort.Ints(out)
	return out
}

func enumPoints(r *vh.Rand, target string, old []byte, oldPresent bool, ops []FsOp, exhaustiveLimit int) []Point {
	var pts []Point
	for k := 0; k <= len(ops); k++ {
		vol, logLen := volatileAt(target, old, oldPresent, ops, k)
		inos := sortedInts(vol)
		for dk := 0; dk <= logLen; dk++ {
			if len(inos) == 0 {
				pts = append(pts, Point{K: k, DirKeep: dk})
				continue
			}
			if len(inos) == 1 {
				i := inos[0]
				var data []byte
				for _, o := range ops[:k] {
					if o.Kind == "write" {
						data = append(data, o.Data...)
					}
				}
				for _, keep := range keepCandidates(r, vol[i], data, vol[i] <= exhaustiveLimit) {
					pts = append(pts, Point{K: k, DirKeep: dk, Keep: map[int]int{i: keep}})
				}
				continue
			}
			for n := 0; n < 8; n++ { // several inodes with un-synced data (mutants only): sample
				p := Point{K: k, DirKeep: dk, Keep: map[int]int{}}
				for _, i := range inos {
					p.Keep[i] = vh.Pick(r, []int{0, vol[i], r.Intn(vol[i] + 1)})
				}
				pts = append(pts, p)
			}
		}
	}
	return pts
}

type crashResult struct {
	img, ld string // Coq terms (img = "" : IOther other, rendered when the case is assembled)
	other   []byte
	class   string // old|new|err|other
	err     error
}

func evalPoint(t *testing.T, store int, target string, old []byte, oldPresent bool, nw []byte, ops []FsOp, p Point,
	oldCanon, newCanon string) crashResult {
	img := crashImage(target, old, oldPresent, ops, p)
	dir, err := os.MkdirTemp(t.TempDir(), "img")
	if err != nil {
		t.Fatal(err)
	}
	defer os.RemoveAll(dir)
	for name, b := range img {
		if err := os.WriteFile(filepath.Join(dir, name), b, 0o644); err != nil {
			t.Fatal(err)
		}
	}
	var res crashResult
	tb, present := img[target]
	switch {
	case !present:
		res.img = "IAbsent"
	case oldPresent && bytes.Equal(tb, old):
		res.img = "IOld"
	case bytes.Equal(tb, nw):
		res.img = "INew"
	case len(tb) < len(nw) && bytes.Equal(tb, nw[:len(tb)]):
		res.img = fmt.Sprintf("(IPrefix %d)", len(tb))
	default:
		res.other = append([]byte(nil), tb...)
	}
	canon, err := loadFile(store, filepath.Join(dir, target))
	switch {
	case err != nil:
		res.ld, res.class, res.err = "LErr", "err", err
	case canon == oldCanon:
		res.ld, res.class = "LOld", "old"
	case canon == newCanon:
		res.ld, res.class = "LNew", "new"
	default:
		res.ld, res.class = "LOther", "other"
	}
	return res
}

// crashCase evaluates every point of one recorded snapshot sequence, reports oracle violations, adds the Coq case.
func crashCase(t *testing.T, run *vh.Run, r *vh.Rand, store int, target string, old []byte, oldPresent bool, nw []byte,
	ops []FsOp, pts []Point, oldCanon, newCanon string) {
	var results []crashResult
	for _, p := range pts {
		res := evalPoint(t, store, target, old, oldPresent, nw, ops, p, oldCanon, newCanon)
		results = append(results, res)
		run.Count("crash_image_outcome", storeName(store)+"/"+res.class)
		if res.img == "" {
			run.Count("crash_image_kind", "IOther")
		} else {
			run.Count("crash_image_kind", strings.Fields(strings.Trim(res.img, "("))[0])
		}
		if res.class == "err" || res.class == "other" {
			c := Case{Kind: "crash", Store: store, Target: target, Old: old, OldPresent: oldPresent, New: nw, Ops: ops,
				Points: []Point{p}, OldCanon: oldCanon, NewCanon: newCanon}
			if res.class == "err" {
				run.Violate("crash-image-refused-by-loader", fmt.Sprintf("%s: after a crash at op %d (dir ops kept %d, un-synced bytes kept %v) the snapshot file makes %s.New fail: %v",
					storeName(store), p.K, p.DirKeep, p.Keep, storeName(store), res.err), c)
			} else {
				run.Violate("crash-image-torn-state", fmt.Sprintf("%s: after a crash at op %d (dir ops kept %d, un-synced bytes kept %v) the loaded state is neither the old nor the new content",
					storeName(store), p.K, p.DirKeep, p.Keep), c)
			}
		}
	}
	// one Coq case per chunk of points (the shards are evaluated in parallel); everything is rendered per chunk
	// because big blobs are bound case by case
	const chunk = 100
	for lo := 0; lo < len(pts); lo += chunk {
		hi := min(lo+chunk, len(pts))
		oldTerm := "None"
		if oldPresent {
			oldTerm = vh.Some(coqBytes(old))
		}
		var terms []string
		for i := lo; i < hi; i++ {
			img := results[i].img
			if img == "" {
				img = vh.App("IOther", coqBytes(results[i].other))
			}
			terms = append(terms, coqPoint(pts[i], img, results[i].ld))
		}
		term := fmt.Sprintf("CCrash %d %s %s %s\n  %s\n  [%s]", store, vh.Str(target), oldTerm, coqBytes(nw), coqOps(ops), strings.Join(terms, ";\n   "))
		js := Case{Kind: "crash", Store: store, Target: target, Old: old, OldPresent: oldPresent, New: nw, Ops: ops, Points: pts[lo:hi],
			OldCanon: oldCanon, NewCanon: newCanon}
		addCase(run, term, js, hi-lo > 3)
	}
}

// ---------- one chain of restarts under strace ----------

func runChain(t *testing.T, run *vh.Run, r *vh.Rand, c *Case, exhaustiveLimit int) {
	store := c.Store
	target := storeName(store)
	dir, side := t.TempDir(), t.TempDir()
	snapf := filepath.Join(dir, target)
	var old []byte
	oldPresent := c.InitPresent
	var curN []NEntry
	var curS []Sil
	if c.InitPresent {
		if store == storeNflog {
			old, curN = marshalN(c.InitN), c.InitN
		} else {
			old = marshalS(c.InitS)
			for _, s := range c.InitS {
				curS = append(curS, s.Upgraded())
			}
		}
		if err := os.WriteFile(snapf, old, 0o644); err != nil {
			t.Fatal(err)
		}
	}
	canonCur := func() string {
		if store == storeNflog {
			return canonN(curN)
		}
		return canonS(curS)
	}
	oldCanon := canonCur()
	for si, st := range c.Steps {
		var delta []byte
		if store == storeNflog {
			delta = marshalN(st.DeltaN)
			curN = append(curN, st.DeltaN...)
		} else {
			delta = marshalS(st.DeltaS)
			for _, s := range st.DeltaS {
				curS = append(curS, s.Upgraded())
			}
		}
		expect := canonCur()
		spec := DriverSpec{Store: store, Dir: dir, Target: target, DeltaFile: filepath.Join(side, "delta.bin"),
			StateOut: filepath.Join(side, "state.bin"), Tick: st.Tick}
		sb, _ := json.Marshal(spec)
		specPath, logPath := filepath.Join(side, "spec.json"), filepath.Join(side, "strace.log")
		if err := os.WriteFile(spec.DeltaFile, delta, 0o644); err != nil {
			t.Fatal(err)
		}
		if err := os.WriteFile(specPath, sb, 0o644); err != nil {
			t.Fatal(err)
		}
		if err := runUnderStrace(specPath, logPath); err != nil {
			if !driverFailure(run, err, Case{Kind: "run", Store: store, InitN: c.InitN, InitS: c.InitS, InitPresent: c.InitPresent, Steps: c.Steps[:si+1]}) {
				t.Fatalf("step %d: %v", si, err)
			}
			return
		}
		ops, realNames, err := parseStrace(logPath, dir, target, true)
		if err != nil {
			t.Fatal(err)
		}
		for c, real := range realNames {
			if c != target {
				if tmpSeen[target+"/"+real] {
					run.Count("temp_names", "reused-across-snapshots")
				} else {
					run.Count("temp_names", "fresh")
				}
				tmpSeen[target+"/"+real] = true
			}
		}
		stateBytes, err := os.ReadFile(spec.StateOut)
		if err != nil {
			t.Fatal(err)
		}
		var newCanon string
		if store == storeNflog {
			es, err := decodeN(stateBytes)
			if err != nil {
				t.Fatal(err)
			}
			newCanon = canonN(es)
		} else {
			ss, err := decodeS(stateBytes)
			if err != nil {
				t.Fatal(err)
			}
			for i := range ss {
				ss[i] = ss[i].Upgraded()
			}
			newCanon = canonS(ss)
		}
		one := Case{Kind: "run", Store: store, InitN: c.InitN, InitS: c.InitS, InitPresent: c.InitPresent, Steps: c.Steps[:si+1]}
		if newCanon != expect {
			// the in-memory state is not "old file + merged records": loading the old file lost or altered something
			run.Violate("restart-state-not-old-plus-new", fmt.Sprintf("%s: after restart from the snapshot and merging %d new records the in-memory state is not the union (documented upgrades applied)", target, len(st.DeltaN)+len(st.DeltaS)), one)
		}
		final, ferr := os.ReadFile(snapf)
		finalCanon, lerr := "", ferr
		if ferr == nil {
			finalCanon, lerr = loadFile(store, snapf)
		}
		if ferr != nil {
			run.Violate("snapshot-file-missing", fmt.Sprintf("%s: no snapshot file after the shutdown maintenance: %v", target, ferr), one)
		} else if lerr != nil {
			run.Violate("own-snapshot-refused", fmt.Sprintf("%s: the snapshot written at shutdown cannot be loaded: %v", target, lerr), one)
		} else if finalCanon != newCanon {
			run.Violate("snapshot-not-lossless", fmt.Sprintf("%s: loading the shutdown snapshot does not reproduce the in-memory state", target), one)
		}
		segs := segments(ops)
		run.Count("snapshots_per_run", fmt.Sprintf("%d", len(segs)))
		segOld, segOldPresent, segOldCanon := old, oldPresent, oldCanon
		for gi, seg := range segs {
			var data []byte
			tmp := ""
			for _, o := range seg {
				if o.Kind == "write" {
					data = append(data, o.Data...)
				}
				if (o.Kind == "create" || o.Kind == "open") && tmp == "" {
					tmp = o.A
				}
			}
			var kinds []string
			for _, o := range seg {
				kinds = append(kinds, o.Kind)
			}
			run.Count("recorded_op_shapes", strings.Join(kinds, ","))
			addCase(run, fmt.Sprintf("COps %s %s %s\n  %s", vh.Str(target), vh.Str(tmp), coqBytes(data), coqOps(seg)), one, true)
			if gi == len(segs)-1 && ferr == nil && !bytes.Equal(data, final) {
				run.Violate("file-differs-from-written-bytes", target+": the snapshot file does not hold the bytes written on the snapshot path", one)
			}
			segNew := data
			if gi == len(segs)-1 && ferr == nil {
				segNew = final
			}
			pts := enumPoints(r, target, segOld, segOldPresent, seg, exhaustiveLimit)
			crashCase(t, run, r, store, target, segOld, segOldPresent, segNew, seg, pts, segOldCanon, newCanon)
			segOld, segOldPresent, segOldCanon = data, true, newCanon
		}
		if ferr == nil {
			old, oldPresent = final, true
		}
		oldCanon = newCanon
	}
}

// driverFailure: the real store refused to start from its own snapshot, or refused a well-formed gossip message, in
// the driver process: a judged outcome, not a harness error. false = something else went wrong.
func driverFailure(run *vh.Run, err error, c Case) bool {
	msg := err.Error()
	if i := strings.Index(msg, "driver_test.go"); i >= 0 {
		msg = msg[i:]
	}
	if len(msg) > 300 {
		msg = msg[:300]
	}
	switch {
	case strings.Contains(msg, ".New: "):
		run.Violate("own-snapshot-refused", storeName(c.Store)+": the restart from the snapshot written at the previous shutdown fails: "+msg, c)
	case strings.Contains(msg, "Merge: "):
		run.Violate("valid-gossip-message-refused", storeName(c.Store)+": Merge refuses a well-formed message: "+msg, c)
	default:
		return false
	}
	return true
}

func genChain(r *vh.Rand, store int, sizes []int, initN int, tick bool) Case {
	c := Case{Kind: "run", Store: store}
	id := 0
	if initN >= 0 {
		c.InitPresent = true
		for i := 0; i < initN; i++ {
			if store == storeNflog {
				c.InitN = append(c.InitN, genNEntry(r, id, true))
			} else {
				c.InitS = append(c.InitS, genSil(r, id, "legacy", true))
			}
			id++
		}
	}
	for si, n := range sizes {
		st := Step{Tick: tick && si == len(sizes)-1}
		for i := 0; i < n; i++ {
			if store == storeNflog {
				st.DeltaN = append(st.DeltaN, genNEntry(r, id, true))
			} else {
				st.DeltaS = append(st.DeltaS, genSil(r, id, vh.Pick(r, []string{"new", "new", "wire", "legacy"}), true))
			}
			id++
		}
		c.Steps = append(c.Steps, st)
	}
	return c
}

func replayCrash(t *testing.T, run *vh.Run, r *vh.Rand, c *Case) {
	pts := c.Points
	if len(pts) == 0 {
		pts = enumPoints(r, c.Target, c.Old, c.OldPresent, c.Ops, 400)
	}
	crashCase(t, run, r, c.Store, c.Target, c.Old, c.OldPresent, c.New, c.Ops, pts, c.OldCanon, c.NewCanon)
}

func runOne(t *testing.T, run *vh.Run, r *vh.Rand, c *Case, exhaustiveLimit int) {
	switch c.Kind {
	case "run":
		runChain(t, run, r, c, exhaustiveLimit)
	case "crash":
		replayCrash(t, run, r, c)
	case "codec":
		codecCase(t, run, c)
	case "mutate":
		mutateCase(t, run, c)
	case "oversize":
		oversizeCase(run, c)
	case "chain":
		crashChainCase(t, run, r, c, false)
	case "hist":
		historyCase(t, run, c)
	case "histlive":
		liveHistoryCase(t, run, c)
	case "size":
		sizeCase(t, run, c, false)
	case "bare":
		bareCase(t, run, r, c)
	case "fault":
		faultCase(t, run, r, c)
	case "limits":
		limitsCase(t, run, c)
	case "conc":
		concCase(t, run, c)
	}
}

func TestCheck(t *testing.T) {
	env := vh.GetEnv()
	run := vh.NewRun(env, "AM.Run.C11Run")
	// app engine: the REAL application wiring (package app) in real time, in its own process; reports through run.
	// true = the replay file held an app-engine case and has been handled.
	if appsys.Part(t, env, run, "C11") {
		return
	}
	curRun, blobName = run, map[string]string{}
	r := vh.NewRand(env.Seed)
	if env.Replay != "" {
		var c Case
		if err := vh.LoadReplayCase(env.Replay, &c); err != nil {
			t.Fatal(err)
		}
		runOne(t, run, r, &c, 400)
	} else {
		for _, c := range vh.LoadCorpus[Case](env, "C11") {
			c := c
			runOne(t, run, r, &c, 400)
		}
		thorough := env.Tier == "thorough"
		// E-fs: chains of restarts with a shutdown snapshot each, under strace
		type chainSpec struct {
			store  int
			sizes  []int
			initN  int
			tick   bool
		}
		chains := []chainSpec{
			{storeNflog, []int{0, 1, 2}, -1, false},
			{storeNflog, []int{1, 0, 1}, 2, false},
			{storeNflog, []int{3}, 0, true},
			{storeNflog, []int{12, 2}, 1, false},
			{storeSilence, []int{0, 1, 2}, -1, false},
			{storeSilence, []int{1, 1}, 2, false},
			{storeSilence, []int{2}, 1, true},
			{storeSilence, []int{10, 2}, 3, false},
		}
		extra := env.N(1, 10)
		for i := 0; i < extra; i++ {
			chains = append(chains, chainSpec{r.Intn(2), []int{r.Intn(4), r.Intn(3)}, r.Intn(4) - 1, r.Chance(1, 3)})
		}
		if thorough {
			// the big stores first and last, so that their (megabyte-sized) cases land in different shards
			chains = append([]chainSpec{{storeNflog, []int{2000, 1}, 5, false}}, chains...)
			chains = append(chains, chainSpec{storeNflog, []int{300}, -1, true}, chainSpec{storeSilence, []int{300}, 100, false},
				chainSpec{storeSilence, []int{1200, 1}, 5, false})
		}
		for _, cs := range chains {
			c := genChain(r.Fork(), cs.store, cs.sizes, cs.initN, cs.tick)
			runChain(t, run, r.Fork(), &c, 400)
			run.Count("chains", storeName(cs.store))
		}
		// the same protocol runs with a BARE snapshot file name (cwd = data dir) and $TMPDIR elsewhere
		for _, st := range []int{storeSilence, storeNflog} {
			c := genBare(r.Fork(), st)
			bareCase(t, run, r.Fork(), &c)
		}
		// fsync of the temporary file fails (injected): the old snapshot must stay
		for _, st := range []int{storeNflog, storeSilence} {
			c := genFault(r.Fork(), st)
			faultCase(t, run, r.Fork(), &c)
		}
		// crash CHAINS: an interrupted snapshot of a large state (temp files left behind under their real names), then a
		// completed snapshot of a smaller state in the same directory, then restart
		for _, st := range []int{storeNflog, storeSilence} {
			c := genCrashChain(r.Fork(), st, 5)
			crashChainCase(t, run, r.Fork(), &c, thorough)
			run.Count("crash_chains", storeName(st))
		}
		// lossless after arbitrary histories ending in each kind of change, through the real maintenance shutdown path
		for rep := 0; rep < env.N(4, 8); rep++ {
			for _, st := range []int{storeNflog, storeSilence} {
				for _, last := range historyKinds(st) {
					c := genHistory(r.Fork(), st, last, rep%2 == 0)
					historyCase(t, run, &c)
				}
			}
		}
		// the same with ONE Maintenance goroutine alive over the whole history and last changes that neither add nor
		// remove a silence (Expire / in-place edits after a periodic snapshot), history_live.go
		for rep := 0; rep < env.N(6, 6); rep++ {
			for _, last := range liveHistoryKinds() {
				c := genLiveHistory(r.Fork(), last)
				liveHistoryCase(t, run, &c)
			}
		}
		// single records of every size class below the framing limit through Snapshot + load
		sizesAll(t, run, r.Fork(), env)
		// silences under a configured per-silence size limit: restart must accept what was written
		limitsAll(t, run, r.Fork(), env)
		// Snapshot into a slow writer while MarshalBinary runs concurrently
		concAll(t, run, r.Fork(), env)
		// codec differential and prefix/corruption classes
		codecAll(t, run, r.Fork(), env)
		// records over the 4 MiB framing limit (known finding): corpus/C11/oversize-*.json, run first on every run
	}
	if err := run.Finish("E-fs: strace of the real Maintenance shutdown snapshot (both stores, chains of restarts in one data dir, initial files in the old format) compared with snapshot_ops; every crash image of the recorded sequence (exhaustive up to 400 un-synced bytes, sampled beyond) loaded by the real New; codec differential Wire.v vs protobuf-go on real Snapshot output and on generated records; every strict prefix and sampled 1-byte corruptions through the real loader. non-trivial = COps, CCrash with > 3 points, codec cases with >= 1 record"); err != nil {
		t.Fatal(err)
	}
}
