//go:build verif

package c11

import (
	"bytes"
	"encoding/json"
	"fmt"
	"os"
	"path/filepath"
	"sort"
	"strings"
	"testing"

	"verifharness/vh"
)

// driverRun runs the real store once under strace in dir: start from the snapshot file, merge delta, real
// Maintenance shutdown. Returns the operations with canonical temp names, the canonical->real name map, the
// operations with real names, the canonical in-memory state after maintenance, and the final target file.
type driverResult struct {
	ops, opsReal []FsOp
	real         map[string]string
	stateCanon   string
	final        []byte
	ferr         error
}

func driverRun(t *testing.T, store int, dir, side string, delta []byte, tick bool) (driverResult, error) {
	target := storeName(store)
	spec := DriverSpec{Store: store, Dir: dir, Target: target, DeltaFile: filepath.Join(side, "delta.bin"),
		StateOut: filepath.Join(side, "state.bin"), Tick: tick, Bare: straceCwd != ""}
	sb, _ := json.Marshal(spec)
	specPath, logPath := filepath.Join(side, "spec.json"), filepath.Join(side, "strace.log")
	if err := os.WriteFile(spec.DeltaFile, delta, 0o644); err != nil {
		t.Fatal(err)
	}
	if err := os.WriteFile(specPath, sb, 0o644); err != nil {
		t.Fatal(err)
	}
	if err := runUnderStrace(specPath, logPath); err != nil {
		return driverResult{}, err
	}
	var res driverResult
	var err error
	if res.ops, res.real, err = parseStrace(logPath, dir, target, true); err != nil {
		t.Fatal(err)
	}
	if res.opsReal, _, err = parseStrace(logPath, dir, target, false); err != nil {
		t.Fatal(err)
	}
	stateBytes, err := os.ReadFile(spec.StateOut)
	if err != nil {
		t.Fatal(err)
	}
	if store == storeNflog {
		es, err := decodeN(stateBytes)
		if err != nil {
			t.Fatal(err)
		}
		res.stateCanon = canonN(es)
	} else {
		ss, err := decodeS(stateBytes)
		if err != nil {
			t.Fatal(err)
		}
		for i := range ss {
			ss[i] = ss[i].Upgraded()
		}
		res.stateCanon = canonS(ss)
	}
	res.final, res.ferr = os.ReadFile(filepath.Join(dir, target))
	return res, nil
}

func writtenBytes(ops []FsOp) []byte {
	var out []byte
	for _, o := range ops {
		if o.Kind == "write" {
			out = append(out, o.Data...)
		}
	}
	return out
}

// crashChainCase: snapshot A of a LARGE state is interrupted by a crash at the points of c.Points (the image, with
// whatever temp files the real code left under their REAL names, is materialised in a fresh data directory); then the
// real store restarts there and completes snapshot B of a SMALLER state; then the file is loaded.
// Oracle: the loaded state is exactly B's in-memory state, and the file is byte for byte what B wrote on the
// snapshot path (no remains of a leftover temp file).
func crashChainCase(t *testing.T, run *vh.Run, r *vh.Rand, c *Case, thorough bool) {
	store := c.Store
	target := storeName(store)
	dirA, side := t.TempDir(), t.TempDir()
	var old, delta []byte
	var oldCanon string
	if store == storeNflog {
		old, delta = marshalN(c.InitN), marshalN(c.Steps[0].DeltaN)
		oldCanon = canonN(c.InitN)
	} else {
		old, delta = marshalS(c.InitS), marshalS(c.Steps[0].DeltaS)
		var up []Sil
		for _, s := range c.InitS {
			up = append(up, s.Upgraded())
		}
		oldCanon = canonS(up)
	}
	if err := os.WriteFile(filepath.Join(dirA, target), old, 0o644); err != nil {
		t.Fatal(err)
	}
	a, err := driverRun(t, store, dirA, side, delta, false)
	if err != nil {
		if !driverFailure(run, err, *c) {
			t.Fatal(err)
		}
		return
	}
	pts := c.Points
	if len(pts) == 0 {
		n := len(a.ops)
		for k := 0; k <= n; k++ {
			vol, logLen := volatileAt(target, old, true, a.ops, k)
			for dk := 0; dk <= logLen; dk++ {
				if !thorough && !(dk == 1 || (k == n && dk == logLen)) {
					continue // quick: the temp file exists (dk >= 1) and the rename is rolled back, plus the completed case
				}
				if len(vol) == 0 {
					pts = append(pts, Point{K: k, DirKeep: dk})
					continue
				}
				for i, v := range vol {
					keeps := []int{v, r.Intn(v + 1)}
					if thorough {
						keeps = append(keeps, 0, v-1, r.Intn(v+1))
					}
					for _, keep := range keeps {
						pts = append(pts, Point{K: k, DirKeep: dk, Keep: map[int]int{i: keep}})
					}
				}
			}
		}
	}
	for _, p := range pts {
		img := crashImage(target, old, true, a.ops, p)
		dirB, sideB := t.TempDir(), t.TempDir()
		var names []string
		files := map[string][]byte{}
		for cn, b := range img {
			realName := a.real[cn]
			if realName == "" {
				realName = cn
			}
			files[realName] = b
			names = append(names, realName)
			if err := os.WriteFile(filepath.Join(dirB, realName), b, 0o644); err != nil {
				t.Fatal(err)
			}
		}
		sort.Strings(names)
		leftover := 0
		for _, n := range names {
			if n != target && len(files[n]) > leftover {
				leftover = len(files[n])
			}
		}
		one := Case{Kind: "chain", Store: store, InitN: c.InitN, InitS: c.InitS, Steps: c.Steps, Points: []Point{p}}
		b, err := driverRun(t, store, dirB, sideB, nil, false)
		if err != nil {
			// the store does not even start from the directory the crash left behind
			msg := err.Error()
			if i := strings.Index(msg, "driver_test.go"); i >= 0 {
				msg = msg[i:]
			}
			if len(msg) > 200 {
				msg = msg[:200]
			}
			run.Violate("crash-image-refused-by-loader", fmt.Sprintf("%s: after a crash at op %d (dir ops kept %d, un-synced bytes kept %v) of a %d-byte snapshot the restart fails: %s",
				target, p.K, p.DirKeep, p.Keep, len(writtenBytes(a.ops)), msg), one)
			continue
		}
		written := writtenBytes(b.ops)
		run.Count("chain_leftover_vs_next_snapshot", fmt.Sprintf("%s/leftover>next=%v", target, leftover > len(written)))
		desc := fmt.Sprintf("%s: snapshot of %d bytes interrupted at op %d (dir ops kept %d, un-synced bytes kept %v) leaving temp files of up to %d bytes; next snapshot of %d bytes completed",
			target, len(writtenBytes(a.ops)), p.K, p.DirKeep, p.Keep, leftover, len(written))
		if b.stateCanon != oldCanon && b.stateCanon != a.stateCanon {
			run.Violate("crash-image-torn-state", desc+": the restarted store holds neither the old nor the new content", one)
		}
		switch {
		case b.ferr != nil:
			run.Violate("snapshot-file-missing", desc+": no snapshot file", one)
		case !bytes.Equal(b.final, written):
			run.Violate("leftover-temp-file-corrupts-later-snapshot", fmt.Sprintf("%s: the snapshot file (%d bytes) is not the bytes written on the snapshot path", desc, len(b.final)), one)
		default:
			if canon, err := loadFile(store, filepath.Join(dirB, target)); err != nil {
				run.Violate("own-snapshot-refused", desc+": the file cannot be loaded: "+err.Error(), one)
			} else if canon != b.stateCanon {
				run.Violate("snapshot-not-lossless", desc+": loading the file does not reproduce the state of the last completed snapshot", one)
			}
		}
		// Coq: the recorded operations of run B are snapshot_ops; the model run on the same directory predicts the file
		for _, seg := range segments(b.ops) {
			tmp := ""
			var kinds []string
			for _, o := range seg {
				if (o.Kind == "create" || o.Kind == "open") && tmp == "" {
					tmp = o.A
				}
				kinds = append(kinds, o.Kind)
			}
			run.Count("recorded_op_shapes", strings.Join(kinds, ","))
			addCase(run, fmt.Sprintf("COps %s %s %s\n  %s", vh.Str(target), vh.Str(tmp), coqBytes(writtenBytes(seg)), coqOps(seg)), one, true)
		}
		var fl []string
		for _, n := range names {
			fl = append(fl, vh.Pair(vh.Str(n), coqBytes(files[n])))
		}
		final := "None"
		if b.ferr == nil {
			final = vh.Some(coqBytes(b.final))
		}
		addCase(run, fmt.Sprintf("CSeq %s %s\n  %s\n  %s %s", vh.List(fl), vh.Str(target), coqOps(b.opsReal), final, coqBytes(written)), one, true)
		for cn, real := range b.real {
			if cn != target {
				if _, ok := files[real]; ok {
					run.Count("temp_names", "same-as-a-leftover-file")
				}
			}
		}
	}
}

func genCrashChain(r *vh.Rand, store int, nBig int) Case {
	c := Case{Kind: "chain", Store: store, InitPresent: true}
	st := Step{}
	if store == storeNflog {
		c.InitN = []NEntry{genNEntry(r, 0, true)}
		for i := 1; i <= nBig; i++ {
			st.DeltaN = append(st.DeltaN, genNEntry(r, i, true))
		}
	} else {
		c.InitS = []Sil{genSil(r, 0, "legacy", true)}
		for i := 1; i <= nBig; i++ {
			st.DeltaS = append(st.DeltaS, genSil(r, i, "new", true))
		}
	}
	c.Steps = []Step{st}
	return c
}
