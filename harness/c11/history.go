//go:build verif

package c11

import (
	"bytes"
	"context"
	"fmt"
	"os"
	"path/filepath"
	"sort"
	"strings"
	"testing"
	"time"

	"github.com/prometheus/client_golang/prometheus"
	"google.golang.org/protobuf/proto"
	"google.golang.org/protobuf/types/known/timestamppb"

	"github.com/prometheus/alertmanager/nflog"
	npb "github.com/prometheus/alertmanager/nflog/nflogpb"
	"github.com/prometheus/alertmanager/silence"
	spb "github.com/prometheus/alertmanager/silence/silencepb"

	"verifharness/vh"
)

// Lossless-after-history engine: a random history on a REAL nflog.Log / silence.Silences (local Log / Set / update /
// Expire, Merge of small and of oversized gossip messages, GC, maintenance runs in between), then the REAL
// maintenance shutdown path (Maintenance with stopc closed), then a restart from the file.
// Oracle (the property's lossless clause, end to end): what was queryable before the shutdown is queryable with
// identical content after the restart, and nothing else is.

type HOp struct {
	Kind string `json:"kind"` // log|set|update|expire|merge|merge_big|gc|maint
	N    *NEntry `json:"n,omitempty"`
	S    *Sil    `json:"s,omitempty"`
	Idx  int     `json:"idx,omitempty"` // which locally set silence update/expire refers to
	Txt  string  `json:"txt,omitempty"`
}

var histRecv = []*npb.Receiver{{GroupName: "team-a", Integration: "webhook", Idx: 0}, {GroupName: "ü", Integration: "email", Idx: 3}}

func maintShutdown(run func(time.Duration, string, <-chan struct{}), snapf string) {
	stopc := make(chan struct{})
	done := make(chan struct{})
	go func() { run(time.Hour, snapf, stopc); close(done) }()
	close(stopc)
	<-done
}

const gossipHalf = 700 // cluster.MaxGossipPacketSize / 2: larger messages are "oversized"

func bigNEntry(r *vh.Rand, i int) NEntry {
	e := genNEntry(r, i, true)
	e.Firing = nil
	for j := 0; j < 120; j++ {
		e.Firing = append(e.Firing, r.U64())
	}
	return e
}
func smallNEntry(r *vh.Rand, i int) NEntry {
	e := genNEntry(r, i, true)
	if len(e.Firing) > 4 {
		e.Firing = e.Firing[:4]
	}
	e.Group = "g"
	if len(marshalN([]NEntry{e})) > 600 {
		e.Data = nil
	}
	return e
}
func bigSil(r *vh.Rand, i int) Sil {
	s := genSil(r, i, "new", true)
	s.Comment = strings.Repeat("c", 900)
	return s
}
func smallSil(r *vh.Rand, i int) Sil {
	s := genSil(r, i, "new", true)
	s.Comment, s.CreatedBy, s.Ann, s.RMSets = "c", "me", nil, nil
	s.MSets = s.MSets[:1]
	if len(s.MSets[0]) > 2 {
		s.MSets[0] = s.MSets[0][:2]
	}
	return s
}

// maintBefore: a maintenance run (snapshot) directly precedes the last change, so that change alone separates the
// in-memory state from the file.
func genHistory(r *vh.Rand, store int, last string, maintBefore bool) Case {
	c := Case{Kind: "hist", Store: store}
	kinds := []string{"log", "merge", "merge_big", "gc", "maint"}
	if store == storeSilence {
		kinds = []string{"set", "update", "expire", "merge", "merge_big", "gc", "maint"}
	}
	n := r.Range(1, 7)
	id := 0
	mk := func(k string) HOp {
		id++
		op := HOp{Kind: k, Idx: r.Intn(8), Txt: fmt.Sprintf("t%d", id)}
		switch {
		case store == storeNflog && k == "merge":
			e := smallNEntry(r, id)
			op.N = &e
		case store == storeNflog && k == "merge_big":
			e := bigNEntry(r, id)
			op.N = &e
		case store == storeNflog && k == "log":
			e := NEntry{GKey: []byte(fmt.Sprintf("{}:{a=\"%d\"}", r.Intn(3))), Idx: uint32(r.Intn(2)), Firing: genU64s(r, 3), ResAl: genU64s(r, 2), Data: genData(r)}
			op.N = &e
		case store == storeSilence && k == "merge":
			s := smallSil(r, id)
			op.S = &s
		case store == storeSilence && k == "merge_big":
			s := bigSil(r, id)
			op.S = &s
		}
		return op
	}
	for i := 0; i < n; i++ {
		c.Hist = append(c.Hist, mk(vh.Pick(r, kinds)))
	}
	if maintBefore {
		c.Hist = append(c.Hist, mk("maint"))
	}
	c.Hist = append(c.Hist, mk(last))
	return c
}

func historyKinds(store int) []string {
	if store == storeSilence {
		return []string{"set", "update", "expire", "merge", "merge_big", "gc"}
	}
	return []string{"log", "merge", "merge_big", "gc"}
}

func historyCase(t *testing.T, run *vh.Run, c *Case) {
	dir := t.TempDir()
	target := storeName(c.Store)
	snapf := filepath.Join(dir, target)
	lastKind := ""
	for _, op := range c.Hist {
		if op.Kind != "maint" {
			lastKind = op.Kind
		}
	}
	run.Count("history_last_change", target+"/"+lastKind)
	fail := func(key, what string) { run.Violate(key, fmt.Sprintf("%s (history ending in %s): %s", target, lastKind, what), c) }
	if c.Store == storeNflog {
		l, err := nflog.New(nflog.Options{SnapshotFile: snapf, Retention: time.Hour, Metrics: prometheus.NewRegistry()})
		if err != nil {
			t.Fatal(err)
		}
		keys := map[string][2]any{}
		for _, op := range c.Hist {
			run.Count("history_ops", target+"/"+op.Kind)
			switch op.Kind {
			case "log":
				rc := histRecv[int(op.N.Idx)%len(histRecv)]
				var store *nflog.Store
				if len(op.N.Data) > 0 {
					e := *op.N
					e.HasEntry = true
					store = nflog.NewStore(e.PB().Entry)
				}
				if err := l.Log(rc, string(op.N.GKey), op.N.Firing, op.N.ResAl, store, 0); err != nil {
					t.Fatal(err)
				}
				keys[string(op.N.GKey)+"|"+rc.GroupName] = [2]any{string(op.N.GKey), rc}
			case "merge", "merge_big":
				b := marshalN([]NEntry{*op.N})
				if (op.Kind == "merge_big") != (len(b) > gossipHalf) {
					t.Fatalf("generator: %s message of %d bytes", op.Kind, len(b))
				}
				if err := l.Merge(b); err != nil {
					t.Fatal(err)
				}
				m := op.N.PB()
				keys[string(op.N.GKey)+"|"+m.Entry.Receiver.GroupName] = [2]any{string(op.N.GKey), m.Entry.Receiver}
			case "gc":
				if _, err := l.GC(); err != nil {
					t.Fatal(err)
				}
			case "maint":
				maintShutdown(func(d time.Duration, f string, s <-chan struct{}) { l.Maintenance(d, f, s, nil) }, snapf)
			}
		}
		query := func(x *nflog.Log) map[string]*npb.Entry {
			out := map[string]*npb.Entry{}
			for k, v := range keys {
				es, err := x.Query(nflog.QGroupKey(v[0].(string)), nflog.QReceiver(v[1].(*npb.Receiver)))
				if err == nil && len(es) == 1 {
					out[k] = es[0]
				}
			}
			return out
		}
		before := query(l)
		sb, _ := l.MarshalBinary()
		beforeAll, _ := decodeN(sb)
		maintShutdown(func(d time.Duration, f string, s <-chan struct{}) { l.Maintenance(d, f, s, nil) }, snapf)
		l2, err := nflog.New(nflog.Options{SnapshotFile: snapf, Retention: time.Hour, Metrics: prometheus.NewRegistry()})
		if err != nil {
			fail("own-snapshot-refused", "restart fails: "+err.Error())
			return
		}
		after := query(l2)
		for k, e := range before {
			if a, ok := after[k]; !ok {
				fail("history-entry-lost-after-restart", fmt.Sprintf("the entry %q queryable before the shutdown is gone after the restart", k))
			} else if !proto.Equal(a, e) {
				fail("history-entry-changed-after-restart", fmt.Sprintf("the entry %q differs after the restart", k))
			}
		}
		sa, _ := l2.MarshalBinary()
		afterAll, _ := decodeN(sa)
		if canonN(afterAll) != canonN(beforeAll) {
			fail("history-state-differs-after-restart", fmt.Sprintf("%d entries before the shutdown, %d after the restart, or different content", len(beforeAll), len(afterAll)))
		}
		if fb, err := os.ReadFile(snapf); err == nil {
			recs, _ := decodeN(fb)
			cc := Case{Kind: "codec", Store: storeNflog, Bytes: fb, RecsN: recs}
			codecCase(t, run, &cc)
		}
		return
	}
	// ---- silences ----
	s, err := silence.New(silence.Options{SnapshotFile: snapf, Retention: time.Hour, Metrics: prometheus.NewRegistry()})
	if err != nil {
		t.Fatal(err)
	}
	ctx := context.Background()
	var local []string
	for _, op := range c.Hist {
		run.Count("history_ops", target+"/"+op.Kind)
		now := time.Now()
		switch op.Kind {
		case "set":
			sil := &spb.Silence{MatcherSets: []*spb.MatcherSet{{Matchers: []*spb.Matcher{{Name: "job", Pattern: op.Txt}}},
				{Matchers: []*spb.Matcher{{Type: spb.Matcher_REGEXP, Name: "a", Pattern: "b.*"}, {Name: "c", Pattern: "d"}}}},
				StartsAt: timestamppb.New(now), EndsAt: timestamppb.New(now.Add(time.Hour)), Comment: "c-" + op.Txt, CreatedBy: "me",
				Annotations: map[string]string{"k": op.Txt}}
			if err := s.Set(ctx, sil); err != nil {
				t.Fatalf("Set: %v", err)
			}
			local = append(local, sil.Id)
		case "update", "expire":
			if len(local) == 0 {
				continue
			}
			id := local[op.Idx%len(local)]
			if op.Kind == "expire" {
				_ = s.Expire(ctx, id) // already expired: an error, no change
				continue
			}
			cur, err := s.QueryOne(ctx, silence.QIDs(id))
			if err != nil {
				continue
			}
			upd := proto.Clone(cur).(*spb.Silence)
			upd.Comment = "updated-" + op.Txt
			upd.EndsAt = timestamppb.New(now.Add(2 * time.Hour))
			if err := s.Set(ctx, upd); err == nil && upd.Id != id {
				local = append(local, upd.Id)
			}
		case "merge", "merge_big":
			b := marshalS([]Sil{*op.S})
			if (op.Kind == "merge_big") != (len(b) > gossipHalf) {
				t.Fatalf("generator: %s message of %d bytes", op.Kind, len(b))
			}
			if err := s.Merge(b); err != nil {
				t.Fatal(err)
			}
		case "gc":
			if _, err := s.GC(); err != nil {
				t.Fatal(err)
			}
		case "maint":
			maintShutdown(func(d time.Duration, f string, c <-chan struct{}) { s.Maintenance(d, f, c, nil) }, snapf)
		}
	}
	observe := func(x *silence.Silences) (map[string]string, string) {
		q, _, err := x.Query(ctx)
		if err != nil {
			t.Fatal(err)
		}
		byID := map[string]string{}
		for _, sil := range q {
			y := silOf(mesh(sil)).Upgraded()
			byID[sil.Id] = canonS([]Sil{y})
		}
		b, _ := x.MarshalBinary()
		all, _ := decodeS(b)
		for i := range all {
			all[i] = all[i].Upgraded()
		}
		return byID, canonS(all)
	}
	before, beforeAll := observe(s)
	maintShutdown(func(d time.Duration, f string, c <-chan struct{}) { s.Maintenance(d, f, c, nil) }, snapf)
	s2, err := silence.New(silence.Options{SnapshotFile: snapf, Retention: time.Hour, Metrics: prometheus.NewRegistry()})
	if err != nil {
		fail("own-snapshot-refused", "restart fails: "+err.Error())
		return
	}
	after, afterAll := observe(s2)
	ids := make([]string, 0, len(before))
	for id := range before {
		ids = append(ids, id)
	}
	sort.Strings(ids)
	for _, id := range ids {
		if a, ok := after[id]; !ok {
			fail("history-entry-lost-after-restart", "a silence queryable before the shutdown is gone after the restart")
		} else if a != before[id] {
			fail("history-entry-changed-after-restart", "a silence differs after the restart")
		}
	}
	if afterAll != beforeAll {
		fail("history-state-differs-after-restart", fmt.Sprintf("%d silences before the shutdown, %d after the restart, or different content", len(before), len(after)))
	}
	if fb, err := os.ReadFile(snapf); err == nil {
		recs, _ := decodeS(fb)
		cc := Case{Kind: "codec", Store: storeSilence, Bytes: fb, RecsS: recs}
		codecCase(t, run, &cc)
	}
	_ = bytes.Equal
}
