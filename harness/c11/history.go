//go:build verif

package c11

import (
	"bytes"
	"context"
	"fmt"
	"os"
	"path/filepath"
	"sort"
	"strings"
	"testing"
	"time"

	"github.com/prometheus/client_golang/prometheus"
	"google.golang.org/protobuf/proto"
	"google.golang.org/protobuf/types/known/timestamppb"

	"github.com/prometheus/alertmanager/nflog"
	npb "github.com/prometheus/alertmanager/nflog/nflogpb"
	"github.com/prometheus/alertmanager/silence"
	spb "github.com/prometheus/alertmanager/silence/silencepb"

	"verifharness/vh"
)

// Lossless-after-history engine: a random history on a REAL nflog.Log / silence.Silences (local Log / Set / update /
// Expire, Merge of small and of oversized gossip messages, GC, maintenance runs in between), then the REAL
// maintenance shutdown path (Maintenance with stopc closed), then a restart from the file.
// Oracle (the property's lossless clause, end to end): what was queryable before the shutdown is queryable with
// identical content after the restart, and nothing else is.

type HOp struct {
	Kind string `json:"kind"` // log|set|update|expire|merge|merge_big|gc|maint
	N    *NEntry `json:"n,omitempty"`
	S    *Sil    `json:"s,omitempty"`
	Idx  int     `json:"idx,omitempty"` // which locally set silence update/expire refers to
	Txt  string  `json:"txt,omitempty"`
}

var histRecv = []*npb.Receiver{{GroupName: "team-a", Integration: "webhook", Idx: 0}, {GroupName: "ü", Integration: "email", Idx: 3}}

func maintShutdown(run func(time.Duration, string, <-chan struct{}), snapf string) {
	stopc := make(chan struct{})
	done := make(chan struct{})
	go func() { run(time.Hour, snapf, stopc); close(done) }()
	close(stopc)
	<-done
}

const gossipHalf = 700 // cluster.MaxGossipPacketSize / 2: larger messages are "oversized"

func bigNEntry(r *vh.Rand, i int) NEntry {
	e := genNEntry(r, i, true)
	e.Firing = nil
	for j := 0; j < 120; j++ {
		e.Firing = append(e.Firing, r.U64())
	}
	return e
}
func smallNEntry(r *vh.Rand, i int) NEntry {
	e := genNEntry(r, i, true)
	if len(e.Firing) > 4 {
		e.Firing = e.Firing[:4]
	}
	e.Group = "g"
	if len(marshalN([]NEntry{e})) > 600 {
		e.Data = nil
	}
	return e
}
func bigSil(r *vh.Rand, i int) Sil {
	s := genSil(r, i, "new", true)
	s.Comment = strings.Repeat("c", 900)
	return s
}
func smallSil(r *vh.Rand, i int) Sil {
	s := genSil(r, i, "new", true)
	s.Comment, s.CreatedBy, s.Ann, s.RMSets = "c", "me", nil, nil
	s.MSets = s.MSets[:1]
	if len(s.MSets[0]) > 2 {
		s.MSets[0] = s.MSets[0][:2]
	}
	return s
}

// maintBefore: a maintenance run (snapshot) directly precedes the last change, so that change alone separates the
// in-memory state from the file.
func genHistory(r *vh.Rand, store int, last string, maintBefore bool) Case {
	c := Case{Kind: "hist", Store: store}
	kinds := []string{"log", "log_big", "merge", "merge_big", "merge_replace", "gc", "maint", "marshal"}
	if store == storeSilence {
		kinds = []string{"set", "set_big", "set_far", "update", "expire", "merge", "merge_big", "merge_replace", "gc", "maint", "marshal"}
	}
	n := r.Range(1, 7)
	id := 0
	mk := func(k string) HOp {
		id++
		op := HOp{Kind: k, Idx: r.Intn(8), Txt: fmt.Sprintf("t%d", id)}
		switch {
		case store == storeNflog && k == "merge":
			e := smallNEntry(r, id)
			op.N = &e
		case store == storeNflog && k == "merge_big":
			e := bigNEntry(r, id)
			op.N = &e
		case store == storeNflog && k == "log_big":
			// hundreds of firing / resolved hashes: a record of several KiB up to ~100 KiB
			nf := vh.Pick(r, []int{380, 420, 800, 3000, 9000})
			e := NEntry{GKey: []byte(fmt.Sprintf("{}:{a=\"big%d\"}", r.Intn(2))), Idx: uint32(r.Intn(2))}
			for j := 0; j < nf; j++ {
				e.Firing = append(e.Firing, r.U64()|1<<63)
			}
			for j := 0; j < nf/3; j++ {
				e.ResAl = append(e.ResAl, r.U64()|1<<63)
			}
			op.N = &e
		case store == storeSilence && k == "set_big":
			op.Idx = vh.Pick(r, []int{4100, 5000, 9000, 70000}) // comment length; odd Idx: many matchers instead
			if r.Chance(1, 3) {
				op.Idx = 301
			}
		case store == storeNflog && k == "log":
			e := NEntry{GKey: []byte(fmt.Sprintf("{}:{a=\"%d\"}", r.Intn(3))), Idx: uint32(r.Intn(2)), Firing: genU64s(r, 3), ResAl: genU64s(r, 2), Data: genData(r)}
			op.N = &e
		case store == storeSilence && k == "merge":
			s := smallSil(r, id)
			op.S = &s
		case store == storeSilence && k == "merge_big":
			s := bigSil(r, id)
			op.S = &s
		}
		return op
	}
	if last == "merge_replace" { // something to replace
		if store == storeNflog {
			c.Hist = append(c.Hist, mk("log"))
		} else {
			c.Hist = append(c.Hist, mk("set"))
		}
	}
	for i := 0; i < n; i++ {
		c.Hist = append(c.Hist, mk(vh.Pick(r, kinds)))
	}
	if maintBefore {
		c.Hist = append(c.Hist, mk("maint"))
	} else if last == "merge_replace" {
		c.Hist = append(c.Hist, mk("marshal")) // a full-state push (MarshalBinary) has run
	}
	c.Hist = append(c.Hist, mk(last))
	return c
}

func maxTime(a, b time.Time) time.Time {
	if a.After(b) {
		return a
	}
	return b
}

func historyKinds(store int) []string {
	if store == storeSilence {
		return []string{"set", "set_big", "set_far", "update", "expire", "merge", "merge_big", "merge_replace", "gc"}
	}
	return []string{"log", "log_big", "merge", "merge_big", "merge_replace", "gc"}
}

func historyCase(t *testing.T, run *vh.Run, c *Case) {
	dir := t.TempDir()
	target := storeName(c.Store)
	snapf := filepath.Join(dir, target)
	lastKind := ""
	for _, op := range c.Hist {
		if op.Kind != "maint" && op.Kind != "marshal" {
			lastKind = op.Kind
		}
	}
	run.Count("history_last_change", target+"/"+lastKind)
	fail := func(key, what string) { run.Violate(key, fmt.Sprintf("%s (history ending in %s): %s", target, lastKind, what), c) }
	if c.Store == storeNflog {
		l, err := nflog.New(nflog.Options{SnapshotFile: snapf, Retention: time.Hour, Metrics: prometheus.NewRegistry()})
		if err != nil {
			t.Fatal(err)
		}
		keys := map[string][2]any{}
		for _, op := range c.Hist {
			run.Count("history_ops", target+"/"+op.Kind)
			switch op.Kind {
			case "marshal":
				if _, err := l.MarshalBinary(); err != nil {
					t.Fatal(err)
				}
			case "merge_replace":
				// a newer entry for an EXISTING key arrives from a peer (its notification happened later)
				var ks []string
				for k := range keys {
					ks = append(ks, k)
				}
				sort.Strings(ks)
				if len(ks) == 0 {
					continue
				}
				v := keys[ks[op.Idx%len(ks)]]
				es, err := l.Query(nflog.QGroupKey(v[0].(string)), nflog.QReceiver(v[1].(*npb.Receiver)))
				if err != nil || len(es) != 1 {
					continue
				}
				ne := proto.Clone(es[0]).(*npb.Entry)
				ne.Timestamp = timestamppb.New(ne.Timestamp.AsTime().Add(time.Minute))
				ne.FiringAlerts = append(ne.FiringAlerts, 4242)
				ne.ResolvedAlerts = nil
				var buf bytes.Buffer
				if _, err := detMarshal.MarshalTo(&buf, &npb.MeshEntry{Entry: ne, ExpiresAt: timestamppb.New(time.Now().Add(2 * time.Hour))}); err != nil {
					t.Fatal(err)
				}
				if err := l.Merge(buf.Bytes()); err != nil {
					fail("valid-gossip-message-refused", "Merge refuses a well-formed message: "+err.Error())
					continue
				}
			case "log", "log_big":
				rc := histRecv[int(op.N.Idx)%len(histRecv)]
				var store *nflog.Store
				if len(op.N.Data) > 0 {
					e := *op.N
					e.HasEntry = true
					store = nflog.NewStore(e.PB().Entry)
				}
				if err := l.Log(rc, string(op.N.GKey), op.N.Firing, op.N.ResAl, store, 0); err != nil {
					t.Fatal(err)
				}
				keys[string(op.N.GKey)+"|"+rc.GroupName] = [2]any{string(op.N.GKey), rc}
			case "merge", "merge_big":
				b := marshalN([]NEntry{*op.N})
				if (op.Kind == "merge_big") != (len(b) > gossipHalf) {
					t.Fatalf("generator: %s message of %d bytes", op.Kind, len(b))
				}
				if err := l.Merge(b); err != nil {
					fail("valid-gossip-message-refused", "Merge refuses a well-formed message: "+err.Error())
					continue
				}
				m := op.N.PB()
				keys[string(op.N.GKey)+"|"+m.Entry.Receiver.GroupName] = [2]any{string(op.N.GKey), m.Entry.Receiver}
			case "gc":
				if _, err := l.GC(); err != nil {
					t.Fatal(err)
				}
			case "maint":
				maintShutdown(func(d time.Duration, f string, s <-chan struct{}) { l.Maintenance(d, f, s, nil) }, snapf)
			}
		}
		query := func(x *nflog.Log) map[string]*npb.Entry {
			out := map[string]*npb.Entry{}
			for k, v := range keys {
				es, err := x.Query(nflog.QGroupKey(v[0].(string)), nflog.QReceiver(v[1].(*npb.Receiver)))
				if err == nil && len(es) == 1 {
					out[k] = es[0]
				}
			}
			return out
		}
		before := query(l)
		sb, _ := l.MarshalBinary()
		beforeAll, _ := decodeN(sb)
		maintShutdown(func(d time.Duration, f string, s <-chan struct{}) { l.Maintenance(d, f, s, nil) }, snapf)
		l2, err := nflog.New(nflog.Options{SnapshotFile: snapf, Retention: time.Hour, Metrics: prometheus.NewRegistry()})
		if err != nil {
			fail("own-snapshot-refused", "restart fails: "+err.Error())
			return
		}
		after := query(l2)
		for k, e := range before {
			if a, ok := after[k]; !ok {
				fail("history-entry-lost-after-restart", fmt.Sprintf("the entry %q queryable before the shutdown is gone after the restart", k))
			} else if !proto.Equal(a, e) {
				fail("history-entry-changed-after-restart", fmt.Sprintf("the entry %q differs after the restart", k))
			}
		}
		sa, _ := l2.MarshalBinary()
		afterAll, _ := decodeN(sa)
		if canonN(afterAll) != canonN(beforeAll) {
			fail("history-state-differs-after-restart", fmt.Sprintf("%d entries before the shutdown, %d after the restart, or different content", len(beforeAll), len(afterAll)))
		}
		if fb, err := os.ReadFile(snapf); err == nil && len(fb) < 8000 {
			recs, _ := decodeN(fb)
			cc := Case{Kind: "codec", Store: storeNflog, Bytes: fb, RecsN: recs}
			codecCase(t, run, &cc)
		}
		return
	}
	// ---- silences ----
	s, err := silence.New(silence.Options{SnapshotFile: snapf, Retention: time.Hour, Metrics: prometheus.NewRegistry()})
	if err != nil {
		t.Fatal(err)
	}
	ctx := context.Background()
	var local []string
	for _, op := range c.Hist {
		run.Count("history_ops", target+"/"+op.Kind)
		now := time.Now()
		switch op.Kind {
		case "marshal":
			if _, err := s.MarshalBinary(); err != nil {
				t.Fatal(err)
			}
		case "merge_replace":
			// a newer version of an EXISTING silence arrives from a peer: expired there, or edited there
			q, _, err := s.Query(ctx)
			if err != nil || len(q) == 0 {
				continue
			}
			sort.Slice(q, func(i, j int) bool { return q[i].Id < q[j].Id })
			cur := q[op.Idx%len(q)]
			nv := proto.Clone(cur).(*spb.Silence)
			nv.UpdatedAt = timestamppb.New(maxTime(cur.UpdatedAt.AsTime(), now).Add(time.Second))
			if op.Idx%2 == 0 {
				nv.EndsAt = timestamppb.New(now) // expired on the other member
			} else {
				nv.Comment = "edited-elsewhere-" + op.Txt
				nv.EndsAt = timestamppb.New(now.Add(3 * time.Hour))
			}
			var buf bytes.Buffer
			if _, err := detMarshal.MarshalTo(&buf, &spb.MeshSilence{Silence: nv, ExpiresAt: timestamppb.New(now.Add(5 * time.Hour))}); err != nil {
				t.Fatal(err)
			}
			if err := s.Merge(buf.Bytes()); err != nil {
				fail("valid-gossip-message-refused", "Merge refuses a well-formed message: "+err.Error())
					continue
			}
		case "set_big":
			sil := &spb.Silence{MatcherSets: []*spb.MatcherSet{{Matchers: []*spb.Matcher{{Name: "job", Pattern: op.Txt}}}},
				StartsAt: timestamppb.New(now), EndsAt: timestamppb.New(now.Add(time.Hour)), Comment: "c-" + op.Txt, CreatedBy: "me"}
			if op.Idx%2 == 1 {
				for j := 0; j < op.Idx; j++ {
					sil.MatcherSets[0].Matchers = append(sil.MatcherSets[0].Matchers, &spb.Matcher{Type: spb.Matcher_REGEXP, Name: fmt.Sprintf("label_%03d", j), Pattern: "v.*"})
				}
			} else {
				sil.Comment = strings.Repeat("long comment ", op.Idx/13+1)
			}
			if err := s.Set(ctx, sil); err != nil {
				t.Fatalf("Set: %v", err)
			}
			local = append(local, sil.Id)
		case "set_far":
			// "silence forever": an end time at the upper end of the documented timestamp range; the stored expiry
			// (end + retention) lies beyond it
			end := time.Unix(maxTS, 0).Add(-time.Duration(op.Idx%50) * time.Minute)
			sil := &spb.Silence{MatcherSets: []*spb.MatcherSet{{Matchers: []*spb.Matcher{{Name: "job", Pattern: op.Txt}}}},
				StartsAt: timestamppb.New(now), EndsAt: timestamppb.New(end), Comment: "forever-" + op.Txt, CreatedBy: "me"}
			if err := s.Set(ctx, sil); err != nil {
				t.Fatalf("Set: %v", err)
			}
			local = append(local, sil.Id)
		case "set":
			sil := &spb.Silence{MatcherSets: []*spb.MatcherSet{{Matchers: []*spb.Matcher{{Name: "job", Pattern: op.Txt}}},
				{Matchers: []*spb.Matcher{{Type: spb.Matcher_REGEXP, Name: "a", Pattern: "b.*"}, {Name: "c", Pattern: "d"}}}},
				StartsAt: timestamppb.New(now), EndsAt: timestamppb.New(now.Add(time.Hour)), Comment: "c-" + op.Txt, CreatedBy: "me",
				Annotations: map[string]string{"k": op.Txt}}
			if err := s.Set(ctx, sil); err != nil {
				t.Fatalf("Set: %v", err)
			}
			local = append(local, sil.Id)
		case "update", "expire":
			if len(local) == 0 {
				continue
			}
			id := local[op.Idx%len(local)]
			if op.Kind == "expire" {
				_ = s.Expire(ctx, id) // already expired: an error, no change
				continue
			}
			cur, err := s.QueryOne(ctx, silence.QIDs(id))
			if err != nil {
				continue
			}
			upd := proto.Clone(cur).(*spb.Silence)
			upd.Comment = "updated-" + op.Txt
			upd.EndsAt = timestamppb.New(now.Add(2 * time.Hour))
			if err := s.Set(ctx, upd); err == nil && upd.Id != id {
				local = append(local, upd.Id)
			}
		case "merge", "merge_big":
			b := marshalS([]Sil{*op.S})
			if (op.Kind == "merge_big") != (len(b) > gossipHalf) {
				t.Fatalf("generator: %s message of %d bytes", op.Kind, len(b))
			}
			if err := s.Merge(b); err != nil {
				fail("valid-gossip-message-refused", "Merge refuses a well-formed message: "+err.Error())
					continue
			}
		case "gc":
			if _, err := s.GC(); err != nil {
				t.Fatal(err)
			}
		case "maint":
			maintShutdown(func(d time.Duration, f string, c <-chan struct{}) { s.Maintenance(d, f, c, nil) }, snapf)
		}
	}
	observe := func(x *silence.Silences) (map[string]string, string) {
		q, _, err := x.Query(ctx)
		if err != nil {
			t.Fatal(err)
		}
		byID := map[string]string{}
		for _, sil := range q {
			y := silOf(mesh(sil)).Upgraded()
			byID[sil.Id] = canonS([]Sil{y})
		}
		b, _ := x.MarshalBinary()
		all, _ := decodeS(b)
		for i := range all {
			all[i] = all[i].Upgraded()
		}
		return byID, canonS(all)
	}
	before, beforeAll := observe(s)
	maintShutdown(func(d time.Duration, f string, c <-chan struct{}) { s.Maintenance(d, f, c, nil) }, snapf)
	s2, err := silence.New(silence.Options{SnapshotFile: snapf, Retention: time.Hour, Metrics: prometheus.NewRegistry()})
	if err != nil {
		fail("own-snapshot-refused", "restart fails: "+err.Error())
		return
	}
	after, afterAll := observe(s2)
	ids := make([]string, 0, len(before))
	for id := range before {
		ids = append(ids, id)
	}
	sort.Strings(ids)
	for _, id := range ids {
		if a, ok := after[id]; !ok {
			fail("history-entry-lost-after-restart", "a silence queryable before the shutdown is gone after the restart")
		} else if a != before[id] {
			fail("history-entry-changed-after-restart", "a silence differs after the restart")
		}
	}
	if afterAll != beforeAll {
		fail("history-state-differs-after-restart", fmt.Sprintf("%d silences before the shutdown, %d after the restart, or different content", len(before), len(after)))
	}
	if fb, err := os.ReadFile(snapf); err == nil && len(fb) < 8000 {
		recs, _ := decodeS(fb)
		cc := Case{Kind: "codec", Store: storeSilence, Bytes: fb, RecsS: recs}
		codecCase(t, run, &cc)
	}
	_ = bytes.Equal
}
