//go:build verif

package c11

import (
	"bytes"
	"fmt"
	"math"
	"strings"
	"testing"
	"time"

	"github.com/prometheus/client_golang/prometheus"

	"github.com/prometheus/alertmanager/nflog"
	"github.com/prometheus/alertmanager/silence"

	"verifharness/vh"
)

// Record-size engine: one record whose ENCODED size is (close to) a given number of bytes, for sizes across the whole
// range below the 4 MiB framing limit - dense around 4096 / 8192 / 65536 (buffer sizes of readers) - in several
// shapes (hundreds of firing / resolved hashes, long group key, large receiver data; long comment, many matchers,
// many matcher sets, annotations). Round trip through the REAL code only: load -> Snapshot() -> load.
// Oracle: the store starts from the snapshot it wrote itself and holds the identical record.

func recordSizes(thorough bool) []int {
	var out []int
	add := func(xs ...int) { out = append(out, xs...) }
	add(1, 2, 60, 127, 128, 129, 300, 1000, 2048, 3000, 4000)
	for _, c := range []int{4096, 8192, 65536} {
		for d := -12; d <= 12; d++ {
			if thorough || d%3 == 0 || (d >= -2 && d <= 2) {
				add(c + d)
			}
		}
	}
	add(5000, 6000, 12000, 16383, 16384, 16385, 20000, 32767, 32768, 32769, 50000, 100000, 131072, 262144, 524289, 1<<20)
	if thorough {
		add(2<<20, 3<<20, 4<<20-64)
		for s := 4200; s < 70000; s += 1777 {
			add(s)
		}
	}
	return out
}

func bodyLenN(e NEntry) int {
	b, err := detMarshal.Marshal(e.PB())
	if err != nil {
		panic(err)
	}
	return len(b)
}
func bodyLenS(s Sil) int {
	b, err := detMarshal.Marshal(s.PB())
	if err != nil {
		panic(err)
	}
	return len(b)
}

// sizedNEntry: shape 0 = bulk in firing hashes, 1 = resolved hashes, 2 = group key, 3 = receiver data string.
func sizedNEntry(r *vh.Rand, size, shape int) NEntry {
	e := NEntry{HasEntry: true, HasRecv: true, GKey: []byte("{}:{a=\"b\"}"), Group: "team", Integ: "webhook", Idx: 1,
		TS: TS{Set: true, S: 1700000000, N: 5}, Exp: TS{Set: true, S: farFuture, N: 1}}
	if size < 60 {
		return NEntry{HasEntry: true, HasRecv: true, GKey: []byte("k"), Exp: TS{Set: true, S: farFuture}}
	}
	bulk := size - 80
	switch shape {
	case 0, 1:
		var hs []uint64
		for i := 0; i < bulk/10; i++ {
			hs = append(hs, math.MaxUint64-uint64(r.Intn(1<<30))) // 10-byte varints
		}
		if shape == 0 {
			e.Firing = hs
		} else {
			e.ResAl = hs
		}
	case 3:
		e.Data = []RD{{K: "threadTs", Kind: "str", S: strings.Repeat("d", max(bulk-20, 0))}}
	}
	// pad the group key to reach the size exactly
	for i := 0; i < 6; i++ {
		d := size - bodyLenN(e)
		if d == 0 {
			break
		}
		n := len(e.GKey) + d
		if n < 1 {
			n = 1
		}
		e.GKey = bytes.Repeat([]byte("g"), n)
	}
	return e
}

// sizedSil: shape 0 = long comment, 1 = many matchers in one set, 2 = many matcher sets, 3 = annotations.
func sizedSil(r *vh.Rand, size, shape int) Sil {
	s := Sil{HasSil: true, ID: "0f3c1a2b-0000-4000-8000-000000000001", Starts: TS{Set: true, S: 1700000000}, Ends: TS{Set: true, S: farFuture - 10},
		Updated: TS{Set: true, S: 1700000001, N: 7}, CreatedBy: "me", MSets: [][]Mt{{{Type: 0, Name: "a", Pattern: "b"}}}, Exp: TS{Set: true, S: farFuture}}
	if size < 120 {
		return s
	}
	bulk := size - 150
	switch shape {
	case 1:
		for i := 0; i < bulk/2/24; i++ { // the first set is written twice (legacy copy)
			s.MSets[0] = append(s.MSets[0], Mt{Type: int32(i % 4), Name: fmt.Sprintf("label_%04d", i), Pattern: "v.*"})
		}
	case 2:
		for i := 0; i < bulk/26; i++ {
			s.MSets = append(s.MSets, []Mt{{Type: 1, Name: fmt.Sprintf("label_%04d", i), Pattern: "v.*"}})
		}
	case 3:
		for i := 0; i < bulk/40; i++ {
			s.Ann = append(s.Ann, [2]string{fmt.Sprintf("key-%06d", i), "annotation value 0123"})
		}
	}
	s.Matchers = s.MSets[0] // as Snapshot writes it
	for i := 0; i < 6; i++ {
		d := size - bodyLenS(s)
		if d == 0 {
			break
		}
		n := len(s.Comment) + d
		if n < 0 {
			n = 0
		}
		s.Comment = strings.Repeat("c", n)
	}
	return s
}

func sizeCase(t *testing.T, run *vh.Run, c *Case, coq bool) {
	target := storeName(c.Store)
	var in []byte
	var want string
	if c.Store == storeNflog {
		in, want = marshalN(c.RecsN), canonN(c.RecsN)
	} else {
		in = marshalS(c.RecsS)
		up := make([]Sil, len(c.RecsS))
		for i, s := range c.RecsS {
			up[i] = s.Upgraded()
		}
		want = canonS(up)
	}
	body := bodyOf(in)
	bucket := "<=4096"
	switch {
	case body > 1<<20:
		bucket = ">1MiB"
	case body > 65536:
		bucket = "65537..1MiB"
	case body > 8192:
		bucket = "8193..65536"
	case body > 4096:
		bucket = "4097..8192"
	}
	run.Count("record_size_bucket", target+"/"+bucket)
	fail := func(key, what string) {
		run.Violate(key, fmt.Sprintf("%s, one record of %d encoded bytes: %s", target, body, what), c)
	}
	var snap bytes.Buffer
	if c.Store == storeNflog {
		l, err := nflog.New(nflog.Options{SnapshotReader: bytes.NewReader(in), Retention: time.Hour, Metrics: prometheus.NewRegistry()})
		if err != nil {
			fail("own-snapshot-refused", "a snapshot holding the record (reference encoding) is refused: "+err.Error())
			return
		}
		if _, err := l.Snapshot(&snap); err != nil {
			fail("snapshot-fails", err.Error())
			return
		}
	} else {
		s, err := silence.New(silence.Options{SnapshotReader: bytes.NewReader(in), Retention: time.Hour, Metrics: prometheus.NewRegistry()})
		if err != nil {
			fail("own-snapshot-refused", "a snapshot holding the record (reference encoding) is refused: "+err.Error())
			return
		}
		if _, err := s.Snapshot(&snap); err != nil {
			fail("snapshot-fails", err.Error())
			return
		}
	}
	got, _, _, err := loadBytes(c.Store, snap.Bytes())
	switch {
	case err != nil:
		fail("own-snapshot-refused", "the store refuses the snapshot it wrote itself: "+err.Error())
	case got != want:
		fail("snapshot-not-lossless", "the record differs after Snapshot + load")
	}
	if coq {
		cc := Case{Kind: "codec", Store: c.Store, Bytes: snap.Bytes(), RecsN: c.RecsN}
		if c.Store == storeSilence {
			cc.RecsS, _ = decodeS(snap.Bytes())
		}
		codecCase(t, run, &cc)
	}
}

// bodyOf: length of the first record's body (without its length prefix).
func bodyOf(b []byte) int {
	n := 0
	shift := uint(0)
	for i := 0; i < len(b) && i < 10; i++ {
		n |= int(b[i]&0x7f) << shift
		if b[i] < 0x80 {
			return n
		}
		shift += 7
	}
	return len(b)
}

func sizesAll(t *testing.T, run *vh.Run, r *vh.Rand, env vh.Env) {
	thorough := env.Tier == "thorough"
	for i, size := range recordSizes(thorough) {
		for _, st := range []int{storeNflog, storeSilence} {
			shape := (i + int(env.Seed)) % 4
			c := Case{Kind: "size", Store: st}
			if st == storeNflog {
				c.RecsN = []NEntry{sizedNEntry(r, size, shape)}
			} else {
				c.RecsS = []Sil{sizedSil(r, size, shape)}
			}
			// the model evaluates the small ones and one on each side of the reader-buffer boundaries
			coq := size <= 1000 || size == 4095 || size == 4097 || size == 8193 // larger records: Go-side oracle only
			sizeCase(t, run, &c, coq)
		}
	}
}
