//go:build verif

package c11

import (
	"bytes"
	"context"
	"fmt"
	"strings"
	"time"

	"github.com/prometheus/client_golang/prometheus"
	"google.golang.org/protobuf/types/known/timestamppb"

	"github.com/prometheus/alertmanager/nflog"
	npb "github.com/prometheus/alertmanager/nflog/nflogpb"
	"github.com/prometheus/alertmanager/silence"
	spb "github.com/prometheus/alertmanager/silence/silencepb"

	"verifharness/vh"
)

// oversizeCase: direct oracle for "never refuses to start because of a file it wrote itself" on one record whose
// encoding exceeds protodelim's default MaxSize (4 MiB): a silence with a 5 MiB comment accepted by the public Set
// (there is no size limit by default), resp. one notification-log entry with 600k firing alerts. The model refuses
// the same file (theorem c11_lossless_refuted_oversize); no Coq case is emitted (a 5 MB literal proves nothing more).
func oversizeCase(run *vh.Run, c *Case) {
	var buf bytes.Buffer
	var err error
	what := ""
	if c.Store == storeSilence {
		s, e := silence.New(silence.Options{Retention: time.Hour, Metrics: prometheus.NewRegistry()})
		if e != nil {
			panic(e)
		}
		now := time.Now()
		sil := &spb.Silence{MatcherSets: []*spb.MatcherSet{{Matchers: []*spb.Matcher{{Name: "a", Pattern: "b"}}}},
			StartsAt: timestamppb.New(now), EndsAt: timestamppb.New(now.Add(time.Hour)), Comment: strings.Repeat("x", 5<<20)}
		if e := s.Set(context.Background(), sil); e != nil {
			run.Count("oversize", "silence-rejected-by-Set")
			return
		}
		if _, e := s.Snapshot(&buf); e != nil {
			panic(e)
		}
		_, err = silence.New(silence.Options{SnapshotReader: &buf, Retention: time.Hour, Metrics: prometheus.NewRegistry()})
		what = "silences: a silence with a 5 MiB comment is accepted by Set and written by Snapshot, but silence.New refuses the snapshot"
	} else {
		l, e := nflog.New(nflog.Options{Retention: time.Hour, Metrics: prometheus.NewRegistry()})
		if e != nil {
			panic(e)
		}
		firing := make([]uint64, 600000)
		for i := range firing {
			firing[i] = ^uint64(0) - uint64(i)
		}
		if e := l.Log(&npb.Receiver{GroupName: "g", Integration: "i"}, "k", firing, nil, nil, 0); e != nil {
			panic(e)
		}
		if _, e := l.Snapshot(&buf); e != nil {
			panic(e)
		}
		_, err = nflog.New(nflog.Options{SnapshotReader: &buf, Retention: time.Hour, Metrics: prometheus.NewRegistry()})
		what = "nflog: an entry with 600k firing alerts is written by Snapshot, but nflog.New refuses the snapshot"
	}
	if err != nil {
		run.Count("oversize", storeName(c.Store)+"/refused")
		run.Violate("own-snapshot-refused-record-over-4MiB", fmt.Sprintf("%s: %v", what, err), Case{Kind: "oversize", Store: c.Store})
	} else {
		run.Count("oversize", storeName(c.Store)+"/loaded")
	}
}
