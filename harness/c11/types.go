//go:build verif

// Package c11: correspondence + direct oracle for C11 (crash-safe, lossless snapshots of nflog and silences).
package c11

import (
	"bytes"
	"encoding/json"
	"errors"
	"fmt"
	"io"
	"math"
	"sort"
	"strings"
	"time"

	"google.golang.org/protobuf/encoding/protodelim"
	"google.golang.org/protobuf/proto"
	"google.golang.org/protobuf/types/known/timestamppb"

	npb "github.com/prometheus/alertmanager/nflog/nflogpb"
	spb "github.com/prometheus/alertmanager/silence/silencepb"

	"verifharness/vh"
)

// ---------- abstract (JSON-able) record shapes: exactly the fields of the .proto files ----------

type TS struct {
	Set bool  `json:"set"`
	S   int64 `json:"s,omitempty"`
	N   int32 `json:"n,omitempty"`
}

type RD struct {
	K    string `json:"k"`
	Kind string `json:"kind"` // none|str|int|dbl
	S    string `json:"s,omitempty"`
	I    int64  `json:"i,omitempty"`
	F    uint64 `json:"f,omitempty"` // float64 bits
}

type NEntry struct {
	HasEntry bool     `json:"has_entry"`
	GKey     []byte   `json:"gkey,omitempty"`
	HasRecv  bool     `json:"has_recv"`
	Group    string   `json:"group,omitempty"`
	Integ    string   `json:"integ,omitempty"`
	Idx      uint32   `json:"idx,omitempty"`
	GHash    []byte   `json:"ghash,omitempty"`
	Resolved bool     `json:"resolved,omitempty"`
	TS       TS       `json:"ts"`
	Firing   []uint64 `json:"firing,omitempty"`
	ResAl    []uint64 `json:"resal,omitempty"`
	Data     []RD     `json:"data,omitempty"` // sorted by key
	Exp      TS       `json:"exp"`
}

type Mt struct {
	Type    int32  `json:"t"`
	Name    string `json:"n"`
	Pattern string `json:"p"`
}

type Cm struct {
	Author  string `json:"a"`
	Comment string `json:"c"`
	TS      TS     `json:"ts"`
}

type Sil struct {
	HasSil    bool        `json:"has_sil"`
	ID        string      `json:"id,omitempty"`
	Matchers  []Mt        `json:"matchers,omitempty"` // legacy field 2
	Starts    TS          `json:"starts"`
	Ends      TS          `json:"ends"`
	Updated   TS          `json:"updated"`
	Comments  []Cm        `json:"comments,omitempty"`
	CreatedBy string      `json:"created_by,omitempty"`
	Comment   string      `json:"comment,omitempty"`
	Ann       [][2]string `json:"ann,omitempty"` // sorted by key
	MSets     [][]Mt      `json:"msets,omitempty"`
	RMSets    [][]Mt      `json:"rmsets,omitempty"`
	Exp       TS          `json:"exp"`
}

func tsPB(t TS) *timestamppb.Timestamp {
	if !t.Set {
		return nil
	}
	return &timestamppb.Timestamp{Seconds: t.S, Nanos: t.N}
}
func tsOf(t *timestamppb.Timestamp) TS {
	if t == nil {
		return TS{}
	}
	return TS{Set: true, S: t.Seconds, N: t.Nanos}
}

func (e NEntry) PB() *npb.MeshEntry {
	m := &npb.MeshEntry{ExpiresAt: tsPB(e.Exp)}
	if !e.HasEntry {
		return m
	}
	m.Entry = &npb.Entry{GroupKey: e.GKey, GroupHash: e.GHash, Resolved: e.Resolved, Timestamp: tsPB(e.TS),
		FiringAlerts: e.Firing, ResolvedAlerts: e.ResAl}
	if e.HasRecv {
		m.Entry.Receiver = &npb.Receiver{GroupName: e.Group, Integration: e.Integ, Idx: e.Idx}
	}
	if len(e.Data) > 0 {
		m.Entry.ReceiverData = map[string]*npb.ReceiverDataValue{}
		for _, d := range e.Data {
			v := &npb.ReceiverDataValue{}
			switch d.Kind {
			case "str":
				v.Value = &npb.ReceiverDataValue_StrVal{StrVal: d.S}
			case "int":
				v.Value = &npb.ReceiverDataValue_IntVal{IntVal: d.I}
			case "dbl":
				v.Value = &npb.ReceiverDataValue_DoubleVal{DoubleVal: math.Float64frombits(d.F)}
			}
			m.Entry.ReceiverData[d.K] = v
		}
	}
	return m
}

func nentryOf(m *npb.MeshEntry) NEntry {
	e := NEntry{Exp: tsOf(m.ExpiresAt)}
	if m.Entry == nil {
		return e
	}
	x := m.Entry
	e.HasEntry = true
	e.GKey, e.GHash, e.Resolved, e.TS = x.GroupKey, x.GroupHash, x.Resolved, tsOf(x.Timestamp)
	e.Firing, e.ResAl = x.FiringAlerts, x.ResolvedAlerts
	if x.Receiver != nil {
		e.HasRecv, e.Group, e.Integ, e.Idx = true, x.Receiver.GroupName, x.Receiver.Integration, x.Receiver.Idx
	}
	for _, k := range vh.SortedKeys(x.ReceiverData) {
		d := RD{K: k, Kind: "none"}
		if v := x.ReceiverData[k]; v != nil {
			switch y := v.Value.(type) {
			case *npb.ReceiverDataValue_StrVal:
				d.Kind, d.S = "str", y.StrVal
			case *npb.ReceiverDataValue_IntVal:
				d.Kind, d.I = "int", y.IntVal
			case *npb.ReceiverDataValue_DoubleVal:
				d.Kind, d.F = "dbl", math.Float64bits(y.DoubleVal)
			}
		}
		e.Data = append(e.Data, d)
	}
	return e
}

func mtsPB(ms []Mt) []*spb.Matcher {
	var out []*spb.Matcher
	for _, m := range ms {
		out = append(out, &spb.Matcher{Type: spb.Matcher_Type(m.Type), Name: m.Name, Pattern: m.Pattern})
	}
	return out
}
func mtsOf(ms []*spb.Matcher) []Mt {
	var out []Mt
	for _, m := range ms {
		if m == nil {
			m = &spb.Matcher{}
		}
		out = append(out, Mt{Type: int32(m.Type), Name: m.Name, Pattern: m.Pattern})
	}
	return out
}
func msetsPB(sets [][]Mt) []*spb.MatcherSet {
	var out []*spb.MatcherSet
	for _, s := range sets {
		out = append(out, &spb.MatcherSet{Matchers: mtsPB(s)})
	}
	return out
}
func msetsOf(sets []*spb.MatcherSet) [][]Mt {
	var out [][]Mt
	for _, s := range sets {
		if s == nil {
			s = &spb.MatcherSet{}
		}
		out = append(out, mtsOf(s.Matchers))
	}
	return out
}

func (s Sil) PB() *spb.MeshSilence {
	m := &spb.MeshSilence{ExpiresAt: tsPB(s.Exp)}
	if !s.HasSil {
		return m
	}
	x := &spb.Silence{Id: s.ID, Matchers: mtsPB(s.Matchers), StartsAt: tsPB(s.Starts), EndsAt: tsPB(s.Ends),
		UpdatedAt: tsPB(s.Updated), CreatedBy: s.CreatedBy, Comment: s.Comment, MatcherSets: msetsPB(s.MSets),
		ReceiverMatcherSets: msetsPB(s.RMSets)}
	for _, c := range s.Comments {
		x.Comments = append(x.Comments, &spb.Comment{Author: c.Author, Comment: c.Comment, Timestamp: tsPB(c.TS)})
	}
	if len(s.Ann) > 0 {
		x.Annotations = map[string]string{}
		for _, kv := range s.Ann {
			x.Annotations[kv[0]] = kv[1]
		}
	}
	m.Silence = x
	return m
}

func silOf(m *spb.MeshSilence) Sil {
	s := Sil{Exp: tsOf(m.ExpiresAt)}
	if m.Silence == nil {
		return s
	}
	x := m.Silence
	s.HasSil = true
	s.ID, s.Matchers, s.Starts, s.Ends, s.Updated = x.Id, mtsOf(x.Matchers), tsOf(x.StartsAt), tsOf(x.EndsAt), tsOf(x.UpdatedAt)
	s.CreatedBy, s.Comment, s.MSets, s.RMSets = x.CreatedBy, x.Comment, msetsOf(x.MatcherSets), msetsOf(x.ReceiverMatcherSets)
	for _, c := range x.Comments {
		if c == nil {
			c = &spb.Comment{}
		}
		s.Comments = append(s.Comments, Cm{Author: c.Author, Comment: c.Comment, TS: tsOf(c.Timestamp)})
	}
	for _, k := range vh.SortedKeys(x.Annotations) {
		s.Ann = append(s.Ann, [2]string{k, x.Annotations[k]})
	}
	return s
}

// loaded(s): what silence.decodeState + loadSnapshot make of a record (the documented upgrades), written
// independently of the code: legacy matcher list -> one matcher set when there are no sets; legacy list dropped;
// first entry of the old comments list -> comment/created_by, list dropped.
func (s Sil) Upgraded() Sil {
	if !s.HasSil {
		return s
	}
	if len(s.MSets) == 0 && len(s.Matchers) > 0 {
		s.MSets = [][]Mt{s.Matchers}
	}
	s.Matchers = nil
	if len(s.Comments) > 0 {
		s.Comment, s.CreatedBy = s.Comments[0].Comment, s.Comments[0].Author
		s.Comments = nil
	}
	return s
}

// ---------- store-independent views ----------

const (
	storeNflog   = 0
	storeSilence = 1
)

func storeName(st int) string {
	if st == storeSilence {
		return "silences"
	}
	return "nflog"
}

// canonical content of a store: sorted canonical JSON of its records (receiver data / annotations already sorted)
func canonN(es []NEntry) string {
	var xs []string
	for _, e := range es {
		b, _ := json.Marshal(e)
		xs = append(xs, string(b))
	}
	sort.Strings(xs)
	return strings.Join(xs, "\n")
}
func canonS(ss []Sil) string {
	var xs []string
	for _, s := range ss {
		b, _ := json.Marshal(s)
		xs = append(xs, string(b))
	}
	sort.Strings(xs)
	return strings.Join(xs, "\n")
}

// decodeN / decodeS: the reference decoder (protodelim + protobuf-go), record order preserved.
func decodeN(b []byte) ([]NEntry, error) {
	br := bytes.NewReader(b)
	var out []NEntry
	for {
		var e npb.MeshEntry
		err := protodelim.UnmarshalFrom(br, &e)
		if err == nil {
			out = append(out, nentryOf(&e))
			continue
		}
		if errors.Is(err, io.EOF) {
			return out, nil
		}
		return out, err
	}
}
func decodeS(b []byte) ([]Sil, error) {
	br := bytes.NewReader(b)
	var out []Sil
	for {
		var e spb.MeshSilence
		err := protodelim.UnmarshalFrom(br, &e)
		if err == nil {
			out = append(out, silOf(&e))
			continue
		}
		if errors.Is(err, io.EOF) {
			return out, nil
		}
		return out, err
	}
}

var detMarshal = protodelim.MarshalOptions{MarshalOptions: proto.MarshalOptions{Deterministic: true}}

func marshalN(es []NEntry) []byte {
	var buf bytes.Buffer
	for _, e := range es {
		if _, err := detMarshal.MarshalTo(&buf, e.PB()); err != nil {
			panic(err)
		}
	}
	return buf.Bytes()
}
func marshalS(ss []Sil) []byte {
	var buf bytes.Buffer
	for _, s := range ss {
		if _, err := detMarshal.MarshalTo(&buf, s.PB()); err != nil {
			panic(err)
		}
	}
	return buf.Bytes()
}

// ---------- generators ----------

var (
	strPool   = []string{"", "a", "team-a", "webhook", "é\"x", "日本", "x/y:z", "long-" + strings.Repeat("k", 140)}
	namePool  = []string{"alertname", "job", "severity", "instance", "ünï"}
	valPool   = []string{"", "a", "b.*", "node-[0-9]+", "x\ny", "ü"}
	u64Pool   = []uint64{0, 1, 127, 128, 300, 1 << 32, math.MaxUint64, 0xcbf29ce484222325}
	farFuture = time.Date(2100, 1, 1, 0, 0, 0, 0, time.UTC).Unix()
)

// the range google.protobuf.Timestamp documents as valid: 0001-01-01T00:00:00Z .. 9999-12-31T23:59:59.999999999Z.
// Go's time and the stores work beyond it (ExpiresAt = EndsAt + retention is computed unchecked), so the generators
// include the boundaries and values past them.
const (
	maxTS = 253402300799
	minTS = -62135596800
)

func genTS(r *vh.Rand, future bool) TS {
	if future {
		if r.Chance(1, 5) {
			return TS{Set: true, S: maxTS + vh.Pick(r, []int64{-3600, 0, 1, 432000}), N: vh.Pick(r, []int32{0, 999999999})}
		}
		return TS{Set: true, S: farFuture + int64(r.Intn(1000000)), N: int32(r.Intn(1000000000))}
	}
	switch r.Intn(9) {
	case 8:
		return TS{Set: true, S: vh.Pick(r, []int64{maxTS, maxTS + 1, minTS, minTS - 1, maxTS + 432000}), N: vh.Pick(r, []int32{0, 999999999})}
	case 0:
		return TS{Set: true} // present but zero: an empty submessage
	case 1:
		return TS{Set: true, S: -1, N: 999999999}
	case 2:
		return TS{Set: true, S: 1700000000}
	default:
		return TS{Set: true, S: 1700000000 + int64(r.Intn(100000000)), N: int32(r.Intn(1000000000))}
	}
}

func genU64s(r *vh.Rand, max int) []uint64 {
	n := r.Intn(max + 1)
	var out []uint64
	for i := 0; i < n; i++ {
		if r.Bool() {
			out = append(out, vh.Pick(r, u64Pool))
		} else {
			out = append(out, r.U64()>>uint(r.Intn(64)))
		}
	}
	return out
}

func genData(r *vh.Rand) []RD {
	n := vh.Pick(r, []int{0, 0, 1, 2, 3})
	seen := map[string]bool{}
	var out []RD
	for i := 0; i < n; i++ {
		k := vh.Pick(r, []string{"threadTs", "count", "ratio", "", "ключ"})
		if seen[k] {
			continue
		}
		seen[k] = true
		switch r.Intn(7) {
		case 0:
			out = append(out, RD{K: k, Kind: "none"})
		case 1, 2:
			out = append(out, RD{K: k, Kind: "str", S: vh.Pick(r, strPool)})
		case 3, 4:
			out = append(out, RD{K: k, Kind: "int", I: vh.Pick(r, []int64{0, -1, 42, math.MaxInt64, math.MinInt64, 1 << 40})})
		default:
			out = append(out, RD{K: k, Kind: "dbl", F: math.Float64bits(vh.Pick(r, []float64{0, -0.5, 1e300, math.Inf(1), 1700000000.123}))})
		}
	}
	sort.Slice(out, func(i, j int) bool { return out[i].K < out[j].K })
	return out
}

// genNEntry: i makes the key unique. live = must survive GC and load (valid receiver, expiry in the future).
func genNEntry(r *vh.Rand, i int, live bool) NEntry {
	e := NEntry{HasEntry: true, HasRecv: true}
	e.GKey = []byte(fmt.Sprintf("{}/{job=\"j%d\"}:{alertname=\"a%d\"}", i%7, i))
	if r.Chance(1, 10) {
		e.GKey = append(e.GKey, 0xff, 0x00, 0x80) // bytes field: not UTF-8
	}
	e.Group, e.Integ = vh.Pick(r, strPool), vh.Pick(r, []string{"webhook", "email", "slack", ""})
	e.Idx = vh.Pick(r, []uint32{0, 0, 1, 2, 200, math.MaxUint32})
	if r.Chance(1, 6) {
		e.GHash = []byte{1, 2, 3, 0xfe}
	}
	e.Resolved = r.Chance(1, 6)
	e.TS = genTS(r, false)
	e.Firing = genU64s(r, 4)
	e.ResAl = genU64s(r, 3)
	if r.Chance(1, 25) {
		e.Firing = genU64s(r, 200)
	}
	e.Data = genData(r)
	e.Exp = genTS(r, live)
	if !live {
		switch r.Intn(12) {
		case 0:
			e.Exp = TS{}
		case 1:
			e.TS = TS{}
		}
	}
	return e
}

func genMt(r *vh.Rand) Mt {
	return Mt{Type: vh.Pick(r, []int32{0, 0, 1, 2, 3}), Name: vh.Pick(r, namePool), Pattern: vh.Pick(r, valPool)}
}
func genMts(r *vh.Rand, min int) []Mt {
	n := min + r.Intn(3)
	var out []Mt
	for i := 0; i < n; i++ {
		out = append(out, genMt(r))
	}
	return out
}

// genSil: format = "new" (matcher sets; what this version keeps in memory), "legacy" (single matcher list and
// possibly the old comments list: a file written by an old version), "wire" (what this version writes: both).
func genSil(r *vh.Rand, i int, format string, live bool) Sil {
	s := Sil{HasSil: true, ID: fmt.Sprintf("%08x-0000-4000-8000-%012x", r.U64()&0xffffffff, i)}
	s.Starts, s.Ends, s.Updated = genTS(r, false), genTS(r, false), genTS(r, false)
	s.CreatedBy, s.Comment = vh.Pick(r, strPool), vh.Pick(r, strPool)
	if r.Chance(1, 3) {
		n := 1 + r.Intn(3)
		seen := map[string]bool{}
		for j := 0; j < n; j++ {
			k := vh.Pick(r, []string{"ticket", "owner", "", "注"})
			if !seen[k] {
				seen[k] = true
				s.Ann = append(s.Ann, [2]string{k, vh.Pick(r, strPool)})
			}
		}
		sort.Slice(s.Ann, func(a, b int) bool { return s.Ann[a][0] < s.Ann[b][0] })
	}
	switch format {
	case "legacy":
		s.Matchers = genMts(r, 1)
		if r.Chance(1, 2) {
			s.Comments = []Cm{{Author: vh.Pick(r, strPool), Comment: vh.Pick(r, strPool), TS: genTS(r, false)}}
			if r.Bool() {
				s.Comments = append(s.Comments, Cm{Author: "second", Comment: "ignored"})
			}
		}
	default:
		ns := 1 + r.Intn(3)
		for j := 0; j < ns; j++ {
			s.MSets = append(s.MSets, genMts(r, 1))
		}
		if r.Chance(1, 4) {
			s.RMSets = append(s.RMSets, genMts(r, 1))
		}
		if format == "wire" {
			s.Matchers = s.MSets[0]
		}
	}
	s.Exp = genTS(r, live)
	return s
}
