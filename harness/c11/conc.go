//go:build verif

package c11

import (
	"bytes"
	"fmt"
	"runtime"
	"sync"
	"testing"
	"time"

	"github.com/prometheus/client_golang/prometheus"

	"github.com/prometheus/alertmanager/nflog"
	"github.com/prometheus/alertmanager/silence"

	"verifharness/vh"
)

// Concurrent engine: Snapshot(w) - the maintenance goroutine - writes into a SLOW writer that takes the first half
// of the bytes, then blocks; while it is blocked other goroutines call MarshalBinary() - the cluster delegate does
// that on every push/pull - then the writer takes the rest. The store content does not change meanwhile.
// Oracle: the bytes the writer received decode to exactly the store's state (this is the file that gets synced and
// renamed), and every MarshalBinary result decodes to exactly the state as well.
// Run with GOMAXPROCS(1) (every goroutine on one P: a per-P cache such as sync.Pool hands the same object to the next
// caller) and with the default setting.

type slowWriter struct {
	got     []byte
	midway  chan struct{} // closed when the first half has been taken
	release chan struct{} // closed to let the writer take the rest
	once    sync.Once
}

func (w *slowWriter) Write(p []byte) (int, error) {
	half := len(p) / 2
	w.got = append(w.got, p[:half]...)
	w.once.Do(func() { close(w.midway) })
	<-w.release
	w.got = append(w.got, p[half:]...) // read from the caller's buffer only now
	return len(p), nil
}

func concCase(t *testing.T, run *vh.Run, c *Case) {
	target := storeName(c.Store)
	if c.Procs > 0 {
		old := runtime.GOMAXPROCS(c.Procs)
		defer runtime.GOMAXPROCS(old)
	}
	var snapshot func(w *slowWriter) error
	var marshal func() ([]byte, error)
	var want string
	if c.Store == storeNflog {
		l, err := nflog.New(nflog.Options{SnapshotReader: bytes.NewReader(marshalN(c.RecsN)), Retention: time.Hour, Metrics: prometheus.NewRegistry()})
		if err != nil {
			run.Violate("own-snapshot-refused", "nflog: a snapshot of well-formed records (reference encoding) is refused: "+err.Error(), c)
			return
		}
		snapshot = func(w *slowWriter) error { _, err := l.Snapshot(w); return err }
		marshal = l.MarshalBinary
		want = canonN(c.RecsN)
	} else {
		s, err := silence.New(silence.Options{SnapshotReader: bytes.NewReader(marshalS(c.RecsS)), Retention: time.Hour, Metrics: prometheus.NewRegistry()})
		if err != nil {
			run.Violate("own-snapshot-refused", "silences: a snapshot of well-formed records (reference encoding) is refused: "+err.Error(), c)
			return
		}
		snapshot = func(w *slowWriter) error { _, err := s.Snapshot(w); return err }
		marshal = s.MarshalBinary
		up := make([]Sil, len(c.RecsS))
		for i, x := range c.RecsS {
			up[i] = x.Upgraded()
		}
		want = canonS(up)
	}
	decodeCanon := func(b []byte) (string, error) {
		if c.Store == storeNflog {
			es, err := decodeN(b)
			return canonN(es), err
		}
		ss, err := decodeS(b)
		for i := range ss {
			ss[i] = ss[i].Upgraded()
		}
		return canonS(ss), err
	}
	fail := func(key, what string) {
		run.Violate(key, fmt.Sprintf("%s, %d records, GOMAXPROCS=%d: %s", target, len(c.RecsN)+len(c.RecsS), runtime.GOMAXPROCS(0), what), c)
	}
	w := &slowWriter{midway: make(chan struct{}), release: make(chan struct{})}
	snapDone := make(chan error, 1)
	go func() { snapDone <- snapshot(w) }()
	select {
	case <-w.midway:
	case err := <-snapDone: // an empty store writes nothing
		if err != nil {
			t.Fatal(err)
		}
		close(w.release)
		return
	}
	// the snapshot write is in progress: pushes / pulls serialise the state
	const callers, rounds = 3, 4
	results := make(chan []byte, callers*rounds)
	var wg sync.WaitGroup
	for g := 0; g < callers; g++ {
		wg.Add(1)
		go func() {
			defer wg.Done()
			for i := 0; i < rounds; i++ {
				b, err := marshal()
				if err != nil {
					return
				}
				results <- append([]byte(nil), b...)
				runtime.Gosched()
			}
		}()
	}
	marshalDone := make(chan struct{})
	go func() { wg.Wait(); close(marshalDone) }()
	select { // nflog.MarshalBinary takes the write lock and waits for the snapshot: do not wait for it
	case <-marshalDone:
	case <-time.After(30 * time.Millisecond):
		run.Count("conc_marshal_waits_for_snapshot", target)
	}
	close(w.release)
	if err := <-snapDone; err != nil {
		t.Fatal(err)
	}
	<-marshalDone
	close(results)
	run.Count("conc_rounds", fmt.Sprintf("%s/procs=%d", target, c.Procs))
	outcome := "snapshot-bytes-ok"
	if got, err := decodeCanon(w.got); err != nil || got != want {
		outcome = "snapshot-bytes-TORN"
	}
	run.Count("conc_outcome", fmt.Sprintf("%s/procs=%d/%s", target, c.Procs, outcome))
	if got, err := decodeCanon(w.got); err != nil {
		fail("snapshot-torn-by-concurrent-marshal", fmt.Sprintf("the %d bytes Snapshot handed to its writer while MarshalBinary ran concurrently do not decode: %v", len(w.got), err))
	} else if got != want {
		fail("snapshot-torn-by-concurrent-marshal", "the bytes Snapshot handed to its writer while MarshalBinary ran concurrently decode to a different state (records missing / duplicated)")
	}
	for b := range results {
		if got, err := decodeCanon(b); err != nil || got != want {
			fail("marshal-torn-by-concurrent-marshal", fmt.Sprintf("a MarshalBinary result obtained concurrently does not decode to the store's state (err=%v)", err))
			break
		}
	}
}

func concAll(t *testing.T, run *vh.Run, r *vh.Rand, env vh.Env) {
	rounds := env.N(6, 5)
	for i := 0; i < rounds; i++ {
		for _, st := range []int{storeNflog, storeSilence} {
			c := Case{Kind: "conc", Store: st, Procs: 1}
			if i%3 == 2 {
				c.Procs = 0 // default GOMAXPROCS
			}
			n := 6 + r.Intn(6)
			for j := 0; j < n; j++ {
				if st == storeNflog {
					c.RecsN = append(c.RecsN, genNEntry(r, j, true))
				} else {
					c.RecsS = append(c.RecsS, genSil(r, j, "new", true))
				}
			}
			concCase(t, run, &c)
		}
	}
}
