//go:build verif

package c11

import (
	"fmt"
	"os"
	"path/filepath"
	"strings"
	"syscall"
	"testing"

	"verifharness/vh"
)

// Bare-name engine: the snapshot path is the BARE file name ("silences" / "nflog": what app.go's
// filepath.Join(DataDir, name) yields for --storage.path=. or ./), the process runs with the data directory as its
// working directory, and $TMPDIR points to another directory - on another file system when /dev/shm is available.
// Same strace / crash-image machinery as the other snapshot-protocol runs, plus the clause "the replacement file is
// written next to the target": the temp file is created in the target's directory, nothing appears under $TMPDIR,
// the snapshot succeeds and reloads.

func otherFsDir(t *testing.T, dataDir string) (dir string, otherFs bool) {
	var a, b syscall.Stat_t
	if err := syscall.Stat("/dev/shm", &a); err == nil && syscall.Stat(dataDir, &b) == nil && a.Dev != b.Dev {
		if d, err := os.MkdirTemp("/dev/shm", "c11-tmpdir-"); err == nil {
			t.Cleanup(func() { os.RemoveAll(d) })
			return d, true
		}
	}
	return t.TempDir(), false
}

func bareCase(t *testing.T, run *vh.Run, r *vh.Rand, c *Case) {
	store := c.Store
	target := storeName(store)
	dir := t.TempDir()
	tmpdir, otherFs := otherFsDir(t, dir)
	run.Count("bare_name_runs", fmt.Sprintf("%s/TMPDIR-on-other-file-system=%v", target, otherFs))
	straceCwd, straceTmpDir = dir, tmpdir
	defer func() { straceCwd, straceTmpDir = "", "" }()
	var old []byte
	oldPresent := false
	oldCanon := ""
	var curN []NEntry
	var curS []Sil
	for si, st := range c.Steps {
		var delta []byte
		if store == storeNflog {
			delta = marshalN(st.DeltaN)
			curN = append(curN, st.DeltaN...)
		} else {
			delta = marshalS(st.DeltaS)
			for _, s := range st.DeltaS {
				curS = append(curS, s.Upgraded())
			}
		}
		expect := canonN(curN)
		if store == storeSilence {
			expect = canonS(curS)
		}
		one := Case{Kind: "bare", Store: store, Steps: c.Steps[:si+1]}
		fail := func(key, what string) {
			run.Violate(key, fmt.Sprintf("%s, snapshot path = bare file name %q, cwd = data directory, TMPDIR=%s (other file system: %v): %s", target, target, tmpdir, otherFs, what), one)
		}
		res, err := driverRun(t, store, dir, t.TempDir(), delta, false)
		if err != nil {
			fail("own-snapshot-refused", "the store does not start / run: "+err.Error())
			return
		}
		if res.stateCanon != expect {
			fail("restart-state-not-old-plus-new", "after the restart the in-memory state is not the old snapshot plus the merged records (the previous snapshot was not written or not loaded)")
		}
		// the replacement file is written next to the target
		for _, o := range res.ops {
			if (o.Kind == "create" || o.Kind == "open") && strings.HasPrefix(o.A, "$TMPDIR/") {
				fail("temp-file-outside-target-directory", fmt.Sprintf("the temporary snapshot file is created in $TMPDIR (%s), not next to the target (flags %s): the final rename leaves the directory and fails across file systems", res.real[o.A], o.Flags))
				break
			}
		}
		if left, _ := os.ReadDir(tmpdir); len(left) > 0 {
			fail("temp-file-outside-target-directory", fmt.Sprintf("%d file(s) left under $TMPDIR after the snapshot, e.g. %s", len(left), left[0].Name()))
		}
		if res.ferr != nil {
			fail("snapshot-file-missing", "no snapshot file in the data directory after the shutdown maintenance")
		} else if canon, err := loadFile(store, filepath.Join(dir, target)); err != nil {
			fail("own-snapshot-refused", "the snapshot cannot be loaded: "+err.Error())
		} else if canon != res.stateCanon {
			fail("snapshot-not-lossless", "loading the shutdown snapshot does not reproduce the in-memory state (the file is stale: the snapshot failed)")
		}
		// model side: the recorded operations are the protocol; crash images of the recorded sequence
		for _, seg := range segments(res.ops) {
			tmp := ""
			var kinds []string
			for _, o := range seg {
				if (o.Kind == "create" || o.Kind == "open") && tmp == "" {
					tmp = o.A
				}
				kinds = append(kinds, o.Kind)
			}
			run.Count("recorded_op_shapes", strings.Join(kinds, ","))
			data := writtenBytes(seg)
			addCase(run, fmt.Sprintf("COps %s %s %s\n  %s", vh.Str(target), vh.Str(tmp), coqBytes(data), coqOps(seg)), one, true)
			if res.ferr == nil {
				pts := enumPoints(r, target, old, oldPresent, seg, 120)
				crashCase(t, run, r, store, target, old, oldPresent, res.final, seg, pts, oldCanon, res.stateCanon)
			}
		}
		if res.ferr == nil {
			old, oldPresent = res.final, true
		}
		oldCanon = res.stateCanon
	}
}

func genBare(r *vh.Rand, store int) Case {
	c := genChain(r, store, []int{2, 1}, -1, false)
	c.Kind = "bare"
	return c
}
