//go:build verif

package c11

import (
	"context"
	"fmt"
	"path/filepath"
	"sort"
	"testing"
	"testing/synctest"
	"time"

	"github.com/prometheus/client_golang/prometheus"
	"google.golang.org/protobuf/encoding/protowire"
	"google.golang.org/protobuf/proto"
	"google.golang.org/protobuf/types/known/timestamppb"

	"github.com/prometheus/alertmanager/silence"
	spb "github.com/prometheus/alertmanager/silence/silencepb"

	"verifharness/vh"
)

// Lossless-after-history engine, LIVE maintenance variant (silences): ONE real Maintenance goroutine runs for the
// whole history (virtual time, 15-minute interval), so whatever it remembers between its runs is in play. The
// history creates silences, lets maintenance ticks write snapshots, and then ends with changes that do NOT add or
// remove a silence - Expire and in-place Set edits (comment / end time) - possibly with further ticks in between;
// then the real shutdown path (stop channel closed: final snapshot) and a restart from the file.
// Oracle (lossless clause, end to end): every silence queryable before the shutdown is queryable with identical
// content - times included - after the restart, and the full states agree.
//
// Kinds used in Case.Hist: set | update | expire | tick (sleep one maintenance interval and let the run finish).

const liveInterval = 15 * time.Minute

func genLiveHistory(r *vh.Rand, last string) Case {
	c := Case{Kind: "histlive", Store: storeSilence}
	id := 0
	mk := func(k string) HOp {
		id++
		return HOp{Kind: k, Idx: r.Intn(8), Txt: fmt.Sprintf("t%d", id)}
	}
	for i := r.Range(1, 3); i > 0; i-- {
		c.Hist = append(c.Hist, mk("set"))
	}
	if r.Chance(1, 3) {
		c.Hist = append(c.Hist, mk(vh.Pick(r, []string{"update", "expire"})))
	}
	c.Hist = append(c.Hist, mk("tick")) // a snapshot holding the silences as they are now
	for i := r.Range(0, 2); i > 0; i-- { // changes that neither add nor remove a silence, ticks in between
		c.Hist = append(c.Hist, mk(vh.Pick(r, []string{"update", "expire", "tick", "marshal", "merge_replace"})))
	}
	c.Hist = append(c.Hist, mk(last))
	if r.Chance(1, 3) {
		c.Hist = append(c.Hist, mk("tick"))
	}
	return c
}

func liveHistoryKinds() []string { return []string{"expire", "update", "merge_replace"} }

func liveHistoryCase(t *testing.T, run *vh.Run, c *Case) {
	dir := t.TempDir()
	snapf := filepath.Join(dir, storeName(storeSilence))
	lastKind := ""
	for _, op := range c.Hist {
		if op.Kind != "tick" && op.Kind != "marshal" {
			lastKind = op.Kind
		}
	}
	run.Count("live_history_last_change", lastKind)
	fail := func(key, what string) {
		run.Violate(key, fmt.Sprintf("silences, one Maintenance goroutine over the whole history, last change %s: %s", lastKind, what), c)
	}
	synctest.Test(t, func(t *testing.T) {
		ctx := context.Background()
		s, err := silence.New(silence.Options{SnapshotFile: snapf, Retention: 5 * time.Hour, Metrics: prometheus.NewRegistry()})
		if err != nil {
			t.Fatal(err)
		}
		stopc, done := make(chan struct{}), make(chan struct{})
		go func() { s.Maintenance(liveInterval, snapf, stopc, nil); close(done) }()
		var local []string
		for _, op := range c.Hist {
			run.Count("live_history_ops", op.Kind)
			time.Sleep(time.Second)
			now := time.Now()
			switch op.Kind {
			case "set":
				sil := &spb.Silence{MatcherSets: []*spb.MatcherSet{{Matchers: []*spb.Matcher{{Name: "job", Pattern: op.Txt}}}},
					StartsAt: timestamppb.New(now), EndsAt: timestamppb.New(now.Add(3 * time.Hour)), Comment: "c-" + op.Txt, CreatedBy: "me"}
				if err := s.Set(ctx, sil); err != nil {
					t.Fatalf("Set: %v", err)
				}
				local = append(local, sil.Id)
			case "expire":
				if len(local) > 0 {
					_ = s.Expire(ctx, local[op.Idx%len(local)])
				}
			case "update":
				if len(local) == 0 {
					continue
				}
				id := local[op.Idx%len(local)]
				cur, err := s.QueryOne(ctx, silence.QIDs(id))
				if err != nil {
					continue
				}
				upd := proto.Clone(cur).(*spb.Silence)
				upd.Comment = "updated-" + op.Txt
				if op.Idx%2 == 0 {
					upd.EndsAt = timestamppb.New(now.Add(time.Duration(1+op.Idx) * time.Hour))
				}
				if err := s.Set(ctx, upd); err == nil && upd.Id != id {
					local = append(local, upd.Id)
				}
			case "marshal": // a full-state push to a joining peer
				if _, err := s.MarshalBinary(); err != nil {
					t.Fatal(err)
				}
			case "merge_replace":
				// a newer version of an EXISTING silence arrives from a peer (expired or edited there)
				q, _, err := s.Query(ctx)
				if err != nil || len(q) == 0 {
					continue
				}
				sort.Slice(q, func(i, j int) bool { return q[i].Id < q[j].Id })
				cur := q[op.Idx%len(q)]
				nv := proto.Clone(cur).(*spb.Silence)
				nv.UpdatedAt = timestamppb.New(maxTime(cur.UpdatedAt.AsTime(), now).Add(time.Second))
				if op.Idx%2 == 0 {
					nv.EndsAt = timestamppb.New(now)
				} else {
					nv.Comment = "edited-elsewhere-" + op.Txt
					nv.EndsAt = timestamppb.New(now.Add(4 * time.Hour))
				}
				b, err := detMarshal.Marshal(&spb.MeshSilence{Silence: nv, ExpiresAt: timestamppb.New(now.Add(9 * time.Hour))})
				if err != nil {
					t.Fatal(err)
				}
				framed := append(protowire.AppendVarint(nil, uint64(len(b))), b...)
				if err := s.Merge(framed); err != nil {
					fail("valid-gossip-message-refused", "Merge refuses a well-formed message: "+err.Error())
					continue
				}
			case "tick":
				time.Sleep(liveInterval)
				synctest.Wait()
			}
		}
		observe := func(x *silence.Silences) (map[string]string, string) {
			q, _, err := x.Query(ctx)
			if err != nil {
				t.Fatal(err)
			}
			byID := map[string]string{}
			for _, sil := range q {
				byID[sil.Id] = canonS([]Sil{silOf(mesh(sil)).Upgraded()})
			}
			b, _ := x.MarshalBinary()
			all, _ := decodeS(b)
			for i := range all {
				all[i] = all[i].Upgraded()
			}
			return byID, canonS(all)
		}
		before, beforeAll := observe(s)
		close(stopc) // clean shutdown: the final maintenance run writes the snapshot
		<-done
		s2, err := silence.New(silence.Options{SnapshotFile: snapf, Retention: 5 * time.Hour, Metrics: prometheus.NewRegistry()})
		if err != nil {
			fail("own-snapshot-refused", "restart fails: "+err.Error())
			return
		}
		after, afterAll := observe(s2)
		ids := make([]string, 0, len(before))
		for id := range before {
			ids = append(ids, id)
		}
		sort.Strings(ids)
		for _, id := range ids {
			if a, ok := after[id]; !ok {
				fail("history-entry-lost-after-restart", "a silence queryable before the clean shutdown is gone after the restart")
			} else if a != before[id] {
				fail("history-entry-changed-after-restart", fmt.Sprintf("a silence differs after the clean shutdown and restart (an Expire / in-place edit made after the last periodic snapshot is lost): before %s, after %s", before[id], a))
			}
		}
		if afterAll != beforeAll {
			fail("history-state-differs-after-restart", fmt.Sprintf("%d silences before the shutdown, %d after the restart, or different content", len(before), len(after)))
		}
	})
}
