//go:build verif

// Package sim builds one whole alertmanager instance from exported constructors only (provider, inhibitor,
// silences+silencer, notification log, notification pipeline with scripted notifiers, dispatcher) and records what
// it does, for use inside a testing/synctest bubble. The recorded observations are turned into event lists of the
// Coq timed group model (Model/Group.v) by package groupcase.
package sim

import (
	"context"
	"errors"
	"fmt"
	"io"
	"log/slog"
	"net/url"
	"os"
	"path/filepath"
	"runtime"
	"sort"
	"sync"
	"testing"
	"testing/synctest"
	"time"

	"github.com/cespare/xxhash/v2"
	"github.com/prometheus/client_golang/prometheus"
	"github.com/prometheus/common/model"

	"github.com/prometheus/alertmanager/alert"
	"github.com/prometheus/alertmanager/config"
	"github.com/prometheus/alertmanager/dispatch"
	"github.com/prometheus/alertmanager/eventrecorder"
	"github.com/prometheus/alertmanager/featurecontrol"
	"github.com/prometheus/alertmanager/inhibit"
	"github.com/prometheus/alertmanager/marker"
	"github.com/prometheus/alertmanager/nflog"
	"github.com/prometheus/alertmanager/nflog/nflogpb"
	"github.com/prometheus/alertmanager/notify"
	"github.com/prometheus/alertmanager/provider/mem"
	"github.com/prometheus/alertmanager/silence"
	"github.com/prometheus/alertmanager/template"
	"github.com/prometheus/alertmanager/timeinterval"
)

type Outcome int

const (
	OK Outcome = iota
	Recoverable
	Unrecoverable
	Hang   // block until the context is done, then report a recoverable error
	SlowOK // take 3 virtual seconds, then succeed (or fail recoverably if the context ends first)
)

func (o Outcome) String() string {
	return [...]string{"ok", "recoverable", "unrecoverable", "hang", "slowok"}[o]
}

// IntSpec describes one scripted integration of a receiver.
type IntSpec struct {
	Name         string
	SendResolved bool
	Script       []Outcome // outcome of the k-th Notify call (over the whole run); OK when exhausted
}

// AlertObs is one alert as seen by an observer: its label set, whether it is resolved there, and UpdatedAt.
type AlertObs struct {
	Labels   model.LabelSet
	Resolved bool
	Updated  int64
	Starts   int64
	Ends     int64 // 0 = zero time
}

// Rec is one raw observation.
type Rec struct {
	Kind       string // publish | flush | query | notify | log | flushend
	T          int64  // virtual clock (unix ns) when observed
	GKey       string
	Recv       string // receiver name
	I          int    // integration index within the receiver
	Tau        int64  // flush: notify.Now(ctx)
	FlushID    uint64
	Alerts     []AlertObs
	Outcome    Outcome
	Reason     string
	Firing     []uint64
	Resolved   []uint64
	Ok         bool
	Ts, Exp    int64     // merge: the delivered entry's timestamp and expiry
	Suppressed []bool    // flush: per alert, the instance's own mute verdict (inhibitor or silencer) at flush time
	Silenced   []bool    // flush: per alert, the silence part of that verdict (direct evaluation of the stored active silences)
	Inhibited  []bool    // flush: per alert, the inhibitor's own Mutes verdict
	Raw        *AlertObs // publish: the alert as submitted to the provider (Alerts[0] = what the provider then holds)
}

type Sim struct {
	T         interface{ Fatalf(string, ...any) }
	Conf      *config.Config
	Route     *dispatch.Route
	Alerts    *mem.Alerts
	Silences  *silence.Silences
	Silencer  *silence.Silencer
	Nflog     *nflog.Log
	Inhibitor *inhibit.Inhibitor
	Disp      *dispatch.Dispatcher
	Marker    marker.GroupMarker
	Reg       *prometheus.Registry
	Wait      func() time.Duration

	NfMtx     sync.Mutex // serialises notification-log operations with their records
	mtx       sync.Mutex
	recs      []Rec
	calls     map[string]int // per integration key: number of Notify calls so far
	specs     map[string][]IntSpec
	subIt     interface{ Close() }
	subWG     sync.WaitGroup
	subDone   chan struct{}
	cancel    context.CancelFunc
	Retention time.Duration
}

func unixOrZero(t time.Time) int64 {
	if t.IsZero() {
		return 0
	}
	return t.UnixNano()
}

func ObsOf(a *alert.Alert) AlertObs {
	return AlertObs{Labels: a.Labels.Clone(), Resolved: a.Resolved(), Updated: unixOrZero(a.UpdatedAt), Starts: unixOrZero(a.StartsAt), Ends: unixOrZero(a.EndsAt)}
}

// HashAlert re-implements notify.hashAlert (xxhash64 over sorted name\xffvalue\xff) so that notification-log
// hashes can be mapped back to label sets.
func HashAlert(ls model.LabelSet) uint64 {
	names := make([]string, 0, len(ls))
	for n := range ls {
		names = append(names, string(n))
	}
	sort.Strings(names)
	var b []byte
	for _, n := range names {
		b = append(b, n...)
		b = append(b, 0xff)
		b = append(b, string(ls[model.LabelName(n)])...)
		b = append(b, 0xff)
	}
	return xxhash.Sum64(b)
}

func (s *Sim) add(r Rec) {
	s.mtx.Lock()
	r.T = time.Now().UnixNano()
	s.recs = append(s.recs, r)
	s.mtx.Unlock()
}

// AddRec appends an observation made by the harness itself (e.g. a gossip delivery).
func (s *Sim) AddRec(r Rec) { s.add(r) }

// Recs returns a copy of the observations so far.
func (s *Sim) Recs() []Rec {
	s.mtx.Lock()
	defer s.mtx.Unlock()
	return append([]Rec(nil), s.recs...)
}

// ---- scripted notifier ----

type notifier struct {
	s    *Sim
	recv string
	idx  int
	spec IntSpec
}

func (n *notifier) SendResolved() bool { return n.spec.SendResolved }

func (n *notifier) Notify(ctx context.Context, alerts ...*alert.Alert) (bool, error) {
	key := fmt.Sprintf("%s/%d", n.recv, n.idx)
	n.s.mtx.Lock()
	k := n.s.calls[key]
	n.s.calls[key] = k + 1
	n.s.mtx.Unlock()
	o := OK
	if k < len(n.spec.Script) {
		o = n.spec.Script[k]
	}
	gkey, _ := notify.GroupKey(ctx)
	reason := ""
	if r, ok := notify.NotificationReason(ctx); ok {
		reason = r.String()
	}
	obs := make([]AlertObs, len(alerts))
	for i, a := range alerts {
		obs[i] = ObsOf(a)
	}
	rec := Rec{Kind: "notify", GKey: gkey, Recv: n.recv, I: n.idx, Alerts: obs, Reason: reason}
	switch o {
	case OK:
		rec.Outcome = OK
		n.s.add(rec)
		return false, nil
	case Recoverable:
		rec.Outcome = Recoverable
		n.s.add(rec)
		return true, errors.New("scripted recoverable failure")
	case Unrecoverable:
		rec.Outcome = Unrecoverable
		n.s.add(rec)
		return false, errors.New("scripted unrecoverable failure")
	case SlowOK:
		select {
		case <-time.After(3 * time.Second):
			rec.Outcome = OK
			n.s.add(rec)
			return false, nil
		case <-ctx.Done():
			rec.Outcome = Recoverable
			n.s.add(rec)
			return true, ctx.Err()
		}
	default:
		<-ctx.Done()
		rec.Outcome = Recoverable
		n.s.add(rec)
		return true, ctx.Err()
	}
}

// ---- recording notification log ----

type recLog struct {
	s     *Sim
	inner *nflog.Log
}

// The record of a log operation and the operation itself happen under one lock (NfMtx), so that the recorded order
// of queries, log writes and gossip merges IS the order in which the notification log saw them.
func (l *recLog) Log(r *nflogpb.Receiver, gkey string, firing, resolved []uint64, st *nflog.Store, expiry time.Duration) error {
	l.s.NfMtx.Lock()
	defer l.s.NfMtx.Unlock()
	l.s.add(Rec{Kind: "log", GKey: gkey, Recv: r.GroupName, I: int(r.Idx), Firing: append([]uint64(nil), firing...), Resolved: append([]uint64(nil), resolved...)})
	return l.inner.Log(r, gkey, firing, resolved, st, expiry)
}

func (l *recLog) Query(params ...nflog.QueryParam) ([]*nflogpb.Entry, error) {
	l.s.NfMtx.Lock()
	defer l.s.NfMtx.Unlock()
	recv, gkey := nflog.VerifQueryKey(params...)
	rec := Rec{Kind: "query", GKey: gkey}
	if recv != nil {
		rec.Recv, rec.I = recv.GroupName, int(recv.Idx)
	}
	l.s.add(rec)
	return l.inner.Query(params...)
}

// MergeNflog delivers gossip bytes to the instance's notification log, recording recs first, atomically.
func (s *Sim) MergeNflog(b []byte, recs []Rec) error {
	s.NfMtx.Lock()
	defer s.NfMtx.Unlock()
	for _, r := range recs {
		s.add(r)
	}
	return s.Nflog.Merge(b)
}

// MergeNflogThen is MergeNflog followed, still under the same lock, by a look at the log (unrecorded).
func (s *Sim) MergeNflogThen(b []byte, recs []Rec, after func(l *nflog.Log)) error {
	s.NfMtx.Lock()
	defer s.NfMtx.Unlock()
	for _, r := range recs {
		s.add(r)
	}
	err := s.Nflog.Merge(b)
	after(s.Nflog)
	return err
}

// gcRec is the provider's store callback (the Silencer, as app.Run wires it) with a record of every provider GC that
// deleted something (a GC run that deletes nothing calls no callback and changes nothing).
type gcRec struct {
	s     *Sim
	inner mem.AlertStoreCallback
}

func (g *gcRec) PreStore(a *alert.Alert, existing bool) error { return g.inner.PreStore(a, existing) }
func (g *gcRec) PostStore(a *alert.Alert, existing bool)      { g.inner.PostStore(a, existing) }
func (g *gcRec) PostDelete(a *alert.Alert)                    { g.inner.PostDelete(a) }
func (g *gcRec) PostGC(fps model.Fingerprints) {
	g.s.add(Rec{Kind: "provgc", I: len(fps)})
	g.inner.PostGC(fps)
}

// ---- recording stage in front of the pipeline ----

type recStage struct {
	s     *Sim
	inner notify.Stage
}

func (st *recStage) Exec(ctx context.Context, l *slog.Logger, alerts ...*alert.Alert) (context.Context, []*alert.Alert, error) {
	gkey, _ := notify.GroupKey(ctx)
	now, _ := notify.Now(ctx)
	recv, _ := notify.ReceiverName(ctx)
	fid, _ := notify.FlushID(ctx)
	obs := make([]AlertObs, len(alerts))
	for i, a := range alerts {
		obs[i] = ObsOf(a)
	}
	sup := make([]bool, len(alerts))
	sild := make([]bool, len(alerts))
	inhd := make([]bool, len(alerts))
	for i, a := range alerts {
		// inhibition: the instance's own verdict (C03 decides whether it is right), on a detached context so that no
		// marker is touched; silences: direct evaluation of the stored active silences (side-effect free)
		sils, _, _ := st.s.Silences.Query(context.Background(), silence.QState(silence.SilenceStateActive), silence.QMatches(a.Labels))
		sild[i] = len(sils) > 0
		inhd[i] = st.s.Inhibitor.Mutes(context.Background(), a.Labels)
		sup[i] = inhd[i] || sild[i]
	}
	st.s.add(Rec{Kind: "flush", GKey: gkey, Recv: recv, Tau: now.UnixNano(), Alerts: obs, FlushID: fid, Suppressed: sup, Silenced: sild, Inhibited: inhd})
	c, as, err := st.inner.Exec(ctx, l, alerts...)
	st.s.add(Rec{Kind: "flushend", GKey: gkey, Recv: recv, Ok: err == nil, FlushID: fid})
	return c, as, err
}

// Options of an instance.
type Options struct {
	ConfigYAML     string
	Ints           map[string][]IntSpec // receiver name -> integrations
	Retention      time.Duration        // nflog + silences retention
	Wait           time.Duration        // cluster wait (position * peer timeout)
	AlertGC        time.Duration
	MaintenanceInt time.Duration
	NflogSnapshot  io.Reader
	Nflog          *nflog.Log // reuse an existing log (restart of the dispatcher only)
}

// New builds and starts an instance. Must be called inside a synctest bubble; call Stop before leaving it.
func New(t interface{ Fatalf(string, ...any) }, o Options) *Sim {
	s := &Sim{T: t, calls: map[string]int{}, specs: o.Ints, Retention: o.Retention}
	logger := slog.New(slog.NewTextHandler(io.Discard, nil))
	conf, err := config.Load(o.ConfigYAML)
	if err != nil {
		t.Fatalf("config.Load: %v\n%s", err, o.ConfigYAML)
	}
	s.Conf = conf
	s.Reg = prometheus.NewRegistry()
	rec := eventrecorder.NopRecorder()
	ff := featurecontrol.NoopFlags{}
	if o.AlertGC == 0 {
		o.AlertGC = 30 * time.Minute
	}
	if o.MaintenanceInt == 0 {
		o.MaintenanceInt = 30 * time.Second
	}
	s.Marker = marker.NewGroupMarker()
	if o.Nflog != nil {
		s.Nflog = o.Nflog
	} else {
		s.Nflog, err = nflog.New(nflog.Options{Retention: o.Retention, Metrics: prometheus.NewRegistry(), SnapshotReader: o.NflogSnapshot})
		if err != nil {
			t.Fatalf("nflog.New: %v", err)
		}
	}
	s.Silences, err = silence.New(silence.Options{Retention: o.Retention, Metrics: prometheus.NewRegistry()})
	if err != nil {
		t.Fatalf("silence.New: %v", err)
	}
	s.Silencer = silence.NewSilencer(s.Silences, logger, rec)
	ctx, cancel := context.WithCancel(context.Background())
	s.cancel = cancel
	s.Alerts, err = mem.NewAlerts(ctx, o.AlertGC, 0, &gcRec{s: s, inner: s.Silencer}, logger, rec, s.Reg, ff)
	if err != nil {
		t.Fatalf("mem.NewAlerts: %v", err)
	}
	s.Route = dispatch.NewRoute(conf.Route, nil)
	s.Inhibitor = inhibit.NewInhibitor(s.Alerts, conf.InhibitRules, logger, rec)
	tis := map[string][]timeinterval.TimeInterval{}
	for _, ti := range conf.MuteTimeIntervals {
		tis[ti.Name] = ti.TimeIntervals
	}
	for _, ti := range conf.TimeIntervals {
		tis[ti.Name] = ti.TimeIntervals
	}
	intervener := timeinterval.NewIntervener(tis)
	receivers := map[string][]notify.Integration{}
	for name, specs := range o.Ints {
		for i, sp := range specs {
			n := &notifier{s: s, recv: name, idx: i, spec: sp}
			receivers[name] = append(receivers[name], notify.NewIntegration(n, n, sp.Name, i, name))
		}
	}
	wait := o.Wait
	s.Wait = func() time.Duration { return wait }
	pb := notify.NewPipelineBuilder(prometheus.NewRegistry(), ff, rec)
	pipeline := pb.New(receivers, s.Wait, s.Inhibitor, s.Silencer, intervener, s.Marker, &recLog{s: s, inner: s.Nflog}, nil)
	timeout := func(d time.Duration) time.Duration {
		if d < notify.MinTimeout {
			d = notify.MinTimeout
		}
		return d + s.Wait()
	}
	go s.Inhibitor.Run()
	s.Inhibitor.WaitForLoading()
	// a template engine, as app.Run hands one to the dispatcher: route labels (config `labels:`) are rendered with it
	tmpl, err := template.FromGlobs(nil)
	if err != nil {
		t.Fatalf("template: %v", err)
	}
	tmpl.ExternalURL, _ = url.Parse("http://am.example:9093")
	s.Disp = dispatch.NewDispatcher(s.Alerts, s.Route, &recStage{s: s, inner: pipeline}, s.Marker, timeout, o.MaintenanceInt, nil, logger, rec, dispatch.NewDispatcherMetrics(false, prometheus.NewRegistry(), ff), tmpl)
	go s.Disp.Run(time.Now())
	s.Disp.WaitForLoading()
	return s
}

// Stop tears everything down so that the synctest bubble can end.
func (s *Sim) Stop() {
	s.Disp.Stop()
	s.Inhibitor.Stop()
	s.Alerts.Close()
	s.cancel()
}

// GroupKeysFor computes, independently of the dispatcher, the group keys an alert with these labels belongs to:
// for every route the routing tree selects, routeKey + ":" + the labels restricted to group_by.
func (s *Sim) GroupKeysFor(ls model.LabelSet) []GroupRef {
	var out []GroupRef
	for _, r := range s.Route.Match(ls) {
		gl := model.LabelSet{}
		for n, v := range ls {
			if _, ok := r.RouteOpts.GroupBy[n]; ok || r.RouteOpts.GroupByAll {
				gl[n] = v
			}
		}
		out = append(out, GroupRef{Key: fmt.Sprintf("%s:%s", r.Key(), gl), Route: r, Labels: gl})
	}
	return out
}

type GroupRef struct {
	Key    string
	Route  *dispatch.Route
	Labels model.LabelSet
}

// PutAlert submits one alert to the provider and records what the provider published (the stored alert after its
// merge with the previous version). The record is reserved BEFORE the Put so that it precedes, in the recorded
// order, everything the dispatcher does with the alert at the same virtual instant.
func (s *Sim) PutAlert(a *alert.Alert) {
	s.mtx.Lock()
	idx := len(s.recs)
	raw := ObsOf(a)
	s.recs = append(s.recs, Rec{Kind: "publish-skipped", T: time.Now().UnixNano(), Raw: &raw})
	s.mtx.Unlock()
	if err := s.Alerts.Put(context.Background(), a); err != nil {
		s.T.Fatalf("Put: %v", err)
	}
	stored, err := s.Alerts.Get(a.Fingerprint())
	if err != nil {
		return
	}
	s.mtx.Lock()
	s.recs[idx].Kind = "publish"
	s.recs[idx].Alerts = []AlertObs{ObsOf(stored)}
	s.mtx.Unlock()
}

// Bubble runs f in a synctest bubble, but gives up after a real-time limit: under Go 1.25 a sync.WaitGroup.Wait inside
// a bubble is very occasionally not registered as durably blocking, which freezes the bubble's virtual clock for
// good (seen about once in 10^4..10^5 flushes, independent of the code under test). A frozen bubble is abandoned
// (its goroutines leak until the process ends) and the caller skips the scenario. Returns false when abandoned.
func Bubble(t *testing.T, limit time.Duration, f func(t *testing.T)) bool {
	done := make(chan struct{})
	go func() {
		defer close(done)
		synctest.Test(t, f)
	}()
	select {
	case <-done:
		return true
	case <-time.After(limit):
		if dir := os.Getenv("VERIF_OUT"); dir != "" {
			buf := make([]byte, 8<<20)
			n := runtime.Stack(buf, true)
			_ = os.WriteFile(filepath.Join(dir, fmt.Sprintf("frozen-bubble-%d.txt", time.Now().UnixNano())), buf[:n], 0o644)
		}
		return false
	}
}
