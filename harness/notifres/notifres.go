//go:build verif

// Package notifres judges how REAL notifiers report the result of a delivery that did reach the service
// (shared by the C20 and C04 checks; only public constructors of alertmanager are used):
//
//	slow      slack / webhook with the `timeout` option against an endpoint that answers 200 and sends its body
//	          50 ms after the headers
//	mailquit  e-mail against an SMTP server that queues the message (250 after DATA) and drops the connection
//	          instead of answering QUIT
//
// In both situations the notification was delivered: Notify must report success (no error, no retry). Then the
// same integration runs in a receiver pipeline assembled from the exported stage constructors the way
// createReceiverStage does (Wait, Dedup, Retry, SetNotifies) with a real nflog: flush 1 delivers exactly once and
// records it, flush 2 of the unchanged group sends nothing.
package notifres

import (
	"bufio"
	"context"
	"fmt"
	"io"
	"net"
	"net/http"
	"net/http/httptest"
	"net/url"
	"strconv"
	"strings"
	"sync"
	"sync/atomic"
	"testing"
	"time"

	"github.com/prometheus/client_golang/prometheus"
	commoncfg "github.com/prometheus/common/config"
	"github.com/prometheus/common/model"
	"github.com/prometheus/common/promslog"

	"github.com/prometheus/alertmanager/config"
	"github.com/prometheus/alertmanager/config/receiver"
	"github.com/prometheus/alertmanager/eventrecorder"
	"github.com/prometheus/alertmanager/featurecontrol"
	"github.com/prometheus/alertmanager/nflog"
	"github.com/prometheus/alertmanager/nflog/nflogpb"
	"github.com/prometheus/alertmanager/notify"
	"github.com/prometheus/alertmanager/template"
	"github.com/prometheus/alertmanager/types"

	"verifharness/vh"
)

const gkey = "{}:{alertname=\"Down\"}"

type scenario struct {
	Mode string `json:"mode"`           // slow | mailquit | non2xx
	Kind string `json:"kind"`           // slack | webhook | email | ...
	Code int    `json:"code,omitempty"` // non2xx: the status the endpoint answers with
}

type httpSink struct {
	srv  *httptest.Server
	mu   sync.Mutex
	hits map[string]int
}

func newHTTPSink() *httpSink {
	s := &httpSink{hits: map[string]int{}}
	s.srv = httptest.NewServer(http.HandlerFunc(func(w http.ResponseWriter, r *http.Request) {
		io.Copy(io.Discard, r.Body)
		s.mu.Lock()
		s.hits[r.URL.Path]++
		s.mu.Unlock()
		if i := strings.Index(r.URL.Path, "/code-"); i >= 0 { // answer with the status named in the path
			code, _ := strconv.Atoi(r.URL.Path[i+6 : i+9])
			if code/100 == 3 {
				w.Header().Set("Location", "/elsewhere")
			}
			w.WriteHeader(code)
			return
		}
		w.WriteHeader(http.StatusOK)
		if f, ok := w.(http.Flusher); ok { // headers now, body later
			f.Flush()
		}
		time.Sleep(50 * time.Millisecond)
		io.WriteString(w, "ok")
	}))
	return s
}

func (s *httpSink) count(p string) int {
	s.mu.Lock()
	defer s.mu.Unlock()
	return s.hits[p]
}

// smtpSink accepts every message and closes the connection instead of answering QUIT.
type smtpSink struct {
	ln     net.Listener
	queued atomic.Int64
}

func newSMTPSink() *smtpSink {
	ln, err := net.Listen("tcp", "127.0.0.1:0")
	if err != nil {
		panic(err)
	}
	s := &smtpSink{ln: ln}
	go func() {
		for {
			c, err := ln.Accept()
			if err != nil {
				return
			}
			go s.serve(c)
		}
	}()
	return s
}

func (s *smtpSink) serve(c net.Conn) {
	defer c.Close()
	rd := bufio.NewReader(c)
	fmt.Fprint(c, "220 sink ESMTP\r\n")
	for {
		line, err := rd.ReadString('\n')
		if err != nil {
			return
		}
		cmd := strings.ToUpper(strings.TrimSpace(line))
		switch {
		case strings.HasPrefix(cmd, "EHLO"), strings.HasPrefix(cmd, "HELO"):
			fmt.Fprint(c, "250 sink\r\n")
		case strings.HasPrefix(cmd, "DATA"):
			fmt.Fprint(c, "354 go on\r\n")
			for {
				l2, err := rd.ReadString('\n')
				if err != nil {
					return
				}
				if l2 == ".\r\n" {
					break
				}
			}
			s.queued.Add(1)
			fmt.Fprint(c, "250 queued\r\n")
		case strings.HasPrefix(cmd, "QUIT"):
			return // drop the connection without the 221
		default:
			fmt.Fprint(c, "250 ok\r\n")
		}
	}
}

func alerts(now time.Time) []*types.Alert {
	return []*types.Alert{{Alert: model.Alert{Labels: model.LabelSet{"alertname": "Down", "instance": "i0"}, Annotations: model.LabelSet{"summary": "x"},
		StartsAt: now.Add(-time.Minute)}, UpdatedAt: now}}
}

func flushCtx(d time.Duration) (context.Context, context.CancelFunc) {
	ctx := notify.WithGroupKey(context.Background(), gkey)
	ctx = notify.WithReceiverName(ctx, "team")
	ctx = notify.WithGroupLabels(ctx, model.LabelSet{"alertname": "Down"})
	ctx = notify.WithRepeatInterval(ctx, time.Hour)
	return context.WithTimeout(ctx, d)
}

// Judge runs the scenarios against the implementation under test and reports violations into run (oracle keys
// delivered-notification-reported-as-failure, delivered-notification-sent-again-in-flush,
// unchanged-group-notified-again, delivered-notification-not-recorded). It adds no cases. prop is the id of the
// calling check (for the histogram only).
func Judge(t *testing.T, env vh.Env, run *vh.Run, prop string) {
	if env.Replay != "" {
		return
	}
	tmpl, err := template.FromGlobs([]string{})
	if err != nil {
		t.Fatal(err)
	}
	tmpl.ExternalURL, _ = url.Parse("http://am.example")
	hs := newHTTPSink()
	defer hs.srv.Close()
	ms := newSMTPSink()
	defer ms.ln.Close()
	scs := []scenario{{Mode: "slow", Kind: "slack"}, {Mode: "slow", Kind: "webhook"}, {Mode: "mailquit", Kind: "email"}}
	rounds := env.N(2, 2)
	seq := 0
	for round := 0; round < rounds; round++ {
		for _, sc := range scs {
			seq++
			path := fmt.Sprintf("/n%d/%s", seq, sc.Kind)
			var body string
			switch sc.Kind {
			case "slack":
				body = fmt.Sprintf("{channel: '#alerts', api_url: '%s', timeout: 5s}", hs.srv.URL+path)
			case "webhook":
				body = fmt.Sprintf("{url: '%s', timeout: 5s}", hs.srv.URL+path)
			case "email":
				body = fmt.Sprintf("{to: oncall@example.org, smarthost: '%s', from: am@example.org, require_tls: false}", ms.ln.Addr().String())
			}
			cfg, err := config.Load(fmt.Sprintf("route: {receiver: team}\nreceivers:\n- name: team\n  %s_configs:\n  - %s\n", sc.Kind, body))
			if err != nil {
				t.Fatalf("notifres: config.Load: %v", err)
			}
			integs, err := receiver.BuildReceiverIntegrations(cfg.Receivers[0], tmpl, promslog.NewNopLogger(), commoncfg.WithKeepAlivesDisabled())
			if err != nil || len(integs) != 1 {
				t.Fatalf("notifres: BuildReceiverIntegrations: %v (%d)", err, len(integs))
			}
			delivered := func() int {
				if sc.Kind == "email" {
					return int(ms.queued.Load())
				}
				return hs.count(path)
			}
			what := map[string]string{"slow": "the endpoint answered 200 and sent its body 50 ms after the headers (integration has timeout: 5s)",
				"mailquit": "the SMTP server queued the message (250 after DATA) and dropped the connection at QUIT"}[sc.Mode]
			run.Count("notifier_results("+prop+")", sc.Mode+"/"+sc.Kind)

			// 1. the notifier's own verdict
			now := time.Now()
			ctx, cancel := flushCtx(10 * time.Second)
			d0 := delivered()
			retry, nerr := integs[0].Notify(ctx, alerts(now)...)
			cancel()
			if delivered()-d0 != 1 {
				run.Violate("notification-not-delivered-to-healthy-service", fmt.Sprintf("%s: %d deliveries, err=%v", sc.Kind, delivered()-d0, nerr), sc)
				continue
			}
			if nerr != nil || retry {
				run.Violate("delivered-notification-reported-as-failure", fmt.Sprintf("%s: %s; Notify returned retry=%v err=%v: RetryStage sends it again and nothing is recorded", sc.Kind, what, retry, nerr), sc)
				continue // the pipeline below would only retry until its deadline
			}

			// 2. the receiver pipeline (as createReceiverStage assembles it) with a real notification log
			log, err := nflog.New(nflog.Options{Retention: 2 * time.Hour, Metrics: prometheus.NewRegistry()})
			if err != nil {
				t.Fatal(err)
			}
			recv := &nflogpb.Receiver{GroupName: "team", Integration: integs[0].Name(), Idx: uint32(integs[0].Index())}
			stage := notify.FanoutStage{notify.MultiStage{
				notify.NewClusterWaitStage(func() time.Duration { return 0 }),
				notify.NewDedupStage(&integs[0], log, recv),
				notify.NewRetryStage(integs[0], "team", notify.NewMetrics(prometheus.NewRegistry(), featurecontrol.NoopFlags{}), eventrecorder.NopRecorder()),
				notify.NewSetNotifiesStage(log, recv),
			}}
			batch := alerts(now)
			for flush := 1; flush <= 2; flush++ {
				ctx, cancel := flushCtx(4 * time.Second)
				d0 := delivered()
				_, _, ferr := stage.Exec(ctx, promslog.NewNopLogger(), batch...)
				cancel()
				n := delivered() - d0
				es, qerr := log.Query(nflog.QGroupKey(gkey), nflog.QReceiver(recv))
				switch {
				case flush == 1 && n > 1:
					run.Violate("delivered-notification-sent-again-in-flush", fmt.Sprintf("%s: %s; the flush delivered the same notification %d times (err=%v)", sc.Kind, what, n, ferr), sc)
				case flush == 1 && (n != 1 || ferr != nil):
					run.Violate("flush-to-healthy-service-failed", fmt.Sprintf("%s: deliveries=%d err=%v", sc.Kind, n, ferr), sc)
				case flush == 1 && (qerr != nil || len(es) != 1):
					run.Violate("delivered-notification-not-recorded", fmt.Sprintf("%s: delivered, but the notification log has no entry (%v)", sc.Kind, qerr), sc)
				case flush == 2 && n != 0:
					run.Violate("unchanged-group-notified-again", fmt.Sprintf("%s: nothing changed since the delivered notification of flush 1, yet flush 2 delivered %d more", sc.Kind, n), sc)
				}
			}
		}
	}
	judgeNon2xx(t, env, run, prop, tmpl, hs)
}

// non2xx: kinds that deliver with one POST and classify the answer with notify.Retrier; %s = endpoint URL.
// Redirects are not followed, so a 3xx is the final answer of the endpoint.
var non2xxKinds = map[string]string{
	"webhook":    "{url: '%s', http_config: {follow_redirects: false}}",
	"slack":      "{channel: '#alerts', api_url: '%s', http_config: {follow_redirects: false}}",
	"msteams":    "{webhook_url: '%s', http_config: {follow_redirects: false}}",
	"msteamsv2":  "{webhook_url: '%s', http_config: {follow_redirects: false}}",
	"discord":    "{webhook_url: '%s', http_config: {follow_redirects: false}}",
	"mattermost": "{channel: c, webhook_url: '%s', http_config: {follow_redirects: false}}",
}

var non2xxCodes = []int{300, 301, 302, 303, 304, 307, 308}

// judgeNon2xx: an answer outside 2xx is NOT a delivery. The notifier must return an error (retry or not); through
// the receiver pipeline the flush must fail and nothing may be written to the notification log (otherwise every
// later flush of the group is dropped as a duplicate although the receiver never got the alert).
func judgeNon2xx(t *testing.T, env vh.Env, run *vh.Run, prop string, tmpl *template.Template, hs *httpSink) {
	seq := 0
	for _, kind := range vh.SortedKeys(non2xxKinds) {
		for _, code := range non2xxCodes {
			seq++
			sc := scenario{Mode: "non2xx", Kind: kind, Code: code}
			path := fmt.Sprintf("/x%d/code-%d/%s", seq, code, kind)
			cfg, err := config.Load(fmt.Sprintf("route: {receiver: team}\nreceivers:\n- name: team\n  %s_configs:\n  - %s\n", kind, fmt.Sprintf(non2xxKinds[kind], hs.srv.URL+path)))
			if err != nil {
				t.Fatalf("notifres: config.Load: %v", err)
			}
			integs, err := receiver.BuildReceiverIntegrations(cfg.Receivers[0], tmpl, promslog.NewNopLogger(), commoncfg.WithKeepAlivesDisabled())
			if err != nil || len(integs) != 1 {
				t.Fatalf("notifres: BuildReceiverIntegrations: %v (%d)", err, len(integs))
			}
			run.Count("notifier_results("+prop+")", fmt.Sprintf("non2xx/%s", kind))
			now := time.Now()
			ctx, cancel := flushCtx(10 * time.Second)
			retry, nerr := integs[0].Notify(ctx, alerts(now)...)
			cancel()
			if hs.count(path) < 1 {
				run.Violate("notification-not-attempted", fmt.Sprintf("%s: no request reached the endpoint (err=%v)", kind, nerr), sc)
				continue
			}
			if nerr == nil {
				run.Violate("undelivered-notification-reported-as-delivered", fmt.Sprintf("%s: the endpoint answered %d (redirects are not followed) and Notify returned success: the notification is recorded as sent and the group stays silent until repeat_interval although the receiver never got it", kind, code), sc)
			}
			if retry {
				continue // a retryable verdict would keep the pipeline busy until its deadline; the verdict itself is judged above
			}
			log, err := nflog.New(nflog.Options{Retention: 2 * time.Hour, Metrics: prometheus.NewRegistry()})
			if err != nil {
				t.Fatal(err)
			}
			recv := &nflogpb.Receiver{GroupName: "team", Integration: integs[0].Name(), Idx: uint32(integs[0].Index())}
			stage := notify.FanoutStage{notify.MultiStage{
				notify.NewClusterWaitStage(func() time.Duration { return 0 }),
				notify.NewDedupStage(&integs[0], log, recv),
				notify.NewRetryStage(integs[0], "team", notify.NewMetrics(prometheus.NewRegistry(), featurecontrol.NoopFlags{}), eventrecorder.NopRecorder()),
				notify.NewSetNotifiesStage(log, recv),
			}}
			ctx, cancel = flushCtx(3 * time.Second)
			_, _, ferr := stage.Exec(ctx, promslog.NewNopLogger(), alerts(now)...)
			cancel()
			es, _ := log.Query(nflog.QGroupKey(gkey), nflog.QReceiver(recv))
			if ferr == nil || len(es) != 0 {
				run.Violate("undelivered-notification-recorded", fmt.Sprintf("%s: the endpoint answered %d; flush error=%v, notification-log entries=%d (a failed delivery must not discharge the obligation)", kind, code, ferr, len(es)), sc)
			}
		}
	}
}
