//go:build verif

package c12

// Two direct-oracle engines for C12 on the real silence.Silences / api/v2 handlers under synctest virtual time. They
// are judged by the property stated on the implementation's observations only (no Coq case text): the first because
// of its size, the second because its instants do not fit the harness's int64-nanosecond rendering.
//
//  scale: a store of 500 - 3000+ silences (created through Set or delivered in one Merge), most of them ending
//         together; after end + retention a GC collects exactly those, and everything that is still stored stays
//         listable (Query without ids, by state, CountState), individually queryable and indexed (st / mi / vi hold
//         the same ids); a later GC collects the survivors too ("every silence stays queryable until its end plus
//         the retention and is removed by garbage collection afterwards", at sizes where the version index is
//         reallocated).
//  far:   silences starting / ending far in the future (beyond 2262-04-11, where int64 nanoseconds end; year 9999) or
//         before 1970: the state shown by GET /silence/{id} and GET /silences must be the state the store reports
//         (Model/Silence.v current_state / sil_state on exact instants), at creation and after Expire.

import (
	"bytes"
	"context"
	"fmt"
	"net/http"
	"sort"
	"testing"
	"testing/synctest"
	"time"

	"github.com/go-openapi/strfmt"
	"github.com/prometheus/client_golang/prometheus"
	"github.com/prometheus/common/promslog"
	"google.golang.org/protobuf/encoding/protodelim"
	"google.golang.org/protobuf/types/known/timestamppb"

	v2 "github.com/prometheus/alertmanager/api/v2"
	open_api_models "github.com/prometheus/alertmanager/api/v2/models"
	silence_ops "github.com/prometheus/alertmanager/api/v2/restapi/operations/silence"
	"github.com/prometheus/alertmanager/silence"
	pb "github.com/prometheus/alertmanager/silence/silencepb"

	"verifharness/vh"
)

type DirectParams struct {
	Kind      string `json:"kind"` // scale | far
	N         int    `json:"n,omitempty"`
	Survivors int    `json:"survivors,omitempty"`
	Via       string `json:"via,omitempty"` // scale: set | merge
	Note      string `json:"note,omitempty"`
}

const directNote = "direct-oracle engine (no model evaluation): replay reruns it with these parameters; deterministic under virtual time"

func sortedIDs(sils []*pb.Silence) []string {
	out := make([]string, len(sils))
	for i, s := range sils {
		out[i] = s.Id
	}
	sort.Strings(out)
	return out
}

func sameStrings(a, b []string) bool {
	if len(a) != len(b) {
		return false
	}
	for i := range a {
		if a[i] != b[i] {
			return false
		}
	}
	return true
}

func scaleRun(t *testing.T, run *vh.Run, p DirectParams) {
	c := Case{Direct: &p}
	fail := func(key, what string) {
		run.Violate(key, fmt.Sprintf("store of %d silences (%s), %d outlive the mass expiry: %s", p.N, p.Via, p.Survivors, what), c)
	}
	synctest.Test(t, func(t *testing.T) {
		ctx := context.Background()
		ret := time.Minute
		s, err := silence.New(silence.Options{Retention: ret, Metrics: prometheus.NewRegistry()})
		if err != nil {
			t.Fatal(err)
		}
		now := time.Now()
		var survivors []string
		var batch bytes.Buffer
		for i := 0; i < p.N; i++ {
			end := now.Add(time.Minute)
			keep := i%max(1, p.N/max(1, p.Survivors)) == 0 && len(survivors) < p.Survivors
			if keep {
				end = now.Add(2 * time.Hour)
			}
			sil := &pb.Silence{MatcherSets: []*pb.MatcherSet{{Matchers: []*pb.Matcher{{Name: "inst", Pattern: fmt.Sprintf("i%d", i)}}}},
				StartsAt: timestamppb.New(now), EndsAt: timestamppb.New(end), CreatedBy: "scale", Comment: "c"}
			if p.Via == "merge" {
				sil.Id = fmt.Sprintf("m-%05d", i)
				sil.UpdatedAt = timestamppb.New(now)
				if _, err := protodelim.MarshalTo(&batch, &pb.MeshSilence{Silence: sil, ExpiresAt: timestamppb.New(end.Add(ret))}); err != nil {
					t.Fatal(err)
				}
			} else if err := s.Set(ctx, sil); err != nil {
				t.Fatalf("Set %d: %v", i, err)
			}
			if keep {
				survivors = append(survivors, sil.Id)
			}
		}
		if p.Via == "merge" {
			if err := s.Merge(batch.Bytes()); err != nil {
				t.Fatal(err)
			}
		}
		sort.Strings(survivors)
		all, _, err := s.Query(ctx)
		if err != nil || len(all) != p.N {
			fail("list-query-incomplete", fmt.Sprintf("before any GC the list query returns %d silences (err %v)", len(all), err))
		}
		// everything but the survivors ends, the retention passes, GC
		time.Sleep(time.Minute + ret + time.Second)
		n, err := s.GC()
		if err != nil || n != p.N-len(survivors) {
			fail("gc-count", fmt.Sprintf("GC after the mass expiry + retention collected %d (err %v), expected %d", n, err, p.N-len(survivors)))
		}
		check := func(when string, want []string) {
			got, _, err := s.Query(ctx)
			if err != nil || !sameStrings(sortedIDs(got), want) {
				fail("list-query-misses-stored-silences-after-gc", fmt.Sprintf("%s: Query without ids returns %d silences (err %v), the store should list the %d that are neither ended+retention nor collected", when, len(got), err, len(want)))
			}
			act, _, err := s.Query(ctx, silence.QState(silence.SilenceStateActive))
			if err != nil || !sameStrings(sortedIDs(act), want) {
				fail("state-query-misses-stored-silences-after-gc", fmt.Sprintf("%s: Query by state active returns %d silences, expected %d", when, len(act), len(want)))
			}
			if cnt, _ := s.CountState(ctx, silence.SilenceStateActive); cnt != len(want) {
				fail("count-state-wrong-after-gc", fmt.Sprintf("%s: CountState(active) = %d, expected %d", when, cnt, len(want)))
			}
			if len(want) > 0 {
				one, _, err := s.Query(ctx, silence.QIDs(want[0], want[len(want)-1]))
				if err != nil || len(one) == 0 {
					fail("stored-silence-not-queryable-by-id-after-gc", fmt.Sprintf("%s: %d of the surviving ids found by id (err %v)", when, len(one), err))
				}
			}
			st, mi, vi, _ := s.VerifDump()
			vids := make([]string, len(vi))
			for i, e := range vi {
				vids[i] = e.ID
			}
			sort.Strings(vids)
			if !sameStrings(st, want) || !sameStrings(mi, want) || !sameStrings(vids, want) {
				fail("indexes-out-of-step-after-gc", fmt.Sprintf("%s: state holds %d ids, matcher index %d, version index %d; expected %d in each", when, len(st), len(mi), len(vi), len(want)))
			}
		}
		check("right after the GC", survivors)
		extra := &pb.Silence{MatcherSets: []*pb.MatcherSet{{Matchers: []*pb.Matcher{{Name: "inst", Pattern: "later"}}}},
			StartsAt: timestamppb.New(time.Now()), EndsAt: timestamppb.New(time.Now().Add(time.Hour)), CreatedBy: "scale", Comment: "c"}
		if err := s.Set(ctx, extra); err != nil {
			t.Fatal(err)
		}
		with := append(append([]string{}, survivors...), extra.Id)
		sort.Strings(with)
		if n, _ := s.GC(); n != 0 {
			fail("gc-count", fmt.Sprintf("a second GC at the same instant collected %d", n))
		}
		check("after one more create and a no-op GC", with)
		// the survivors end too
		time.Sleep(2*time.Hour + ret + time.Second)
		n, err = s.GC()
		if err != nil || n != len(with) {
			fail("gc-never-collects-survivors", fmt.Sprintf("GC after the survivors' end + retention collected %d (err %v), expected %d", n, err, len(with)))
		}
		check("after the last GC", nil)
	})
	run.CountN("scale_engine", "stores", 1)
	run.CountN("scale_engine", "silences", p.N)
	run.Count("scale_engine_sizes", fmt.Sprintf("%d/%s/%d-survive", p.N, p.Via, p.Survivors))
}

func scalePlan(env vh.Env) []DirectParams {
	ps := []DirectParams{
		{Kind: "scale", N: 1500, Survivors: 10, Via: "set"},
		{Kind: "scale", N: 1100, Survivors: 40, Via: "merge"},
		{Kind: "scale", N: 2100, Survivors: 300, Via: "merge"},
		{Kind: "scale", N: 3000, Survivors: 5, Via: "set"},
		{Kind: "scale", N: 1025, Survivors: 1, Via: "set"},
		{Kind: "scale", N: 1030, Survivors: 511, Via: "merge"},
		{Kind: "scale", N: 520, Survivors: 3, Via: "set"},
		{Kind: "scale", N: 2050, Survivors: 1020, Via: "set"},
	}
	if env.Tier == "thorough" {
		ps = append(ps, DirectParams{Kind: "scale", N: 4200, Survivors: 100, Via: "merge"}, DirectParams{Kind: "scale", N: 8300, Survivors: 2, Via: "set"},
			DirectParams{Kind: "scale", N: 16500, Survivors: 4000, Via: "merge"})
	}
	for i := range ps {
		ps[i].Note = directNote
	}
	return ps
}

// ---------- far instants through the API ----------

func apiState(start, end, now time.Time) string { // silence.CurrentState on exact instants
	if now.Before(start) {
		return "pending"
	}
	if now.Before(end) {
		return "active"
	}
	return "expired"
}

func farRun(t *testing.T, run *vh.Run, p DirectParams) {
	c := Case{Direct: &p}
	synctest.Test(t, func(t *testing.T) {
		ctx := context.Background()
		s, err := silence.New(silence.Options{Retention: 5 * time.Hour, Metrics: prometheus.NewRegistry()})
		if err != nil {
			t.Fatal(err)
		}
		api := v2.VerifSilenceAPI(s, promslog.NewNopLogger())
		req, _ := http.NewRequest("GET", "/api/v2/silences", nil)
		time.Sleep(time.Hour)
		now := time.Now()
		maxNs := time.Unix(0, 1<<63-1).UTC() // 2262-04-11T23:47:16.854775807Z
		minNs := time.Unix(0, -1<<63).UTC()  // 1677-09-21T00:12:43.145224192Z
		y9999 := time.Date(9999, 12, 31, 23, 59, 59, 0, time.UTC)
		y2300 := time.Date(2300, 1, 1, 0, 0, 0, 0, time.UTC)
		y1960 := time.Date(1960, 6, 1, 0, 0, 0, 0, time.UTC)
		type spec struct {
			name       string
			start, end time.Time
			merge      bool
		}
		specs := []spec{
			{"ends 9999-12-31", now, y9999, false},
			{"unset start, ends 9999-12-31", time.Time{}, y9999, false},
			{"starts 2300, ends 9999", y2300, y9999, false},
			{"starts in an hour, ends 2300", now.Add(time.Hour), y2300, false},
			{"ends 1 ns after the last int64 nanosecond", now, maxNs.Add(1), false},
			{"ends at the last int64 nanosecond", now, maxNs, false},
			{"starts 1 s after the last int64 nanosecond", maxNs.Add(time.Second), y9999, false},
			{"ends in an hour", now, now.Add(time.Hour), false},
			{"peer: started 1960, ends 2300", y1960, y2300, true},
			{"peer: started 1960, ends 9999", y1960, y9999, true},
			{"peer: started before the first int64 nanosecond, ends tomorrow", minNs.Add(-time.Hour), now.Add(24 * time.Hour), true},
			{"peer: started 1969-12-31T23:59:59.999999999, ended an hour ago", time.Unix(0, -1).UTC(), now.Add(-time.Hour), true},
			{"peer: starts 2300, ends 9999", y2300, y9999, true},
		}
		type made struct {
			spec
			id string
		}
		var all []made
		for i, sp := range specs {
			mt := true
			f := false
			name, val, cm, by := "far", fmt.Sprintf("v%d", i), sp.name, "far"
			if sp.merge {
				id := fmt.Sprintf("peer-%d", i)
				m := &pb.MeshSilence{Silence: &pb.Silence{Id: id, MatcherSets: []*pb.MatcherSet{{Matchers: []*pb.Matcher{{Name: name, Pattern: val}}}},
					StartsAt: timestamppb.New(sp.start), EndsAt: timestamppb.New(sp.end), UpdatedAt: timestamppb.New(now), CreatedBy: by, Comment: cm},
					ExpiresAt: timestamppb.New(sp.end.Add(5 * time.Hour))}
				var buf bytes.Buffer
				if _, err := protodelim.MarshalTo(&buf, m); err != nil {
					t.Fatal(err)
				}
				if err := s.Merge(buf.Bytes()); err != nil {
					t.Fatal(err)
				}
				all = append(all, made{sp, id})
				continue
			}
			st, en := strfmt.DateTime(sp.start), strfmt.DateTime(sp.end)
			ps := &open_api_models.PostableSilence{Silence: open_api_models.Silence{Comment: &cm, CreatedBy: &by, StartsAt: &st, EndsAt: &en,
				Matchers: open_api_models.Matchers{{Name: &name, Value: &val, IsEqual: &mt, IsRegex: &f}}}}
			resp := api.VerifPostSilences(silence_ops.PostSilencesParams{HTTPRequest: req, Silence: ps})
			ok, isOK := resp.(*silence_ops.PostSilencesOK)
			if !isOK {
				run.Violate("far-future-silence-rejected", fmt.Sprintf("POST of a silence that %s (start %v, end %v) at %v answered %T", sp.name, sp.start, sp.end, now, resp), c)
				continue
			}
			if sp.start.Before(now) {
				sp.start = now // Set raises a start in the past (or unset) to now
			}
			all = append(all, made{sp, ok.Payload.SilenceID})
		}
		judge := func(when string) {
			now := time.Now()
			tr := true
			lresp := api.VerifGetSilences(silence_ops.GetSilencesParams{HTTPRequest: req, Active: &tr, Expired: &tr, Pending: &tr})
			listed := map[string]string{}
			if l, ok := lresp.(*silence_ops.GetSilencesOK); ok {
				for _, g := range l.Payload {
					listed[*g.ID] = *g.Status.State
				}
			} else {
				run.Violate("get-silences-failed", fmt.Sprintf("%s: GET /silences answered %T", when, lresp), c)
			}
			for _, m := range all {
				cur, _, err := s.Query(ctx, silence.QIDs(m.id))
				if err != nil || len(cur) != 1 {
					run.Violate("stored-silence-not-queryable", fmt.Sprintf("%s: %s (%s) not found by id", when, m.id, m.name), c)
					continue
				}
				want := apiState(cur[0].StartsAt.AsTime(), cur[0].EndsAt.AsTime(), now)
				// the store's own view, by state query
				for _, st := range []silence.SilenceState{silence.SilenceStateActive, silence.SilenceStatePending, silence.SilenceStateExpired} {
					q, _, _ := s.Query(ctx, silence.QIDs(m.id), silence.QState(st))
					if (len(q) == 1) != (string(st) == want) {
						run.Violate("store-state-differs-from-exact-instants", fmt.Sprintf("%s: silence that %s: Query by state %s finds %d, exact comparison of the instants says %s", when, m.name, st, len(q), want), c)
					}
				}
				resp := api.VerifGetSilence(silence_ops.GetSilenceParams{HTTPRequest: req, SilenceID: strfmt.UUID(m.id)})
				g, ok := resp.(*silence_ops.GetSilenceOK)
				if !ok {
					run.Violate("get-silence-failed", fmt.Sprintf("%s: GET /silence/%s answered %T", when, m.id, resp), c)
					continue
				}
				if got := *g.Payload.Status.State; got != want {
					run.Violate("api-state-differs-from-store-state", fmt.Sprintf("%s at %v: GET /silence/{id} shows the silence that %s (start %v, end %v) as %s; the store (and the instants) say %s",
						when, now.UTC(), m.name, cur[0].StartsAt.AsTime(), cur[0].EndsAt.AsTime(), got, want), c)
				}
				if got, ok := listed[m.id]; ok && got != want {
					run.Violate("api-state-differs-from-store-state", fmt.Sprintf("%s: GET /silences shows the silence that %s as %s; the store says %s", when, m.name, got, want), c)
				} else if !ok {
					run.Violate("stored-silence-missing-from-get-silences", fmt.Sprintf("%s: the silence that %s is not listed", when, m.name), c)
				}
				run.Count("far_engine_states", want)
			}
		}
		judge("right after creation")
		time.Sleep(90 * time.Minute)
		judge("90 minutes later")
		for i, m := range all { // expire half of them through DELETE
			if i%2 == 0 {
				api.VerifDeleteSilence(silence_ops.DeleteSilenceParams{HTTPRequest: req, SilenceID: strfmt.UUID(m.id)})
			}
		}
		time.Sleep(time.Second)
		judge("after DELETE of every other one")
	})
	run.CountN("far_engine", "runs", 1)
}

func directRun(t *testing.T, run *vh.Run, p DirectParams) {
	if p.Kind == "far" {
		farRun(t, run, p)
	} else {
		scaleRun(t, run, p)
	}
}
