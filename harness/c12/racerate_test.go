//go:build verif

package c12

import (
	"os"
	"strconv"
	"testing"

	"verifharness/vh"
)

// TestRaceRate measures how often ONE round of the concurrent engine exposes a defect (run it against a mutated
// tree: VERIF_RACE_MEASURE=<trials>). Not part of the check.
func TestRaceRate(t *testing.T) {
	n, _ := strconv.Atoi(os.Getenv("VERIF_RACE_MEASURE"))
	if n == 0 {
		t.Skip("set VERIF_RACE_MEASURE=<trials>")
	}
	hits, ms := 0, int64(0)
	for k := 0; k < n; k++ {
		p := racePlan(vh.Env{Tier: "quick", Seed: uint64(k + 1)})
		p.Rounds, p.BudgetMs = 1, 0
		r := raceRun(t, p)
		ms += r.Millis
		if r.OldNotExpired+r.NewMissing > 0 {
			hits++
		}
	}
	t.Logf("single-round hit rate: %d / %d, %d ms per round", hits, n, ms/int64(n))
}
