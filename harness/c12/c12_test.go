//go:build verif

// Package c12: correspondence + direct oracle for C12 (silence lifecycle) against the real silence.Silences
// and the real api/v2 silence handlers.
package c12

import (
	"bytes"
	"context"
	"errors"
	"fmt"
	"io"
	"net/http"
	"regexp"
	"sort"
	"strings"
	"testing"
	"testing/synctest"
	"time"
	"unicode/utf8"

	"github.com/go-openapi/strfmt"
	"github.com/prometheus/client_golang/prometheus"
	"github.com/prometheus/common/model"
	"github.com/prometheus/common/promslog"
	"google.golang.org/protobuf/encoding/protodelim"
	"google.golang.org/protobuf/proto"
	"google.golang.org/protobuf/types/known/timestamppb"

	v2 "github.com/prometheus/alertmanager/api/v2"
	open_api_models "github.com/prometheus/alertmanager/api/v2/models"
	silence_ops "github.com/prometheus/alertmanager/api/v2/restapi/operations/silence"
	"github.com/prometheus/alertmanager/silence"
	pb "github.com/prometheus/alertmanager/silence/silencepb"

	"verifharness/appsys"
	"verifharness/vh"
)

// ---------- replayable form ----------

type Mat struct {
	T int    `json:"t"` // silencepb.Matcher_Type: 0 =, 1 =~, 2 !=, 3 !~
	N string `json:"n"`
	V string `json:"v"`
}

type Sil struct {
	ID      string            `json:"id"` // "#k" (k-th id created in this history), "" or a literal
	Sets    [][]Mat           `json:"sets"`
	Start   int64             `json:"start"` // unix ns, 0 = unset
	End     int64             `json:"end"`
	By      string            `json:"by"`
	Comment string            `json:"comment"`
	Ann     map[string]string `json:"ann,omitempty"`
}

type QP struct {
	Kind   string            `json:"kind"` // ids|since|state|matches
	IDs    []string          `json:"ids,omitempty"`
	Since  int               `json:"since,omitempty"`
	States []string          `json:"states,omitempty"`
	Labels map[string]string `json:"labels,omitempty"`
}

type Op struct {
	Kind   string `json:"kind"` // set|expire|gc|query|reload|apipost|apidelete|apiget
	Dt     int64  `json:"dt"`
	Sil    *Sil   `json:"sil,omitempty"`
	ID     string `json:"id,omitempty"`
	Params []QP   `json:"params,omitempty"`
	Dead   int    `json:"dead,omitempty"`  // set / apipost: 1 = the caller's context is ALREADY cancelled; 2 = it is cancelled during the call (at the call's first broadcast)
	Limit  int    `json:"limit,omitempty"` // kind limit: the new Limits.MaxSilenceSizeBytes
	Now    int64  `json:"now,omitempty"` // observed
	Out    string `json:"out,omitempty"` // observed (informational)
}

type Case struct {
	Retention int64 `json:"retention"`
	MaxSil    int   `json:"max_silences"`
	MaxSize   int   `json:"max_size"`
	// Race != nil: not a history but a run of the concurrent engine (race_test.go) with these parameters
	Race *RaceParams `json:"race,omitempty"`
	// Direct != nil: a run of a direct-oracle engine (scale_test.go: scale | far) with these parameters
	Direct *DirectParams `json:"direct,omitempty"`
	Ops       []Op  `json:"ops"`
}

// ---------- pools ----------

var (
	goodNames = []string{"a", "b"}
	badNames  = []string{"0a", ""}
	eqValues  = []string{"1", "2", "x1", ""}
	badValue  = "@@badutf8" // stands for the byte 0xff (JSON cannot carry it); see unq
	rePats    = []string{"1|2", ".*", "x.+", "", "[12]?", "1", ".+", "x.*", ".*1", ".*x1.*", "2", "x1"}
	badPats   = []string{"(", "a{2,1}"}
	lblValues = []string{"1", "2", "x1", "x1\n", "1\n2"} // incl. values with a line break ("." never matches one)
	comments  = []string{"c", "maintenance", "", "é", strings.Repeat("long comment ", 12)}
	creators  = []string{"alice", "bob"}
)

// unq turns the replayable spelling of a string into the real one.
func unq(s string) string { return strings.ReplaceAll(s, "@@badutf8", "\xff") }

func allStrings() []string {
	var out []string
	out = append(out, goodNames...)
	out = append(out, badNames...)
	out = append(out, eqValues...)
	out = append(out, badValue)
	out = append(out, rePats...)
	out = append(out, badPats...)
	out = append(out, comments...)
	out = append(out, creators...)
	out = append(out, "k", "v")
	for i := range out {
		out[i] = unq(out[i])
	}
	return out
}

var classicName = regexp.MustCompile(`^[a-zA-Z_][a-zA-Z0-9_]*$`)

// extTable renders the oracle tables (computed with the real libraries, independently of the code under test).
func extTable(t *testing.T) string {
	pats := append(append([]string{}, rePats...), badPats...)
	// every value a matcher can carry may become a regex through an operator-only edit
	seenPat := map[string]bool{}
	for _, p := range pats {
		seenPat[p] = true
	}
	extra := append([]string{}, eqValues...)
	for _, fam := range lookalikes {
		for _, cfg := range fam {
			for _, set := range cfg {
				for _, m := range set {
					extra = append(extra, m.V)
				}
			}
		}
	}
	for _, v := range extra {
		if !seenPat[v] && utf8.ValidString(v) {
			seenPat[v] = true
			pats = append(pats, v)
		}
	}
	vals := append([]string{""}, lblValues...)
	var badRe, reEmpty, badName, badUtf8 []string
	for _, p := range pats {
		_, e1 := regexp.Compile(p)
		_, e2 := regexp.Compile("^(?:" + p + ")$")
		if (e1 == nil) != (e2 == nil) {
			t.Fatalf("model assumption broken: %q compiles alone=%v anchored=%v", p, e1 == nil, e2 == nil)
		}
		if e1 != nil {
			badRe = append(badRe, p)
			continue
		}
		if ok, _ := regexp.MatchString(p, ""); ok {
			reEmpty = append(reEmpty, p)
		}
	}
	for _, s := range allStrings() {
		if !classicName.MatchString(s) {
			badName = append(badName, s)
		}
		if !utf8.ValidString(s) {
			badUtf8 = append(badUtf8, s)
		}
	}
	return vh.App("mkExtT", reTable(pats, vals), vh.ListOf(badRe, vh.StrLit), vh.ListOf(reEmpty, vh.StrLit),
		vh.ListOf(badName, vh.StrLit), vh.ListOf(badUtf8, vh.StrLit))
}

func reTable(patterns, values []string) string {
	var parts []string
	for _, p := range patterns {
		re, err := regexp.Compile("^(?:" + p + ")$")
		if err != nil {
			continue
		}
		for _, v := range values {
			parts = append(parts, "("+vh.StrLit(p)+", "+vh.StrLit(v)+", "+vh.Bool(re.MatchString(v))+")")
		}
	}
	return vh.List(parts)
}

// ---------- Coq rendering ----------

var mtypes = []string{"MEq", "MRe", "MNeq", "MNre"}

func coqMat(m *pb.Matcher) string {
	return vh.App("mkM", mtypes[int(m.Type)], vh.Str(m.Name), vh.Str(m.Pattern))
}

func coqSets(sets []*pb.MatcherSet) string {
	return vh.ListOf(sets, func(ms *pb.MatcherSet) string { return vh.ListOf(ms.Matchers, coqMat) })
}

func tsZ(ts *timestamppb.Timestamp) int64 {
	if ts == nil || ts.AsTime().IsZero() {
		return 0
	}
	return ts.AsTime().UnixNano()
}

func coqAnn(m map[string]string) string {
	ks := vh.SortedKeys(m)
	parts := make([]string, len(ks))
	for i, k := range ks {
		parts[i] = vh.Pair(vh.Str(k), vh.Str(m[k]))
	}
	return vh.List(parts)
}

type runner struct {
	t         *testing.T
	c         *Case
	s         *silence.Silences
	api       *v2.API
	canon     map[string]string // uuid -> "#k"
	real      map[string]string // "#k" -> uuid
	bcast     [][]byte
	hist      []string
	tags      map[string]int
	viol      []vh.Violation
	ret       time.Duration
	onBcast   func()            // called by the broadcast callback (used to cancel a caller's context mid-call)
	maxSize   int               // the current Limits.MaxSilenceSizeBytes (starts as c.MaxSize; op kind limit changes it)
	firstSets map[string]string // canonical id -> matcher sets when first seen
}

func (r *runner) cid(id string) string {
	if c, ok := r.canon[id]; ok {
		return c
	}
	return id
}
func (r *runner) rid(c string) string {
	if u, ok := r.real[c]; ok {
		return u
	}
	return c
}
func (r *runner) peek() string { return fmt.Sprintf("#%d", len(r.canon)) }
func (r *runner) alloc(uuid string) string {
	if c, ok := r.canon[uuid]; ok {
		return c
	}
	c := r.peek()
	r.canon[uuid] = c
	r.real[c] = uuid
	return c
}

func (r *runner) coqSil(s *pb.Silence) string {
	return vh.App("mkSil", vh.Str(r.cid(s.Id)), coqSets(s.MatcherSets), vh.Z(tsZ(s.StartsAt)), vh.Z(tsZ(s.EndsAt)),
		vh.Z(tsZ(s.UpdatedAt)), vh.Str(s.CreatedBy), vh.Str(s.Comment), coqAnn(s.Annotations))
}

func (r *runner) coqMesh(m *pb.MeshSilence) string {
	return vh.App("mkMsil", r.coqSil(m.Silence), vh.Z(tsZ(m.ExpiresAt)))
}

func (r *runner) toPB(s *Sil) *pb.Silence {
	p := &pb.Silence{Id: r.rid(s.ID), CreatedBy: unq(s.By), Comment: unq(s.Comment)}
	if s.Start != 0 {
		p.StartsAt = timestamppb.New(time.Unix(0, s.Start))
	}
	if s.End != 0 {
		p.EndsAt = timestamppb.New(time.Unix(0, s.End))
	}
	if len(s.Ann) > 0 {
		p.Annotations = s.Ann
	}
	for _, set := range s.Sets {
		ms := &pb.MatcherSet{}
		for _, m := range set {
			ms.Matchers = append(ms.Matchers, &pb.Matcher{Type: pb.Matcher_Type(m.T), Name: m.N, Pattern: unq(m.V)})
		}
		p.MatcherSets = append(p.MatcherSets, ms)
	}
	return p
}

func fromPB(r *runner, p *pb.Silence) *Sil {
	s := &Sil{ID: r.cid(p.Id), Start: tsZ(p.StartsAt), End: tsZ(p.EndsAt), By: p.CreatedBy, Comment: p.Comment}
	if len(p.Annotations) > 0 {
		s.Ann = map[string]string{}
		for k, v := range p.Annotations {
			s.Ann[k] = v
		}
	}
	for _, ms := range p.MatcherSets {
		var set []Mat
		for _, m := range ms.Matchers {
			set = append(set, Mat{T: int(m.Type), N: m.Name, V: m.Pattern})
		}
		s.Sets = append(s.Sets, set)
	}
	return s
}

func (r *runner) takeBroadcasts() []string {
	var out []string
	for _, b := range r.bcast {
		br := bytes.NewReader(b)
		for {
			var m pb.MeshSilence
			err := protodelim.UnmarshalFrom(br, &m)
			if err != nil {
				if !errors.Is(err, io.EOF) {
					r.violate("broadcast-undecodable", "a broadcast payload does not decode: "+err.Error())
				}
				break
			}
			out = append(out, r.coqMesh(&m))
		}
	}
	r.bcast = nil
	return out
}

func (r *runner) violate(key, what string) {
	r.viol = append(r.viol, vh.Violation{Key: key, What: what, Case: r.c})
}

func classify(err error) string {
	switch {
	case err == nil:
		return ""
	case errors.Is(err, silence.ErrNotFound):
		return "notfound"
	}
	return classifyText(err.Error())
}

func classifyText(msg string) string {
	switch {
	case strings.Contains(msg, "silence not found"):
		return "notfound"
	case strings.Contains(msg, "invalid silence:"):
		return "invalid"
	case strings.Contains(msg, "exceeded maximum number of silences"):
		return "toomany"
	case strings.Contains(msg, "silence exceeded maximum size"):
		return "toobig"
	case strings.Contains(msg, "invalid UTF-8"):
		return "marshal"
	case strings.Contains(msg, "start time must be before end time"):
		return "badrange"
	case strings.Contains(msg, "end time can't be in the past"):
		return "pastend"
	case strings.Contains(msg, "QIDs filter must have") || strings.Contains(msg, "QSince cannot be used"):
		return "param"
	case strings.Contains(msg, "multiple matcher sets"):
		return "multi"
	}
	// The wording of an error is not behaviour: an unrecognised text is "rejected, reason not classified", which the
	// comparison (Run/C12Run.v out_compat) accepts against any model rejection - never against a success.
	return "?"
}

func (r *runner) newSilences(snapshot io.Reader) {
	opts := silence.Options{Retention: r.ret, Metrics: prometheus.NewRegistry(), SnapshotReader: snapshot}
	opts.Limits = silence.Limits{MaxSilences: func() int { return r.c.MaxSil }, MaxSilenceSizeBytes: func() int { return r.maxSize }}
	s, err := silence.New(opts)
	if err != nil {
		r.t.Fatalf("silence.New: %v", err)
	}
	s.SetBroadcast(func(b []byte) {
		r.bcast = append(r.bcast, append([]byte(nil), b...))
		if r.onBcast != nil {
			r.onBcast()
		}
	})
	r.s = s
	r.api = v2.VerifSilenceAPI(s, promslog.NewNopLogger())
}

// view: what an unfiltered Query returns (every silence in the version index, in index order)
type view struct {
	order []string // canonical ids
	sils  map[string]*pb.Silence
}

func (r *runner) observe(now int64) view {
	// internal bookkeeping
	st, mi, vi, ver := r.s.VerifDump()
	cst := make([]string, len(st))
	for i, id := range st {
		cst[i] = r.cid(id)
	}
	cmi := make([]string, len(mi))
	for i, id := range mi {
		cmi[i] = r.cid(id)
	}
	vis := make([]string, len(vi))
	for i, e := range vi {
		vis[i] = vh.Pair(vh.Z(int64(e.Version)), vh.Str(r.cid(e.ID)))
	}
	r.hist = append(r.hist, fmt.Sprintf("(%s, XDump, XDumped %s %s %s %s)", vh.Z(now), vh.ListOf(cst, vh.Str), vh.ListOf(cmi, vh.Str), vh.List(vis), vh.Z(int64(ver))))
	if len(st) != len(mi) || len(st) != len(vi) {
		r.violate("indexes-out-of-step", fmt.Sprintf("state has %d ids, matcher index %d, version index %d", len(st), len(mi), len(vi)))
	}
	// content
	sils, qver, err := r.s.Query(context.Background())
	if err != nil {
		r.violate("query-all-failed", err.Error())
	}
	v := view{sils: map[string]*pb.Silence{}}
	parts := make([]string, len(sils))
	for i, s := range sils {
		// history is immutable: the matchers reported for an id are the same at all later instants
		if r.firstSets == nil {
			r.firstSets = map[string]string{}
		}
		if first, ok := r.firstSets[r.cid(s.Id)]; !ok {
			r.firstSets[r.cid(s.Id)] = coqSets(s.MatcherSets)
		} else if first != coqSets(s.MatcherSets) {
			r.violate("stored-matchers-changed", fmt.Sprintf("the matchers of %s changed under its id: %s -> %s", r.cid(s.Id), first, coqSets(s.MatcherSets)))
		}
		parts[i] = r.coqSil(s)
		v.order = append(v.order, r.cid(s.Id))
		v.sils[r.cid(s.Id)] = s
	}
	r.hist = append(r.hist, fmt.Sprintf("(%s, XOp (OQuery []), XOut (RQuery %s %s))", vh.Z(now), vh.List(parts), vh.Z(int64(qver))))
	return v
}

var stateNames = map[string]silence.SilenceState{"pending": silence.SilenceStatePending, "active": silence.SilenceStateActive, "expired": silence.SilenceStateExpired}
var coqState = map[string]string{"pending": "SPending", "active": "SActive", "expired": "SExpired"}

// ---------- reference (direct oracle) ----------

func refState(s *pb.Silence, now int64) string {
	if now < tsZ(s.StartsAt) {
		return "pending"
	}
	if now > tsZ(s.EndsAt) {
		return "expired"
	}
	return "active"
}

func sameSets(a, b []*pb.MatcherSet) bool {
	if len(a) != len(b) {
		return false
	}
	for i := range a {
		if !proto.Equal(a[i], b[i]) {
			return false
		}
	}
	return true
}

func floorSec(ns int64) int64 {
	q := ns / 1e9
	if ns%1e9 < 0 {
		q--
	}
	return q
}

// editInPlace: the rule of the property, stated independently of the code: matchers unchanged and the times
// compatible with the state of the stored silence.
func editInPlace(old, req *pb.Silence, reqStart, now int64) bool {
	if !sameSets(old.MatcherSets, req.MatcherSets) {
		return false
	}
	switch refState(old, now) {
	case "active":
		return floorSec(tsZ(old.StartsAt)) == floorSec(reqStart) && tsZ(req.EndsAt) >= now
	case "pending":
		return reqStart >= now
	}
	return false
}

func (r *runner) sameSilence(a, b *pb.Silence) bool { return r.coqSil(a) == r.coqSil(b) }

// checkSet judges one Set / POST. req is the silence as submitted (before the call), id the id answered.
func (r *runner) checkSet(i int, prev, cur view, req *pb.Silence, reqCanon string, code string, gotCanon string, now int64, apiLayer bool) {
	what := func(s string) string { return fmt.Sprintf("op %d (%s): %s", i, r.c.Ops[i].Kind, s) }
	if code != "" {
		// every rejection leaves the store untouched
		r.checkUnchanged(i, prev, cur, "rejected-set-changed-store")
		if code == "marshal" {
			r.tags["set-marshal-error"]++
		}
		return
	}
	reqStart := tsZ(req.StartsAt)
	if reqStart == 0 {
		reqStart = now
	}
	old, known := prev.sils[reqCanon]
	if reqCanon != "" && !known {
		r.violate("unknown-id-accepted", what("Set of an unknown id succeeded"))
		return
	}
	if apiLayer && tsZ(req.EndsAt) < now {
		r.violate("past-end-accepted", what("POST of a silence ending in the past succeeded"))
	}
	if !known {
		// creation
		r.tags["create"]++
		if _, was := prev.sils[gotCanon]; was || gotCanon == "" {
			r.violate("create-id-not-fresh", what("created silence got an id that already existed"))
		}
		if n, ok := cur.sils[gotCanon]; ok {
			if tsZ(n.StartsAt) < now {
				r.violate("create-starts-in-past", what("created silence starts before now"))
			}
			if tsZ(n.StartsAt) != max(reqStart, now) || tsZ(n.EndsAt) != tsZ(req.EndsAt) || !sameSets(n.MatcherSets, req.MatcherSets) || n.Comment != req.Comment || n.CreatedBy != req.CreatedBy {
				r.violate("create-content-differs", what("created silence does not carry the submitted content"))
			}
		} else if tsZ(req.EndsAt)+int64(r.ret) >= now {
			r.violate("created-silence-not-stored", what("Set succeeded but the new silence is not queryable"))
		} else {
			r.tags["create-already-past-retention"]++
		}
		r.checkOthersUnchanged(i, prev, cur, map[string]bool{gotCanon: true}, "create-touched-other-silence")
		return
	}
	inPlace := editInPlace(old, req, reqStart, now)
	if inPlace != (gotCanon == reqCanon) {
		r.violate("edit-in-place-rule", what(fmt.Sprintf("id kept=%v but the rule says in-place=%v", gotCanon == reqCanon, inPlace)))
		return
	}
	sameInstant := tsZ(old.UpdatedAt) >= now // an update at the instant of the previous one is refused by the LWW store (I5)
	if inPlace {
		r.tags["edit-in-place/"+refState(old, now)]++
		n, ok := cur.sils[reqCanon]
		if !ok {
			r.violate("edited-silence-vanished", what("edited silence is gone"))
		} else if sameInstant {
			r.tags["edit-same-instant-refused"]++
			if !r.sameSilence(n, old) {
				r.violate("same-instant-edit-partially-applied", what("edit at the instant of the previous update changed the silence"))
			}
		} else if tsZ(n.StartsAt) != reqStart || tsZ(n.EndsAt) != tsZ(req.EndsAt) || n.Comment != req.Comment || n.CreatedBy != req.CreatedBy || tsZ(n.UpdatedAt) != now || !sameSets(n.MatcherSets, old.MatcherSets) {
			r.violate("edit-not-applied", what("in-place edit did not store the submitted content"))
		}
		r.checkOthersUnchanged(i, prev, cur, map[string]bool{reqCanon: true}, "edit-touched-other-silence")
		return
	}
	// history rewrite: old silence intact but expired, new id
	r.tags["edit-replace/"+refState(old, now)]++
	if _, was := prev.sils[gotCanon]; was {
		r.violate("replace-id-not-fresh", what("replacing silence got an id that already existed"))
	}
	o2, ok := cur.sils[reqCanon]
	if !ok {
		r.violate("replaced-silence-vanished", what("the replaced silence is gone"))
	} else {
		want := proto.Clone(old).(*pb.Silence)
		if refState(old, now) != "expired" && !sameInstant {
			if refState(old, now) == "pending" {
				want.StartsAt = timestamppb.New(time.Unix(0, now))
			}
			want.EndsAt = timestamppb.New(time.Unix(0, now))
			want.UpdatedAt = timestamppb.New(time.Unix(0, now))
		}
		if !r.sameSilence(o2, want) {
			r.violate("replaced-silence-not-intact-but-expired", what("the old silence is not (old content, end := now)"))
		}
		if sameInstant && refState(old, now) != "expired" {
			r.tags["replace-same-instant-old-not-expired"]++
		}
	}
	if n, ok := cur.sils[gotCanon]; ok {
		if tsZ(n.StartsAt) != max(reqStart, now) || tsZ(n.EndsAt) != tsZ(req.EndsAt) || !sameSets(n.MatcherSets, req.MatcherSets) {
			r.violate("replace-content-differs", what("the replacing silence does not carry the submitted content"))
		}
	} else if tsZ(req.EndsAt)+int64(r.ret) >= now {
		r.violate("created-silence-not-stored", what("Set succeeded but the replacing silence is not queryable"))
	}
	r.checkOthersUnchanged(i, prev, cur, map[string]bool{reqCanon: true, gotCanon: true}, "replace-touched-other-silence")
}

func (r *runner) checkUnchanged(i int, prev, cur view, key string) {
	r.checkOthersUnchanged(i, prev, cur, nil, key)
	if len(prev.sils) != len(cur.sils) {
		r.violate(key, fmt.Sprintf("op %d (%s): number of silences changed", i, r.c.Ops[i].Kind))
	}
}

func (r *runner) checkOthersUnchanged(i int, prev, cur view, except map[string]bool, key string) {
	for id, p := range prev.sils {
		if except[id] {
			continue
		}
		q, ok := cur.sils[id]
		if !ok || !r.sameSilence(p, q) {
			r.violate(key, fmt.Sprintf("op %d (%s): silence %s changed or vanished", i, r.c.Ops[i].Kind, id))
		}
	}
	for id := range cur.sils {
		if _, ok := prev.sils[id]; !ok && !except[id] {
			r.violate(key, fmt.Sprintf("op %d (%s): silence %s appeared", i, r.c.Ops[i].Kind, id))
		}
	}
}

// general lifecycle invariants judged after every op
func (r *runner) checkLifecycle(i int, prev, cur view, now int64, gcRan bool, gcN int) {
	kind := r.c.Ops[i].Kind
	removed := 0
	for id, p := range prev.sils {
		q, ok := cur.sils[id]
		exp := tsZ(p.EndsAt) + int64(r.ret)
		if !ok {
			removed++
			if !gcRan {
				r.violate("silence-vanished-without-gc", fmt.Sprintf("op %d (%s): %s disappeared", i, kind, id))
			} else if exp > now {
				r.violate("gc-before-retention", fmt.Sprintf("op %d: %s collected before end+retention", i, id))
			}
			if st := refState(p, now); st != "expired" && r.ret > 0 {
				r.violate("gc-collected-live-silence", fmt.Sprintf("op %d: %s silence %s collected", i, st, id))
			}
			continue
		}
		if gcRan && exp <= now {
			r.violate("gc-kept-past-retention", fmt.Sprintf("op %d: %s kept although end+retention <= now", i, id))
		}
		if refState(p, now) == "expired" && !r.sameSilence(p, q) {
			r.violate("expired-silence-modified", fmt.Sprintf("op %d (%s): expired silence %s changed (history rewritten / re-activated)", i, kind, id))
		}
	}
	if gcRan && removed != gcN {
		r.violate("gc-count", fmt.Sprintf("op %d: GC reported %d, %d vanished", i, gcN, removed))
	}
}

// ---------- executing one op ----------

func (r *runner) exec(i int, prev view) view {
	op := &r.c.Ops[i]
	time.Sleep(time.Duration(op.Dt))
	now := time.Now().UnixNano()
	op.Now = now
	if op.Kind == "limit" { // the operator reconfigures the size limit (Limits holds functions, read at every call)
		r.maxSize = op.Limit
		r.hist = append(r.hist, fmt.Sprintf("(%s, XLimit %s, XLimited)", vh.Z(now), vh.Z(int64(op.Limit))))
		r.tags["op/limit"]++
		return prev
	}
	r.bcast = nil
	ctx := context.Background()
	req, _ := http.NewRequest("GET", "/api/v2/silences", nil)
	// an abandoned caller: the store does not look at the context, so the call behaves like any other. Should a Set ever
	// answer the context's error instead, it must have done NOTHING (all-or-nothing): then the call is left out of the
	// history the model sees, and the store must be exactly as before.
	abandoned := false
	if op.Dead != 0 && (op.Kind == "set" || op.Kind == "apipost") {
		c, cancel := context.WithCancel(ctx)
		defer cancel()
		if op.Dead == 1 {
			cancel()
		} else {
			r.onBcast = cancel
			defer func() { r.onBcast = nil }()
		}
		ctx = c
		req = req.WithContext(c)
		r.tags[fmt.Sprintf("%s/caller-context-cancelled-%d", op.Kind, op.Dead)]++
	}
	var opTerm, outTerm string
	gcRan, gcN := false, 0
	type setJudge struct {
		req      *pb.Silence
		reqCanon string
		code     string
		got      string
		api      bool
	}
	var sj *setJudge
	var expJudge *struct{ id, code string }
	switch op.Kind {
	case "set":
		sil := r.toPB(op.Sil)
		before := proto.Clone(sil).(*pb.Silence)
		inTerm := r.coqSil(sil)
		reqID := sil.Id
		err := r.s.Set(ctx, sil)
		code := classify(err)
		if op.Dead != 0 && err != nil && (errors.Is(err, context.Canceled) || strings.Contains(err.Error(), "context canceled")) {
			abandoned = true
		}
		fresh := r.peek()
		var sz int64
		if err == nil || code == "toobig" || code == "?" { // "?": possibly a size rejection with another wording
			sz = int64(proto.Size(&pb.MeshSilence{Silence: sil, ExpiresAt: timestamppb.New(sil.EndsAt.AsTime().Add(r.ret))}))
		}
		if err == nil {
			if sil.Id != reqID {
				fresh = r.alloc(sil.Id)
			}
			outTerm = vh.App("RSetOk", vh.Str(r.cid(sil.Id)), vh.List(r.takeBroadcasts()))
			sj = &setJudge{before, op.Sil.ID, "", r.cid(sil.Id), false}
		} else {
			outTerm = vh.App("RErr", vh.Str(code))
			sj = &setJudge{before, op.Sil.ID, code, "", false}
			r.tags["set-err/"+code]++
			if len(r.bcast) > 0 && code != "marshal" {
				r.violate("rejected-set-broadcast", fmt.Sprintf("op %d: a rejected Set broadcast something", i))
			}
		}
		opTerm = vh.App("OSet", inTerm, vh.Str(fresh), vh.Z(sz))
	case "apipost":
		sil := r.toPB(op.Sil)
		before := proto.Clone(sil).(*pb.Silence)
		start := strfmt.DateTime(time.Time{})
		if op.Sil.Start != 0 {
			start = strfmt.DateTime(time.Unix(0, op.Sil.Start).UTC())
		}
		end := strfmt.DateTime(time.Time{})
		if op.Sil.End != 0 {
			end = strfmt.DateTime(time.Unix(0, op.Sil.End).UTC())
		}
		cm, by := unq(op.Sil.Comment), unq(op.Sil.By)
		ps := &open_api_models.PostableSilence{ID: sil.Id, Silence: open_api_models.Silence{
			Comment: &cm, CreatedBy: &by, StartsAt: &start, EndsAt: &end, Annotations: op.Sil.Ann}}
		if len(op.Sil.Sets) != 1 {
			r.t.Fatalf("apipost needs exactly one matcher set")
		}
		for _, m := range op.Sil.Sets[0] {
			m := m
			m.V = unq(m.V)
			isEq, isRe := m.T == 0 || m.T == 1, m.T == 1 || m.T == 3
			ps.Matchers = append(ps.Matchers, &open_api_models.Matcher{Name: &m.N, Value: &m.V, IsEqual: &isEq, IsRegex: &isRe})
		}
		// the API always submits one (possibly empty) matcher set and a non-nil annotation map
		if len(sil.MatcherSets) == 0 {
			sil.MatcherSets = []*pb.MatcherSet{{}}
			before.MatcherSets = []*pb.MatcherSet{{}}
		}
		inTerm := r.coqSil(sil)
		resp := r.api.VerifPostSilences(silence_ops.PostSilencesParams{HTTPRequest: req, Silence: ps})
		fresh := r.peek()
		switch x := resp.(type) {
		case *silence_ops.PostSilencesOK:
			id := x.Payload.SilenceID
			if id != sil.Id {
				fresh = r.alloc(id)
			}
			outTerm = vh.App("RSetOk", vh.Str(r.cid(id)), vh.List(r.takeBroadcasts()))
			sj = &setJudge{before, op.Sil.ID, "", r.cid(id), true}
		case *silence_ops.PostSilencesBadRequest:
			code := classifyText(x.Payload)
			if op.Dead != 0 && strings.Contains(x.Payload, "context canceled") {
				abandoned = true
			}
			if code == "?" || code == "notfound" {
				code = "?400" // a 400 answer: any reason, but not the not-found one (that is a 404)
			}
			outTerm = vh.App("RErr", vh.Str(code))
			sj = &setJudge{before, op.Sil.ID, code, "", true}
			r.tags["apipost-err/"+code]++
		case *silence_ops.PostSilencesNotFound:
			outTerm = vh.App("RErr", vh.Str("notfound"))
			sj = &setJudge{before, op.Sil.ID, "notfound", "", true}
			r.tags["apipost-err/notfound"]++
		default:
			r.t.Fatalf("unexpected POST response %T", resp)
		}
		opTerm = vh.App("OApiPost", inTerm, vh.Str(fresh), "0")
	case "expire", "apidelete":
		id := r.rid(op.ID)
		var code string
		if op.Kind == "expire" {
			code = classify(r.s.Expire(ctx, id))
			opTerm = vh.App("OExpire", vh.Str(op.ID))
		} else {
			resp := r.api.VerifDeleteSilence(silence_ops.DeleteSilenceParams{HTTPRequest: req, SilenceID: strfmt.UUID(id)})
			switch x := resp.(type) {
			case *silence_ops.DeleteSilenceOK:
			case *silence_ops.DeleteSilenceNotFound:
				code = "notfound"
			case *silence_ops.DeleteSilenceInternalServerError:
				code = classifyText(x.Payload)
			default:
				r.t.Fatalf("unexpected DELETE response %T", resp)
			}
			opTerm = vh.App("OApiDelete", vh.Str(op.ID))
		}
		if code == "" {
			outTerm = vh.App("RExpireOk", vh.List(r.takeBroadcasts()))
		} else {
			outTerm = vh.App("RErr", vh.Str(code))
			r.tags["expire-err/"+code]++
		}
		expJudge = &struct{ id, code string }{op.ID, code}
	case "gc":
		n, err := r.s.GC()
		opTerm, outTerm = "OGC", vh.App("RGC", vh.Nat(n), vh.Bool(err != nil))
		gcRan, gcN = true, n
		r.tags["gc"]++
		if n > 0 {
			r.tags["gc-removed"]++
		}
		if err != nil {
			r.violate("gc-error", fmt.Sprintf("op %d: GC reported %v", i, err))
		}
	case "query":
		var params []silence.QueryParam
		var terms []string
		for _, p := range op.Params {
			switch p.Kind {
			case "ids":
				ids := make([]string, len(p.IDs))
				for j, id := range p.IDs {
					ids[j] = r.rid(id)
				}
				params = append(params, silence.QIDs(ids...))
				terms = append(terms, vh.App("QIDs", vh.ListOf(p.IDs, vh.Str)))
			case "since":
				params = append(params, silence.QSince(p.Since))
				terms = append(terms, vh.App("QSince", vh.Z(int64(p.Since))))
			case "state":
				var sts []silence.SilenceState
				var cs []string
				for _, s := range p.States {
					sts = append(sts, stateNames[s])
					cs = append(cs, coqState[s])
				}
				params = append(params, silence.QState(sts...))
				terms = append(terms, vh.App("QState", vh.List(cs)))
			case "matches":
				ls := model.LabelSet{}
				for k, v := range p.Labels {
					ls[model.LabelName(k)] = model.LabelValue(v)
				}
				params = append(params, silence.QMatches(ls))
				ks := vh.SortedKeys(p.Labels)
				parts := make([]string, len(ks))
				for j, k := range ks {
					parts[j] = vh.Pair(vh.Str(k), vh.Str(p.Labels[k]))
				}
				terms = append(terms, vh.App("QMatches", vh.List(parts)))
			}
		}
		sils, ver, err := r.s.Query(ctx, params...)
		opTerm = vh.App("OQuery", vh.List(terms))
		if err != nil {
			outTerm = vh.App("RErr", vh.Str(classify(err)))
			r.tags["query-err/"+classify(err)]++
		} else {
			outTerm = vh.App("RQuery", vh.ListOf(sils, r.coqSil), vh.Z(int64(ver)))
			r.tags["query"]++
			r.checkQuery(i, prev, op.Params, sils, now)
		}
	case "reload":
		var buf bytes.Buffer
		if _, err := r.s.Snapshot(&buf); err != nil {
			r.t.Fatalf("Snapshot: %v", err)
		}
		r.newSilences(&buf)
		sils, _, _ := r.s.Query(ctx)
		order := make([]string, len(sils))
		for j, s := range sils {
			order[j] = r.cid(s.Id)
		}
		opTerm, outTerm = vh.App("OReload", vh.ListOf(order, vh.Str)), "RReloaded"
		r.tags["reload"]++
	case "apiget":
		id := r.rid(op.ID)
		resp := r.api.VerifGetSilence(silence_ops.GetSilenceParams{HTTPRequest: req, SilenceID: strfmt.UUID(id)})
		opTerm = vh.App("OApiGet", vh.Str(op.ID))
		switch x := resp.(type) {
		case *silence_ops.GetSilenceOK:
			g := x.Payload
			sil := &pb.Silence{Id: *g.ID, StartsAt: timestamppb.New(time.Time(*g.StartsAt)), EndsAt: timestamppb.New(time.Time(*g.EndsAt)),
				UpdatedAt: timestamppb.New(time.Time(*g.UpdatedAt)), Comment: *g.Comment, CreatedBy: *g.CreatedBy, Annotations: g.Annotations}
			ms := &pb.MatcherSet{}
			for _, m := range g.Matchers {
				ty := pb.Matcher_EQUAL
				switch {
				case *m.IsEqual && *m.IsRegex:
					ty = pb.Matcher_REGEXP
				case !*m.IsEqual && !*m.IsRegex:
					ty = pb.Matcher_NOT_EQUAL
				case !*m.IsEqual && *m.IsRegex:
					ty = pb.Matcher_NOT_REGEXP
				}
				ms.Matchers = append(ms.Matchers, &pb.Matcher{Type: ty, Name: *m.Name, Pattern: *m.Value})
			}
			sil.MatcherSets = []*pb.MatcherSet{ms}
			outTerm = vh.App("RApiGet", r.coqSil(sil), coqState[*g.Status.State])
			r.tags["apiget/"+*g.Status.State]++
			if p, ok := prev.sils[op.ID]; ok && len(p.MatcherSets) == 1 {
				// the API reports the end instant itself as expired (CurrentState is half-open); otherwise as getState
				want := refState(p, now)
				if now == tsZ(p.EndsAt) {
					want = "expired"
				}
				if *g.Status.State != want {
					r.violate("api-status", fmt.Sprintf("op %d: GET reports %s, reference %s", i, *g.Status.State, want))
				}
			}
		case *silence_ops.GetSilenceNotFound:
			outTerm = vh.App("RErr", vh.Str("notfound"))
			r.tags["apiget/notfound"]++
			if _, ok := prev.sils[op.ID]; ok {
				r.violate("stored-silence-not-queryable", fmt.Sprintf("op %d: GET says not found for stored %s", i, op.ID))
			}
		case *silence_ops.GetSilenceInternalServerError:
			outTerm = vh.App("RErr", vh.Str(classifyText(x.Payload)))
			r.tags["apiget/error"]++
		default:
			r.t.Fatalf("unexpected GET response %T", resp)
		}
	default:
		r.t.Fatalf("unknown op kind %q", op.Kind)
	}
	op.Out = outTerm
	if abandoned {
		r.tags["abandoned-call-answered-context-error"]++
		r.bcast = nil
		cur := r.observe(now)
		r.checkUnchanged(i, prev, cur, "failed-set-changed-store")
		return cur
	}
	r.hist = append(r.hist, fmt.Sprintf("(%s, XOp %s, XOut %s)", vh.Z(now), opTerm, outTerm))
	r.tags["op/"+op.Kind]++
	cur := r.observe(now)

	// ---- direct oracle ----
	r.checkLifecycle(i, prev, cur, now, gcRan, gcN)
	if sj != nil {
		r.checkSet(i, prev, cur, sj.req, sj.reqCanon, sj.code, sj.got, now, sj.api)
	}
	if expJudge != nil {
		p, known := prev.sils[expJudge.id]
		switch {
		case !known && expJudge.code != "notfound":
			r.violate("expire-unknown-id-accepted", fmt.Sprintf("op %d: expire of unknown id answered %q", i, expJudge.code))
		case known && expJudge.code != "":
			r.violate("expire-known-id-rejected", fmt.Sprintf("op %d: expire of a stored id answered %q", i, expJudge.code))
		case known:
			q := cur.sils[expJudge.id]
			st := refState(p, now)
			r.tags["expire/"+st]++
			if st == "expired" {
				if q == nil || !r.sameSilence(p, q) {
					r.violate("expire-not-idempotent", fmt.Sprintf("op %d: expiring an expired silence changed it", i))
				}
			} else if tsZ(p.UpdatedAt) >= now {
				r.tags["expire-same-instant-refused"]++
			} else if q == nil || refState(q, now+1) != "expired" || tsZ(q.EndsAt) != now || !sameSets(q.MatcherSets, p.MatcherSets) ||
				(st == "active" && tsZ(q.StartsAt) != tsZ(p.StartsAt)) || (st == "pending" && tsZ(q.StartsAt) != now) {
				r.violate("expire-not-immediate", fmt.Sprintf("op %d: after Expire the silence is not (old content, end := now)", i))
			}
			r.checkOthersUnchanged(i, prev, cur, map[string]bool{expJudge.id: true}, "expire-touched-other-silence")
		default:
			r.checkUnchanged(i, prev, cur, "rejected-expire-changed-store")
		}
	}
	if sj == nil && expJudge == nil && !gcRan {
		r.checkUnchanged(i, prev, cur, "read-only-op-changed-store")
	}
	return cur
}

// checkQuery: the answer equals a direct evaluation over what the store showed before the query
func (r *runner) checkQuery(i int, prev view, ps []QP, got []*pb.Silence, now int64) {
	var ids []string
	var since *int
	for _, p := range ps {
		switch p.Kind {
		case "ids":
			ids = append(ids, p.IDs...)
		case "since":
			v := p.Since
			since = &v
		}
	}
	if since != nil {
		return // judged model-vs-code (needs the version index)
	}
	cand := prev.order
	if ids != nil {
		cand = ids
	}
	var want []string
	for _, id := range cand {
		s, ok := prev.sils[id]
		if !ok {
			continue
		}
		keep := true
		for _, p := range ps {
			switch p.Kind {
			case "state":
				in := false
				for _, st := range p.States {
					if st == refState(s, now) {
						in = true
					}
				}
				keep = keep && in
			case "matches":
				keep = keep && refMatches(s, p.Labels)
			}
		}
		if keep {
			want = append(want, r.coqSil(s))
		}
	}
	var have []string
	for _, s := range got {
		have = append(have, r.coqSil(s))
	}
	if strings.Join(want, "\n") != strings.Join(have, "\n") {
		r.violate("query-not-exact", fmt.Sprintf("op %d: Query answer differs from direct evaluation (%d vs %d silences)", i, len(have), len(want)))
	}
}

func refMatches(s *pb.Silence, ls map[string]string) bool {
	for _, set := range s.MatcherSets {
		all := true
		for _, m := range set.Matchers {
			v := ls[m.Name]
			var ok bool
			switch m.Type {
			case pb.Matcher_EQUAL:
				ok = v == m.Pattern
			case pb.Matcher_NOT_EQUAL:
				ok = v != m.Pattern
			default:
				re, err := regexp.Compile("^(?:" + m.Pattern + ")$")
				if err != nil {
					return false
				}
				ok = re.MatchString(v)
				if m.Type == pb.Matcher_NOT_REGEXP {
					ok = !ok
				}
			}
			all = all && ok
		}
		if all {
			return true
		}
	}
	return false
}

// ---------- generator (adaptive: sees the implementation's current silences) ----------

const epoch = 946684800_000_000_000 // synctest bubbles start at 2000-01-01T00:00:00Z

var dts = []int64{0, 0, 1, 999_999_999, int64(time.Second), 333_000_001, int64(time.Minute) + 1, int64(10 * time.Minute), int64(time.Hour)}

func genMat(g *vh.Rand, bad string) Mat {
	m := Mat{T: g.Intn(4), N: vh.Pick(g, goodNames)}
	if m.T == 1 || m.T == 3 {
		m.V = vh.Pick(g, []string{"1|2", "x.+", "[12]?", ".*", ""})
	} else {
		m.V = vh.Pick(g, eqValues)
	}
	switch bad {
	case "name":
		m.N = vh.Pick(g, badNames)
	case "value":
		m.T, m.V = vh.Pick(g, []int{0, 2}), badValue
	case "regex":
		m.T, m.V = vh.Pick(g, []int{1, 3}), vh.Pick(g, badPats)
	}
	return m
}

func nonEmptyMat(g *vh.Rand) Mat {
	return vh.Pick(g, []Mat{{0, "a", "1"}, {0, "b", "2"}, {1, "a", "1|2"}, {1, "b", "x.+"}, {2, "a", "1"}, {3, "b", "1|2"}, {0, "a", "x1"},
		{1, "a", ".+"}, {1, "b", "x.*"}, {3, "a", ".*1"}, {1, "a", ".*x1.*"}, {3, "b", "x.*"}})
}

// lookalikes: families of matcher configurations that are structurally DIFFERENT but look alike — they collide
// under a flattened rendering (name+operator+value joined by commas, as the log line prints them), under
// regrouping into OR-ed sets, under reordering, or differ only in the operator / in quoting characters.
// canUpdate must treat any two distinct members as different matchers (history rewrite, new id).
var lookalikes = [][][][]Mat{
	{ // all print as a=~x.+
		{{{0, "a", "~x.+"}}}, {{{1, "a", "x.+"}}},
	},
	{ // all print as a=1,b=2 (comma / equals inside a value, one set vs two sets, reordered)
		{{{0, "a", "1,b=2"}}}, {{{0, "a", "1"}, {0, "b", "2"}}}, {{{0, "a", "1"}}, {{0, "b", "2"}}},
		{{{0, "b", "2"}, {0, "a", "1"}}}, {{{0, "b", "2"}}, {{0, "a", "1"}}},
	},
	{ // same name and value, different operator
		{{{0, "a", "1"}}}, {{{2, "a", "1"}}}, {{{1, "a", "1"}}}, {{{3, "a", "1"}}},
	},
	{ // print as a!=1,b=~x.+ / operators glued to values
		{{{2, "a", "1"}, {1, "b", "x.+"}}}, {{{2, "a", "1,b=~x.+"}}}, {{{2, "a", "1"}}, {{1, "b", "x.+"}}}, {{{2, "a", "1"}, {0, "b", "~x.+"}}},
	},
	{ // quoting characters, braces and spaces
		{{{0, "a", "1\",b=\"2"}}}, {{{0, "a", "1"}, {0, "b", "2"}}}, {{{0, "a", "{1}"}}}, {{{0, "a", "{1} "}}}, {{{0, "a", " {1}"}}},
		{{{0, "a", "1"}, {0, "b", "2 "}}}, {{{0, "a", "1}, {b=2"}}},
	},
}

func sameMats(a, b [][]Mat) bool {
	if len(a) != len(b) {
		return false
	}
	for i := range a {
		if len(a[i]) != len(b[i]) {
			return false
		}
		for j := range a[i] {
			if a[i][j] != b[i][j] {
				return false
			}
		}
	}
	return true
}

// alike returns the other members of the family the configuration belongs to (single-set members only if one).
func alike(sets [][]Mat, one bool) [][][]Mat {
	for _, fam := range lookalikes {
		for _, m := range fam {
			if !sameMats(m, sets) {
				continue
			}
			var out [][][]Mat
			for _, o := range fam {
				if !sameMats(o, sets) && (!one || len(o) == 1) {
					out = append(out, o)
				}
			}
			return out
		}
	}
	return nil
}

func cloneMats(a [][]Mat) [][]Mat {
	out := make([][]Mat, len(a))
	for i := range a {
		out[i] = append([]Mat(nil), a[i]...)
	}
	return out
}

func genSets(g *vh.Rand, api bool) (sets [][]Mat, kind string) {
	k := g.Intn(32)
	if k >= 4 && k < 11 { // a member of a look-alike family
		for {
			m := vh.Pick(g, vh.Pick(g, lookalikes))
			if !api || len(m) == 1 {
				return cloneMats(m), "lookalike"
			}
		}
	}
	nsets := 1
	if !api && g.Chance(1, 4) {
		nsets = 2
	}
	for s := 0; s < nsets; s++ {
		set := []Mat{nonEmptyMat(g)}
		if g.Chance(1, 3) {
			set = append(set, genMat(g, ""))
		}
		sets = append(sets, set)
	}
	switch {
	case k == 0:
		if api {
			return [][]Mat{{}}, "empty-set"
		}
		return nil, "no-sets"
	case k == 1:
		sets[len(sets)-1] = []Mat{}
		return sets, "empty-set"
	case k == 2:
		sets[g.Intn(len(sets))] = vh.Pick(g, [][]Mat{{{0, "a", ""}}, {{1, "a", ".*"}, {0, "b", ""}}, {{1, "b", ""}}, {{1, "a", "[12]?"}}})
		return sets, "all-match-empty"
	case k == 3:
		i := g.Intn(len(sets))
		sets[i] = append(sets[i], genMat(g, vh.Pick(g, []string{"name", "value", "regex"})))
		return sets, "bad-matcher"
	}
	return sets, "ok"
}

func (r *runner) gen(g *vh.Rand, v view, now int64, created []string) Op {
	// choose the instant: often exactly at / around a boundary of an existing silence
	dt := vh.Pick(g, dts)
	if len(v.order) > 0 && g.Chance(2, 5) {
		s := v.sils[vh.Pick(g, v.order)]
		base := vh.Pick(g, []int64{tsZ(s.StartsAt), tsZ(s.EndsAt), tsZ(s.EndsAt) + int64(r.ret)})
		target := base + vh.Pick(g, []int64{-1, 0, 1})
		if target >= now {
			dt = target - now
		}
	}
	now += dt
	op := Op{Dt: dt}
	pickID := func() string {
		switch {
		case len(created) > 0 && g.Chance(9, 10):
			return vh.Pick(g, created) // may have been collected meanwhile
		case g.Chance(1, 2):
			return "9f8b5a2e-0000-4000-8000-00000000dead"
		}
		return "#99"
	}
	apiOK := r.c.MaxSize == 0
	k := g.Intn(20)
	switch {
	case k < 4 || len(created) == 0: // create
		op.Kind = "set"
		if apiOK && g.Chance(1, 3) {
			op.Kind = "apipost"
		}
		sets, _ := genSets(g, op.Kind == "apipost")
		start := vh.Pick(g, []int64{0, 0, now - int64(time.Hour), now - 1, now, now + 1, now + 1, now + int64(30*time.Minute), now + int64(30*time.Minute), now + int64(30*time.Minute) + 123456789, now + int64(time.Second)})
		ref := start
		if ref == 0 {
			ref = now
		}
		end := vh.Pick(g, []int64{ref + int64(time.Hour), ref + int64(time.Hour), ref + int64(time.Hour), ref + int64(2*time.Hour), ref + int64(time.Hour) + 1, now + int64(time.Hour), now + int64(time.Hour), ref + int64(10*time.Minute), ref + int64(10*time.Minute),
			now + 1, now, now - 1, ref, ref - 1, ref + 1, 0, now + int64(10*time.Minute), now - int64(2*time.Hour)})
		op.Sil = &Sil{ID: "", Sets: sets, Start: start, End: end, By: vh.Pick(g, creators), Comment: vh.Pick(g, comments)}
		if g.Chance(1, 6) {
			op.Sil.Ann = map[string]string{"k": "v"}
		}
		if g.Chance(1, 40) && op.Kind == "set" {
			op.Sil.Comment = badValue // not marshallable
		}
		if g.Chance(1, 15) {
			op.Sil.ID = pickID()
			if _, ok := v.sils[op.Sil.ID]; ok {
				op.Sil.ID = "#99"
			}
		}
	case k < 11: // edit
		op.Kind = "set"
		if apiOK && g.Chance(1, 3) {
			op.Kind = "apipost"
		}
		id := pickID()
		p, ok := v.sils[id]
		if !ok {
			sets, _ := genSets(g, op.Kind == "apipost")
			op.Sil = &Sil{ID: id, Sets: sets, Start: now, End: now + int64(time.Hour), By: "alice", Comment: "c"}
			break
		}
		s := fromPB(r, p)
		if op.Kind == "apipost" && len(s.Sets) != 1 {
			op.Kind = "set"
		}
		sec := floorSec(s.Start) * 1e9
		edits := g.Range(1, 2)
		if alt := alike(s.Sets, op.Kind == "apipost"); len(alt) > 0 && g.Chance(2, 3) {
			// adversarial edit: only the matchers change, into something that looks the same
			s.Sets = cloneMats(vh.Pick(g, alt))
			r.tags["edit-lookalike-matchers"]++
			edits = g.Intn(2)
		}
		for e := 0; e < edits; e++ {
			switch g.Intn(9) {
			case 7, 8: // ONLY the operator of one stored matcher changes (any of the other three): other meaning, must rewrite history
				if len(s.Sets) > 0 {
					si := g.Intn(len(s.Sets))
					if len(s.Sets[si]) > 0 && !strings.Contains(s.Sets[si][0].V, "@@") {
						mi := g.Intn(len(s.Sets[si]))
						s.Sets[si][mi].T = (s.Sets[si][mi].T + 1 + g.Intn(3)) % 4
						r.tags["edit-operator-only"]++
					}
				}
			case 0:
				s.Comment = vh.Pick(g, comments)
				s.By = vh.Pick(g, creators)
			case 1:
				s.End = vh.Pick(g, []int64{now - 1, now, now + 1, s.End + int64(time.Hour), now + int64(5*time.Minute), s.End - 1, s.Start, s.Start - 1})
			case 2:
				s.Start = vh.Pick(g, []int64{s.Start + 1, s.Start - 1, sec, sec + 999_999_999, sec + 1_000_000_000, sec - 1, now, now - 1, now + 1, 0, s.Start + int64(time.Minute)})
			case 3:
				s.Sets, _ = genSets(g, op.Kind == "apipost")
			case 4: // resubmit unchanged
			case 5:
				if len(s.Sets) > 0 && len(s.Sets[0]) > 0 && op.Kind == "set" {
					s.Sets = append(s.Sets, []Mat{nonEmptyMat(g)})
				}
			case 6:
				if g.Chance(1, 3) && op.Kind == "set" {
					s.Comment = badValue
					if g.Bool() {
						s.Sets = [][]Mat{{nonEmptyMat(g)}, {nonEmptyMat(g)}}
					}
				}
			}
		}
		if s.End < 0 { // instants before 1970 are outside the model's domain (0 = unset, real instants > 0)
			s.End = 1
		}
		if s.Start < 0 {
			s.Start = 1
		}
		op.Sil = s
	case k < 14:
		op.Kind = "expire"
		if g.Chance(1, 3) {
			op.Kind = "apidelete"
		}
		op.ID = pickID()
	case k < 16:
		op.Kind = "gc"
	case k < 17:
		op.Kind = "reload"
	case k < 18:
		op.Kind = "apiget"
		op.ID = pickID()
	default:
		op.Kind = "query"
		n := g.Range(1, 3)
		for j := 0; j < n; j++ {
			switch g.Intn(6) {
			case 0, 1:
				var ids []string
				for m := g.Intn(3); m >= 0; m-- {
					ids = append(ids, pickID())
				}
				if g.Chance(1, 10) {
					ids = nil
				}
				op.Params = append(op.Params, QP{Kind: "ids", IDs: ids})
			case 2:
				op.Params = append(op.Params, QP{Kind: "since", Since: g.Intn(len(created) + 3)})
			case 3, 4:
				var sts []string
				for _, s := range []string{"active", "pending", "expired"} {
					if g.Bool() {
						sts = append(sts, s)
					}
				}
				op.Params = append(op.Params, QP{Kind: "state", States: sts})
			default:
				ls := map[string]string{}
				for _, n := range goodNames {
					if g.Chance(2, 3) {
						ls[n] = vh.Pick(g, lblValues)
					}
				}
				op.Params = append(op.Params, QP{Kind: "matches", Labels: ls})
			}
		}
	}
	if (op.Kind == "set" || op.Kind == "apipost") && g.Chance(1, 4) {
		op.Dead = 1 + g.Intn(2) // the caller went away before / during the call
	}
	return op
}

// runCase executes a case; with g != nil the ops are generated on the fly (n of them) and recorded into c.
func runCase(t *testing.T, c *Case, g *vh.Rand, n int, ext string) (term string, viol []vh.Violation, tags map[string]int) {
	r := &runner{t: t, c: c, canon: map[string]string{}, real: map[string]string{}, tags: map[string]int{}, ret: time.Duration(c.Retention), maxSize: c.MaxSize}
	synctest.Test(t, func(t *testing.T) {
		r.t = t
		r.newSilences(nil)
		v := r.observe(time.Now().UnixNano())
		if g != nil {
			c.Ops = nil
		} else {
			n = len(c.Ops)
		}
		for i := 0; i < n; i++ {
			if g != nil {
				var created []string
				for k := 0; k < len(r.canon); k++ {
					created = append(created, fmt.Sprintf("#%d", k))
				}
				c.Ops = append(c.Ops, r.gen(g, v, time.Now().UnixNano(), created))
			}
			v = r.exec(i, v)
		}
	})
	cfg := vh.App("mkCfg", vh.Z(c.Retention), vh.Z(int64(c.MaxSil)), vh.Z(int64(c.MaxSize)))
	return fmt.Sprintf("mkCase %s %s [\n  %s]", cfg, ext, strings.Join(r.hist, ";\n  ")), r.viol, r.tags
}

// shortenedDeadlineCases: a silence with a far end; a GC while nothing is collectable (anything the store remembers
// about "nothing to collect before ..." is now armed); then its retention deadline moves EARLIER through an update of
// the existing silence - Expire, DELETE, or an in-place edit of the end; then GC at new end + retention -1 / 0 / +1 ns
// (and once more a little later): the silence must be collected exactly from its NEW deadline on, and must stop
// counting against MaxSilences (a create follows under MaxSilences = 1).
func shortenedDeadlineCases(g *vh.Rand) []Case {
	var out []Case
	mat := [][]Mat{{{0, "a", "1"}}}
	for _, ret := range []int64{int64(5 * time.Minute), int64(time.Hour), 1} {
		for _, how := range []string{"expire", "apidelete", "edit-end"} {
			for _, delta := range []int64{-1, 0, 1} {
				c := Case{Retention: ret, MaxSil: 1}
				now := int64(epoch)
				far := now + int64(vh.Pick(g, []time.Duration{2 * time.Hour, 26 * time.Hour}))
				c.Ops = append(c.Ops, Op{Kind: "set", Sil: &Sil{Sets: mat, Start: 0, End: far, By: "alice", Comment: "c"}})
				for i := g.Range(1, 2); i > 0; i-- { // early GC(s): nothing collectable
					dt := int64(g.Range(1, 90)) * 1_000_000_000
					now += dt
					c.Ops = append(c.Ops, Op{Kind: "gc", Dt: dt})
				}
				dt := int64(g.Range(1, 600))*1_000_000_000 + int64(g.Intn(3))
				now += dt
				newEnd := now
				switch how {
				case "expire", "apidelete":
					c.Ops = append(c.Ops, Op{Kind: how, Dt: dt, ID: "#0"})
				default:
					newEnd = now + int64(g.Range(0, 120))*1_000_000_000
					c.Ops = append(c.Ops, Op{Kind: "set", Dt: dt, Sil: &Sil{ID: "#0", Sets: mat, Start: epoch, End: newEnd, By: "alice", Comment: "shortened"}})
				}
				if g.Bool() {
					c.Ops = append(c.Ops, Op{Kind: "query", Dt: 0, Params: []QP{{Kind: "state", States: []string{"active", "expired"}}}})
				}
				target := newEnd + ret + delta
				c.Ops = append(c.Ops, Op{Kind: "gc", Dt: target - now})
				now = target
				c.Ops = append(c.Ops, Op{Kind: "apiget", ID: "#0"},
					Op{Kind: "set", Dt: 2, Sil: &Sil{Sets: mat, Start: 0, End: now + 2 + int64(time.Hour), By: "bob", Comment: "next"}}, // MaxSilences = 1
					Op{Kind: "gc", Dt: 1_000_000_000})
				out = append(out, c)
			}
		}
	}
	return out
}

// nearLimitCases: with Limits.MaxSilenceSizeBytes set, a silence whose stored form is 0..25 bytes under the limit is
// created at a whole-second instant (all its timestamps have zero nanos); then, at an instant with nanoseconds, it is
// expired (Expire / DELETE) or replaced by an edit with other matchers - the expired version is LARGER than the
// original (its timestamps gain a nanos field). The limit applies to what a user submits, not to expiring what is
// stored: the expiry must succeed. Also: the operator lowers the limit below the size of stored silences, then Expire.
func nearLimitCases(t *testing.T) []Case {
	const limit = 300
	ret := int64(time.Hour)
	t0 := int64(epoch) + 1_000_000_000
	pad := func(target int) string {
		for n := 0; n < limit; n++ {
			m := &pb.MeshSilence{Silence: &pb.Silence{Id: strings.Repeat("x", 36), MatcherSets: []*pb.MatcherSet{{Matchers: []*pb.Matcher{{Name: "a", Pattern: "1"}}}},
				StartsAt: timestamppb.New(time.Unix(0, t0)), EndsAt: timestamppb.New(time.Unix(0, t0+int64(2*time.Hour))), UpdatedAt: timestamppb.New(time.Unix(0, t0)),
				CreatedBy: "alice", Comment: strings.Repeat("p", n)}, ExpiresAt: timestamppb.New(time.Unix(0, t0+int64(2*time.Hour)+ret))}
			if proto.Size(m) > target { // the largest stored size <= target (length prefixes make sizes skip a value)
				if n == 0 {
					t.Fatalf("generator: even an empty comment exceeds %d bytes", target)
				}
				return strings.Repeat("p", n-1)
			}
		}
		return strings.Repeat("p", limit)
	}
	mat := [][]Mat{{{0, "a", "1"}}}
	var out []Case
	for _, under := range []int{0, 1, 4, 9, 14, 17, 25} {
		for _, how := range []string{"expire", "apidelete", "replace"} {
			c := Case{Retention: ret, MaxSize: limit}
			c.Ops = append(c.Ops, Op{Kind: "set", Dt: 1_000_000_000, Sil: &Sil{Sets: mat, Start: 0, End: t0 + int64(2*time.Hour), By: "alice", Comment: pad(limit - under)}})
			switch how {
			case "replace":
				c.Ops = append(c.Ops, Op{Kind: "set", Dt: 1_333_000_007, Sil: &Sil{ID: "#0", Sets: [][]Mat{{{0, "b", "2"}}}, Start: t0, End: t0 + int64(2*time.Hour), By: "alice", Comment: "c"}})
			default:
				c.Ops = append(c.Ops, Op{Kind: how, Dt: 1_333_000_007, ID: "#0"})
			}
			c.Ops = append(c.Ops, Op{Kind: "apiget", Dt: 1, ID: "#0"}, Op{Kind: "gc", Dt: ret + 2_000_000_000})
			out = append(out, c)
		}
	}
	for _, how := range []string{"expire", "apidelete", "replace"} { // the limit is lowered under the stored silences' size
		c := Case{Retention: ret, MaxSize: limit}
		c.Ops = append(c.Ops, Op{Kind: "set", Dt: 1_000_000_000, Sil: &Sil{Sets: mat, Start: 0, End: t0 + int64(2*time.Hour), By: "alice", Comment: pad(220)}},
			Op{Kind: "limit", Dt: 1, Limit: 150})
		switch how {
		case "replace":
			c.Ops = append(c.Ops, Op{Kind: "set", Dt: 1_333_000_007, Sil: &Sil{ID: "#0", Sets: [][]Mat{{{0, "b", "2"}}}, Start: t0, End: t0 + int64(2*time.Hour), By: "alice", Comment: "c"}})
		default:
			c.Ops = append(c.Ops, Op{Kind: how, Dt: 1_333_000_007, ID: "#0"})
		}
		c.Ops = append(c.Ops, Op{Kind: "apiget", Dt: 1, ID: "#0"}, Op{Kind: "limit", Limit: 0}, Op{Kind: "gc", Dt: ret + 2_000_000_000})
		out = append(out, c)
	}
	return out
}

func TestCheck(t *testing.T) {
	env := vh.GetEnv()
	run := vh.NewRun(env, "AM.Run.C12Run")
	// app engine: the REAL application wiring (package app) in real time, in its own process; reports through run.
	// true = the replay file held an app-engine case and has been handled.
	if appsys.Part(t, env, run, "C12") {
		return
	}
	ext := extTable(t)
	run.Imports = append(run.Imports, "Definition ext0 : ext_table := "+ext+".")
	finish := func(c *Case, term string, viol []vh.Violation, tags map[string]int) {
		nontrivial := tags["op/set"]+tags["op/apipost"] >= 2 && (tags["op/expire"]+tags["op/apidelete"]+tags["gc"] > 0)
		run.Add(term, c, nontrivial)
		for _, v := range viol {
			run.Violate(v.Key, v.What, v.Case)
		}
		ks := make([]string, 0, len(tags))
		for k := range tags {
			ks = append(ks, k)
		}
		sort.Strings(ks)
		for _, k := range ks {
			run.Count("cases_with", k)
		}
		run.Count("history_len", fmt.Sprintf("%02d-%02d", len(c.Ops)/5*5, len(c.Ops)/5*5+4))
	}
	if env.Replay != "" {
		var c Case
		if err := vh.LoadReplayCase(env.Replay, &c); err != nil {
			t.Fatal(err)
		}
		if c.Race != nil {
			judgeRace(t, run, *c.Race)
		} else if c.Direct != nil {
			directRun(t, run, *c.Direct)
		} else {
			term, viol, tags := runCase(t, &c, nil, 0, "ext0")
			finish(&c, term, viol, tags)
		}
	} else {
		for _, c := range vh.LoadCorpus[Case](env, "C12") {
			c := c
			term, viol, tags := runCase(t, &c, nil, 0, "ext0")
			finish(&c, term, viol, tags)
		}
		g := vh.NewRand(env.Seed)
		for _, c := range shortenedDeadlineCases(g.Fork()) {
			c := c
			term, viol, tags := runCase(t, &c, nil, 0, "ext0")
			tags["scripted/shortened-deadline"]++
			finish(&c, term, viol, tags)
		}
		for _, c := range nearLimitCases(t) {
			c := c
			term, viol, tags := runCase(t, &c, nil, 0, "ext0")
			tags["scripted/near-size-limit"]++
			finish(&c, term, viol, tags)
		}
		n := env.N(500, 10)
		maxOps := 14
		if env.Tier == "thorough" {
			maxOps = 30
		}
		for i := 0; i < n; i++ {
			cg := g.Fork()
			c := &Case{Retention: vh.Pick(cg, []int64{int64(time.Hour), int64(5 * time.Minute), 1, 0, int64(120 * time.Hour), int64(time.Hour)})}
			if cg.Chance(1, 5) {
				c.MaxSil = cg.Range(1, 3)
			}
			if cg.Chance(1, 5) {
				c.MaxSize = vh.Pick(cg, []int{120, 150, 200})
			}
			term, viol, tags := runCase(t, c, cg, cg.Range(4, maxOps), "ext0")
			finish(c, term, viol, tags)
		}
	}
	if env.Replay == "" {
		// concurrent engine: a history-rewriting Set racing an in-place Set / a peer Merge of the same id, on real cores
		judgeRace(t, run, racePlan(env))
		// direct-oracle engines: large stores with a mass expiry; far-future / pre-1970 instants through the API
		for _, p := range scalePlan(env) {
			directRun(t, run, p)
		}
		directRun(t, run, DirectParams{Kind: "far", Note: directNote})
	}
	amtoolSilencePart(t, run, env) // amtool_test.go: the real `amtool silence add / query / update` command line
	if err := run.Finish("adaptive random histories of Set/Expire/GC/Query/Reload and POST/DELETE/GET handler calls on 1-4 silences under synctest virtual time, instants at start/end/end+retention -1/0/+1 ns; after every op the st/mi/vi/version bookkeeping and the full content are read; non-trivial = at least two Set/POST and one Expire/DELETE/GC; distinct by full history text"); err != nil {
		t.Fatal(err)
	}
}
