//go:build verif

package c12

// Judged concurrent engine for C12 (real goroutines, real time, outside synctest).
//
// "An edit that rewrites history leaves the old silence intact but expired and creates a new id" must also hold when
// another writer touches the same id at the same time. Per round a fresh silence.Silences holds many active silences;
// for each of them two goroutines are released together by a spin barrier:
//   R: Set(id, DIFFERENT matchers) - a history rewrite. Its matchers are many regexes, so the part of Set that runs
//      before the store lock is taken (reading the clock, validating) takes long;
//   W: the other writer of the same id - either an in-place Set (comment edit, same matchers), or a Merge of a peer's
//      version of the id whose UpdatedAt is the instant just read from the clock.
// Set, Expire and Merge are atomic in the model; the linearisation-consistent outcomes are (Proofs/SilenceProofs.v:
// set_replace + expire_applies_true - the previous silence is expired whenever its UpdatedAt is before the instant
// of the expiry, which the code reads under the lock; set_update; Proofs/SilenceLwwProofs.v: merge is LWW):
//   R before W(in-place Set): R expires the old id; W then finds it expired and creates yet another id.
//   W(in-place Set) before R: W updates in place; R expires that newer version (its expiry instant is later still).
//       => either way the OLD ID IS EXPIRED afterwards, R answered a new id, and that id holds R's matchers.
//   W(Merge) before R: as above, old id expired.
//   R before W(Merge): R expired the old id at tE (and broadcast that expired copy); the peer's version wins iff its
//       UpdatedAt is later than tE - then the old id legitimately holds exactly the peer's version.
//       => old id expired, OR old id == the peer's version AND R broadcast an expired copy with UpdatedAt < the peer's.
// A violation's replay case is the engine's parameters (replaying reruns the engine; it is not a schedule).

import (
	"bytes"
	"context"
	"fmt"
	"sync"
	"sync/atomic"
	"testing"
	"time"

	"github.com/prometheus/client_golang/prometheus"
	"google.golang.org/protobuf/encoding/protodelim"
	"google.golang.org/protobuf/proto"
	"google.golang.org/protobuf/types/known/timestamppb"

	"github.com/prometheus/alertmanager/silence"
	pb "github.com/prometheus/alertmanager/silence/silencepb"

	"verifharness/vh"
)

type RaceParams struct {
	Seed     uint64 `json:"seed"`
	Rounds   int    `json:"rounds"`
	IDs      int    `json:"ids"`       // silences (= races) per round
	Regexes  int    `json:"regexes"`   // regex matchers in the rewriting Set (length of its pre-lock phase)
	BudgetMs int    `json:"budget_ms"` // stop early when this much wall time is used; 0 = no cap
	Note     string `json:"note,omitempty"`
}

type RaceResult struct {
	Rounds, VsSet, VsMerge, PeerWon int
	OldNotExpired, NewMissing        int
	First                            string
	Millis                           int64
}

const raceNote = "concurrent engine: replay = rerun this engine with the same parameters (real goroutines, real time); a clean tree gives 0 findings"

func raceRun(t *testing.T, p RaceParams) RaceResult {
	t0 := time.Now()
	res := RaceResult{}
	g := vh.NewRand(p.Seed)
	ctx := context.Background()
	rewrite := make([]*pb.Matcher, p.Regexes)
	for i := range rewrite {
		rewrite[i] = &pb.Matcher{Type: pb.Matcher_REGEXP, Name: "b", Pattern: fmt.Sprintf("(x%d|y%d)[0-9a-f]{2,6}z+", i, i)}
	}
	for round := 0; round < p.Rounds; round++ {
		if p.BudgetMs > 0 && time.Since(t0) > time.Duration(p.BudgetMs)*time.Millisecond {
			break
		}
		rs := g.Fork()
		s, err := silence.New(silence.Options{Retention: time.Hour, Metrics: prometheus.NewRegistry()})
		if err != nil {
			t.Fatal(err)
		}
		var bmu sync.Mutex
		var bcasts []*pb.MeshSilence
		s.SetBroadcast(func(b []byte) {
			br := bytes.NewReader(b)
			for {
				var m pb.MeshSilence
				if protodelim.UnmarshalFrom(br, &m) != nil {
					break
				}
				bmu.Lock()
				bcasts = append(bcasts, &m)
				bmu.Unlock()
			}
		})
		base := time.Now()
		ids := make([]string, p.IDs)
		for i := range ids {
			sil := &pb.Silence{MatcherSets: []*pb.MatcherSet{{Matchers: []*pb.Matcher{{Name: "a", Pattern: fmt.Sprintf("v%d", i)}}}},
				StartsAt: timestamppb.New(base.Add(-time.Minute)), EndsAt: timestamppb.New(base.Add(3 * time.Hour)), CreatedBy: "race", Comment: "original"}
			if err := s.Set(ctx, sil); err != nil {
				t.Fatal(err)
			}
			ids[i] = sil.Id
		}
		stored, _, err := s.Query(ctx, silence.QIDs(ids...))
		if err != nil || len(stored) != len(ids) {
			t.Fatalf("concurrent engine: setup query: %d silences, err %v", len(stored), err)
		}
		// two long-lived goroutines, released per id by a spin barrier
		var gate, done atomic.Int64
		var rNew []string = make([]string, p.IDs)
		var rErr, wErr error
		vsMerge := make([]bool, p.IDs)
		peerUpd := make([]time.Time, p.IDs)
		for i := range vsMerge {
			vsMerge[i] = rs.Chance(1, 3)
		}
		var wg sync.WaitGroup
		wait := func(i int) bool {
			for gate.Load() < int64(i+1) {
				if gate.Load() < 0 {
					return false
				}
			}
			return true
		}
		wg.Add(2)
		go func() { // R: history rewrite
			defer wg.Done()
			for i := range ids {
				if !wait(i) {
					return
				}
				sil := proto.Clone(stored[i]).(*pb.Silence)
				sil.MatcherSets = []*pb.MatcherSet{{Matchers: rewrite}}
				sil.Comment = "rewritten"
				if err := s.Set(ctx, sil); err != nil && rErr == nil {
					rErr = err
				}
				rNew[i] = sil.Id
				done.Add(1)
			}
		}()
		go func() { // W: the other writer
			defer wg.Done()
			for i := range ids {
				if !wait(i) {
					return
				}
				if vsMerge[i] {
					v := proto.Clone(stored[i]).(*pb.Silence)
					v.Comment = "peer"
					peerUpd[i] = time.Now()
					v.UpdatedAt = timestamppb.New(peerUpd[i])
					var buf bytes.Buffer
					if _, err := protodelim.MarshalTo(&buf, &pb.MeshSilence{Silence: v, ExpiresAt: timestamppb.New(v.EndsAt.AsTime().Add(time.Hour))}); err != nil {
						wErr = err
					}
					if err := s.Merge(buf.Bytes()); err != nil && wErr == nil {
						wErr = err
					}
				} else {
					v := proto.Clone(stored[i]).(*pb.Silence)
					v.Comment = "edited in place"
					if err := s.Set(ctx, v); err != nil && wErr == nil {
						wErr = err
					}
				}
				done.Add(1)
			}
		}()
		for i := range ids {
			gate.Store(int64(i + 1))
			for done.Load() < int64(2*(i+1)) {
			}
		}
		gate.Store(-1)
		wg.Wait()
		if rErr != nil || wErr != nil {
			t.Fatalf("concurrent engine: Set/Merge failed: %v / %v", rErr, wErr)
		}
		res.Rounds++
		now := time.Now()
		for i, id := range ids {
			got, _, err := s.Query(ctx, silence.QIDs(id, rNew[i]))
			if err != nil {
				t.Fatal(err)
			}
			var old, neu *pb.Silence
			for _, x := range got {
				if x.Id == id {
					old = x
				} else {
					neu = x
				}
			}
			if vsMerge[i] {
				res.VsMerge++
			} else {
				res.VsSet++
			}
			if rNew[i] == id || neu == nil || len(neu.MatcherSets) != 1 || len(neu.MatcherSets[0].Matchers) != p.Regexes {
				res.NewMissing++
				if res.First == "" {
					res.First = fmt.Sprintf("round %d: the history-rewriting Set of %s answered id %s; that id does not hold the submitted matchers", round, id, rNew[i])
				}
				continue
			}
			expired := old != nil && old.EndsAt.AsTime().Before(now)
			if expired {
				continue
			}
			ok := false
			if vsMerge[i] && old != nil && old.Comment == "peer" && old.UpdatedAt.AsTime().Equal(peerUpd[i]) {
				// legitimate only if R had expired the old id BEFORE the peer's later version arrived
				bmu.Lock()
				for _, m := range bcasts {
					if m.Silence.Id == id && m.Silence.EndsAt.AsTime().Equal(m.Silence.UpdatedAt.AsTime()) && m.Silence.UpdatedAt.AsTime().Before(peerUpd[i]) {
						ok = true
					}
				}
				bmu.Unlock()
				if ok {
					res.PeerWon++
				}
			}
			if !ok {
				res.OldNotExpired++
				if res.First == "" {
					other := "an in-place Set (comment edit)"
					if vsMerge[i] {
						other = "a Merge of a peer's version (UpdatedAt = the instant of the merge)"
					}
					desc := "gone"
					if old != nil {
						desc = fmt.Sprintf("active: comment %q, UpdatedAt %v, EndsAt %v", old.Comment, old.UpdatedAt.AsTime().UTC(), old.EndsAt.AsTime().UTC())
					}
					res.First = fmt.Sprintf("round %d: Set(%s, different matchers) ran concurrently with %s of the same id; it answered the new id %s, but the OLD id is %s - a history rewrite must leave the old silence expired in every order of the two calls",
						round, id, other, rNew[i], desc)
				}
			}
		}
		if res.OldNotExpired+res.NewMissing > 0 {
			break
		}
	}
	res.Millis = time.Since(t0).Milliseconds()
	return res
}

func racePlan(env vh.Env) RaceParams {
	p := RaceParams{Seed: env.Seed ^ 0x63313272616365, Rounds: 40, IDs: 150, Regexes: 40, BudgetMs: 8000, Note: raceNote}
	if env.Tier == "thorough" {
		p.Rounds, p.BudgetMs = 600, 60000
	}
	return p
}

func judgeRace(t *testing.T, run *vh.Run, p RaceParams) {
	r := raceRun(t, p)
	run.CountN("concurrent_rewrite_engine", "rounds", r.Rounds)
	run.CountN("concurrent_rewrite_engine", "rewrite-vs-in-place-set", r.VsSet)
	run.CountN("concurrent_rewrite_engine", "rewrite-vs-peer-merge", r.VsMerge)
	run.CountN("concurrent_rewrite_engine", "peer-version-legitimately-won", r.PeerWon)
	run.CountN("concurrent_rewrite_engine", "millis", int(r.Millis))
	c := Case{Race: &p}
	if r.OldNotExpired > 0 {
		run.Violate("history-rewrite-left-old-silence-active-under-concurrent-update", r.First, c)
	}
	if r.NewMissing > 0 {
		run.Violate("history-rewrite-lost-under-concurrent-update", r.First, c)
	}
}
