//go:build verif

// amtool part of C12: the REAL amtool command line (cli.Execute in a re-executed test binary, see amtoolrun) against an
// in-process v2 API over loopback HTTP, backed by a real silence store.
//   - `silence add` with all four matcher operators, then `silence query -o json`: the stored and the listed matchers
//     are the ones given (name, value, regex, equal).
//   - `silence update <id> --comment / --end / --duration`: editing only comment or end keeps the id, keeps the
//     matchers, leaves no expired copy behind and creates no new silence.
package c12

import (
	"context"
	"encoding/json"
	"fmt"
	"net/http"
	"net/http/httptest"
	"os"
	"sort"
	"strings"
	"testing"
	"time"

	"github.com/prometheus/client_golang/prometheus"
	"github.com/prometheus/common/promslog"

	apiv2 "github.com/prometheus/alertmanager/api/v2"
	silencestore "github.com/prometheus/alertmanager/silence"
	pb "github.com/prometheus/alertmanager/silence/silencepb"

	"verifharness/amtoolrun"
	"verifharness/vh"
)

func TestAmtoolHelper(t *testing.T) { amtoolrun.Helper(t) }

type amtoolCase struct {
	Engine   string   `json:"engine"` // "amtool-silence"
	Matchers []string `json:"matchers"`
	Steps    []string `json:"steps"`
}

type wantMatcher struct {
	Name, Value    string
	Regex, IsEqual bool
}

func (m wantMatcher) String() string { return fmt.Sprintf("%s|%s|re=%v|eq=%v", m.Name, m.Value, m.Regex, m.IsEqual) }

func storedMatchers(s *pb.Silence) []string {
	var out []string
	for _, set := range s.MatcherSets {
		for _, m := range set.Matchers {
			w := wantMatcher{Name: m.Name, Value: m.Pattern}
			switch m.Type {
			case pb.Matcher_EQUAL:
				w.IsEqual = true
			case pb.Matcher_NOT_EQUAL:
			case pb.Matcher_REGEXP:
				w.Regex, w.IsEqual = true, true
			case pb.Matcher_NOT_REGEXP:
				w.Regex = true
			}
			out = append(out, w.String())
		}
	}
	sort.Strings(out)
	return out
}

func amtoolSilencePart(t *testing.T, run *vh.Run, env vh.Env) {
	if env.Replay != "" {
		return
	}
	home, err := os.MkdirTemp("", "c12amtool")
	if err != nil {
		t.Fatal(err)
	}
	defer os.RemoveAll(home)
	r := vh.NewRand(env.Seed ^ 0xa17012)

	// operator pool: amtool argument and what must be stored
	type mk struct {
		arg string
		w   wantMatcher
	}
	pool := []mk{
		{`env!=prod`, wantMatcher{"env", "prod", false, false}},
		{`instance=~web.*`, wantMatcher{"instance", "web.*", true, true}},
		{`job!~batch.*`, wantMatcher{"job", "batch.*", true, false}},
		{`team=db`, wantMatcher{"team", "db", false, true}},
		{`region!=eu-west-1`, wantMatcher{"region", "eu-west-1", false, false}},
		{`path!~/tmp/.+`, wantMatcher{"path", "/tmp/.+", true, false}},
	}
	nSil := 6
	for si := 0; si < nSil; si++ {
		reg := prometheus.NewRegistry()
		sils, err := silencestore.New(silencestore.Options{Metrics: reg, Retention: time.Hour})
		if err != nil {
			t.Fatal(err)
		}
		api, err := apiv2.NewAPI(nil, nil, nil, sils, nil, promslog.NewNopLogger(), reg)
		if err != nil {
			t.Fatal(err)
		}
		mux := http.NewServeMux()
		mux.Handle("/api/v2/", api.Handler)
		srv := httptest.NewServer(mux)
		amtool := func(args ...string) (string, int) {
			out, code, err := amtoolrun.Run(home, append([]string{"--alertmanager.url=" + srv.URL, "--no-version-check"}, args...)...)
			if err != nil {
				t.Fatalf("amtool %v: %v\n%s", args, err, out)
			}
			return out, code
		}
		cs := amtoolCase{Engine: "amtool-silence"}
		viol := func(key, what string) {
			run.Count("amtool_silence_violations", key)
			run.Violate(key, what+" [steps: "+strings.Join(cs.Steps, " ; ")+"]", cs)
		}
		// the silence: alertname=... plus 1..3 of the pool (the first silences use all four operators)
		picks := []mk{{`alertname=DiskFull`, wantMatcher{"alertname", "DiskFull", false, true}}}
		if si == 0 {
			picks = append(picks, pool[0], pool[1], pool[2])
		} else {
			p := append([]mk{}, pool...)
			vh.Shuffle(r, p)
			picks = append(picks, p[:r.Range(1, 3)]...)
		}
		var args, want []string
		for _, p := range picks {
			args = append(args, p.arg)
			want = append(want, p.w.String())
		}
		sort.Strings(want)
		cs.Matchers = args
		func() {
			defer srv.Close()
			// ---- add ----
			out, code := amtool(append([]string{"silence", "add", "--author=me", "--comment=maintenance", "--duration=2h"}, args...)...)
			cs.Steps = append(cs.Steps, fmt.Sprintf("add %v -> exit %d %q", args, code, strings.TrimSpace(out)))
			id := strings.TrimSpace(out)
			if code != 0 || id == "" || strings.ContainsAny(id, " \n") {
				viol("amtool-silence-add-fails", "amtool silence add failed")
				return
			}
			all, _, err := sils.Query(context.Background())
			if err != nil || len(all) != 1 || all[0].Id != id {
				viol("amtool-silence-add-not-stored", fmt.Sprintf("after amtool silence add the store holds %d silences (err %v)", len(all), err))
				return
			}
			if got := storedMatchers(all[0]); strings.Join(got, ",") != strings.Join(want, ",") {
				viol("amtool-silence-add-changes-matchers", fmt.Sprintf("amtool silence add %v stored the matchers %v, want %v", args, got, want))
				return
			}
			// ---- query -o json ----
			out, code = amtool("silence", "query", "-o", "json")
			var listed []struct {
				ID       string `json:"id"`
				Matchers []struct {
					Name    string `json:"name"`
					Value   string `json:"value"`
					IsRegex bool   `json:"isRegex"`
					IsEqual *bool  `json:"isEqual"`
				} `json:"matchers"`
			}
			if code != 0 || json.Unmarshal([]byte(out), &listed) != nil || len(listed) != 1 || listed[0].ID != id {
				cs.Steps = append(cs.Steps, fmt.Sprintf("query -> exit %d %.200q", code, out))
				viol("amtool-silence-query-does-not-list-it", "amtool silence query -o json does not list exactly the added silence")
				return
			}
			var got []string
			for _, m := range listed[0].Matchers {
				eq := true
				if m.IsEqual != nil {
					eq = *m.IsEqual
				}
				got = append(got, wantMatcher{m.Name, m.Value, m.IsRegex, eq}.String())
			}
			sort.Strings(got)
			cs.Steps = append(cs.Steps, fmt.Sprintf("query -> %v", got))
			if strings.Join(got, ",") != strings.Join(want, ",") {
				viol("amtool-silence-query-shows-other-matchers", fmt.Sprintf("amtool silence query shows %v, added %v", got, want))
				return
			}
			run.Count("amtool_silence", "add+query judged")
			// ---- update: comment, end, duration (each only edits comment / end) ----
			updates := [][]string{{"--comment=maintenance (extended)"}, {"--end=" + time.Now().Add(5*time.Hour).UTC().Format(time.RFC3339)}, {"--duration=3h"},
				{"--comment=both", "--end=" + time.Now().Add(6*time.Hour).UTC().Format(time.RFC3339)}}
			vh.Shuffle(r, updates)
			for _, u := range updates[:2+r.Intn(2)] {
				time.Sleep(15 * time.Millisecond)
				out, code := amtool(append(append([]string{"silence", "update", "--quiet"}, u...), id)...)
				cs.Steps = append(cs.Steps, fmt.Sprintf("update %v %s -> exit %d %q", u, id, code, strings.TrimSpace(out)))
				if code != 0 {
					viol("amtool-silence-update-fails", "amtool silence update failed")
					return
				}
				all, _, err := sils.Query(context.Background())
				if err != nil {
					t.Fatal(err)
				}
				var ids []string
				for _, s := range all {
					ids = append(ids, s.Id)
				}
				cs.Steps = append(cs.Steps, fmt.Sprintf("store: %v", ids))
				run.Count("amtool_silence", "update "+strings.SplitN(strings.Join(u, " "), "=", 2)[0])
				// (the id `update --quiet` PRINTS is not judged: the unchanged amtool prints the *string, i.e. a pointer
				// value like 0xc00040a1d0 - a display defect of amtool, outside C12; counted only)
				if strings.TrimSpace(out) != id {
					run.Count("amtool_silence", "update --quiet prints something else than the id (unchanged code: a pointer)")
				}
				switch {
				case len(all) != 1 || all[0].Id != id:
					viol("amtool-update-of-comment-or-end-changes-id", fmt.Sprintf("after amtool silence update %v the store holds %v, want only %s (no expired copy, no new silence)", u, ids, id))
					return
				}
				if got := storedMatchers(all[0]); strings.Join(got, ",") != strings.Join(want, ",") {
					viol("amtool-update-changes-matchers", fmt.Sprintf("amtool silence update %v changed the matchers of %s from %v to %v", u, id, want, got))
					return
				}
				for _, x := range u {
					if strings.HasPrefix(x, "--comment=") && all[0].Comment != strings.TrimPrefix(x, "--comment=") {
						viol("amtool-update-not-applied", fmt.Sprintf("amtool silence update %v: stored comment is %q", u, all[0].Comment))
						return
					}
				}
			}
			run.Count("amtool_silence", "updates judged")
		}()
	}
}
