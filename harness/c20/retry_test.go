//go:build verif

package c20

import (
	"context"
	"errors"
	"fmt"
	"sync"
	"testing"
	"testing/synctest"
	"time"

	"github.com/prometheus/client_golang/prometheus"
	"github.com/prometheus/common/promslog"

	"github.com/prometheus/alertmanager/eventrecorder"
	"github.com/prometheus/alertmanager/featurecontrol"
	"github.com/prometheus/alertmanager/notify"
	"github.com/prometheus/alertmanager/template"
	"github.com/prometheus/alertmanager/types"

	"verifharness/vh"
)

// ---------- scripted notifier shared by the retry and fanout engines ----------

// scriptErr is the error of attempt `attempt` (1-based) of integration `integ`; the harness recognises it in
// whatever the stage returns with errors.As (error texts are never compared).
type scriptErr struct{ integ, attempt int }

func (e *scriptErr) Error() string { return fmt.Sprintf("scripted failure %d/%d", e.integ, e.attempt) }

type call struct {
	at      int64
	outcome string
	alerts  []*types.Alert
	payload *SeenData // what a template of this integration sees on this attempt (snapshot)
}

// every scripted integration builds its template data on every attempt, as the real integrations do; the builds
// are serialised so that a build that (wrongly) writes to the shared alerts is observed, not a data race
var tmplMu sync.Mutex

type scripted struct {
	mu     sync.Mutex
	id     int
	script []string // ok | recov | unrecov | hang-retry | hang-noretry ; exhausted = recov
	tmpl   *template.Template
	okFrom int64 // != 0: time-based outage instead of the script: recov before this instant (unix ns), ok from it on
	calls  []call
	onCall func(id int, at int64, outcome string) // event trace (fanout engine)
}

func (s *scripted) Notify(ctx context.Context, alerts ...*types.Alert) (bool, error) {
	s.mu.Lock()
	k := len(s.calls)
	o := "recov"
	if k < len(s.script) {
		o = s.script[k]
	}
	at := time.Now().UnixNano()
	var payload *SeenData
	if s.tmpl != nil {
		tmplMu.Lock()
		payload = seenOf(s.tmpl.Data("team", nil, nil, "", alerts...), 0)
		tmplMu.Unlock()
	}
	if s.okFrom != 0 {
		o = "recov"
		if at >= s.okFrom {
			o = "ok"
		}
	}
	s.calls = append(s.calls, call{at: at, outcome: o, alerts: alerts, payload: payload})
	if s.onCall != nil {
		s.onCall(s.id, at, o)
	}
	s.mu.Unlock()
	e := &scriptErr{s.id, k + 1}
	switch o {
	case "ok":
		return false, nil
	case "unrecov":
		return false, e
	case "hang-retry":
		<-ctx.Done()
		return true, fmt.Errorf("%w: %w", e, ctx.Err())
	case "hang-noretry":
		<-ctx.Done()
		return false, fmt.Errorf("%w: %w", e, ctx.Err())
	}
	return true, e
}

type sendResolved bool

func (s sendResolved) SendResolved() bool { return bool(s) }

func coqOutcome(o string) string {
	switch o {
	case "ok":
		return "OOk"
	case "unrecov":
		return "OUnrecov"
	case "hang-retry":
		return "(OHang true)"
	case "hang-noretry":
		return "(OHang false)"
	}
	return "ORecov"
}

func coqAlert(a AlertJ, now int64) string {
	ends := int64(0)
	if a.HasEnd {
		ends = now + a.EndOff
	}
	return vh.App("mkAlert", coqKV(a.Labels), coqKV(a.Annots), vh.Z(now+a.StartOff), vh.Z(ends))
}

func coqAlerts(as []AlertJ, idx []int, now int64) string {
	parts := make([]string, len(idx))
	for i, j := range idx {
		parts[i] = coqAlert(as[j], now)
	}
	return vh.List(parts)
}

// coqSentSeen renders the alerts handed to Notify with the labels/annotations the template data of that call showed
func coqSentSeen(as []AlertJ, idx []int, p *SeenData, now int64) string {
	if p == nil || len(p.Alerts) != len(idx) {
		return coqAlerts(as, idx, now)
	}
	parts := make([]string, len(idx))
	for k, j := range idx {
		a := as[j]
		a.Labels, a.Annots = p.Alerts[k].Labels, p.Alerts[k].Annots
		parts[k] = coqAlert(a, now)
	}
	return vh.List(parts)
}

func allIdx(n int) []int {
	out := make([]int, n)
	for i := range out {
		out[i] = i
	}
	return out
}

// genBatch: n distinct alerts; boundary adds EndsAt exactly at / 1ns before the flush instant
func genBatch(r *vh.Rand, n int, boundary bool) []AlertJ {
	var out []AlertJ
	for i := 0; i < n; i++ {
		a := AlertJ{Labels: map[string]string{"alertname": "Down", "instance": fmt.Sprintf("i%d", i)}, Annots: map[string]string{"summary": "x"}, StartOff: -int64(time.Hour)}
		if i == 0 || r.Chance(1, 3) { // data of its own: most often on the first alert of the batch
			a.Annots["description"] = fmt.Sprintf("instance i%d is down", i)
		}
		if i == 0 && r.Bool() {
			a.Labels["extra"] = "only-here"
		}
		a.HasEnd = r.Chance(3, 4)
		a.EndOff = vh.Pick(r, []int64{-int64(time.Minute), int64(time.Hour), int64(time.Hour)})
		if boundary && r.Chance(1, 4) {
			a.EndOff = vh.Pick(r, []int64{0, -1, 1})
		}
		a.Timeout = r.Bool()
		out = append(out, a)
	}
	return out
}

// payloadFaithful: every alert of the payload built on this call carries exactly the labels and annotations of
// the batch alert it stands for ("" if so)
func payloadFaithful(batch []AlertJ, sent []int, p *SeenData, start, at int64) string {
	if p == nil {
		return ""
	}
	if len(p.Alerts) != len(sent) {
		return fmt.Sprintf("payload lists %d alerts, %d were handed over", len(p.Alerts), len(sent))
	}
	anyFiring := false
	for k, i := range sent {
		if i < 0 || !sameKV(p.Alerts[k].Labels, batch[i].Labels) || !sameKV(p.Alerts[k].Annots, batch[i].Annots) {
			return fmt.Sprintf("alert %d of the payload has labels %v annotations %v, the batch alert has labels %v annotations %v",
				k, p.Alerts[k].Labels, p.Alerts[k].Annots, batch[i].Labels, batch[i].Annots)
		}
		// its own status and times, as of the instant of this attempt
		firing := !(batch[i].HasEnd && start+batch[i].EndOff <= at)
		wantEnds := int64(0)
		if !firing {
			wantEnds = start + batch[i].EndOff
		}
		if p.Alerts[k].Firing != firing || p.Alerts[k].Ends != wantEnds || p.Alerts[k].Starts != start+batch[i].StartOff {
			return fmt.Sprintf("alert %d of the payload is shown firing=%v endsAt=%d, the batch alert (timeout flag %v) is firing=%v with endsAt=%d at that instant",
				k, p.Alerts[k].Firing, p.Alerts[k].Ends, batch[i].Timeout, firing, wantEnds)
		}
		anyFiring = anyFiring || firing
	}
	if p.Firing != anyFiring {
		return fmt.Sprintf("payload status firing=%v but some listed alert fires=%v", p.Firing, anyFiring)
	}
	return ""
}

// payloadCore: the part of a payload that may not change between two attempts of one flush (an alert's status and
// shown end time legitimately change when it resolves between attempts)
func payloadCore(p *SeenData) string {
	if p == nil {
		return ""
	}
	q := SeenData{Group: p.Group, CommonLabels: p.CommonLabels, CommonAnnots: p.CommonAnnots}
	for _, a := range p.Alerts {
		q.Alerts = append(q.Alerts, SeenAlert{Labels: a.Labels, Annots: a.Annots, Starts: a.Starts})
	}
	return mustJSON(q)
}

func isFiring(a AlertJ) bool { return !(a.HasEnd && a.EndOff <= 0) }

func genScript(r *vh.Rand) []string {
	n := vh.Pick(r, []int{0, 1, 1, 2, 3, 4, 6, 9})
	var s []string
	for i := 0; i < n; i++ {
		s = append(s, vh.Pick(r, []string{"recov", "recov", "recov", "recov", "recov", "ok", "unrecov", "hang-retry", "hang-noretry"}))
	}
	if n > 0 && r.Chance(1, 2) {
		s[n-1] = vh.Pick(r, []string{"ok", "ok", "unrecov", "hang-retry", "hang-noretry"})
	}
	return s
}

var deadlineOffs = []int64{0, 1, int64(100 * time.Millisecond), int64(300 * time.Millisecond), int64(600 * time.Millisecond), int64(time.Second),
	int64(2 * time.Second), int64(5 * time.Second), int64(10 * time.Second), int64(30 * time.Second), int64(90 * time.Second), int64(5 * time.Minute)}

// ---------- engine retry: notify.RetryStage ----------

type AttemptObs struct {
	At      int64  `json:"at"`
	Outcome string `json:"outcome"`
	Sent    []int  `json:"sent"` // indices (into alerts) handed to Notify
}

type RetryCase struct {
	SendResolved bool     `json:"send_resolved"`
	FiringCtx    int      `json:"firing_ctx"` // size of the firing set in the context; -1 = not set; -2 = as DedupStage computes it
	Alerts       []AlertJ `json:"alerts"`
	DeadlineOff  int64    `json:"deadline_off"` // ns after the start at which the context is done
	Cancel       bool     `json:"cancel"`       // context cancelled at that instant instead of a deadline
	Script       []string `json:"script"`
	OutageEnd    int64    `json:"outage_end,omitempty"` // > 0: the script is time-based: every attempt before start+outage_end fails recoverably, later ones succeed
	// observed
	Start    int64        `json:"start,omitempty"`
	Attempts []AttemptObs `json:"attempts,omitempty"`
	Err      string       `json:"err,omitempty"` // ""|unrecov|canceled|other
	Last     int          `json:"last,omitempty"`
	Out      []int        `json:"out,omitempty"`
	End      int64        `json:"end,omitempty"`
}

func genRetry(r *vh.Rand, env vh.Env) Case {
	rc := &RetryCase{SendResolved: r.Bool(), FiringCtx: -2, DeadlineOff: vh.Pick(r, deadlineOffs), Script: genScript(r)}
	rc.Alerts = genBatch(r, r.Range(1, 4), true)
	if r.Chance(1, 4) { // only resolved alerts
		for i := range rc.Alerts {
			rc.Alerts[i].HasEnd, rc.Alerts[i].EndOff = true, -int64(time.Minute)
		}
	}
	switch r.Intn(12) {
	case 0:
		rc.FiringCtx = -1
	case 1:
		rc.FiringCtx = 1 + r.Intn(2) // a firing set that disagrees with the batch
	case 2:
		rc.FiringCtx = 0
	}
	if r.Chance(1, 9) {
		// long flush deadlines (routes with a long group_interval) and long outages: retrying must go on until
		// the deadline, however far away it is; virtual time makes hours free
		rc.DeadlineOff = vh.Pick(r, []int64{int64(16 * time.Minute), int64(20 * time.Minute), int64(20 * time.Minute), int64(time.Hour), int64(time.Hour), int64(6 * time.Hour)})
		rc.FiringCtx = -2
		for i := range rc.Alerts {
			rc.Alerts[i].HasEnd = false // all firing
		}
		switch r.Intn(5) {
		case 0, 1: // the outage never ends
			rc.Script = nil
		case 2: // the outage ends shortly before the deadline: delivery must still happen
			rc.Script, rc.OutageEnd = nil, rc.DeadlineOff-vh.Pick(r, []int64{int64(95 * time.Second), int64(2 * time.Minute), int64(5 * time.Minute)})
		case 3: // ... or somewhere past the first quarter hour
			rc.Script, rc.OutageEnd = nil, int64(15*time.Minute)+int64(r.Intn(int((rc.DeadlineOff-int64(15*time.Minute))/int64(time.Second))))*int64(time.Second)
		default: // scripted as usual
		}
	}
	rc.Cancel = rc.DeadlineOff > 0 && r.Chance(1, 5)
	return Case{Engine: "retry", Retry: rc}
}

func classify(err error, outcomes func(integ, attempt int) string) (class string, last int) {
	if err == nil {
		return "", 0
	}
	var se *scriptErr
	if errors.As(err, &se) {
		if o := outcomes(se.integ, se.attempt); o == "recov" {
			return "canceled", se.attempt
		}
		return "unrecov", se.attempt
	}
	var wr *notify.ErrorWithReason
	if errors.As(err, &wr) && (wr.Reason == notify.ContextDeadlineExceededReason || wr.Reason == notify.ContextCanceledReason) {
		return "canceled", 0
	}
	return "other", 0
}

func coqErr(class string, last int) string {
	switch class {
	case "":
		return "None"
	case "unrecov":
		return "(Some EUnrecov)"
	case "canceled":
		if last == 0 {
			return "(Some (ECanceled None))"
		}
		return fmt.Sprintf("(Some (ECanceled (Some %d%%nat)))", last)
	}
	return "(Some EFiringMissing)"
}

func indexOf(as []*types.Alert, a *types.Alert) int {
	for i, x := range as {
		if x == a {
			return i
		}
	}
	return -1
}

func idxs(all, sub []*types.Alert) []int {
	out := []int{}
	for _, a := range sub {
		out = append(out, indexOf(all, a))
	}
	return out
}

// backoff/v5 defaults used by RetryStage (trusted oracle): interval k (after the k-th tick) is
// min(500ms * 1.5^k, 60s) jittered by a factor in [0.5, 1.5]
func backoffBounds(k int) (lo, hi time.Duration) {
	iv := 500 * time.Millisecond
	for i := 0; i < k; i++ {
		iv = time.Duration(float64(iv) * 1.5)
		if iv > 60*time.Second {
			iv = 60 * time.Second
		}
	}
	return iv/2 - time.Millisecond, iv*3/2 + time.Millisecond
}

func runRetry(t *testing.T, c *Case) result {
	rc := c.Retry
	var res result
	sn := &scripted{script: rc.Script, tmpl: theTemplate(t)}
	var alerts []*types.Alert
	var out []*types.Alert
	var err error
	synctest.Test(t, func(t *testing.T) {
		start := time.Now()
		rc.Start = start.UnixNano()
		if rc.OutageEnd > 0 {
			sn.okFrom = rc.Start + rc.OutageEnd
		}
		alerts = mkAlerts(rc.Alerts, start)
		integ := notify.NewIntegration(sn, sendResolved(rc.SendResolved), "scripted", 0, "team")
		stage := notify.NewRetryStage(integ, "team", notify.NewMetrics(prometheus.NewRegistry(), featurecontrol.NoopFlags{}), eventrecorder.NopRecorder())
		ctx := notify.WithGroupKey(context.Background(), "{}:{alertname=\"Down\"}")
		nf := rc.FiringCtx
		if nf == -2 {
			nf = 0
			for _, a := range rc.Alerts {
				if isFiring(a) {
					nf++
				}
			}
		}
		if nf >= 0 {
			hs := make([]uint64, nf)
			for i := range hs {
				hs[i] = uint64(i + 1)
			}
			ctx = notify.WithFiringAlerts(ctx, hs)
		}
		var cancel context.CancelFunc
		if rc.Cancel {
			ctx, cancel = context.WithCancel(ctx)
			tm := time.AfterFunc(time.Duration(rc.DeadlineOff), cancel)
			defer tm.Stop()
		} else {
			ctx, cancel = context.WithDeadline(ctx, start.Add(time.Duration(rc.DeadlineOff)))
		}
		defer cancel()
		_, out, err = stage.Exec(ctx, promslog.NewNopLogger(), alerts...)
		rc.End = time.Now().UnixNano()
	})
	rc.Attempts = nil
	for _, cl := range sn.calls {
		rc.Attempts = append(rc.Attempts, AttemptObs{At: cl.at, Outcome: cl.outcome, Sent: idxs(alerts, cl.alerts)})
	}
	rc.Err, rc.Last = classify(err, func(_, k int) string { return sn.calls[k-1].outcome })
	rc.Out = idxs(alerts, out)

	// ---- Coq term ----
	nfTerm := "None"
	switch {
	case rc.FiringCtx == -2:
		nf := 0
		for _, a := range rc.Alerts {
			if isFiring(a) {
				nf++
			}
		}
		nfTerm = vh.Some(vh.Nat(nf))
	case rc.FiringCtx >= 0:
		nfTerm = vh.Some(vh.Nat(rc.FiringCtx))
	}
	dl := rc.Start + rc.DeadlineOff
	var atts []string
	for _, a := range rc.Attempts {
		atts = append(atts, vh.Pair(vh.Z(a.At), coqOutcome(a.Outcome)))
	}
	var sent []int
	if len(rc.Attempts) > 0 {
		sent = rc.Attempts[0].Sent
	}
	var lastPayload *SeenData
	if len(sn.calls) > 0 {
		lastPayload = sn.calls[len(sn.calls)-1].payload // the model's r_sent is compared with what the LAST attempt was shown
	}
	scr := make([]string, len(rc.Script))
	for i, o := range rc.Script {
		scr[i] = coqOutcome(o)
	}
	if rc.OutageEnd > 0 { // time-based script: the k-th outcome is a function of the k-th tick instant (the oracle input)
		scr = nil
		for _, a := range rc.Attempts {
			scr = append(scr, coqOutcome(a.Outcome))
		}
	}
	res.term = vh.App("CRetry", vh.Bool(rc.SendResolved), nfTerm, coqAlerts(rc.Alerts, allIdx(len(rc.Alerts)), rc.Start),
		vh.Z(rc.Start), vh.Z(dl), vh.List(scr), vh.List(atts), coqSentSeen(rc.Alerts, sent, lastPayload, rc.Start), coqErr(rc.Err, rc.Last),
		coqAlerts(rc.Alerts, rc.Out, rc.Start), vh.Z(rc.End))

	// ---- direct oracle ----
	viol := func(key, what string) {
		res.viol = append(res.viol, vh.Violation{Key: key, What: what, Case: c})
	}
	n := len(rc.Attempts)
	var wantSent []int
	for i, a := range rc.Alerts {
		if rc.SendResolved || isFiring(a) {
			wantSent = append(wantSent, i)
		}
	}
	first := ""
	for k, a := range rc.Attempts {
		if a.At > dl {
			viol("retry-attempt-after-deadline", fmt.Sprintf("attempt %d started %dns after the flush deadline", k+1, a.At-dl))
		}
		if why := payloadFaithful(rc.Alerts, a.Sent, sn.calls[k].payload, rc.Start, a.At); why != "" {
			viol("retry-payload-not-the-batch", fmt.Sprintf("attempt %d: %s", k+1, why))
		}
		if k > 0 {
			if pk := payloadCore(sn.calls[k].payload); pk != first {
				viol("retry-payload-differs-between-attempts", fmt.Sprintf("attempt %d is shown %s, attempt 1 was shown %s", k+1, pk, first))
			}
		} else {
			first = payloadCore(sn.calls[0].payload)
		}
		if fmt.Sprint(a.Sent) != fmt.Sprint(wantSent) {
			viol("retry-wrong-alerts-sent", fmt.Sprintf("attempt %d got alerts %v, want %v (send_resolved=%v)", k+1, a.Sent, wantSent, rc.SendResolved))
		}
		if k < n-1 {
			switch a.Outcome {
			case "ok":
				viol("retry-attempt-after-success", fmt.Sprintf("attempt %d succeeded but attempt %d followed", k+1, k+2))
			case "unrecov", "hang-noretry":
				viol("retry-unrecoverable-retried", fmt.Sprintf("attempt %d failed unrecoverably but attempt %d followed", k+1, k+2))
			}
			lo, hi := backoffBounds(k)
			if gap := time.Duration(rc.Attempts[k+1].At - a.At); gap < lo || gap > hi {
				viol("retry-without-backoff", fmt.Sprintf("attempt %d came %v after attempt %d (backoff interval should be in [%v,%v])", k+2, gap, k+1, lo, hi))
			}
		}
	}
	if n > 0 {
		lastA := rc.Attempts[n-1]
		switch lastA.Outcome {
		case "ok":
			if err != nil {
				viol("retry-success-reported-as-failure", fmt.Sprintf("last attempt succeeded but the stage returned %v", rc.Err))
			}
			if fmt.Sprint(rc.Out) != fmt.Sprint(allIdx(len(rc.Alerts))) {
				viol("retry-success-drops-alerts", fmt.Sprintf("stage passed on %v", rc.Out))
			}
		case "unrecov", "hang-noretry":
			if err == nil {
				viol("retry-failure-not-reported", "unrecoverable failure but the stage returned no error")
			}
		default: // recoverable failure (or a hang) was the last attempt: the stage must have waited for the deadline
			if err == nil {
				viol("retry-failure-not-reported", "recoverable failure, no success, but the stage returned no error")
			}
			if rc.End < dl {
				viol("retry-gave-up-before-deadline", fmt.Sprintf("stage returned %v before the flush deadline after a recoverable failure", time.Duration(dl-rc.End)))
			}
			if _, hi := backoffBounds(n - 1); lastA.Outcome == "recov" && time.Duration(dl-lastA.At) > hi {
				viol("retry-tick-before-deadline-not-attempted", fmt.Sprintf("%v between the last attempt and the deadline, longer than the longest backoff interval %v", time.Duration(dl-lastA.At), hi))
			}
		}
		// an outage that ends more than the longest backoff interval (60s x 1.5) before the deadline: a tick
		// occurs between its end and the deadline, so the notification must still be delivered
		if rc.OutageEnd > 0 && time.Duration(rc.DeadlineOff-rc.OutageEnd) > 91*time.Second && (lastA.Outcome != "ok" || err != nil) {
			viol("retry-outage-ended-before-deadline-not-delivered", fmt.Sprintf("outage ended %v before the flush deadline (%v after the start) but the last of %d attempts came %v after the start and the stage returned %q",
				time.Duration(rc.DeadlineOff-rc.OutageEnd), time.Duration(rc.DeadlineOff), n, time.Duration(lastA.At-rc.Start), rc.Err))
		}
	} else if rc.FiringCtx != -1 {
		nothing := !rc.SendResolved && (rc.FiringCtx == 0 || (rc.FiringCtx == -2 && len(wantSent) == 0))
		switch {
		case nothing:
			if err != nil || fmt.Sprint(rc.Out) != fmt.Sprint(allIdx(len(rc.Alerts))) {
				viol("retry-nothing-to-send-not-passed-on", fmt.Sprintf("only resolved alerts and send_resolved off: err=%v out=%v", rc.Err, rc.Out))
			}
		case rc.DeadlineOff > 0:
			viol("retry-no-attempt-before-deadline", "the context was live at the start (first tick is immediate) but Notify was never called")
		default:
			if err == nil {
				viol("retry-failure-not-reported", "context done before any attempt but no error")
			}
		}
	}

	// histograms
	nb := fmt.Sprintf("%02d", n)
	switch {
	case n >= 100:
		nb = "100+"
	case n > 16:
		nb = "17-99"
	}
	res.tags = append(res.tags, "attempts/"+nb, "result/"+map[string]string{"": "ok", "unrecov": "unrecoverable", "canceled": "canceled", "other": "other-error"}[rc.Err])
	if rc.Err == "canceled" {
		if rc.Last == 0 {
			res.tags = append(res.tags, "canceled-wraps/context-error")
		} else {
			res.tags = append(res.tags, "canceled-wraps/last-recoverable-error")
		}
	}
	if n > 0 {
		res.tags = append(res.tags, "last-outcome/"+rc.Attempts[n-1].Outcome)
	} else if err == nil {
		res.tags = append(res.tags, "shortcut/nothing-to-send")
	}
	res.tags = append(res.tags, fmt.Sprintf("send_resolved/%v", rc.SendResolved))
	if rc.Cancel {
		res.tags = append(res.tags, "context/cancel")
	} else {
		res.tags = append(res.tags, "context/deadline")
	}
	if len(wantSent) < len(rc.Alerts) && n > 0 {
		res.tags = append(res.tags, "filter/resolved-dropped")
	}
	switch {
	case rc.DeadlineOff > int64(15*time.Minute) && rc.OutageEnd > 0:
		res.tags = append(res.tags, "long-deadline/outage-ends-before-deadline")
	case rc.DeadlineOff > int64(15*time.Minute) && len(rc.Script) == 0:
		res.tags = append(res.tags, "long-deadline/outage-never-ends")
	case rc.DeadlineOff > int64(15*time.Minute):
		res.tags = append(res.tags, "long-deadline/scripted")
	}
	if n > 0 && rc.Attempts[n-1].At-rc.Start > int64(15*time.Minute) {
		res.tags = append(res.tags, "last-attempt/more-than-15min-after-start")
	}
	res.nontrivial = n >= 2 || (n == 1 && rc.Attempts[0].Outcome != "ok")
	return res
}
