//go:build verif

package c20

import (
	"context"
	"errors"
	"fmt"
	"sync"
	"testing"
	"testing/synctest"
	"time"

	"github.com/prometheus/client_golang/prometheus"
	"github.com/prometheus/common/promslog"

	"github.com/prometheus/alertmanager/eventrecorder"
	"github.com/prometheus/alertmanager/featurecontrol"
	"github.com/prometheus/alertmanager/nflog"
	"github.com/prometheus/alertmanager/nflog/nflogpb"
	"github.com/prometheus/alertmanager/notify"

	"verifharness/vh"
)

// ---------- engine fanout: the receiver pipeline (createReceiverStage) with a real nflog.Log ----------

type IntegJ struct {
	SendResolved bool     `json:"send_resolved"`
	Prepop       string   `json:"prepop"` // none | same (log already holds this very notification) | other (log holds a different firing set)
	Script       []string `json:"script"`
	LogFails     bool     `json:"log_fails"` // the notification log write fails (a crash between send and record)
}

type EventObs struct {
	Kind    string `json:"kind"` // notify | log
	Integ   int    `json:"integ"`
	At      int64  `json:"at"`
	Outcome string `json:"outcome,omitempty"`
}

type FanoutCase struct {
	Alerts      []AlertJ `json:"alerts"`
	DeadlineOff int64    `json:"deadline_off"`
	Integs      []IntegJ `json:"integrations"`
	// observed
	Start  int64      `json:"start,omitempty"`
	Events []EventObs `json:"events,omitempty"` // in the order they happened
	Failed bool       `json:"failed,omitempty"`
	Logged []bool     `json:"logged,omitempty"` // nflog.Query afterwards finds an entry written by this flush
}

func genFanout(r *vh.Rand, env vh.Env) Case {
	fc := &FanoutCase{DeadlineOff: vh.Pick(r, deadlineOffs[2:])}
	fc.Alerts = genBatch(r, r.Range(1, 3), false)
	if r.Chance(1, 5) {
		for i := range fc.Alerts {
			fc.Alerts[i].HasEnd, fc.Alerts[i].EndOff = true, -int64(time.Minute)
		}
	}
	m := r.Range(1, 3)
	for j := 0; j < m; j++ {
		g := IntegJ{SendResolved: r.Bool(), Prepop: vh.Pick(r, []string{"none", "none", "none", "other", "other", "same"}), LogFails: r.Chance(1, 8)}
		switch r.Intn(4) {
		case 0:
			g.Script = []string{"ok"}
		case 1:
			g.Script = []string{"recov", "ok"}
		default:
			g.Script = genScript(r)
		}
		fc.Integs = append(fc.Integs, g)
	}
	return Case{Engine: "fanout", Fanout: fc}
}

// recLog wraps the real notification log: records every Log call in the shared event trace and can fail the
// write of chosen integrations (without touching the log), as a crash between send and record would.
type recLog struct {
	real  *nflog.Log
	mu    *sync.Mutex
	trace *[]EventObs
	fail  map[uint32]bool
}

func (l *recLog) Log(r *nflogpb.Receiver, gkey string, firing, resolved []uint64, store *nflog.Store, expiry time.Duration) error {
	l.mu.Lock()
	*l.trace = append(*l.trace, EventObs{Kind: "log", Integ: int(r.Idx), At: time.Now().UnixNano()})
	l.mu.Unlock()
	if l.fail[r.Idx] {
		return errors.New("notification log write failed")
	}
	return l.real.Log(r, gkey, firing, resolved, store, expiry)
}

func (l *recLog) Query(params ...nflog.QueryParam) ([]*nflogpb.Entry, error) {
	return l.real.Query(params...)
}

const fanoutGKey = "{}:{alertname=\"Down\"}"

func flushCtx(start time.Time, off int64) (context.Context, context.CancelFunc) {
	ctx := notify.WithGroupKey(context.Background(), fanoutGKey)
	ctx = notify.WithReceiverName(ctx, "team")
	ctx = notify.WithRepeatInterval(ctx, time.Hour)
	return context.WithDeadline(ctx, start.Add(time.Duration(off)))
}

type fanoutObs struct {
	start       int64
	events      []EventObs
	failed      bool
	logged      []bool
	preErr      string
	payloadViol string // a payload (of any attempt of any integration) that is not the batch
	payloads    int
}

// execFanout runs one flush of the receiver pipeline for the given integrations (only[j] == false: integration j
// is left out, its index stays) in a fresh bubble with a fresh log.
func execFanout(t *testing.T, fc *FanoutCase, only []bool) fanoutObs {
	var o fanoutObs
	var mu sync.Mutex
	m := len(fc.Integs)
	o.logged = make([]bool, m)
	synctest.Test(t, func(t *testing.T) {
		real, err := nflog.New(nflog.Options{Retention: 2 * time.Hour, Metrics: prometheus.NewRegistry()})
		if err != nil {
			t.Fatal(err)
		}
		rl := &recLog{real: real, mu: &mu, trace: &o.events, fail: map[uint32]bool{}}
		t0 := time.Now()
		alerts := mkAlerts(fc.Alerts, t0.Add(time.Second)) // offsets are relative to the flush instant
		metrics := notify.NewMetrics(prometheus.NewRegistry(), featurecontrol.NoopFlags{})
		var integs, pre []notify.Integration
		var notifiers []*scripted
		for j, g := range fc.Integs {
			if !only[j] {
				continue
			}
			sn := &scripted{id: j, script: g.Script, tmpl: theTemplate(t), onCall: func(id int, at int64, oc string) {
				mu.Lock()
				o.events = append(o.events, EventObs{Kind: "notify", Integ: id, At: at, Outcome: oc})
				mu.Unlock()
			}}
			notifiers = append(notifiers, sn)
			integs = append(integs, notify.NewIntegration(sn, sendResolved(g.SendResolved), "scripted", j, "team"))
			rl.fail[uint32(j)] = g.LogFails
			recv := &nflogpb.Receiver{GroupName: "team", Integration: "scripted", Idx: uint32(j)}
			switch g.Prepop {
			case "other":
				if err := real.Log(recv, fanoutGKey, []uint64{12345}, nil, nil, 2*time.Hour); err != nil {
					t.Fatal(err)
				}
			case "same": // an earlier, successful, identical notification of this integration
				pre = append(pre, notify.NewIntegration(&scripted{id: j, script: []string{"ok"}, tmpl: theTemplate(t)}, sendResolved(g.SendResolved), "scripted", j, "team"))
			}
		}
		if len(pre) > 0 {
			st := notify.VerifCreateReceiverStage("team", pre, func() time.Duration { return 0 }, real, metrics, eventrecorder.NopRecorder())
			ctx, cancel := flushCtx(t0, int64(time.Minute))
			if _, _, err := st.Exec(ctx, promslog.NewNopLogger(), alerts...); err != nil {
				o.preErr = err.Error()
			}
			cancel()
		}
		time.Sleep(time.Second)
		stage := notify.VerifCreateReceiverStage("team", integs, func() time.Duration { return 0 }, rl, metrics, eventrecorder.NopRecorder())
		start := time.Now()
		o.start = start.UnixNano()
		ctx, cancel := flushCtx(start, fc.DeadlineOff)
		defer cancel()
		_, _, ferr := stage.Exec(ctx, promslog.NewNopLogger(), alerts...)
		o.failed = ferr != nil
		// faithful payload on every attempt and for every integration: all of them are handed the same alert objects
		for _, sn := range notifiers {
			for k, cl := range sn.calls {
				o.payloads++
				if why := payloadFaithful(fc.Alerts, idxs(alerts, cl.alerts), cl.payload, o.start, cl.at); why != "" && o.payloadViol == "" {
					o.payloadViol = fmt.Sprintf("integration %d attempt %d: %s", sn.id, k+1, why)
				}
			}
		}
		for i, a := range alerts {
			if (!sameKV(lsMap(a.Labels), fc.Alerts[i].Labels) || !sameKV(lsMap(a.Annotations), fc.Alerts[i].Annots)) && o.payloadViol == "" {
				o.payloadViol = fmt.Sprintf("after the flush alert %d of the batch has annotations %v, it had %v", i, a.Annotations, fc.Alerts[i].Annots)
			}
		}
		for j := range fc.Integs {
			recv := &nflogpb.Receiver{GroupName: "team", Integration: "scripted", Idx: uint32(j)}
			es, err := real.Query(nflog.QGroupKey(fanoutGKey), nflog.QReceiver(recv))
			o.logged[j] = err == nil && len(es) == 1 && !es[0].Timestamp.AsTime().Before(start)
		}
	})
	return o
}

func project(evs []EventObs, j int) []EventObs {
	var out []EventObs
	for _, e := range evs {
		if e.Integ == j {
			out = append(out, e)
		}
	}
	return out
}

func runFanout(t *testing.T, c *Case) result {
	fc := c.Fanout
	var res result
	m := len(fc.Integs)
	all := make([]bool, m)
	for j := range all {
		all[j] = true
	}
	o := execFanout(t, fc, all)
	fc.Start, fc.Events, fc.Failed, fc.Logged = o.start, o.events, o.failed, o.logged
	dl := fc.Start + fc.DeadlineOff
	nFiring := 0
	for _, a := range fc.Alerts {
		if isFiring(a) {
			nFiring++
		}
	}

	// ---- Coq term ----
	var gs, evs []string
	needs := make([]bool, m)
	for j, g := range fc.Integs {
		switch g.Prepop {
		case "none":
			needs[j] = nFiring > 0
		case "other":
			needs[j] = true
		}
		var ticks, pe []string
		for _, e := range project(fc.Events, j) {
			if e.Kind == "notify" {
				ticks = append(ticks, vh.Z(e.At))
				pe = append(pe, vh.App("EvNotify", vh.Nat(j), vh.Z(e.At), coqOutcome(e.Outcome)))
			} else {
				pe = append(pe, vh.App("EvLog", vh.Nat(j), vh.Z(e.At)))
			}
		}
		scr := make([]string, len(g.Script))
		for i, oc := range g.Script {
			scr[i] = coqOutcome(oc)
		}
		gs = append(gs, vh.App("mkInteg", vh.Bool(g.SendResolved), vh.Bool(needs[j]), vh.List(ticks), vh.List(scr), vh.Bool(!g.LogFails)))
		evs = append(evs, vh.List(pe))
	}
	res.term = vh.App("CFanout", coqAlerts(fc.Alerts, allIdx(len(fc.Alerts)), fc.Start), vh.Z(fc.Start), vh.Z(dl), vh.List(gs),
		vh.List(evs), vh.Bool(fc.Failed), vh.ListOf(fc.Logged, vh.Bool))

	// ---- direct oracle ----
	viol := func(key, what string) {
		res.viol = append(res.viol, vh.Violation{Key: key, What: what, Case: c})
	}
	if o.payloadViol != "" {
		viol("fanout-payload-not-the-batch", o.payloadViol)
	}
	if o.preErr != "" {
		viol("fanout-always-ok-integration-fails", "a flush whose only integrations succeed at the first attempt failed: "+o.preErr)
	}
	anyFailed := false
	for j, g := range fc.Integs {
		pe := project(fc.Events, j)
		bookkeeping := !g.SendResolved && nFiring == 0
		nNotify, logAt, lastOutcome := 0, -1, ""
		for k, e := range pe {
			if e.Kind == "notify" {
				nNotify++
				lastOutcome = e.Outcome
				if logAt >= 0 {
					viol("fanout-send-after-record", fmt.Sprintf("integration %d: Notify after its Log", j))
				}
				if e.Outcome == "ok" && (k+1 >= len(pe) || pe[k+1].Kind != "log") {
					viol("fanout-sent-but-not-recorded", fmt.Sprintf("integration %d: successful Notify not followed by a Log", j))
				}
				continue
			}
			if logAt >= 0 {
				viol("fanout-recorded-twice", fmt.Sprintf("integration %d: two Log calls in one flush", j))
			}
			logAt = k
			if k == 0 {
				if !bookkeeping {
					viol("fanout-record-without-successful-send", fmt.Sprintf("integration %d: Log without any Notify", j))
				}
			} else if pe[k-1].Kind != "notify" || pe[k-1].Outcome != "ok" {
				viol("fanout-record-without-successful-send", fmt.Sprintf("integration %d: Log not immediately preceded by a successful Notify (previous: %+v)", j, pe[k-1]))
			}
		}
		// sibling isolation: what happens to j follows from j's own notifier alone
		if needs[j] && !bookkeeping && nNotify == 0 {
			viol("fanout-sibling-prevented-send", fmt.Sprintf("integration %d needs to notify (first backoff tick is immediate, deadline in %v) but was never called", j, time.Duration(fc.DeadlineOff)))
		}
		if !needs[j] && len(pe) > 0 {
			viol("fanout-sent-although-deduplicated", fmt.Sprintf("integration %d: the log says nothing changed, yet %+v", j, pe))
		}
		success := needs[j] && (lastOutcome == "ok" || (bookkeeping && nNotify == 0))
		if success != (logAt >= 0) {
			viol("fanout-record-iff-own-success", fmt.Sprintf("integration %d: own chain success=%v but Log called=%v", j, success, logAt >= 0))
		}
		if fc.Logged[j] != (logAt >= 0 && !g.LogFails) {
			viol("fanout-log-entry-mismatch", fmt.Sprintf("integration %d: nflog entry present=%v, Log called=%v, write fails=%v", j, fc.Logged[j], logAt >= 0, g.LogFails))
		}
		if needs[j] && !(success && !g.LogFails) {
			anyFailed = true
		}
	}
	if fc.Failed != anyFailed {
		viol("fanout-error-iff-some-chain-failed", fmt.Sprintf("flush error=%v but some chain failed=%v", fc.Failed, anyFailed))
	}
	// isolation, second form: integration j run WITHOUT its siblings behaves the same, as far as that is
	// independent of the backoff jitter (its first attempt and, if that is final, its record)
	if m > 1 {
		j := int(uint64(fc.Start/7+int64(len(fc.Events))) % uint64(m))
		only := make([]bool, m)
		only[j] = true
		alone := execFanout(t, fc, only)
		pa, pt := project(alone.events, j), project(fc.Events, j)
		same := (len(pa) == 0) == (len(pt) == 0)
		if same && len(pa) > 0 {
			same = pa[0].Kind == pt[0].Kind && pa[0].Outcome == pt[0].Outcome
			if same && pt[0].Outcome != "recov" {
				same = len(pa) == len(pt) && alone.logged[j] == fc.Logged[j]
			}
		}
		if !same {
			viol("fanout-sibling-changes-behaviour", fmt.Sprintf("integration %d alone: %+v logged=%v; with siblings: %+v logged=%v", j, pa, alone.logged[j], pt, fc.Logged[j]))
		}
		res.tags = append(res.tags, "isolation/rerun-alone")
	}

	// histograms
	res.tags = append(res.tags, fmt.Sprintf("integrations/%d", m), fmt.Sprintf("flush/failed=%v", fc.Failed))
	nLogged, nFailedLog := 0, 0
	for j, g := range fc.Integs {
		if fc.Logged[j] {
			nLogged++
		}
		res.tags = append(res.tags, "prepop/"+g.Prepop)
		pe := project(fc.Events, j)
		switch {
		case len(pe) == 0:
			res.tags = append(res.tags, "chain/silent (dedup)")
		case pe[0].Kind == "log":
			res.tags = append(res.tags, "chain/bookkeeping-log")
		case pe[len(pe)-1].Kind == "log" && g.LogFails:
			res.tags = append(res.tags, "chain/sent, log write failed")
			nFailedLog++
		case pe[len(pe)-1].Kind == "log":
			res.tags = append(res.tags, "chain/sent+logged")
		default:
			res.tags = append(res.tags, "chain/failed-"+pe[len(pe)-1].Outcome)
		}
	}
	if m > 1 && nLogged > 0 && fc.Failed {
		res.tags = append(res.tags, "mixed/some-logged-some-failed")
	}
	res.nontrivial = len(fc.Events) >= 2
	_ = vh.Nat
	return res
}
