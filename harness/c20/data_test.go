//go:build verif

package c20

import (
	"bytes"
	"context"
	"encoding/json"
	"fmt"
	"io"
	"net"
	"net/http"
	"net/http/httptest"
	"net/url"
	"strings"
	"sync"
	"sync/atomic"
	"syscall"
	"testing"
	"testing/synctest"
	"time"

	commoncfg "github.com/prometheus/common/config"
	"github.com/prometheus/common/model"
	"github.com/prometheus/common/promslog"

	amcommoncfg "github.com/prometheus/alertmanager/config/common"
	"github.com/prometheus/alertmanager/notify"
	"github.com/prometheus/alertmanager/notify/webhook"
	"github.com/prometheus/alertmanager/template"
	"github.com/prometheus/alertmanager/types"

	"verifharness/vh"
)

// ---------- engine data: template.Template.Data / webhook.Notifier payload ----------

type AlertJ struct {
	Labels   map[string]string `json:"labels"`
	Annots   map[string]string `json:"annotations"`
	StartOff int64             `json:"start_off"` // ns relative to now (negative = past)
	HasEnd   bool              `json:"has_end"`
	EndOff   int64             `json:"end_off"`           // ns relative to now; resolved iff has_end && end_off <= 0
	Timeout  bool              `json:"timeout,omitempty"` // alert.Alert.Timeout: EndsAt was set by resolve_timeout, not by the client
}

// what the template / the webhook receiver saw
type SeenAlert struct {
	Firing bool              `json:"firing"`
	Labels map[string]string `json:"labels"`
	Annots map[string]string `json:"annotations"`
	Starts int64             `json:"starts"`
	Ends   int64             `json:"ends"` // 0 = zero time
}
type SeenData struct {
	Firing       bool              `json:"firing"`
	Alerts       []SeenAlert       `json:"alerts"`
	Group        map[string]string `json:"group"`
	CommonLabels map[string]string `json:"common_labels"`
	CommonAnnots map[string]string `json:"common_annotations"`
	Truncated    uint64            `json:"truncated"`
}

// HookStep is one delivery through the SAME webhook.Notifier. Fault: "" (endpoint up), "down" (dial refused),
// "ctx-cancelled" / "ctx-expired" (flush context already done when Notify is called). Other: the delivery carries
// a different batch (otherBatch) instead of the case's batch.
type HookStep struct {
	Fault string `json:"fault,omitempty"`
	Other bool   `json:"other,omitempty"`
}

type DataCase struct {
	Webhook   bool              `json:"webhook"` // through the real webhook.Notifier and an HTTP server
	MaxAlerts uint64            `json:"max_alerts"`
	Group     map[string]string `json:"group_labels"`
	Alerts    []AlertJ          `json:"alerts"`
	Steps     []HookStep        `json:"steps,omitempty"` // webhook only; empty = three deliveries of the batch, endpoint up
	// observed
	Now  int64     `json:"now,omitempty"`
	Seen *SeenData `json:"seen,omitempty"`
}

var lblKeys = []string{"alertname", "job", "instance", "sev", "zone"}
var lblVals = map[string][]string{"alertname": {"Down", "Down", "Down", "Slow"}, "job": {"api", "api", "db"}, "instance": {"i1", "i2", "i3", "i1"},
	"sev": {"page", "page", "warn"}, "zone": {"eu", "eu", "us", "é\"z"}}
var annKeys = []string{"summary", "note", "runbook"}
var annVals = []string{"", "x", "x", "y", "http://rb/1"}

func genData(r *vh.Rand, env vh.Env) Case {
	dc := &DataCase{Webhook: r.Chance(2, 5), MaxAlerts: vh.Pick(r, []uint64{0, 0, 1, 2, 10}), Group: map[string]string{}}
	n := vh.Pick(r, []int{0, 1, 1, 2, 2, 3, 3, 4, 5, 6})
	timedOutBatch := r.Chance(1, 7)
	shareAll := r.Chance(1, 3) // identical label values everywhere except instance
	for i := 0; i < n; i++ {
		a := AlertJ{Labels: map[string]string{}, Annots: map[string]string{}}
		for _, k := range lblKeys {
			if k != "alertname" && r.Chance(1, 4) {
				continue // label absent on this alert
			}
			v := vh.Pick(r, lblVals[k])
			if shareAll && k != "instance" {
				v = lblVals[k][0]
			}
			if r.Chance(1, 40) {
				v = "" // not admitted by ingestion (C13), but Data must still be an intersection
			}
			a.Labels[k] = v
		}
		for _, k := range annKeys {
			if r.Chance(1, 3) {
				continue
			}
			a.Annots[k] = vh.Pick(r, annVals)
		}
		a.StartOff = -vh.Pick(r, []int64{int64(time.Hour), int64(time.Minute), 1, 0})
		if dc.Webhook { // real clock: keep EndsAt far from "now"
			a.HasEnd = r.Chance(2, 3)
			a.EndOff = vh.Pick(r, []int64{-int64(time.Hour), int64(time.Hour), -int64(time.Minute)})
		} else {
			a.HasEnd = r.Chance(3, 4)
			a.EndOff = vh.Pick(r, []int64{-int64(time.Hour), int64(time.Hour), -1, 0, 1, int64(5 * time.Minute)})
		}
		// the Timeout flag (alert posted without endsAt) is independent of EndsAt and of the status shown
		a.Timeout = r.Bool()
		if timedOutBatch { // only alerts that timed out (resolve_timeout passed): all resolved
			a.Timeout, a.HasEnd, a.EndOff = true, true, -vh.Pick(r, []int64{int64(time.Hour), int64(time.Minute)})
		}
		if i == 0 && r.Chance(2, 3) { // the first alert of the batch has data of its own (a templated description, ...)
			a.Annots["description"] = "instance i1 is down since 12:00"
			if r.Bool() {
				a.Labels["extra"] = "only-here"
			}
		} else if r.Chance(1, 3) {
			a.Annots["description"] = fmt.Sprintf("text %d", i)
		}
		dc.Alerts = append(dc.Alerts, a)
	}
	if n > 0 {
		for _, k := range lblKeys[:2+r.Intn(2)] {
			if v, ok := dc.Alerts[0].Labels[k]; ok && r.Bool() {
				dc.Group[k] = v
			}
		}
	}
	if dc.Webhook && r.Chance(3, 5) {
		// transport-level faults between deliveries through the same notifier (endpoint down, context already
		// done), with the same or a different batch, then the endpoint is up again
		k := r.Range(1, 4)
		for i := 0; i < k; i++ {
			st := HookStep{Other: r.Bool()}
			if !r.Chance(1, 4) {
				st.Fault = vh.Pick(r, []string{"down", "down", "ctx-cancelled", "ctx-expired"})
			}
			dc.Steps = append(dc.Steps, st)
		}
		dc.Steps = append(dc.Steps, HookStep{}) // the case's batch, endpoint up
		if r.Bool() {
			dc.Steps = append(dc.Steps, HookStep{Fault: vh.Pick(r, []string{"down", "ctx-cancelled"}), Other: r.Bool()}, HookStep{Other: true}, HookStep{})
		}
	}
	return Case{Engine: "data", Data: dc}
}

func toLS(m map[string]string) model.LabelSet {
	ls := model.LabelSet{}
	for k, v := range m {
		ls[model.LabelName(k)] = model.LabelValue(v)
	}
	return ls
}

func mkAlerts(as []AlertJ, now time.Time) []*types.Alert {
	var out []*types.Alert
	for _, a := range as {
		al := &types.Alert{Alert: model.Alert{Labels: toLS(a.Labels), Annotations: toLS(a.Annots), StartsAt: now.Add(time.Duration(a.StartOff))}, UpdatedAt: now}
		if a.HasEnd {
			al.EndsAt = now.Add(time.Duration(a.EndOff))
		}
		al.Timeout = a.Timeout
		out = append(out, al)
	}
	return out
}

func ns(t time.Time) int64 {
	if t.IsZero() {
		return 0
	}
	return t.UnixNano()
}

func seenOf(d *template.Data, truncated uint64) *SeenData {
	s := &SeenData{Firing: d.Status == string(model.AlertFiring), Group: d.GroupLabels, CommonLabels: d.CommonLabels,
		CommonAnnots: d.CommonAnnotations, Truncated: truncated}
	for _, a := range d.Alerts {
		s.Alerts = append(s.Alerts, SeenAlert{Firing: a.Status == string(model.AlertFiring), Labels: a.Labels, Annots: a.Annotations, Starts: ns(a.StartsAt), Ends: ns(a.EndsAt)})
	}
	return s
}

// the "different batch" of a HookStep
var otherBatch = []AlertJ{{Labels: map[string]string{"alertname": "Stale", "instance": "other"}, Annots: map[string]string{"summary": "a different batch"}, StartOff: -int64(time.Minute)}}

// oneJSONDocument decodes the first JSON document of a request body the way a receiver would and reports whether
// anything but white space follows it
func oneJSONDocument(body []byte, v any) (trailing string, err error) {
	dec := json.NewDecoder(bytes.NewReader(body))
	if err := dec.Decode(v); err != nil {
		return "", err
	}
	rest, _ := io.ReadAll(dec.Buffered())
	off := int(dec.InputOffset())
	if off < len(body) {
		rest = body[off:]
	}
	return strings.TrimSpace(string(rest)), nil
}

func labelsOf(as []AlertJ, max uint64) string {
	if max != 0 && uint64(len(as)) > max {
		as = as[:max]
	}
	out := []map[string]string{}
	for _, a := range as {
		out = append(out, a.Labels)
	}
	return mustJSON(out)
}

func mustJSON(v any) string {
	b, err := json.Marshal(v)
	if err != nil {
		panic(err)
	}
	return string(b)
}

func lsMap(ls model.LabelSet) map[string]string {
	m := map[string]string{}
	for k, v := range ls {
		m[string(k)] = string(v)
	}
	return m
}

func coqKV(m map[string]string) string {
	ks := vh.SortedKeys(m)
	parts := make([]string, len(ks))
	for i, k := range ks {
		parts[i] = vh.Pair(vh.Str(k), vh.Str(m[k]))
	}
	return vh.List(parts)
}

func coqSeen(s *SeenData) string {
	var as []string
	for _, a := range s.Alerts {
		as = append(as, vh.App("mkTAlert", vh.Bool(a.Firing), coqKV(a.Labels), coqKV(a.Annots), vh.Z(a.Starts), vh.Z(a.Ends)))
	}
	return vh.App("mkData", vh.Bool(s.Firing), vh.List(as), coqKV(s.Group), coqKV(s.CommonLabels), coqKV(s.CommonAnnots))
}

var (
	tmplOnce sync.Once
	tmpl     *template.Template
	hookSrv  *httptest.Server
	hookMu   sync.Mutex
	hookBody []byte
	hookHits int
)

func theTemplate(t *testing.T) *template.Template {
	tmplOnce.Do(func() {
		var err error
		tmpl, err = template.FromGlobs([]string{})
		if err != nil {
			t.Fatal(err)
		}
		tmpl.ExternalURL, _ = url.Parse("http://am.example")
	})
	return tmpl
}

func theHookServer() *httptest.Server {
	if hookSrv == nil {
		hookSrv = httptest.NewServer(http.HandlerFunc(func(w http.ResponseWriter, r *http.Request) {
			b, _ := io.ReadAll(r.Body)
			hookMu.Lock()
			hookBody = b
			hookHits++
			hookMu.Unlock()
			w.WriteHeader(200)
		}))
	}
	return hookSrv
}

func sameKV(a, b map[string]string) bool {
	if len(a) != len(b) {
		return false
	}
	for k, v := range a {
		if w, ok := b[k]; !ok || w != v {
			return false
		}
	}
	return true
}

// intersection over the listed alerts of (name, value) pairs, by brute force
func intersect(as []AlertJ, sel func(AlertJ) map[string]string) map[string]string {
	out := map[string]string{}
	if len(as) == 0 {
		return out
	}
	for k, v := range sel(as[0]) {
		all := true
		for _, a := range as[1:] {
			if w, ok := sel(a)[k]; !ok || w != v {
				all = false
			}
		}
		if all {
			out[k] = v
		}
	}
	return out
}

func runData(t *testing.T, c *Case) result {
	dc := c.Data
	var res result
	var seen *SeenData
	var rounds []*SeenData
	var inputs []*types.Alert
	var now time.Time
	var stepViol [][2]string
	var stepTags []string
	if dc.Webhook {
		srv := theHookServer()
		var down atomic.Bool
		dial := func(ctx context.Context, network, addr string) (net.Conn, error) {
			if down.Load() {
				return nil, &net.OpError{Op: "dial", Net: network, Err: syscall.ECONNREFUSED}
			}
			return (&net.Dialer{}).DialContext(ctx, network, addr)
		}
		newNotifier := func() *webhook.Notifier {
			n, err := webhook.New(&webhook.WebhookConfig{URL: amcommoncfg.SecretTemplateURL(srv.URL), HTTPConfig: &commoncfg.HTTPClientConfig{}, MaxAlerts: dc.MaxAlerts},
				theTemplate(t), promslog.NewNopLogger(), commoncfg.WithKeepAlivesDisabled(), commoncfg.WithDialContextFunc(dial))
			if err != nil {
				t.Fatal(err)
			}
			return n
		}
		n := newNotifier()
		now = time.Now()
		base := notify.WithGroupKey(context.Background(), "{}:{alertname=\"Down\"}")
		base = notify.WithReceiverName(base, "team")
		base = notify.WithGroupLabels(base, toLS(dc.Group))
		base = notify.WithNotificationReason(base, notify.ReasonFirstNotification)
		// the SAME alert objects are delivered several times through the SAME notifier (as retries, sibling
		// integrations or later flushes would), possibly with transport-level failures and other batches in
		// between: every request that reaches the endpoint must carry exactly one JSON document, the payload of
		// ITS batch; the alerts themselves must come out untouched
		inputs = mkAlerts(dc.Alerts, now)
		others := mkAlerts(otherBatch, now)
		steps := dc.Steps
		if len(steps) == 0 {
			steps = []HookStep{{}, {}, {}}
		}
		runSteps := func(n *webhook.Notifier, steps []HookStep) {
			for si, st := range steps {
				hookMu.Lock()
				hookBody, hookHits = nil, 0
				hookMu.Unlock()
				ctx, cancel := context.WithCancel(base)
				down.Store(st.Fault == "down")
				switch st.Fault {
				case "ctx-cancelled":
					cancel()
				case "ctx-expired":
					cancel()
					ctx, cancel = context.WithDeadline(base, time.Now().Add(-time.Second))
				}
				batch, batchJ := inputs, dc.Alerts
				if st.Other {
					batch, batchJ = others, otherBatch
				}
				retry, err := n.Notify(ctx, batch...)
				cancel()
				hookMu.Lock()
				body, hits := hookBody, hookHits
				hookMu.Unlock()
				stepTags = append(stepTags, "webhook-step/"+map[string]string{"": "up"}[st.Fault]+st.Fault)
				if st.Fault != "" {
					if err == nil || hits != 0 {
						stepViol = append(stepViol, [2]string{"webhook-transport-failure-not-reported", fmt.Sprintf("step %d (%s): err=%v, requests received=%d", si+1, st.Fault, err, hits)})
					}
					continue
				}
				if err != nil || retry {
					stepViol = append(stepViol, [2]string{"webhook-healthy-endpoint-delivery-failed", fmt.Sprintf("step %d: endpoint up, answered 200 to whatever it could decode, but Notify returned retry=%v err=%v; body %q", si+1, retry, err, body)})
				}
				var msg webhook.Message
				trailing, derr := oneJSONDocument(body, &msg)
				if derr != nil || msg.Data == nil {
					stepViol = append(stepViol, [2]string{"payload-not-json", fmt.Sprintf("step %d: %v: %q", si+1, derr, body)})
					continue
				}
				if trailing != "" {
					stepViol = append(stepViol, [2]string{"payload-has-trailing-or-stale-bytes", fmt.Sprintf("step %d: the request body holds more than one JSON document; after the first: %q", si+1, trailing)})
				}
				sn := seenOf(msg.Data, msg.TruncatedAlerts)
				got := []map[string]string{}
				for _, a := range sn.Alerts {
					got = append(got, a.Labels)
				}
				if want := labelsOf(batchJ, dc.MaxAlerts); mustJSON(got) != want {
					stepViol = append(stepViol, [2]string{"payload-not-the-current-batch", fmt.Sprintf("step %d: the (first) document of the request lists alerts %s, the batch being delivered is %s", si+1, mustJSON(got), want)})
				}
				if !st.Other {
					rounds = append(rounds, sn)
				}
			}
		}
		runSteps(n, steps)
		if len(rounds) == 0 {
			// every delivery of the batch through this notifier failed (reported above): take the payload for the
			// model comparison from a fresh notifier
			runSteps(newNotifier(), []HookStep{{}})
		}
		if len(rounds) == 0 {
			t.Fatalf("no delivery of the batch reached the endpoint: %v", stepViol)
		}
	} else {
		synctest.Test(t, func(t *testing.T) {
			now = time.Now()
			inputs = mkAlerts(dc.Alerts, now)
			for round := 0; round < 3; round++ {
				d := theTemplate(t).Data("team", toLS(dc.Group), nil, "first notification", inputs...)
				rounds = append(rounds, seenOf(d, 0))
			}
		})
	}
	// the model is compared with the LAST build; the direct oracle below requires all builds to agree
	seen = rounds[len(rounds)-1]
	dc.Now, dc.Seen = now.UnixNano(), seen

	// Coq term
	var as []string
	for _, a := range dc.Alerts {
		ends := int64(0)
		if a.HasEnd {
			ends = now.UnixNano() + a.EndOff
		}
		as = append(as, vh.App("mkAlert", coqKV(a.Labels), coqKV(a.Annots), vh.Z(now.UnixNano()+a.StartOff), vh.Z(ends)))
	}
	if dc.Webhook {
		res.term = vh.App("CWebhook", vh.Z(int64(dc.MaxAlerts)), vh.Z(now.UnixNano()), coqKV(dc.Group), vh.List(as),
			vh.Pair(coqSeen(seen), vh.Z(int64(seen.Truncated))))
	} else {
		res.term = vh.App("CData", vh.Z(now.UnixNano()), coqKV(dc.Group), vh.List(as), coqSeen(seen))
	}

	// ---- direct oracle ----
	viol := func(key, what string) {
		res.viol = append(res.viol, vh.Violation{Key: key, What: what, Case: c})
	}
	for _, v := range stepViol {
		viol(v[0], v[1])
	}
	res.tags = append(res.tags, stepTags...)
	for k := 1; k < len(rounds); k++ {
		if a, b := mustJSON(rounds[0]), mustJSON(rounds[k]); a != b {
			viol("payload-differs-on-rebuild", fmt.Sprintf("build %d of the payload from the same alert objects differs from build 1: %s  vs  %s", k+1, b, a))
			break
		}
	}
	for i, a := range inputs {
		if !sameKV(lsMap(a.Labels), dc.Alerts[i].Labels) || !sameKV(lsMap(a.Annotations), dc.Alerts[i].Annots) {
			viol("payload-build-mutates-alert", fmt.Sprintf("after building the payload alert %d of the batch has labels %v annotations %v, it had labels %v annotations %v",
				i, a.Labels, a.Annotations, dc.Alerts[i].Labels, dc.Alerts[i].Annots))
			break
		}
	}
	listed := dc.Alerts
	wantTrunc := uint64(0)
	if dc.Webhook && dc.MaxAlerts != 0 && uint64(len(listed)) > dc.MaxAlerts {
		wantTrunc = uint64(len(listed)) - dc.MaxAlerts
		listed = listed[:dc.MaxAlerts]
	}
	if dc.Webhook && dc.MaxAlerts != 0 && uint64(len(seen.Alerts)) > dc.MaxAlerts {
		viol("payload-exceeds-max-alerts", fmt.Sprintf("%d alerts listed with max_alerts=%d", len(seen.Alerts), dc.MaxAlerts))
	}
	if seen.Truncated != wantTrunc {
		viol("payload-truncated-count-wrong", fmt.Sprintf("truncatedAlerts=%d want %d", seen.Truncated, wantTrunc))
	}
	anyFiring := false
	if len(seen.Alerts) != len(listed) {
		viol("payload-alert-list-differs", fmt.Sprintf("%d alerts listed, batch has %d", len(seen.Alerts), len(listed)))
	} else {
		for i, a := range listed {
			s := seen.Alerts[i]
			firing := !(a.HasEnd && a.EndOff <= 0)
			anyFiring = anyFiring || firing
			wantEnds := int64(0)
			if !firing {
				wantEnds = now.UnixNano() + a.EndOff
			}
			if !sameKV(s.Labels, a.Labels) || !sameKV(s.Annots, a.Annots) || s.Starts != now.UnixNano()+a.StartOff || s.Firing != firing || s.Ends != wantEnds {
				viol("payload-alert-list-differs", fmt.Sprintf("alert %d of the payload is not alert %d of the batch (or has the wrong status)", i, i))
			}
		}
		if seen.Firing != anyFiring {
			viol("payload-status-not-firing-iff", fmt.Sprintf("status firing=%v but some listed alert fires=%v", seen.Firing, anyFiring))
		}
	}
	if !sameKV(seen.CommonLabels, intersect(listed, func(a AlertJ) map[string]string { return a.Labels })) {
		viol("payload-common-labels-not-intersection", fmt.Sprintf("commonLabels=%v", seen.CommonLabels))
	}
	if w := intersect(listed, func(a AlertJ) map[string]string { return a.Annots }); !sameKV(seen.CommonAnnots, w) {
		viol("payload-common-annotations-not-intersection", fmt.Sprintf("commonAnnotations=%v but the intersection over the listed alerts is %v", seen.CommonAnnots, w))
	}
	if !sameKV(seen.Group, dc.Group) {
		viol("payload-group-labels-differ", fmt.Sprintf("groupLabels=%v", seen.Group))
	}

	// histograms
	mode := "Data"
	if dc.Webhook {
		mode = "webhook"
	}
	res.tags = append(res.tags, "mode/"+mode, fmt.Sprintf("alerts/%d", len(dc.Alerts)))
	if dc.Webhook {
		res.tags = append(res.tags, fmt.Sprintf("max_alerts/%d", dc.MaxAlerts))
		if wantTrunc > 0 {
			res.tags = append(res.tags, "webhook/truncated")
		}
	}
	nf := 0
	for _, s := range seen.Alerts {
		if s.Firing {
			nf++
		}
	}
	switch {
	case len(seen.Alerts) == 0:
		res.tags = append(res.tags, "status/empty")
	case nf == 0:
		res.tags = append(res.tags, "status/all-resolved")
	case nf == len(seen.Alerts):
		res.tags = append(res.tags, "status/all-firing")
	default:
		res.tags = append(res.tags, "status/mixed")
	}
	res.tags = append(res.tags, fmt.Sprintf("common_labels/%d", len(seen.CommonLabels)), fmt.Sprintf("common_annotations/%d", len(seen.CommonAnnots)))
	res.nontrivial = len(dc.Alerts) >= 2
	return res
}
