//go:build verif

package c20

import (
	"context"
	"encoding/json"
	"fmt"
	"io"
	"net/http"
	"net/http/httptest"
	"net/url"
	"sort"
	"strings"
	"sync"
	"testing"
	"time"
	"unicode/utf8"

	"github.com/prometheus/client_golang/prometheus"
	commoncfg "github.com/prometheus/common/config"
	"github.com/prometheus/common/promslog"

	"github.com/prometheus/alertmanager/config"
	amcommoncfg "github.com/prometheus/alertmanager/config/common"
	"github.com/prometheus/alertmanager/config/receiver"
	"github.com/prometheus/alertmanager/eventrecorder"
	"github.com/prometheus/alertmanager/featurecontrol"
	"github.com/prometheus/alertmanager/nflog"
	"github.com/prometheus/alertmanager/nflog/nflogpb"
	"github.com/prometheus/alertmanager/notify"
	"github.com/prometheus/alertmanager/notify/webex"

	"verifharness/vh"
)

// ---------- engine recv: the integrations of ONE receiver as the real builder makes them ----------
//
// createReceiverStage keys the notification log (and DedupStage) by <receiver>/<Name()>/<Index()>. The fanout model's
// chains are independent only if these keys are pairwise distinct, so:
//   keys   a receiver with several kinds (and several configs per kind) built by receiver.BuildReceiverIntegrations:
//          the (Name, Index) pairs are exactly (config key stem, position) — hence pairwise distinct;
//   pair   two integrations of DIFFERENT kinds in one receiver through the real receiver stage and a real nflog:
//          flush 1 with one endpoint failing (400), flush 2 with both up: the failed one is re-sent, the other is not.

// kind -> one config body (%s = sink URL). Every integration kind of config.Receiver.
var kindBody = map[string]string{
	"email":      "{to: oncall@example.org, smarthost: 'localhost:2525', from: am@example.org, require_tls: false}",
	"slack":      "{channel: '#alerts', api_url: '%s'}",
	"pagerduty":  "{service_key: k, url: '%s'}",
	"opsgenie":   "{api_url: '%s/', api_key: k}",
	"wechat":     "{api_url: '%s/', api_secret: s, corp_id: corp, to_user: u}",
	"victorops":  "{routing_key: team-db, api_url: '%s/', api_key: k}",
	"telegram":   "{chat_id: 42, api_url: '%s', bot_token: t}",
	"webex":      "{room_id: room, api_url: '%s', http_config: {authorization: {credentials: c}}}",
	"rocketchat": "{channel: c, api_url: '%s/', token: t, token_id: i}",
	"jira":       "{project: OPS, issue_type: Bug, api_url: '%s', http_config: {basic_auth: {username: u, password: p}}}",
	"mattermost": "{channel: c, webhook_url: '%s'}",
	"webhook":    "{url: '%s'}",
	"pushover":   "{user_key: u, token: t}",
	"incidentio": "{url: '%s', alert_source_token: t}",
	"sns":        "{api_url: '%s', topic_arn: 'arn:aws:sns:us-east-1:123456789012:t', sigv4: {region: us-east-1, access_key: AK, secret_key: SK}}",
	"discord":    "{webhook_url: '%s'}",
	"msteams":    "{webhook_url: '%s'}",
	"msteamsv2":  "{webhook_url: '%s'}",
}

// kinds whose delivery is one plain POST answered by a status code (used by the pair engine)
var pairKinds = []string{"webhook", "slack", "msteams", "msteamsv2", "discord", "mattermost"}

type KindN struct {
	Kind string `json:"kind"`
	N    int    `json:"n"`
}

type RecvCase struct {
	Mode  string  `json:"mode"` // keys | pair (slow-body and SMTP-QUIT result handling: package notifres)
	Kinds []KindN `json:"kinds"`
	Fail  int     `json:"fail"` // pair: which of the two fails in flush 1
	// observed
	Built [][2]string `json:"built,omitempty"` // (Name, Index) in builder order
}

func allKinds() []string {
	ks := vh.SortedKeys(kindBody)
	return ks
}

func genRecv(r *vh.Rand, env vh.Env) Case {
	rc := &RecvCase{Mode: "keys"}
	switch r.Intn(4) {
	case 0: // every kind once or twice
		for _, k := range allKinds() {
			rc.Kinds = append(rc.Kinds, KindN{k, r.Range(1, 2)})
		}
	case 1: // a random subset
		for _, k := range allKinds() {
			if r.Chance(1, 3) {
				rc.Kinds = append(rc.Kinds, KindN{k, r.Range(1, 3)})
			}
		}
		if len(rc.Kinds) == 0 {
			rc.Kinds = []KindN{{"webhook", 2}}
		}
	default:
		rc.Mode = "pair"
		pairs := [][2]string{{"msteams", "msteamsv2"}, {"webhook", "slack"}, {"msteams", "msteamsv2"}}
		p := vh.Pick(r, pairs)
		if r.Chance(1, 3) {
			a := vh.Pick(r, pairKinds)
			b := vh.Pick(r, pairKinds)
			for b == a {
				b = vh.Pick(r, pairKinds)
			}
			p = [2]string{a, b}
		}
		rc.Kinds = []KindN{{p[0], 1}, {p[1], 1}}
		rc.Fail = r.Intn(2)
	}
	return Case{Engine: "recv", Recv: rc}
}

// one sink for all integration engines: counts requests per path, fails the paths in `fail` with 400
type integSink struct {
	srv  *httptest.Server
	mu   sync.Mutex
	hits map[string]int
	body map[string][]byte
	fail map[string]bool
}

var theSink *integSink

func sink() *integSink {
	if theSink == nil {
		s := &integSink{hits: map[string]int{}, body: map[string][]byte{}, fail: map[string]bool{}}
		s.srv = httptest.NewServer(http.HandlerFunc(func(w http.ResponseWriter, r *http.Request) {
			b, _ := io.ReadAll(r.Body)
			s.mu.Lock()
			s.hits[r.URL.Path]++
			s.body[r.URL.Path] = b
			bad := s.fail[r.URL.Path]
			s.mu.Unlock()
			if bad {
				w.WriteHeader(http.StatusBadRequest)
				return
			}
			w.WriteHeader(http.StatusOK)
			io.WriteString(w, "ok")
		}))
		theSink = s
	}
	return theSink
}

func (s *integSink) reset(fail ...string) {
	s.mu.Lock()
	s.fail = map[string]bool{}
	for _, f := range fail {
		s.fail[f] = true
	}
	s.mu.Unlock()
}

func (s *integSink) count(path string) int {
	s.mu.Lock()
	defer s.mu.Unlock()
	return s.hits[path]
}

var recvSeq int

func runRecv(t *testing.T, c *Case) result {
	rc := c.Recv
	var res result
	sk := sink()
	recvSeq++
	var y strings.Builder
	y.WriteString("route: {receiver: team}\nreceivers:\n- name: team\n")
	var expected []string
	paths := map[string]string{}
	for _, kn := range rc.Kinds {
		fmt.Fprintf(&y, "  %s_configs:\n", kn.Kind)
		for i := 0; i < kn.N; i++ {
			p := fmt.Sprintf("/r%d/%s-%d", recvSeq, kn.Kind, i)
			paths[fmt.Sprintf("%s/%d", kn.Kind, i)] = p
			body := kindBody[kn.Kind]
			if strings.Contains(body, "%s") {
				body = fmt.Sprintf(body, sk.srv.URL+p)
			}
			fmt.Fprintf(&y, "  - %s\n", body)
			expected = append(expected, vh.Pair(vh.Str(kn.Kind), vh.Z(int64(i))))
		}
	}
	cfg, err := config.Load(y.String())
	if err != nil {
		t.Fatalf("recv: config.Load: %v\n%s", err, y.String())
	}
	integs, err := receiver.BuildReceiverIntegrations(cfg.Receivers[0], theTemplate(t), promslog.NewNopLogger(), commoncfg.WithKeepAlivesDisabled())
	if err != nil {
		t.Fatalf("recv: BuildReceiverIntegrations: %v", err)
	}
	viol := func(key, what string) {
		res.viol = append(res.viol, vh.Violation{Key: key, What: what, Case: c})
	}
	var built []string
	rc.Built = nil
	seen := map[string]bool{}
	for i := range integs {
		k := fmt.Sprintf("%s/%d", integs[i].Name(), integs[i].Index())
		rc.Built = append(rc.Built, [2]string{integs[i].Name(), fmt.Sprint(integs[i].Index())})
		built = append(built, vh.Pair(vh.Str(integs[i].Name()), vh.Z(int64(integs[i].Index()))))
		if seen[k] {
			viol("receiver-integrations-share-log-key", fmt.Sprintf("two integrations of one receiver are both %q: they share the notification-log key team/%s", k, k))
		}
		seen[k] = true
	}
	// the builder keeps the order of config.Receiver's fields; compare as sets (sorted)
	se, sb := append([]string(nil), expected...), append([]string(nil), built...)
	sort.Strings(se)
	sort.Strings(sb)
	if strings.Join(se, ";") != strings.Join(sb, ";") {
		var names []string
		for _, b := range rc.Built {
			names = append(names, b[0]+"/"+b[1])
		}
		viol("receiver-integration-name-not-config-key", fmt.Sprintf("configured %v, built (Name/Index) %v", rc.Kinds, names))
	}
	res.term = vh.App("CRecvKeys", vh.List(se), vh.List(sb))
	res.tags = append(res.tags, "mode/"+rc.Mode, fmt.Sprintf("integrations/%02d", len(integs)))
	res.nontrivial = len(integs) >= 2
	if rc.Mode != "pair" || len(integs) != 2 {
		return res
	}

	// ---- pair: sibling isolation through the real receiver stage, real notifiers, real nflog ----
	kinds := [2]string{rc.Kinds[0].Kind, rc.Kinds[1].Kind}
	res.tags = append(res.tags, "pair/"+kinds[0]+"+"+kinds[1])
	p := [2]string{paths[kinds[0]+"/0"], paths[kinds[1]+"/0"]}
	a, b := rc.Fail, 1-rc.Fail // a fails in flush 1
	log, err := nflog.New(nflog.Options{Retention: 2 * time.Hour, Metrics: prometheus.NewRegistry()})
	if err != nil {
		t.Fatal(err)
	}
	stage := notify.VerifCreateReceiverStage("team", integs, func() time.Duration { return 0 }, log,
		notify.NewMetrics(prometheus.NewRegistry(), featurecontrol.NoopFlags{}), eventrecorder.NopRecorder())
	now := time.Now()
	alerts := mkAlerts([]AlertJ{{Labels: map[string]string{"alertname": "Down", "instance": "i0"}, Annots: map[string]string{"summary": "x"}, StartOff: -int64(time.Minute)}}, now)
	flush := func() error {
		ctx := notify.WithGroupKey(context.Background(), fanoutGKey)
		ctx = notify.WithReceiverName(ctx, "team")
		ctx = notify.WithGroupLabels(ctx, toLS(map[string]string{"alertname": "Down"}))
		ctx = notify.WithRepeatInterval(ctx, time.Hour)
		ctx, cancel := context.WithTimeout(ctx, 10*time.Second)
		defer cancel()
		_, _, err := stage.Exec(ctx, promslog.NewNopLogger(), alerts...)
		return err
	}
	logged := func(i int) bool {
		es, err := log.Query(nflog.QGroupKey(fanoutGKey), nflog.QReceiver(&nflogpb.Receiver{GroupName: "team", Integration: kinds[i], Idx: 0}))
		return err == nil && len(es) == 1
	}
	a0, b0 := sk.count(p[a]), sk.count(p[b])
	sk.reset(p[a])
	err1 := flush()
	a1, b1 := sk.count(p[a]), sk.count(p[b])
	if err1 == nil {
		viol("pair-failure-not-reported", fmt.Sprintf("%s answered 400 but the flush reported no error", kinds[a]))
	}
	if b1-b0 != 1 {
		viol("pair-sibling-failure-blocks-delivery", fmt.Sprintf("%s failed; its sibling %s received %d requests in that flush", kinds[a], kinds[b], b1-b0))
	}
	if a1-a0 < 1 {
		viol("pair-integration-not-attempted", fmt.Sprintf("%s received no request", kinds[a]))
	}
	if logged(a) || !logged(b) {
		viol("pair-log-not-per-integration", fmt.Sprintf("after flush 1 (%s failed, %s delivered): log entry for %s=%v, for %s=%v", kinds[a], kinds[b], kinds[a], logged(a), kinds[b], logged(b)))
	}
	sk.reset()
	err2 := flush()
	a2, b2 := sk.count(p[a]), sk.count(p[b])
	if a2-a1 != 1 {
		viol("pair-sibling-success-masks-failed-integration", fmt.Sprintf("%s failed in flush 1 while its sibling %s delivered; in flush 2 (endpoint healthy again) %s received %d requests: the failed notification is never re-sent", kinds[a], kinds[b], kinds[a], a2-a1))
	}
	if b2-b1 != 0 {
		viol("pair-delivered-notification-repeated", fmt.Sprintf("%s delivered in flush 1 and received %d more requests in flush 2 (nothing changed)", kinds[b], b2-b1))
	}
	if err2 != nil {
		viol("pair-healthy-flush-failed", fmt.Sprintf("flush 2: %v", err2))
	}
	if !logged(a) || !logged(b) {
		viol("pair-log-not-per-integration", fmt.Sprintf("after flush 2: log entry for %s=%v, for %s=%v", kinds[a], logged(a), kinds[b], logged(b)))
	}
	return res
}

// ---------- engine limit: text limits of real integrations, in the unit the service counts in ----------

// Webex rejects a message larger than 7439 BYTES (notify/webex: "maximum message length that Webex supports");
// the request's markdown field must be TruncateInBytes(message, 7439) — compared with the Coq model as a CTrunc case.
const webexLimitBytes = 7439

type LimitCase struct {
	Integration string `json:"integration"` // webex
	Unit        string `json:"unit"`        // one of a, é, 日, 🔥 or "mix"
	Count       int    `json:"count"`
	// observed
	OutLen   int `json:"out_bytes,omitempty"`
	OutRunes int `json:"out_runes,omitempty"`
}

func genLimit(r *vh.Rand, env vh.Env) Case {
	lc := &LimitCase{Integration: "webex", Unit: vh.Pick(r, []string{"a", "é", "日", "\U0001f525", "mix"})}
	w := map[string]int{"a": 1, "é": 2, "日": 3, "\U0001f525": 4, "mix": 2}[lc.Unit]
	switch r.Intn(4) {
	case 0: // around the limit in bytes
		lc.Count = webexLimitBytes/w + r.Range(-3, 3)
	case 1: // around the limit in runes
		lc.Count = webexLimitBytes + r.Range(-3, 3)
	case 2:
		lc.Count = webexLimitBytes/w + r.Range(1, 3000)
	default:
		lc.Count = r.Range(1, 9000)
	}
	return Case{Engine: "limit", Limit: lc}
}

func limitText(lc *LimitCase) string {
	if lc.Unit != "mix" {
		return strings.Repeat(lc.Unit, lc.Count)
	}
	var sb strings.Builder
	u := []string{"a", "é", "日", "b", "\U0001f525", "c"}
	for i := 0; i < lc.Count; i++ {
		sb.WriteString(u[i%len(u)])
	}
	return sb.String()
}

func runLimit(t *testing.T, c *Case) result {
	lc := c.Limit
	var res result
	sk := sink()
	recvSeq++
	path := fmt.Sprintf("/l%d/webex", recvSeq)
	u, _ := url.Parse(sk.srv.URL + path)
	text := limitText(lc)
	n, err := webex.New(&config.WebexConfig{HTTPConfig: &commoncfg.HTTPClientConfig{}, APIURL: &amcommoncfg.URL{URL: u},
		Message: `{{ (index .Alerts 0).Annotations.summary }}`, RoomID: "room"}, theTemplate(t), promslog.NewNopLogger(), commoncfg.WithKeepAlivesDisabled())
	if err != nil {
		t.Fatal(err)
	}
	now := time.Now()
	alerts := mkAlerts([]AlertJ{{Labels: map[string]string{"alertname": "Down"}, Annots: map[string]string{"summary": text}, StartOff: -int64(time.Minute)}}, now)
	ctx := notify.WithGroupKey(context.Background(), fanoutGKey)
	ctx, cancel := context.WithTimeout(ctx, 10*time.Second)
	defer cancel()
	sk.reset()
	if retry, err := n.Notify(ctx, alerts...); err != nil {
		t.Fatalf("webex Notify: retry=%v err=%v", retry, err)
	}
	sk.mu.Lock()
	body := sk.body[path]
	sk.mu.Unlock()
	var msg struct {
		Markdown string `json:"markdown"`
	}
	if err := json.Unmarshal(body, &msg); err != nil {
		t.Fatalf("webex body: %v", err)
	}
	out := msg.Markdown
	lc.OutLen, lc.OutRunes = len(out), utf8.RuneCountInString(out)
	res.term = vh.App("CLimitBytes", vh.Z(webexLimitBytes), vh.Z(int64(len(text))), vh.Z(int64(len(out))), vh.Bool(out == text))
	res.nontrivial = out != text
	viol := func(key, what string) {
		res.viol = append(res.viol, vh.Violation{Key: key, What: what, Case: c})
	}
	if len(out) > webexLimitBytes {
		viol("integration-text-exceeds-service-limit", fmt.Sprintf("webex: message of %d x %q sent with %d bytes (%d runes); Webex accepts at most %d bytes", lc.Count, lc.Unit, len(out), lc.OutRunes, webexLimitBytes))
	}
	if !utf8.ValidString(out) {
		viol("truncate-splits-character", "webex: the message sent is not valid UTF-8")
	}
	if len(text) <= webexLimitBytes && out != text {
		viol("truncate-changed-fitting-string", fmt.Sprintf("webex: a message of %d bytes was cut to %d bytes", len(text), len(out)))
	}
	bucket := "fits"
	if out != text {
		bucket = "cut"
	}
	res.tags = append(res.tags, "webex/"+bucket, "unit-bytes/"+fmt.Sprint(map[string]int{"a": 1, "é": 2, "日": 3, "\U0001f525": 4, "mix": 0}[lc.Unit]))
	return res
}
