//go:build verif

// Package c20: correspondence + direct oracles for C20 (delivery contract) against the real notify / template /
// webhook code. Four engines inside one check:
//
//	trunc   notify.TruncateInRunes / TruncateInBytes (panics captured)          trunc_test.go
//	rcheck  notify.Retrier.Check                                               trunc_test.go
//	data    template.Template.Data and the real webhook.Notifier -> httptest   data_test.go
//	retry   notify.RetryStage under synctest with a scripted Notifier          retry_test.go
//	fanout  FanoutStage{MultiStage{Wait,Dedup,Retry,SetNotifies}} + real nflog  fanout_test.go
package c20

import (
	"encoding/hex"
	"testing"

	"verifharness/notifres"
	"verifharness/vh"
)

// Case is the JSON/replayable form of one case (exactly one engine field is set).
type Case struct {
	Engine string      `json:"engine"`
	Trunc  *TruncCase  `json:"trunc,omitempty"`
	RCheck *RCheckCase `json:"rcheck,omitempty"`
	Data   *DataCase   `json:"data,omitempty"`
	Retry  *RetryCase  `json:"retry,omitempty"`
	Fanout *FanoutCase `json:"fanout,omitempty"`
	Recv   *RecvCase   `json:"recv,omitempty"`
	Limit  *LimitCase  `json:"limit,omitempty"`
}

// result of running one case on the implementation
type result struct {
	term       string // Coq term of type case
	nontrivial bool
	viol       []vh.Violation
	tags       []string // histogram buckets "hist/bucket"
}

func hx(s string) string { return hex.EncodeToString([]byte(s)) }
func unhx(s string) string {
	b, err := hex.DecodeString(s)
	if err != nil {
		panic(err)
	}
	return string(b)
}

type engine struct {
	name  string
	quick int // cases in the quick tier
	gen   func(r *vh.Rand, env vh.Env) Case
	run   func(t *testing.T, c *Case) result
}

func engines() []engine {
	return []engine{
		{"trunc", 1500, genTrunc, runTrunc},
		{"rcheck", 120, genRCheck, runRCheck},
		{"data", 700, genData, runData},
		{"retry", 700, genRetry, runRetry},
		{"fanout", 500, genFanout, runFanout},
		{"recv", 60, genRecv, runRecv},
		{"limit", 60, genLimit, runLimit},
	}
}

func TestCheck(t *testing.T) {
	env := vh.GetEnv()
	run := vh.NewRun(env, "AM.Run.C20Run")
	byName := map[string]engine{}
	for _, e := range engines() {
		byName[e.name] = e
	}
	var cases []Case
	if env.Replay != "" {
		var c Case
		if err := vh.LoadReplayCase(env.Replay, &c); err != nil {
			t.Fatal(err)
		}
		cases = append(cases, c)
	} else {
		// minimised failing cases found earlier are replayed first on every run
		corpus := vh.LoadCorpus[Case](env, "C20")
		for _, c := range corpus {
			if _, ok := byName[c.Engine]; ok {
				cases = append(cases, c)
				run.Count("source", "corpus")
			}
		}
		r := vh.NewRand(env.Seed)
		for _, e := range engines() {
			n := env.N(e.quick, 8)
			er := r.Fork()
			for i := 0; i < n; i++ {
				cases = append(cases, e.gen(er.Fork(), env))
			}
		}
	}
	for i := range cases {
		c := &cases[i]
		e, ok := byName[c.Engine]
		if !ok {
			t.Fatalf("unknown engine %q", c.Engine)
		}
		res := e.run(t, c)
		run.Add(res.term, c, res.nontrivial)
		run.Count("engine", c.Engine)
		for _, tg := range res.tags {
			run.Count(c.Engine, tg)
		}
		for _, v := range res.viol {
			run.Violate(v.Key, v.What, v.Case)
		}
	}
	notifres.Judge(t, env, run, "C20") // real notifiers reporting the result of a delivery that reached the service
	if hookSrv != nil {
		hookSrv.Close()
	}
	if theSink != nil {
		theSink.srv.Close()
	}
	if err := run.Finish("five engines in one check (distribution.engine): trunc = TruncateInRunes/TruncateInBytes on strings of 1-4-byte runes and invalid UTF-8, rune/byte lengths around n, n/2, n/3, n/4 and 32 runes, n in 0..200 and a few negative (non-trivial: truncated or panicked); rcheck = Retrier.Check on status codes x retry-code lists; data = Template.Data under synctest and the real webhook.Notifier -> httptest server (same alert objects built/delivered 3x; webhook: transport-level fault steps through the same notifier - dial refused, context cancelled/expired - with the same or a different batch in between, every received body must be exactly one JSON document of its own batch), 0-6 alerts, shared/unshared/empty-valued labels and annotations, EndsAt at/around now, the Timeout flag set independently of EndsAt and batches of only timed-out resolved alerts, max_alerts in {0,1,2,10} (non-trivial: >= 2 alerts); retry = notify.RetryStage under synctest with scripted outcomes {ok,recov,unrecov,hang-retry,hang-noretry}, deadline or cancel 0ns..5min after start plus long flush deadlines 16min/20min/1h/6h with outages that never end or end (time-based) 95s..5min before the deadline or anywhere past 15min, send_resolved on/off, firing set present/absent/stale (non-trivial: >= 2 attempts or a failed one); fanout = createReceiverStage pipeline with 1-3 scripted integrations, a real nflog.Log pre-populated none/same/other, failing log writes, plus a rerun of one integration without its siblings (non-trivial: >= 2 events); recv = one receiver built by the real receiver.BuildReceiverIntegrations: (Name,Index) pairs = (config key stem, position), pairwise distinct, for all 18 kinds / random subsets; pairs of different kinds (msteams+msteamsv2, webhook+slack, ...) through the real receiver stage, real notifiers and nflog with one endpoint failing then healthy; plus notifres.Judge: slack/webhook with `timeout` against a delayed body and e-mail against an SMTP server that drops the connection at QUIT must report success, deliver once, record, and stay silent in flush 2; limit = the real webex notifier with long 1-4-byte texts, message field within 7439 BYTES; corpus cases first; distinct by full case text"); err != nil {
		t.Fatal(err)
	}
}
