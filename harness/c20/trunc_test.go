//go:build verif

package c20

import (
	"fmt"
	"strings"
	"testing"
	"unicode/utf8"

	"github.com/prometheus/alertmanager/notify"

	"verifharness/vh"
)

// ---------- engine trunc: TruncateInRunes / TruncateInBytes ----------

type TruncCase struct {
	Bytes bool   `json:"bytes"` // TruncateInBytes (else TruncateInRunes)
	SHex  string `json:"s_hex"` // the input string, hex (it may be invalid UTF-8)
	N     int    `json:"n"`
	// observed
	Panicked bool   `json:"panicked,omitempty"`
	OutHex   string `json:"out_hex,omitempty"`
	Trunc    bool   `json:"truncated,omitempty"`
}

var goodRunes = []string{"a", "z", " ", "0", "\x00", "\x7f", "\u0080", "\u00e9", "\u00df", "\u07ff", "\u0800", "\u65e5", "\u2026", "\u20ac",
	"\ufffd", "\ud7ff", "\ue000", "\uffff", "\U00010000", "\U0001f680", "\U0010ffff", "\u2764", "\ufe0f"}
var byWidth = [][]string{nil, {"a", "z", "0"}, {"\u00e9", "\u00df", "\u07ff"}, {"\u65e5", "\u2026", "\u20ac", "\ufffd"}, {"\U0001f680", "\U00010000", "\U0010ffff"}}
var badPieces = []string{"\xff", "\x80", "\xbf", "\xc0\xaf", "\xc1\x81", "\xc2", "\xe0\x80\x80", "\xe0\x9f\xbf", "\xed\xa0\x80",
	"\xed\xbf\xbf", "\xf4\x90\x80\x80", "\xf0\x8f\xbf\xbf", "\xe6\x97", "\xf0\x9f\x9a", "\xf0\x9f", "\xf5", "\xf8\x88\x80\x80\x80", "\xe2\x80"}

var truncNs = []int{0, 1, 2, 3, 4, 5, 6, 7, 8, 10, 16, 31, 32, 33, 34, 35, 36, 37, 40, 64, 99, 100, 119, 120, 130, 200}

func genTrunc(r *vh.Rand, env vh.Env) Case {
	tc := &TruncCase{Bytes: r.Bool(), N: vh.Pick(r, truncNs)}
	if r.Chance(1, 40) {
		tc.N = -1 - r.Intn(5) // a negative limit: Go panics, the model says Panic; not judged by the oracle
	}
	n := tc.N
	if n < 0 {
		n = 0
	}
	// number of pieces: around the limit, around a fraction of it (multi-byte strings: few runes, many bytes),
	// around 32 (the runtime's []rune stack buffer), or small
	var cnt int
	switch r.Intn(8) {
	case 0, 6:
		cnt = n + r.Range(-4, 4)
	case 5:
		cnt = n + r.Range(1, 30)
	case 1:
		cnt = n/2 + r.Range(-3, 3)
	case 2:
		cnt = n/3 + r.Range(-3, 3)
	case 3:
		cnt = n/4 + r.Range(-2, 2)
	case 4:
		cnt = 32 + r.Range(-3, 9)
	default:
		cnt = r.Intn(8)
	}
	if cnt < 0 {
		cnt = 0
	}
	var sb strings.Builder
	switch mode := r.Intn(5); mode {
	case 0: // one width only
		w := r.Range(1, 4)
		for i := 0; i < cnt; i++ {
			sb.WriteString(vh.Pick(r, byWidth[w]))
		}
	case 1: // valid mix
		for i := 0; i < cnt; i++ {
			sb.WriteString(vh.Pick(r, goodRunes))
		}
	case 2: // ascii with a few wide runes
		for i := 0; i < cnt; i++ {
			if r.Chance(1, 6) {
				sb.WriteString(vh.Pick(r, goodRunes))
			} else {
				sb.WriteString(vh.Pick(r, byWidth[1]))
			}
		}
	case 3: // mostly valid, some invalid pieces
		for i := 0; i < cnt; i++ {
			if r.Chance(1, 5) {
				sb.WriteString(vh.Pick(r, badPieces))
			} else {
				sb.WriteString(vh.Pick(r, goodRunes))
			}
		}
	default: // random bytes biased to lead/continuation bytes
		for i := 0; i < cnt; i++ {
			sb.WriteByte(vh.Pick(r, []byte{0x41, 0x80, 0xbf, 0xc2, 0xe0, 0xa0, 0xed, 0x9f, 0xf0, 0x90, 0xf4, 0x8f, 0xff, byte(r.Intn(256))}))
		}
	}
	tc.SHex = hx(sb.String())
	return Case{Engine: "trunc", Trunc: tc}
}

func callTrunc(bytesMode bool, s string, n int) (out string, tr, panicked bool) {
	defer func() {
		if recover() != nil {
			panicked = true
		}
	}()
	if bytesMode {
		out, tr = notify.TruncateInBytes(s, n)
	} else {
		out, tr = notify.TruncateInRunes(s, n)
	}
	return out, tr, false
}

func runesPrefix(a, b []rune) bool {
	if len(a) > len(b) {
		return false
	}
	for i := range a {
		if a[i] != b[i] {
			return false
		}
	}
	return true
}

func runTrunc(t *testing.T, c *Case) result {
	tc := c.Trunc
	s := unhx(tc.SHex)
	out, tr, panicked := callTrunc(tc.Bytes, s, tc.N)
	tc.Panicked, tc.OutHex, tc.Trunc = panicked, hx(out), tr
	var res result
	obs := "Panic"
	if !panicked {
		obs = vh.App("Ok", vh.Pair(vh.StrLit(out), vh.Bool(tr)))
	}
	res.term = vh.App("CTrunc", vh.Bool(tc.Bytes), vh.StrLit(s), vh.Z(int64(tc.N)), obs)
	res.nontrivial = tr || panicked
	fn := "runes"
	if tc.Bytes {
		fn = "bytes"
	}
	switch {
	case panicked:
		res.tags = append(res.tags, fn+"/panic")
	case !tr:
		res.tags = append(res.tags, fn+"/fits")
	case tc.N <= 3:
		res.tags = append(res.tags, fn+"/cut-n<=3")
	default:
		res.tags = append(res.tags, fn+"/cut+marker")
	}
	if !utf8.ValidString(s) {
		res.tags = append(res.tags, "input/invalid-utf8")
	} else if len(s) != utf8.RuneCountInString(s) {
		res.tags = append(res.tags, "input/multibyte")
	} else {
		res.tags = append(res.tags, "input/ascii")
	}
	if tc.Bytes && tc.N > 3 && len(s) > tc.N && utf8.RuneCountInString(s) < tc.N-3 {
		res.tags = append(res.tags, "shape/fewer-runes-than-n-3 (F7)")
	}

	// ---- direct oracle: the property on the implementation's own output ----
	if tc.N < 0 {
		return res
	}
	viol := func(key, what string) {
		res.viol = append(res.viol, vh.Violation{Key: key, What: fmt.Sprintf("Truncate(%s) s=%q n=%d: %s", fn, s, tc.N, what), Case: c})
	}
	if panicked {
		viol("truncate-"+fn+"-panics", "panicked")
		return res
	}
	size := func(x string) int {
		if tc.Bytes {
			return len(x)
		}
		return utf8.RuneCountInString(x)
	}
	if size(out) > tc.N {
		viol("truncate-exceeds-limit", fmt.Sprintf("result has size %d", size(out)))
	}
	if size(s) <= tc.N {
		if out != s || tr {
			viol("truncate-changed-fitting-string", fmt.Sprintf("got %q truncated=%v", out, tr))
		}
		return res
	}
	if !tr {
		viol("truncate-not-reported", "string does not fit but truncated=false")
	}
	body := out
	if (tc.Bytes && tc.N >= 3) || (!tc.Bytes && tc.N > 3) {
		if !strings.HasSuffix(out, "…") {
			viol("truncate-marker-missing", fmt.Sprintf("got %q", out))
			return res
		}
		body = strings.TrimSuffix(out, "…")
	} else if tc.Bytes {
		if out != strings.Repeat(".", tc.N) {
			viol("truncate-splits-character", fmt.Sprintf("n<3: got %q", out))
		}
		return res
	}
	if !runesPrefix([]rune(body), []rune(s)) {
		viol("truncate-splits-character", fmt.Sprintf("kept part %q is not a whole-rune prefix of the input", body))
	}
	if utf8.ValidString(s) && (!strings.HasPrefix(s, body) || !utf8.ValidString(body)) {
		viol("truncate-splits-character", fmt.Sprintf("kept part %q is not a prefix of the input at a character boundary", body))
	}
	return res
}

// ---------- engine rcheck: Retrier.Check ----------

type RCheckCase struct {
	Codes  []int `json:"retry_codes"`
	Status int   `json:"status"`
	Retry  bool  `json:"retry"`
	Failed bool  `json:"failed"`
}

func genRCheck(r *vh.Rand, env vh.Env) Case {
	rc := &RCheckCase{Codes: vh.Pick(r, [][]int{nil, nil, {429}, {408, 429}, {404, 500, 200}})}
	if r.Bool() {
		rc.Status = vh.Pick(r, []int{0, 1, 99, 100, 199, 200, 201, 204, 299, 300, 301, 400, 404, 408, 429, 499, 500, 502, 503, 599, 600, 999, 2000, 5000})
	} else {
		rc.Status = r.Range(100, 599)
	}
	return Case{Engine: "rcheck", RCheck: rc}
}

func runRCheck(t *testing.T, c *Case) result {
	rc := c.RCheck
	retry, err := (&notify.Retrier{RetryCodes: rc.Codes}).Check(rc.Status, strings.NewReader("body"))
	rc.Retry, rc.Failed = retry, err != nil
	var res result
	codes := make([]int64, len(rc.Codes))
	for i, x := range rc.Codes {
		codes[i] = int64(x)
	}
	res.term = vh.App("CRCheck", vh.ListOf(codes, vh.Z), vh.Z(int64(rc.Status)), vh.Pair(vh.Bool(retry), vh.Bool(err != nil)))
	res.nontrivial = true
	ok := rc.Status >= 200 && rc.Status <= 299
	listed := false
	for _, x := range rc.Codes {
		listed = listed || x == rc.Status
	}
	want := !ok && ((rc.Status >= 500 && rc.Status <= 599) || listed)
	switch {
	case ok:
		res.tags = append(res.tags, "2xx")
	case want:
		res.tags = append(res.tags, "retry")
	default:
		res.tags = append(res.tags, "fail-no-retry")
	}
	if (err == nil) != ok {
		res.viol = append(res.viol, vh.Violation{Key: "retrier-check-wrong-success", What: fmt.Sprintf("status %d: err=%v", rc.Status, err), Case: c})
	}
	if retry != want {
		res.viol = append(res.viol, vh.Violation{Key: "retrier-check-wrong-retry", What: fmt.Sprintf("status %d codes %v: retry=%v", rc.Status, rc.Codes, retry), Case: c})
	}
	return res
}
