//go:build verif && (verif_c08 || verif_c19)

// Package tlsrestart: the TLS gossip transport against a peer endpoint that is restarted on the same address (what
// a rolling restart does), or that closes the pooled connection from its side. The sender is a real
// cluster.TLSTransport (connection pool, WriteTo) on loopback with a certificate generated here; the peer endpoint
// is a TLS listener owned by the harness that reads packets the way TLSTransport.handle does
// (cluster.ReadTLSPacketForVerif) and whose stop() is a process exit: listener and accepted connections closed.
// Real sockets, real time. Used by c19 ("every update ... is merged by every instance that stays connected",
// over TLS) and c08 (a restarted member must receive the log entries broadcast after its restart, else it
// notifies again).
package tlsrestart

import (
	"context"
	"crypto/ecdsa"
	"crypto/elliptic"
	"crypto/rand"
	"crypto/tls"
	"crypto/x509"
	"crypto/x509/pkix"
	"encoding/pem"
	"fmt"
	"io"
	"log/slog"
	"math/big"
	"net"
	"os"
	"path/filepath"
	"sync"
	"time"

	"github.com/prometheus/client_golang/prometheus"
	"github.com/prometheus/common/config"
	"github.com/prometheus/exporter-toolkit/web"

	"github.com/prometheus/alertmanager/cluster"
)

type Scenario struct {
	Kind       string `json:"kind"`           // restart | restart-sends-while-down | remote-closes-connection
	Pre        int    `json:"pre"`            // packets sent (and received) before the event
	DownMs     int    `json:"down_ms"`        // how long the endpoint stays down (restart kinds)
	After      int    `json:"after"`          // packets sent after the event
	IntervalMs int    `json:"interval_ms"`    // pause between them
	Size       int    `json:"size"`           // payload bytes
	IPv6       bool   `json:"ipv6,omitempty"` // sender and endpoint bound to [::1] instead of 127.0.0.1
}

type Outcome struct {
	Skipped        string `json:"skipped,omitempty"` // non-empty: the environment did not allow the run (no verdict)
	PreArrived     int    `json:"pre_arrived"`
	AfterSent      int    `json:"after_sent"`    // WriteTo calls after the event
	AfterOK        int    `json:"after_ok"`      // ... that returned nil
	AfterArrived   int    `json:"after_arrived"` // packets that reached the endpoint after the event
	TailArrived    bool   `json:"tail_arrived"`  // every packet of the second half arrived
	LastErr        string `json:"last_err,omitempty"`
	NeverDelivered bool   `json:"never_delivered,omitempty"` // packets accepted by WriteTo before any event never arrived
	BadFrom        string `json:"bad_from,omitempty"`        // a packet arrived with a source address other than the sender's listener
}

// HasIPv6 reports whether the machine has an IPv6 loopback to bind to.
func HasIPv6() bool {
	l, err := net.Listen("tcp", "[::1]:0")
	if err != nil {
		return false
	}
	l.Close()
	return true
}

func loopback(ipv6 bool) string {
	if ipv6 {
		return "::1"
	}
	return "127.0.0.1"
}

type endpoint struct {
	ln      net.Listener
	mu      sync.Mutex
	conns   []net.Conn
	packets chan []byte
	froms   *fromSet
}

// fromSet: the source addresses of the packets read (shared by the endpoint's incarnations)
type fromSet struct {
	mu sync.Mutex
	m  map[string]bool
}

func (f *fromSet) add(s string) {
	f.mu.Lock()
	f.m[s] = true
	f.mu.Unlock()
}

func (f *fromSet) other(want string) string {
	f.mu.Lock()
	defer f.mu.Unlock()
	for s := range f.m {
		if s != want {
			return s
		}
	}
	return ""
}

func startEndpoint(addr string, cert tls.Certificate, packets chan []byte, froms *fromSet) (*endpoint, error) {
	ln, err := tls.Listen("tcp", addr, &tls.Config{Certificates: []tls.Certificate{cert}})
	if err != nil {
		return nil, err
	}
	e := &endpoint{ln: ln, packets: packets, froms: froms}
	go func() {
		for {
			c, err := ln.Accept()
			if err != nil {
				return
			}
			e.mu.Lock()
			e.conns = append(e.conns, c)
			e.mu.Unlock()
			go func() {
				for {
					p, err := cluster.ReadTLSPacketForVerif(c) // one iteration of TLSTransport.handle's loop
					if err != nil {
						return
					}
					if p != nil {
						e.froms.add(p.From.String())
						e.packets <- p.Buf
					}
				}
			}()
		}
	}()
	return e, nil
}

func (e *endpoint) closeConns() {
	e.mu.Lock()
	defer e.mu.Unlock()
	for _, c := range e.conns {
		c.Close()
	}
	e.conns = nil
}

func (e *endpoint) stop() {
	e.ln.Close()
	e.closeConns()
}

func writeCert(dir string) (tls.Certificate, string, string, error) {
	key, err := ecdsa.GenerateKey(elliptic.P256(), rand.Reader)
	if err != nil {
		return tls.Certificate{}, "", "", err
	}
	tmpl := &x509.Certificate{SerialNumber: big.NewInt(1), Subject: pkix.Name{CommonName: "verif"},
		NotBefore: time.Now().Add(-time.Hour), NotAfter: time.Now().Add(24 * time.Hour),
		KeyUsage: x509.KeyUsageDigitalSignature, ExtKeyUsage: []x509.ExtKeyUsage{x509.ExtKeyUsageServerAuth, x509.ExtKeyUsageClientAuth},
		IPAddresses: []net.IP{net.ParseIP("127.0.0.1")}}
	der, err := x509.CreateCertificate(rand.Reader, tmpl, tmpl, &key.PublicKey, key)
	if err != nil {
		return tls.Certificate{}, "", "", err
	}
	kb, err := x509.MarshalECPrivateKey(key)
	if err != nil {
		return tls.Certificate{}, "", "", err
	}
	cf, kf := filepath.Join(dir, "cert.pem"), filepath.Join(dir, "key.pem")
	if err := os.WriteFile(cf, pem.EncodeToMemory(&pem.Block{Type: "CERTIFICATE", Bytes: der}), 0o600); err != nil {
		return tls.Certificate{}, "", "", err
	}
	if err := os.WriteFile(kf, pem.EncodeToMemory(&pem.Block{Type: "EC PRIVATE KEY", Bytes: kb}), 0o600); err != nil {
		return tls.Certificate{}, "", "", err
	}
	return tls.Certificate{Certificate: [][]byte{der}, PrivateKey: key}, cf, kf, nil
}

func payload(i, size int) []byte {
	b := make([]byte, max(size, 16))
	for j := range b {
		b[j] = byte(i + j*7)
	}
	copy(b, fmt.Sprintf("pkt-%06d|", i))
	return b
}

// Run plays one scenario. Packets are numbered; "arrived" is judged by content.
func Run(sc Scenario) Outcome {
	var out Outcome
	dir, err := os.MkdirTemp("", "verif-tlsrestart-")
	if err != nil {
		out.Skipped = "no temp dir: " + err.Error()
		return out
	}
	defer os.RemoveAll(dir)
	cert, cf, kf, err := writeCert(dir)
	if err != nil {
		out.Skipped = "certificate: " + err.Error()
		return out
	}
	lg := slog.New(slog.NewTextHandler(io.Discard, nil))
	ctx, cancel := context.WithCancel(context.Background())
	defer cancel()
	if sc.IPv6 && !HasIPv6() {
		out.Skipped = "no IPv6 loopback"
		return out
	}
	sender, err := cluster.NewTLSTransport(ctx, lg, prometheus.NewRegistry(), loopback(sc.IPv6), 0, &cluster.TLSTransportConfig{
		TLSServerConfig: &web.TLSConfig{TLSCertPath: cf, TLSKeyPath: kf},
		TLSClientConfig: &config.TLSConfig{InsecureSkipVerify: true},
	})
	if err != nil {
		out.Skipped = "sender transport: " + err.Error()
		return out
	}
	defer sender.Shutdown()
	wantFrom := net.JoinHostPort(loopback(sc.IPv6), fmt.Sprint(sender.GetAutoBindPort()))
	froms := &fromSet{m: map[string]bool{}}

	l, err := net.Listen("tcp", net.JoinHostPort(loopback(sc.IPv6), "0"))
	if err != nil {
		out.Skipped = "no free port: " + err.Error()
		return out
	}
	addr := l.Addr().String()
	l.Close()
	packets := make(chan []byte, 4096)
	ep, err := startEndpoint(addr, cert, packets, froms)
	if err != nil {
		out.Skipped = "endpoint: " + err.Error()
		return out
	}
	defer func() { ep.stop() }()

	got := map[string]bool{}
	collect := func(d time.Duration) {
		deadline := time.After(d)
		for {
			select {
			case p := <-packets:
				got[string(p)] = true
			case <-deadline:
				return
			}
		}
	}
	waitFor := func(p []byte, d time.Duration) bool {
		deadline := time.Now().Add(d)
		for !got[string(p)] && time.Now().Before(deadline) {
			collect(20 * time.Millisecond)
		}
		return got[string(p)]
	}

	n := 0
	for i := 0; i < max(1, sc.Pre); i++ {
		p := payload(n, sc.Size)
		n++
		if _, err := sender.WriteTo(p, addr); err != nil {
			out.Skipped = "first packets could not be sent: " + err.Error()
			return out
		}
		if waitFor(p, 10*time.Second) {
			out.PreArrived++
		}
	}
	if out.PreArrived == 0 {
		// WriteTo accepted the packets and the healthy endpoint never read one: a verdict, not an environment problem
		out.NeverDelivered = true
		return out
	}

	switch sc.Kind {
	case "remote-closes-connection": // idle connection closed / reset by the remote side; the listener stays
		ep.closeConns()
		time.Sleep(time.Duration(sc.DownMs) * time.Millisecond)
	default: // restart on the same address
		ep.stop()
		if sc.Kind == "restart-sends-while-down" {
			for i := 0; i < 3; i++ { // these may fail: the peer is down
				sender.WriteTo(payload(900000+i, sc.Size), addr)
				time.Sleep(10 * time.Millisecond)
			}
		}
		time.Sleep(time.Duration(sc.DownMs) * time.Millisecond)
		for try := 0; ; try++ {
			ep2, err := startEndpoint(addr, cert, packets, froms)
			if err == nil {
				ep = ep2
				break
			}
			if try > 50 {
				out.Skipped = "could not listen on the same address again: " + err.Error()
				return out
			}
			time.Sleep(100 * time.Millisecond)
		}
	}

	var after [][]byte
	for i := 0; i < sc.After; i++ {
		p := payload(n, sc.Size)
		n++
		after = append(after, p)
		out.AfterSent++
		if _, err := sender.WriteTo(p, addr); err != nil {
			out.LastErr = err.Error()
		} else {
			out.AfterOK++
		}
		collect(time.Duration(sc.IntervalMs) * time.Millisecond)
	}
	// give the tail time to arrive
	tail := after[len(after)/2:]
	deadline := time.Now().Add(10 * time.Second)
	for time.Now().Before(deadline) {
		all := true
		for _, p := range tail {
			all = all && got[string(p)]
		}
		if all {
			break
		}
		collect(50 * time.Millisecond)
	}
	out.TailArrived = true
	for _, p := range after {
		if got[string(p)] {
			out.AfterArrived++
		}
	}
	for _, p := range tail {
		out.TailArrived = out.TailArrived && got[string(p)]
	}
	if f := froms.other(wantFrom); f != "" {
		out.BadFrom = f + " (the sender listens on " + wantFrom + ")"
	}
	return out
}

// SweepOutcome: packets of the given payload sizes sent through the real TLSTransport.WriteTo to a healthy endpoint.
type SweepOutcome struct {
	Skipped      string `json:"skipped,omitempty"`
	Sent         int    `json:"sent"`    // WriteTo returned nil
	Arrived      int    `json:"arrived"` // read back intact by the endpoint
	SmallestLost int    `json:"smallest_lost"`
	BadFrom      string `json:"bad_from,omitempty"`
	LastErr      string `json:"last_err,omitempty"`
}

// Sweep sends one packet of every given size (what memberlist hands to the transport: single messages and compound
// packets filled up to UDPBufferSize = MaxGossipPacketSize) and reports which arrived. No restarts: every packet
// the sender accepted must arrive.
func Sweep(sizes []int, ipv6 bool) SweepOutcome {
	var out SweepOutcome
	dir, err := os.MkdirTemp("", "verif-tlssweep-")
	if err != nil {
		out.Skipped = "no temp dir: " + err.Error()
		return out
	}
	defer os.RemoveAll(dir)
	cert, cf, kf, err := writeCert(dir)
	if err != nil {
		out.Skipped = "certificate: " + err.Error()
		return out
	}
	lg := slog.New(slog.NewTextHandler(io.Discard, nil))
	ctx, cancel := context.WithCancel(context.Background())
	defer cancel()
	if ipv6 && !HasIPv6() {
		out.Skipped = "no IPv6 loopback"
		return out
	}
	froms := &fromSet{m: map[string]bool{}}
	sender, err := cluster.NewTLSTransport(ctx, lg, prometheus.NewRegistry(), loopback(ipv6), 0, &cluster.TLSTransportConfig{
		TLSServerConfig: &web.TLSConfig{TLSCertPath: cf, TLSKeyPath: kf},
		TLSClientConfig: &config.TLSConfig{InsecureSkipVerify: true},
	})
	if err != nil {
		out.Skipped = "sender transport: " + err.Error()
		return out
	}
	defer sender.Shutdown()
	l, err := net.Listen("tcp", net.JoinHostPort(loopback(ipv6), "0"))
	if err != nil {
		out.Skipped = "no free port: " + err.Error()
		return out
	}
	addr := l.Addr().String()
	l.Close()
	packets := make(chan []byte, 4096)
	ep, err := startEndpoint(addr, cert, packets, froms)
	if err != nil {
		out.Skipped = "endpoint: " + err.Error()
		return out
	}
	defer ep.stop()
	var sent [][]byte
	for i, n := range sizes {
		p := payload(i, n)
		if _, err := sender.WriteTo(p, addr); err != nil {
			out.LastErr = err.Error()
			continue
		}
		out.Sent++
		sent = append(sent, p)
	}
	got := map[string]bool{}
	deadline := time.After(10 * time.Second)
loop:
	for len(got) < len(sent) {
		select {
		case p := <-packets:
			got[string(p)] = true
		case <-deadline:
			break loop
		case <-time.After(1500 * time.Millisecond): // nothing more is coming
			break loop
		}
	}
	if f := froms.other(net.JoinHostPort(loopback(ipv6), fmt.Sprint(sender.GetAutoBindPort()))); f != "" {
		out.BadFrom = f
	}
	out.SmallestLost = -1
	for _, p := range sent {
		if got[string(p)] {
			out.Arrived++
		} else if out.SmallestLost < 0 || len(p) < out.SmallestLost {
			out.SmallestLost = len(p)
		}
	}
	return out
}
