#!/usr/bin/env python3
"""addconst.py <repo-relative-file> <GoName> <CoqName> int|string|strings — add a translator entry (locked, idempotent)."""
import fcntl, json, os, sys
V = os.path.dirname(os.path.dirname(os.path.abspath(__file__)))
p = os.path.join(V, "harness/cmd/genconsts/consts.json")
f, name, coq, kind = sys.argv[1:5]
with open(os.path.join(V, ".lock-edit"), "w") as lk:
    fcntl.flock(lk, fcntl.LOCK_EX)
    specs = json.load(open(p))
    if not any(s["coq"] == coq for s in specs):
        specs.append({"file": f, "name": name, "coq": coq, "kind": kind})
        json.dump(specs, open(p, "w"), indent=1)
        print("added", coq)
    else:
        print("exists", coq)
